#!/bin/sh
# offline build of the Lean library (model, specs, proofs, property theorems) and the driver
cd "$(dirname "$0")/lean" || exit 2
lake build
