"""Generators and renderers for C15 (shared by harness/props/c15.py and harness/implops_spell.py).

No scriptplan import here: everything is plain data + text.

Abstract project (what a spelling must not change):
  {"start": "2025-01-06", "weeks": 6,
   "shift": None | {"id": "s1", "hours": [[days, [[from, to], ...]], ...]},
   "resources": [{"id": "r1", "shift": bool, "leave": None | [d1, d2]}, ...],
   "tasks": tree = {"id": local id, "kids": [tree...], "effort": "4h"|None, "res": resource id|None, "prio": int|None},
   "deps": [{"src": path, "dst": path, "gap": "3h"|None, "onstart": bool}, ...]}   # task at `src` depends on task at `dst`
paths are lists of local ids from the top level.
"""
import json

ASCII_WS = [9, 10, 11, 12, 13, 28, 29, 30, 31, 32]


def hexs(s):
    return "x" + "".join("%02x" % ord(c) for c in s)


def unhexs(h):
    assert h[0] == "x"
    return "".join(chr(int(h[i:i + 2], 16)) for i in range(1, len(h), 2))


def jtok(obj):
    """compact JSON without any whitespace (one protocol token)"""
    s = json.dumps(obj, separators=(",", ":"), sort_keys=True)
    assert " " not in s
    return s


# ------------------------------------------------------------------ forests for the resolve / deps streams

ID_POOL = ["a", "b", "box", "k", "ab", "a_", "x", "Box", "a1"]


def gen_forest(rng, max_nodes=9, max_depth=4, unique_siblings=False):
    """random forest as [id, [kids]] lists; local ids from a small pool, so the same local id occurs
    in different subtrees (and, unless unique_siblings, now and then among siblings)"""
    budget = [rng.randint(2, max_nodes)]

    def kids(depth):
        out = []
        n = rng.choice([0, 1, 1, 2, 2, 3]) if depth < max_depth else 0
        if depth == 0:
            n = max(1, rng.choice([1, 2, 2, 3, 4]))
        used = set()
        for _ in range(n):
            if budget[0] <= 0:
                break
            i = rng.choice(ID_POOL)
            if i in used and (unique_siblings or rng.random() < 0.8):
                continue
            used.add(i)
            budget[0] -= 1
            out.append([i, kids(depth + 1)])
        return out
    f = kids(0)
    return f or [["a", []]]


def positions(forest):
    """pre-order list of (pos, idpath, tree)"""
    out = []

    def go(ts, pos, path):
        for i, t in enumerate(ts):
            out.append((pos + [i], path + [t[0]], t))
            go(t[1], pos + [i], path + [t[0]])
    go(forest, [], [])
    return out


def all_spellings(src_path, dst_path):
    """every reference string that ought to denote dst when written inside the task at src
    (sibling ids unique): absolute, and `!`xk for every k whose base is an ancestor-or-root of dst"""
    out = [".".join(dst_path)]
    n = len(src_path)
    for k in range(1, n + 1):
        base = src_path[:n - k]
        if dst_path[:len(base)] == base and len(dst_path) > len(base):
            out.append("!" * k + ".".join(dst_path[len(base):]))
    return out


def gen_ref(rng, forest):
    """a reference string: mostly a correct spelling of some node, often a perturbed one"""
    ps = positions(forest)
    src = rng.choice(ps)
    dst = rng.choice(ps)
    r = rng.random()
    if r < 0.55:
        ref = rng.choice(all_spellings(src[1], dst[1]))
    elif r < 0.8:
        k = rng.randint(0, 4)
        cut = rng.randint(0, len(dst[1]) - 1)
        ref = "!" * k + ".".join(dst[1][cut:])
    else:
        k = rng.choice([0, 0, 1, 2, 3])
        parts = [rng.choice(ID_POOL + ["", "zz"]) for _ in range(rng.randint(1, 3))]
        ref = "!" * k + ".".join(parts)
        if rng.random() < 0.15:
            ref = rng.choice(["", "!", "!!", ".", "a..b", "!a!b", "a.!b", ".a", "a."])
    return src[0], ref


GAPS = [None, None, "3h", "20min", "1h", "24h"]


def gen_dep_item(rng, ref):
    return [ref, rng.choice(GAPS), rng.choice([None, None, None, "2h"]), rng.choice([None, None, None, "5h"]),
            rng.random() < 0.2, rng.random() < 0.1]


def gen_deps_case(rng):
    f = gen_forest(rng, max_nodes=7, unique_siblings=rng.random() < 0.7)
    ps = positions(f)
    dep, prec = [], []
    for (pos, path, _t) in ps:
        for lst in (dep, prec):
            if rng.random() < 0.45:
                items = []
                for _ in range(rng.randint(1, 3)):
                    dst = rng.choice(ps)
                    if rng.random() < 0.85:
                        ref = rng.choice(all_spellings(path, dst[1]))
                    else:
                        ref = gen_ref(rng, f)[1] or "zz"
                    if not valid_depends_ref(ref):
                        ref = "zz"
                    items.append(gen_dep_item(rng, ref))
                lst.append([pos, items])
    return {"f": f, "dep": dep, "prec": prec}


def valid_depends_ref(ref):
    import re
    return re.fullmatch(r"[!.a-zA-Z_][!.a-zA-Z0-9_]*", ref) is not None


def render_deps_case(case):
    """the .tjp text of a deps case (tasks only; no efforts: nothing is scheduled)"""
    by_pos_dep = {tuple(p): items for p, items in case["dep"]}
    by_pos_prec = {tuple(p): items for p, items in case["prec"]}
    # several pending entries for one task are possible in the protocol; the generator emits at most one

    def opts(it):
        o = []
        if it[1]:
            o.append("gapduration " + it[1])
        if it[2]:
            o.append("gaplength " + it[2])
        if it[3]:
            o.append("maxgapduration " + it[3])
        if it[4]:
            o.append("onstart")
        if it[5]:
            o.append("onend")
        return (" { " + " ".join(o) + " }") if o else ""

    def go(ts, pos, ind):
        out = []
        for i, t in enumerate(ts):
            p = tuple(pos + [i])
            out.append(f'{ind}task {t[0]} "T" {{')
            if p in by_pos_dep:
                out.append(ind + "  depends " + ", ".join(it[0] + opts(it) for it in by_pos_dep[p]))
            if p in by_pos_prec:
                out.append(ind + "  precedes " + ", ".join(it[0] + opts(it) for it in by_pos_prec[p]))
            out += go(t[1], pos + [i], ind + "  ")
            out.append(ind + "}")
        return out
    return "\n".join(['project p "P" 2025-01-06 +2w { timezone "Etc/UTC" }'] + go(case["f"], [], "")) + "\n"


# ------------------------------------------------------------------ macro texts

MACRO_NAMES = ["a", "b", "m1", "eff", "a_b", "A", "task", "x9"]
WORDS = ["task", "effort", "4h", "allocate", "r1", "{", "}", "\"s # t\"", "'q'", "x", "depends", "!a.b", "$", "$1", "$2",
         "$10", "}", "{", "[", "]", "macro", "#", "# c ]", "// d", "\"un", "'", "${", "now", "${zz}", "${ zz  y }", "${}"]


def gen_macro_text(rng, size=None):
    """a text with definitions (nested brackets, comments, strings), calls (nested, with arguments,
    builtin names, unknown names, unbalanced), recursive definitions now and then"""
    names = rng.sample(MACRO_NAMES, rng.randint(1, 4))
    recursive = rng.random() < 0.25
    parts = []

    def call(depth=0):
        n = rng.choice(names + ["today", "now", "projectstart", "projectend", "zz"])
        args = []
        for _ in range(rng.choice([0, 0, 1, 2, 3])):
            r = rng.random()
            if r < 0.5:
                args.append(rng.choice(["4h", "r1", '"a"', '"b"', "x.y", "$2", "!!k"]))
            elif r < 0.7 and depth < 2:
                args.append(call(depth + 1))
            else:
                args.append(rng.choice(["7", "-", "a,b", "$1"]))
        sp = rng.choice(["", "", " ", "\t"])
        return "${" + sp + n + "".join(rng.choice([" ", "  ", "\n"]) + a for a in args) + sp + "}"

    def body(name):
        toks = []
        for _ in range(rng.randint(0, 6)):
            r = rng.random()
            if r < 0.55:
                toks.append(rng.choice(WORDS[:18]))
            elif r < 0.7:
                toks.append("[" + rng.choice(["", "n", "[n]", "a ] [ b"]) + "]")
            elif r < 0.8:
                toks.append("# note " + rng.choice(["", "it's", '"', "x"]) + "\n")
            elif r < 0.9:
                other = [m for m in names if m != name]
                if other and not recursive:
                    toks.append("${" + rng.choice(other[:names.index(name)] or ["zz"]) + "}")
                elif recursive:
                    toks.append("${" + rng.choice(names) + rng.choice(["", " q"]) + "}")
            else:
                toks.append(rng.choice(["$1", "$2", "$1$2", "$3", "$11"]))
        return rng.choice([" ", "", "\n"]).join(toks)

    for nm in names:
        if rng.random() < 0.85:
            kw = rng.choice(["macro", "macro", "macro", "xmacro", "Macro"])
            parts.append(rng.choice(["", " ", "\n", "\t "]) + kw + rng.choice([" ", "  ", "\n"]) + nm +
                         rng.choice([" ", "", "\n "]) + "[" + body(nm) + rng.choice(["]", "]", "]", ""]))
        for _ in range(rng.randint(0, 3)):
            r = rng.random()
            if r < 0.5:
                parts.append(call())
            elif r < 0.8:
                parts.append(rng.choice(WORDS))
            else:
                parts.append(rng.choice(["\n", " ", "\t", "\r\n", "\x0c", "\x1c"]))
    if rng.random() < 0.3:
        parts.insert(rng.randint(0, len(parts)), rng.choice([
            'project p "P" 2025-01-06 +2w {', 'project prj "x" 2024-02-29 +1y {', 'now 2025-01-08', 'project p "P" 2025-03-31 +1m {',
            'project p 2025-01-06 +2w {', 'project p "P" 2025-01-06 {', "now 2025-02-30x"]))
    if rng.random() < 0.5:
        rng.shuffle(parts)
    return rng.choice(["", " ", "\n"]).join(parts)


def gen_strip_text(rng):
    alphabet = ['"', "'", "#", "\n", "a", " ", "b", "\\", "\r", "$"]
    return "".join(rng.choice(alphabet) for _ in range(rng.randint(0, 14)))


def gen_blank_text(rng):
    """texts for `blank_comments`: strings, rich text markers, the three comment kinds, macro syntax inside comments"""
    pieces = ['"', "'", "#", "\n", "a", " ", "/", "*", "-8<-", "->8-", "//", "/*", "*/", "-", "8", "<", ">", "${m}", "macro m [x]",
              "\r", "b"]
    return "".join(rng.choice(pieces) for _ in range(rng.randint(0, 16)))


# ------------------------------------------------------------------ abstract projects and their spellings

TASK_IDS = ["a", "b", "c", "box", "k", "t1", "t2", "w"]
EFFORTS = ["1h", "2h", "3h", "4h", "6h", "8h", "1d", "2d", "12h", "90min", "0.5d"]
DAYSPECS = [["mon - fri"], ["mon", "wed", "fri"], ["mon - thu"], ["tue - sat"], ["mon - fri"], ["mon, tue", "thu - fri"]]
RANGES = [[["09:00", "17:00"]], [["08:00", "12:00"], ["13:00", "17:00"]], [["10:00", "16:00"]], [["07:00", "11:00"], ["12:00", "15:00"]],
          [["09:00", "13:00"]]]

# identifiers that look like keywords or collide as prefixes; every one is accepted as ID in the
# positions used here (task id, resource id, allocate, DEPENDS_REF).  Day names are excluded for
# *shift* ids only (`workinghours mon` is lexed as DAY_NAME: documented, notes/design-spell.md).
ADVERSARIAL = ["task", "tasks", "depends", "precedes", "effort", "allocate", "start", "end", "macro", "project", "now", "today",
               "mon", "fri", "shift", "resource", "priority", "plan", "delayed", "review", "rev", "a", "ab", "abc", "a_", "a1",
               "A", "Ab", "_", "__x", "t", "ta", "tas", "onstart", "gapduration", "h", "d", "min", "x1", "x10", "x100", "r", "r1",
               "r10", "workinghours", "leaves", "annual", "true", "yes", "scheduling", "asap", "milestone"]
DAY_NAMES = {"mon", "tue", "wed", "thu", "fri", "sat", "sun"}


def leaf_resource_ids(resources):
    out = []
    for r in resources:
        out += r.get("members") or [r["id"]]
    return out


def gen_project(rng):
    nres = rng.randint(1, 3)
    shift = None
    if rng.random() < 0.6:
        lines = []
        for _ in range(rng.randint(1, 2)):
            lines.append([rng.choice(DAYSPECS), rng.choice(RANGES)])
        shift = {"id": "s1", "hours": lines}
    resources = []
    for i in range(nres):
        leave = None
        if rng.random() < 0.3:
            d = rng.randint(6, 20)
            leave = ["2025-01-%02d" % d, "2025-01-%02d" % (d + rng.randint(1, 3))]
        resources.append({"id": "r%d" % (i + 1), "shift": bool(shift) and rng.random() < 0.7, "leave": leave})
    if shift and rng.random() < 0.4:
        # a resource group that carries the shift (by reference or inline, see `inline_shift`); its members have no hours of
        # their own and inherit the group's
        resources.append({"id": "g1", "shift": True, "leave": None,
                          "members": ["m%d" % (j + 1) for j in range(rng.randint(1, 2))]})
    if shift and rng.random() < 0.4:
        # a group with hours of its OWN (always written inline) whose members work in the shift (by reference or inline): a
        # member's own calendar, however it is spelled, takes precedence over what it inherits from the group
        gh = [rng.choice(DAYSPECS), rng.choice(RANGES)]
        resources.append({"id": "g2", "shift": False, "leave": None, "ghours": gh, "member_shift": True,
                          "members": ["n%d" % (j + 1) for j in range(rng.randint(1, 2))]})
    # task tree
    ntasks = rng.randint(2, 7)
    count = [0]

    def kids(depth, want):
        out = []
        used = set()
        while count[0] < ntasks and len(out) < want:
            i = rng.choice(TASK_IDS)
            if i in used:
                continue
            used.add(i)
            count[0] += 1
            node = {"id": i, "kids": [], "effort": None, "res": None, "prio": None}
            if depth < 2 and count[0] < ntasks and rng.random() < 0.45:
                node["kids"] = kids(depth + 1, rng.randint(1, 3))
            out.append(node)
        return out
    tasks = kids(0, rng.randint(2, 4))
    while count[0] < 2:
        tasks += kids(0, 1)

    nodes = []

    def walk(ts, path):
        for t in ts:
            nodes.append((path + [t["id"]], t))
            walk(t["kids"], path + [t["id"]])
    walk(tasks, [])
    for path, t in nodes:
        if not t["kids"]:
            t["effort"] = rng.choice(EFFORTS)
            t["res"] = rng.choice(leaf_resource_ids(resources))
            if rng.random() < 0.5:
                t["prio"] = rng.choice([100, 300, 500, 700, 900, 1000])
    # DAG: src depends on dst, dst earlier in a random topological order, not ancestor-related
    order = list(range(len(nodes)))
    rng.shuffle(order)
    rank = {i: r for r, i in enumerate(order)}
    deps = []
    seen = set()
    for _ in range(rng.randint(1, min(6, len(nodes) * 2))):
        a, b = rng.sample(range(len(nodes)), 2)
        if rank[a] < rank[b]:
            a, b = b, a          # a depends on b
        pa, pb = nodes[a][0], nodes[b][0]
        if pa[:len(pb)] == pb or pb[:len(pa)] == pa or (a, b) in seen:
            continue
        seen.add((a, b))
        deps.append({"src": pa, "dst": pb, "gap": rng.choice([None, None, "3h", "1h", "20min", "26h"]),
                     "gaplen": rng.choice([None, None, None, "4h", "1d", "2d"]),     # working-time gap (gaplength)
                     "onstart": rng.random() < 0.2})
    return {"start": rng.choice(["2025-01-06", "2025-01-06", "2025-01-08", "2025-02-03"]), "weeks": 8, "shift": shift,
            "resources": resources, "tasks": tasks, "deps": deps}


def gen_twin_project(rng):
    """two containers with the SAME local id under different parents, whose children use the same
    relative reference strings for different targets (reference resolution must be per position)"""
    base = gen_project(rng)
    res = leaf_resource_ids(base["resources"])
    cid = rng.choice(["dev", "box", "in"])

    def phase(pid, e1, e2):
        return {"id": pid, "kids": [{"id": cid, "kids": [
            {"id": "spec", "kids": [], "effort": e1, "res": rng.choice(res), "prio": None},
            {"id": "impl", "kids": [], "effort": e2, "res": rng.choice(res), "prio": rng.choice([None, 900])}],
            "effort": None, "res": None, "prio": None}], "effort": None, "res": None, "prio": None}
    e = list(EFFORTS)
    rng.shuffle(e)
    tasks = [phase("ph1", e[0], e[1]), phase("ph2", e[2 % len(e)], e[3 % len(e)])]
    deps = [{"src": ["ph1", cid, "impl"], "dst": ["ph1", cid, "spec"], "gap": None, "onstart": False},
            {"src": ["ph2", cid, "impl"], "dst": ["ph2", cid, "spec"], "gap": rng.choice([None, "3h"]), "onstart": False}]
    base["tasks"] = tasks
    base["deps"] = deps
    return base


def project_ids(proj):
    tids = set()

    def walk(ts):
        for t in ts:
            tids.add(t["id"])
            walk(t["kids"])
    walk(proj["tasks"])
    rids = []
    for r in proj["resources"]:
        rids += [r["id"]] + (r.get("members") or [])
    return sorted(tids), rids, ([proj["shift"]["id"]] if proj["shift"] else [])


def gen_rename(rng, proj, adversarial=True):
    """consistent injective renaming of task local ids, resource ids, the shift id (three id spaces;
    each map is injective on its space)"""
    tids, rids, sids = project_ids(proj)
    pool = list(ADVERSARIAL) if adversarial else ["n%d" % i for i in range(60)]
    rng.shuffle(pool)
    tmap = dict(zip(tids, pool[:len(tids)]))
    pool2 = list(ADVERSARIAL)
    rng.shuffle(pool2)
    rmap = dict(zip(rids, pool2[:len(rids)]))
    pool3 = [p for p in ADVERSARIAL if p not in DAY_NAMES]
    rng.shuffle(pool3)
    smap = dict(zip(sids, pool3[:len(sids)]))
    return {"t": tmap, "r": rmap, "s": smap}


def spelling_options(rng, proj, kind):
    """a spelling = rendering options; `kind` selects which family is exercised"""
    o = {"rename": None, "ref": "abs", "precedes": [], "inline_shift": False, "noise": 0, "macros": 0, "seed": rng.randrange(1 << 30)}
    n = len(proj["deps"])
    if kind in ("rename", "mixed"):
        o["rename"] = gen_rename(rng, proj)
    if kind == "rename_plain":
        o["rename"] = gen_rename(rng, proj, adversarial=False)
    if kind in ("rel", "mixed"):
        o["ref"] = "rel" if kind == "rel" else rng.choice(["rel", "relmax", "mix"])
    if kind == "relmax":
        o["ref"] = "relmax"
    if kind in ("precedes", "mixed"):
        o["precedes"] = [i for i in range(n) if kind == "precedes" or rng.random() < 0.5]
    if kind in ("inline", "mixed"):
        o["inline_shift"] = True if kind == "inline" else rng.random() < 0.5
    if kind in ("noise", "mixed"):
        o["noise"] = 1
    if kind in ("macros", "mixed"):
        o["macros"] = rng.randint(1, 4) if kind == "macros" else rng.randint(0, 3)
    return o


KINDS = ["canonical", "rename", "rel", "relmax", "precedes", "inline", "noise", "macros", "mixed", "mixed"]


def _ref(rng, src, dst, mode):
    alts = all_spellings(src, dst)
    rel = alts[1:]
    if mode == "abs" or not rel:
        return alts[0]
    if mode == "rel":
        return rel[0]                     # fewest `!`
    if mode == "relmax":
        return rel[-1]                    # as many `!` as the source's depth allows (base = root)
    return rng.choice(alts)


def render_project(proj, opt):
    """the .tjp text of `proj` in the spelling `opt`; returns (text, idmap back to abstract full ids)"""
    import random
    rng = random.Random(opt["seed"])
    ren = opt["rename"] or {"t": {}, "r": {}, "s": {}}
    T = lambda i: ren["t"].get(i, i)
    R = lambda i: ren["r"].get(i, i)
    S = lambda i: ren["s"].get(i, i)
    noise = opt["noise"]

    def cm():
        if not noise:
            return ""
        r = rng.random()
        if r < 0.25:
            return "  # " + rng.choice(["todo", "task x { }", "depends !a", "effort 99h", "it's", 'say "hi"', "}", "{ {", "50% $ done",
                                       "macro eff [effort 99h]", "${eff}", "${nosuch 1 2}", "macro x [", "project q \"Q\" 2001-01-01 +1d"])
        if r < 0.35:
            return "  // " + rng.choice(["note", "allocate nobody", "}", "${blk}", "macro blk [task z \"Z\" { }]"])
        if r < 0.42:
            return "  /* " + rng.choice(["block", "task q \"Q\" { effort 1h }", "multi\n line", "macro m [x\ny]", "${m}"]) + " */"
        return ""

    def nl():
        if not noise:
            return "\n"
        return rng.choice(["\n", "\n", "\n\n", "\n   \n", " \n", "\r\n", "\n\t"])

    def sp():
        if not noise:
            return " "
        return rng.choice([" ", " ", "  ", "\t", " \n  ", "   "])

    out = []

    def emit(line, ind=""):
        if noise:
            ind = rng.choice(["", " ", "    ", "\t", ind])
            line = sp().join(line.split(" ")) if '"' not in line else line
        out.append(ind + line + cm() + nl())

    emit(f'project p "P" {proj["start"]} +{proj["weeks"]}w {{')
    emit('timezone "Etc/UTC"', "  ")
    emit("}")
    sh = proj["shift"]

    def hours_lines():
        return ["workinghours " + ", ".join(days) + " " + ", ".join(f"{a} - {b}" for a, b in rgs) for days, rgs in sh["hours"]]
    if sh:
        emit(f'shift {S(sh["id"])} "Shift" {{')
        for l in hours_lines():
            emit(l, "  ")
        emit("}")
    for r in proj["resources"]:
        emit(f'resource {R(r["id"])} "Res" {{')
        if r["shift"] and sh:
            if opt["inline_shift"]:
                for l in hours_lines():
                    emit(l, "  ")
            else:
                emit(f'workinghours {S(sh["id"])}', "  ")
        if r.get("ghours"):
            days, rgs = r["ghours"]
            emit("workinghours " + ", ".join(days) + " " + ", ".join(f"{a} - {b}" for a, b in rgs), "  ")
        if r["leave"]:
            emit(f'leaves annual {r["leave"][0]} - {r["leave"][1]}', "  ")
        for m in r.get("members") or []:
            emit(f'resource {R(m)} "Member" {{', "  ")
            if r.get("member_shift") and sh:
                if opt["inline_shift"]:
                    for l in hours_lines():
                        emit(l, "    ")
                else:
                    emit(f'workinghours {S(sh["id"])}', "    ")
            emit("}", "  ")
        emit("}")
    dep_of, prec_of = {}, {}
    for i, d in enumerate(proj["deps"]):
        if i in opt["precedes"]:
            prec_of.setdefault(tuple(d["dst"]), []).append((d["src"], d))
        else:
            dep_of.setdefault(tuple(d["src"]), []).append((d["dst"], d))

    def item(frm, to, d):
        ref = _ref(rng, [T(x) for x in frm], [T(x) for x in to], opt["ref"])
        o = []
        if d["gap"]:
            o.append("gapduration " + d["gap"])
        if d.get("gaplen"):
            o.append("gaplength " + d["gaplen"])
        if d["onstart"]:
            o.append("onstart")
        return ref + ((" { " + " ".join(o) + " }") if o else "")

    def task(t, path, ind):
        p = path + [t["id"]]
        emit(f'task {T(t["id"])} "Task {".".join(p)}" {{', ind)
        attrs = []
        if t["effort"]:
            attrs.append("effort " + t["effort"])
        if t["res"]:
            attrs.append("allocate " + R(t["res"]))
        if t["prio"] is not None:
            attrs.append("priority %d" % t["prio"])
        if tuple(p) in dep_of:
            items = [item(p, to, d) for to, d in dep_of[tuple(p)]]
            if noise and len(items) > 1 and rng.random() < 0.5:
                attrs += ["depends " + it for it in items]
            else:
                attrs.append("depends " + ", ".join(items))
        if tuple(p) in prec_of:
            attrs.append("precedes " + ", ".join(item(p, to, d) for to, d in prec_of[tuple(p)]))
        for a in attrs:
            emit(a, ind + "  ")
        for k in t["kids"]:
            task(k, p, ind + "  ")
        emit("}", ind)
    for t in proj["tasks"]:
        task(t, [], "")
    text = "".join(out)
    if opt["macros"]:
        text = macroize(text, rng, opt["macros"])
    back = {}

    def walk(ts, apath, rpath):
        for t in ts:
            a, r = apath + [t["id"]], rpath + [T(t["id"])]
            back[".".join(r)] = ".".join(a)
            walk(t["kids"], a, r)
    walk(proj["tasks"], [], [])
    return text, back


def _balanced(s):
    d = 0
    for c in s:
        if c == "{":
            d += 1
        elif c == "}":
            d -= 1
            if d < 0:
                return False
    return d == 0


def macroize(text, rng, n):
    """move pieces of the text into macros: whole lines (attribute lines, complete blocks), single
    tokens with a `$1` parameter, and macros that use other macros.  Pieces never contain the
    project header (its dates feed ${projectstart}, an environment input), brackets, `$`, or a
    comment/string boundary (a piece is a run of whole lines, so comments end inside it)."""
    import re
    defs = []
    names = ["m%d" % i for i in range(1, 9)] + ["eff", "blk", "A_", "task"]
    rng.shuffle(names)
    lines = text.split("\n")
    hdr_end = next(i for i, l in enumerate(lines) if l.strip().startswith("}")) + 1
    param_macro = {}        # attribute keyword -> name of the parameterised macro that writes it (one macro, used many times)
    for _ in range(n):
        if not names:
            break
        body_lines = lines[hdr_end:]
        if not body_lines:
            break
        kind = rng.random()
        nm = names.pop()
        if kind < 0.2 and names:
            # a macro whose body calls ONE other macro several times: a balanced run of lines with two or more attribute lines
            # of the same keyword, each written as a call of the parameterised macro for that keyword
            attr = re.compile(r"^(\s*)(effort|allocate|priority)(\s+)(\S+)\s*$")
            done = False
            for _try in range(40):
                i = rng.randrange(hdr_end, len(lines))
                j = rng.randint(i + 2, min(len(lines), i + 12)) if i + 2 <= len(lines) else len(lines)
                piece_lines = lines[i:j]
                piece = "\n".join(piece_lines)
                if not (piece.strip() and _balanced(_nocomment(piece)) and not re.search(r"[\[\]]|/\*|\*/|\$(?!\{)", piece)):
                    continue
                by_kw = {}
                for off, l in enumerate(piece_lines):
                    m = attr.match(l)
                    if m:
                        by_kw.setdefault(m.group(2), []).append((off, m))
                kws = [kw for kw, v in by_kw.items() if len(v) >= 2]
                if not kws:
                    continue
                kw = rng.choice(kws)
                if kw in param_macro:
                    inner = param_macro[kw]
                else:
                    inner = names.pop()
                    param_macro[kw] = inner
                    defs.append(f"macro {inner} [{kw} $1]")
                for off, m in by_kw[kw]:
                    piece_lines[off] = m.group(1) + "${" + inner + " " + m.group(4) + "}"
                defs.append(f"macro {nm} [\n" + "\n".join(piece_lines) + "\n]")
                lines[i:j] = ["${" + nm + "}"]
                done = True
                break
            if not done:
                names.append(nm)
        elif kind < 0.32:
            # a macro with TWO parameters: two attribute lines that follow each other, written as one call `${m v1 v2}`
            attr = re.compile(r"^(\s*)(effort|allocate|priority)(\s+)(\S+)\s*$")
            cands = [i for i in range(hdr_end, len(lines) - 1) if attr.match(lines[i]) and attr.match(lines[i + 1])
                     and attr.match(lines[i]).group(2) != attr.match(lines[i + 1]).group(2)]
            if cands:
                i = rng.choice(cands)
                m1, m2 = attr.match(lines[i]), attr.match(lines[i + 1])
                defs.append(f"macro {nm} [{m1.group(2)} $1\n{m2.group(2)} $2]")
                lines[i:i + 2] = [m1.group(1) + "${" + nm + " " + m1.group(4) + " " + m2.group(4) + "}"]
            else:
                names.append(nm)
        elif kind < 0.5:
            # a run of whole lines with balanced braces
            for _try in range(20):
                i = rng.randrange(hdr_end, len(lines))
                j = rng.randint(i + 1, min(len(lines), i + 6))
                piece = "\n".join(lines[i:j])
                # (calls of macros defined so far may lie inside the piece: the new macro then uses other macros, possibly
                # the same one several times)
                if piece.strip() and _balanced(_nocomment(piece)) and not re.search(r"[\[\]]|/\*|\*/|\$(?!\{)", piece):
                    defs.append(f"macro {nm} [\n{piece}\n]")
                    lines[i:j] = ["${" + nm + "}"]
                    break
        elif kind < 0.8:
            # parameterised: effort / allocate / priority / gapduration value
            cands = [(i, m) for i, l in enumerate(lines) if i >= hdr_end
                     for m in [re.match(r"^(\s*)(effort|allocate|priority)(\s+)(\S+)\s*$", l)] if m]
            if cands:
                i, m = rng.choice(cands)
                if m.group(2) in param_macro:
                    names.append(nm)
                    nm = param_macro[m.group(2)]
                else:
                    param_macro[m.group(2)] = nm
                    defs.append(f"macro {nm} [{m.group(2)} $1]")
                lines[i] = m.group(1) + "${" + nm + " " + m.group(4) + "}"
        else:
            # nested: a macro whose body is a call of a new inner macro holding one attribute line
            cands = [i for i, l in enumerate(lines) if i >= hdr_end and re.match(r"^\s*(effort|allocate|priority)\s+\S+\s*$", l)]
            if cands and names:
                i = rng.choice(cands)
                inner = names.pop()
                defs.append(f"macro {inner} [{lines[i].strip()}]")
                defs.append(f"macro {nm} [ ${{{inner}}} ]")
                lines[i] = "  ${" + nm + "}"
    text = "\n".join(lines)
    # definitions may stand anywhere at top level (extraction is a separate first pass)
    pre, post = [], []
    for d in defs:
        (pre if rng.random() < 0.7 else post).append(d)
    out = "\n".join(pre) + ("\n" if pre else "") + text + ("\n" + "\n".join(post) + "\n" if post else "")
    # comments are inert, multi-line ones too: an outdated definition of a macro in use, a commented-out call and a
    # commented-out project header inside block comments that span several lines
    used = [m.group(1) for d in defs for m in [re.match(r"macro (\S+) \[", d)] if m]
    if used and rng.random() < 0.6:
        nm = rng.choice(used)
        out += "\n/* outdated:\nmacro " + nm + " [effort 99h]\n   ${" + nm + "}\n*/\n"
    if rng.random() < 0.3:
        out = "/*\n project old \"Old\" 2001-01-01 +1d {\n }\n*/\n" + out
    return out


def _nocomment(s):
    import re
    s = re.sub(r"#[^\n]*", "", s)
    s = re.sub(r"//[^\n]*", "", s)
    return s
