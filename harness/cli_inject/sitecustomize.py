"""Fault injection for the `plan report` subprocesses of the C19/C20 checks.

This directory is put on the *subprocess's* PYTHONPATH by the harness (never into /repo); Python
imports `sitecustomize` at start-up.  Without SPVERIF_FAULT / SPVERIF_JITTER it does nothing.

SPVERIF_FAULT=<point> makes exactly one effect of scriptplan/cli/plan.py fail (DESIGN Appendix C):
  stdinMkstemp   tempfile.mkstemp(prefix="plan_stdin_")            raises OSError(ENOSPC)
  stdinWrite     the write to that temp file                        raises OSError(ENOSPC)
  readInput      open(tjp_path, "rb") in report()                   raises PermissionError
  mkdtemp        tempfile.mkdtemp(prefix="plan_output_")            raises OSError(ENOSPC)
  copyRead       open(tjp_path) in create_auto_report_file()        raises PermissionError
  mkstempAuto    tempfile.mkstemp(prefix="plan_auto_")             raises OSError(ENOSPC)
  copyWrite      the write of the combined text                     raises OSError(ENOSPC)
  engineRaise    ScriptPlan.run() raises RuntimeError (caught by run_scriptplan)
  engineNoOutput run_scriptplan returns (True, None) without writing anything
  readReport     open(primary_output) in report()                   raises OSError(EIO)
  echo           click.echo(report_content) in report()             raises OSError(ENOSPC)
Effects are recognised by the calling FILE (scriptplan/cli/plan.py) and by what is opened / created (mode, name prefix), not
by function names, so the same injection works on the pinned source, on the patched source and on a refactored plan.py.

SPVERIF_JITTER=<seed> sleeps a few random milliseconds around temp-file calls to diversify the
interleavings of concurrent runs.
"""
import os
import sys

_FAULT = os.environ.get("SPVERIF_FAULT", "")
_JITTER = os.environ.get("SPVERIF_JITTER", "")

if _FAULT or _JITTER:
    import builtins
    import errno
    import random
    import shutil
    import tempfile
    import time

    _rng = random.Random(f"{_JITTER}:{os.getpid()}")
    _real_open = builtins.open
    _real_mkstemp = tempfile.mkstemp
    _real_mkdtemp = tempfile.mkdtemp
    _real_fdopen = os.fdopen
    _real_rmtree = shutil.rmtree
    _fds = {}
    _lazy_done = [False]

    def _jit():
        if _JITTER:
            time.sleep(_rng.random() * 0.02)

    def _caller(depth=2):
        f = sys._getframe(depth)
        fn = f.f_code.co_filename.replace("\\", "/")
        return (fn.endswith("scriptplan/cli/plan.py"), f.f_code.co_name)

    def _enospc(what):
        return OSError(errno.ENOSPC, "No space left on device (injected: %s)" % what)

    class _FailingWriter:
        """stands for the text file object of os.fdopen(fd, "w"): every write fails"""

        def __init__(self, f, what):
            self._f, self._what = f, what

        def __enter__(self):
            return self

        def __exit__(self, *a):
            self._f.close()
            return False

        def write(self, s):
            raise _enospc(self._what)

        def close(self):
            self._f.close()

    def _lazy_patches():
        """patches that need scriptplan / click to be imported already (they are, by the time
        plan.report creates its first temp name)"""
        if _lazy_done[0]:
            return
        _lazy_done[0] = True
        if _FAULT == "engineRaise":
            m = sys.modules.get("scriptplan.cli.main")
            if m is not None:
                def run(self):
                    raise RuntimeError("engine failure (injected)")
                m.ScriptPlan.run = run
        elif _FAULT == "engineNoOutput":
            for name in ("scriptplan.cli.plan", "__main__"):
                m = sys.modules.get(name)
                if m is not None and hasattr(m, "run_scriptplan"):
                    m.run_scriptplan = lambda *a, **k: (True, None)
        elif _FAULT == "echo":
            import click
            real_echo = click.echo

            def echo(message=None, file=None, nl=True, err=False, color=None):
                inplan, fn = _caller()
                if inplan and not err and file is None:
                    raise _enospc("echo")
                return real_echo(message, file=file, nl=nl, err=err, color=color)
            click.echo = echo

    def mkstemp(*a, **k):
        _jit()
        prefix = k.get("prefix") or (a[1] if len(a) > 1 else None)
        if prefix in ("plan_stdin_", "plan_auto_"):
            _lazy_patches()
        if _FAULT == "stdinMkstemp" and prefix == "plan_stdin_":
            raise _enospc("mkstemp plan_stdin_")
        if _FAULT == "mkstempAuto" and prefix == "plan_auto_":
            raise _enospc("mkstemp plan_auto_")
        fd, path = _real_mkstemp(*a, **k)
        _fds[fd] = prefix
        return fd, path

    def mkdtemp(*a, **k):
        _jit()
        prefix = k.get("prefix") or (a[1] if len(a) > 1 else None)
        if prefix == "plan_output_":
            _lazy_patches()
            if _FAULT == "mkdtemp":
                raise _enospc("mkdtemp plan_output_")
        return _real_mkdtemp(*a, **k)

    def fdopen(fd, *a, **k):
        f = _real_fdopen(fd, *a, **k)
        prefix = _fds.pop(fd, None)
        if _FAULT == "stdinWrite" and prefix == "plan_stdin_":
            return _FailingWriter(f, "write plan_stdin_")
        if _FAULT == "copyWrite" and prefix == "plan_auto_":
            return _FailingWriter(f, "write plan_auto_")
        return f

    def open_(file, mode="r", *a, **k):
        if _FAULT in ("readInput", "copyRead", "readReport"):
            inplan, fn = _caller()
            if inplan:
                # the effect is recognised by WHAT is opened (and that plan.py opens it), not by the name of the function that
                # does it: the binary read of the input (hashing), the text read of the input (copy into the auto file), the
                # text read of the generated report - a refactoring of plan.py into helpers keeps the fault points
                if _FAULT == "readInput" and mode == "rb":
                    raise PermissionError(errno.EACCES, "Permission denied (injected)", str(file))
                if _FAULT == "copyRead" and mode == "r" and "plan_output_" not in str(file):
                    raise PermissionError(errno.EACCES, "Permission denied (injected)", str(file))
                if _FAULT == "readReport" and mode == "r" and "plan_output_" in str(file):
                    raise OSError(errno.EIO, "Input/output error (injected)", str(file))
        return _real_open(file, mode, *a, **k)

    def rmtree(*a, **k):
        _jit()
        return _real_rmtree(*a, **k)

    tempfile.mkstemp = mkstemp
    tempfile.mkdtemp = mkdtemp
    os.fdopen = fdopen
    builtins.open = open_
    shutil.rmtree = rmtree
