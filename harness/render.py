"""AST (plain dicts, see gen.py) -> .tjp text.  The Lean model consumes the same AST as JSON."""
from datetime import datetime, timedelta

EPOCH = datetime(1970, 1, 1)


def fdate(t):
    d = EPOCH + timedelta(seconds=t)
    if d.hour == 0 and d.minute == 0:
        return d.strftime("%Y-%m-%d")
    return d.strftime("%Y-%m-%d-%H:%M")


def fmin(m):
    return "%d:%02d" % (m // 60, m % 60)


def wh_lines(specs, ind):
    out = []
    order = ["mon", "tue", "wed", "thu", "fri", "sat", "sun"]
    for sp in specs:
        days = ", ".join(sp["days"])
        ds = sp["days"]
        # a run of consecutive weekdays may be written as a range, also one that wraps past the end of the week (`sat - tue`);
        # which spelling is used depends on the days themselves, so that it is the same whenever the project is rendered
        if 2 <= len(ds) <= 6 and all(order[(order.index(ds[0]) + j) % 7] == d for j, d in enumerate(ds)) and \
                (order.index(ds[0]) + len(ds)) % 2 == 0:
            days = f"{ds[0]} - {ds[-1]}"
        rng = ", ".join(f"{fmin(a)} - {fmin(b)}" for a, b in sp["ranges"])
        out.append(f"{ind}workinghours {days} {rng}")
    return out


def limits_block(lim, ind):
    parts = []
    for k in ("dailymax", "weeklymax"):
        if lim.get(k):
            s = f"{k} {lim[k]}"
            if lim.get("resources"):
                s += " { resources " + ", ".join(lim["resources"]) + " }"
            parts.append(s)
    return f"{ind}limits {{ " + " ".join(parts) + " }"


def res_lines(r, ind="  "):
    out = [f'{ind[:-2]}resource {r["id"]} "{r["id"].upper()}" {{']
    if r.get("eff") is not None:
        out.append(f"{ind}efficiency {r['eff']}")
    if r.get("rate") is not None:
        out.append(f"{ind}rate {r['rate']}")
    if r.get("tz"):
        out.append(f'{ind}timezone "{r["tz"]}"')
    if r.get("shift"):
        out.append(f"{ind}workinghours {r['shift']}")
    if r.get("wh"):
        out += wh_lines(r["wh"], ind)
    for (ty, a, b) in r.get("leaves") or []:
        out.append(f"{ind}leaves {ty} {fdate(a)}" + (f" - {fdate(b)}" if b is not None else ""))
    for (a, b) in r.get("vacations") or []:
        out.append(f"{ind}vacation {fdate(a)}" + (f" - {fdate(b)}" if b is not None else ""))
    for (a, d) in r.get("bookings") or []:
        out.append(f'{ind}booking "blk" {fdate(a)} +{d}')
    if r.get("limits"):
        out.append(limits_block(r["limits"], ind))
    for c in r.get("children") or []:
        out += res_lines(c, ind + "  ")
    out.append(f"{ind[:-2]}}}")
    return out


def dep_str(d):
    s = d["ref"]
    opts = []
    if d.get("gap"):
        opts.append(f"gapduration {d['gap']}")
    if d.get("glen"):
        opts.append(f"gaplength {d['glen']}")
    if d.get("onstart"):
        opts.append("onstart")
    if opts:
        s += " { " + " ".join(opts) + " }"
    return s


def task_lines(t, ind="  "):
    out = [f'{ind[:-2]}task {t["id"]} "{t["id"].upper()}" {{']
    if t.get("effort"):
        out.append(f"{ind}effort {t['effort'][0]}{t['effort'][1]}")
    for scid, ov in (t.get("sc") or {}).items():
        for k, v in ov.items():
            if k == "effort":
                out.append(f"{ind}{scid}:effort {v[0]}{v[1]}")
            else:
                out.append(f"{ind}{scid}:{k} {fdate(v)}")
    if t.get("alloc"):
        s = f"{ind}allocate " + ", ".join(t["alloc"])
        if t.get("alt"):
            s += " { alternative " + ", ".join(t["alt"]) + " }"
        out.append(s)
    if t.get("deps"):
        if t.get("split_deps") and len(t["deps"]) > 1:
            # one statement per edge: several `depends` statements on a task add up
            for d in t["deps"]:
                out.append(f"{ind}depends " + dep_str(d))
        else:
            out.append(f"{ind}depends " + ", ".join(dep_str(d) for d in t["deps"]))
    if t.get("prec"):
        if t.get("split_deps") and len(t["prec"]) > 1:
            for d in t["prec"]:
                out.append(f"{ind}precedes " + dep_str(d))
        else:
            out.append(f"{ind}precedes " + ", ".join(dep_str(d) for d in t["prec"]))
    if t.get("prio") is not None:
        out.append(f"{ind}priority {t['prio']}")
    if t.get("start") is not None:
        out.append(f"{ind}start {fdate(t['start'])}")
    if t.get("end") is not None:
        out.append(f"{ind}end {fdate(t['end'])}")
    if t.get("milestone"):
        out.append(f"{ind}milestone")
    if t.get("mode"):
        out.append(f"{ind}scheduling {t['mode']}")
    if t.get("limits"):
        out.append(limits_block(t["limits"], ind))
    for c in t.get("children") or []:
        out += task_lines(c, ind + "  ")
    out.append(f"{ind[:-2]}}}")
    return out


def scen_lines(s, ind):
    out = [f'{ind}scenario {s["id"]} "{s["id"].upper()}"' + (" {" if s.get("children") else "")]
    for c in s.get("children") or []:
        out += scen_lines(c, ind + "  ")
    if s.get("children"):
        out.append(f"{ind}}}")
    return out


def render(p):
    G = p.get("G", 3600)
    out = [f'project prj "Prj" {fdate(p["start"])} +{p["dur"][0]}{p["dur"][1]} {{', f'  timezone "{p.get("tz", "Etc/UTC")}"']
    if G != 3600:
        out.append(f"  timingresolution {G // 60}min")
    if p.get("sched"):
        out.append(f"  scheduling {p['sched']}")
    for s in p.get("scenarios") or []:
        out += scen_lines(s, "  ")
    out.append("}")
    for (a, b) in p.get("vacations") or []:
        out.append(f'vacation "v" {fdate(a)}' + (f" - {fdate(b)}" if b is not None else ""))
    for (ty, a, b) in p.get("leaves") or []:
        out.append(f'leaves {ty} "l" {fdate(a)}' + (f" - {fdate(b)}" if b is not None else ""))
    for sh in p.get("shifts") or []:
        out.append(f'shift {sh["id"]} "{sh["id"].upper()}" {{')
        out += wh_lines(sh["wh"], "  ")
        out.append("}")
    for r in p.get("resources") or []:
        out += res_lines(r)
    for t in p.get("tasks") or []:
        out += task_lines(t)
    return "\n".join(out) + "\n"
