"""Python property oracles over (AST, observation of the real code).  They state the properties as
written; they are used to search for a concrete failing input, never as the reason to pass."""
from datetime import datetime, timezone
from fractions import Fraction

from . import astutil as A
from .calspec import Cal

EPS = Fraction(1, 1000)   # booked seconds are compared to 1 ms


def F(x):
    return Fraction(x[0], x[1])


def scenario_view(p, sc):
    """per-task effective attributes in scenario `sc` (overrides applied)"""
    view = {}
    for fid, t, par, depth in A.flat_tasks(p):
        ov = A.effective_override(p, t, sc["id"])
        view[fid] = {"effort": A.effort_hours(ov.get("effort", t.get("effort"))),
                     "start": ov.get("start", t.get("start")), "end": ov.get("end", t.get("end")),
                     "node": t, "parent": par}
    return view


def ledger_by_task(sc):
    """{task: {res: {slot: seconds}}} and per (res, slot) totals"""
    by = {}
    for rid, r in sc["resources"].items():
        for k, e in r["ledger"].items():
            for tid, s in e["usage"]:
                by.setdefault(tid, {}).setdefault(rid, {})
                by[tid][rid][int(k)] = by[tid][rid].get(int(k), Fraction(0)) + F(s)
    return by


def c01(p, sc):
    bad = []
    G = p.get("G", 3600)
    tasks = sc["tasks"]
    for rid, r in sc["resources"].items():
        # a start-offset reservation (used seconds without a usage entry) is not a booking
        if not r["leaf"] and any(e["usage"] for e in r["ledger"].values()):
            bad.append(f"resource group {rid} holds bookings")
        for k, e in r["ledger"].items():
            tot = sum((F(s) for _, s in e["usage"]), Fraction(0))
            if tot > G + EPS:
                bad.append(f"resource {rid} slot {k}: {float(tot):.3f} s booked in a {G} s slot: {[(t, float(F(s))) for t, s in e['usage']]}")
            if any(F(s) < 0 for _, s in e["usage"]):
                bad.append(f"resource {rid} slot {k}: negative booking")
            # the slot's own total (bookings plus what a mid-slot start or a team alignment blocks) never exceeds the slot,
            # and the portions of the tasks lie inside it
            if e.get("used") is not None:
                if F(e["used"]) > G + EPS:
                    bad.append(f"resource {rid} slot {k}: {float(F(e['used'])):.3f} s used in a {G} s slot: {[(t, float(F(s))) for t, s in e['usage']]}")
                if tot > F(e["used"]) + EPS:
                    bad.append(f"resource {rid} slot {k}: the tasks' portions ({float(tot):.3f} s) exceed the slot's total ({float(F(e['used'])):.3f} s)")
            for tid, _ in e["usage"]:
                if tid in tasks and not tasks[tid]["leaf"]:
                    bad.append(f"container task {tid} booked on {rid}")
    return bad


def c02(p, sc, cal=None):
    bad = []
    cal = cal or Cal(p)
    G = p.get("G", 3600)
    for rid, r in sc["resources"].items():
        for k, e in r["ledger"].items():
            tot = sum((F(s) for _, s in e["usage"]), Fraction(0))
            if tot <= 0:
                continue
            t0 = p["start"] + int(k) * G
            w = cal.work_seconds(rid, t0, t0 + G)
            if tot > w + EPS:
                d = datetime.fromtimestamp(t0, tz=timezone.utc).strftime("%a %Y-%m-%d %H:%M")
                bad.append(f"resource {rid}: {float(tot):.0f} s booked in slot {k} ({d} UTC) which has {w} s of declared working time")
    return bad


def res_eff(p):
    eff = {}
    for fid, r, par in A.flat_resources(p):
        e = r.get("eff")
        v = Fraction(e) if e is not None else None
        if v is None and par is not None:
            v = eff_inh.get(par)
        eff_inh[fid] = v
        eff[fid] = v if v else Fraction(1)     # `efficiency or 1.0`
    return eff


eff_inh = {}


def local_to_full(p):
    """allocation ids are local resource ids: first resource (creation order) with that id"""
    m = {}
    for fid, r, par in A.flat_resources(p):
        m.setdefault(r["id"], fid)
    return m


def c03(p, sc, view):
    bad = []
    eff = res_eff(p)
    l2f = local_to_full(p)
    by = ledger_by_task(sc)
    G = p.get("G", 3600)
    for fid, o in sc["tasks"].items():
        v = view[fid]
        if not o["leaf"] or not o["scheduled"] or v["effort"] <= 0 or not v["node"].get("alloc"):
            continue
        booked = by.get(fid, {})
        if not booked:
            bad.append(f"task {fid} scheduled with effort {float(v['effort'])} h but nothing is booked")
            continue
        prim = {l2f.get(x) for x in v["node"].get("alloc") or []}
        alt = {l2f.get(x) for x in v["node"].get("alt") or []}
        used = set(booked)
        if not (used <= prim or used <= alt):
            bad.append(f"task {fid} booked on {sorted(used)}: not exactly one of primaries {sorted(prim)} / alternatives {sorted(alt)}")
        members = sorted(used)
        slots0 = booked[members[0]]
        for m in members[1:]:
            if booked[m] != slots0:
                diff = {k: (float(slots0.get(k, 0)), float(booked[m].get(k, 0))) for k in set(slots0) | set(booked[m]) if slots0.get(k) != booked[m].get(k)}
                bad.append(f"team task {fid}: members {members[0]} and {m} are not booked for the same instants: {diff}")
        if len({eff[m] for m in members}) > 1:
            continue    # mixed-efficiency team: "the efficiency of the booked resource" is ambiguous (DESIGN §6 C03)
        # effort received (uniform efficiency)
        got = Fraction(0)
        for k in set().union(*[set(b) for b in booked.values()]):
            got += max(booked[m].get(k, Fraction(0)) * eff[m] for m in members) / 3600
        tol = max(eff[m] for m in members) / 3600 + Fraction(1, 10 ** 6)
        if abs(got - v["effort"]) > tol:
            bad.append(f"task {fid}: effort {float(v['effort']):.6f} h requested, {float(got):.6f} h booked (x efficiency)")
        # never a further slot: without its last (resp. first, ALAP) slot the work must be short of the effort
        ks = sorted(slots0)
        if len(ks) >= 2:
            last = ks[-1] if o["forward"] is not False else ks[0]
            without = sum(max(booked[m].get(k, Fraction(0)) * eff[m] for m in members) / 3600 for k in ks if k != last)
            if without >= v["effort"] - Fraction(1, 10 ** 9):
                bad.append(f"task {fid}: a further slot ({last}) was booked although {float(without):.9f} h >= effort {float(v['effort'])} h was already done")
    return bad


def c04(p, sc, view, cal=None):
    bad = []
    own, alle = A.all_edges(p)
    lene = A.len_edges(p)
    cal = cal or Cal(p)
    T = sc["tasks"]
    for fid, o in T.items():
        if not o["leaf"] or not o["scheduled"] or o["start"] is None:
            continue
        fwd = o["forward"] is not False
        v = view[fid]
        if fwd and v["start"] is not None:
            continue            # the user pinned its start
        if not fwd and v["end"] is not None:
            continue
        if v["effort"] == 0 and (v["start"] is not None or v["end"] is not None):
            continue            # a milestone has one date: pinning either pins it
        for (q, gap, onstart) in alle[fid]:
            qo = T.get(q)
            if qo is None or not qo["scheduled"]:
                continue
            if fwd:
                ref = qo["start"] if onstart else qo["end"]
                if ref is not None and o["start"] < ref + gap:
                    bad.append(f"task {fid} starts {o['start']} before {'start' if onstart else 'end'} of {q} ({ref}) + gap {gap}")
            else:
                if onstart:
                    continue    # on-start edges in backward mode are outside the claimed envelope
                ref = qo["end"]
                if ref is not None and o["start"] < ref + gap:
                    bad.append(f"ALAP task {fid} starts {o['start']} before end of {q} ({ref}) + gap {gap}")
        if fwd:
            # working-time gaps: not before the instant at which that much project working time has passed
            for (q, secs, onstart) in lene[fid]:
                qo = T.get(q)
                if qo is None or not qo["scheduled"]:
                    continue
                ref = qo["start"] if onstart else qo["end"]
                if ref is None:
                    continue
                lb = cal.len_bound(ref, secs, sc.get("_end", A.end_of(p)))
                if lb is not None and o["start"] < lb:
                    bad.append(f"task {fid} starts {o['start']} before {secs} s of project working time have passed since the "
                               f"{'start' if onstart else 'end'} of {q} ({ref}): not before {lb}")
    return bad


def iso_week(t):
    d = datetime.fromtimestamp(t, tz=timezone.utc)
    y, w, _ = d.isocalendar()
    return (y, w)


def c05(p, sc):
    bad = []
    G = p.get("G", 3600)
    by = ledger_by_task(sc)
    l2f = local_to_full(p)
    res_nodes = {fid: (r, par) for fid, r, par in A.flat_resources(p)}

    def agg(entries, kind):
        acc = {}
        for k, s in entries:
            t = p["start"] + k * G
            key = t // 86400 if kind == "dailymax" else iso_week(t)
            acc[key] = acc.get(key, Fraction(0)) + s
        return acc
    # resource limits: a limited resource, or all members of a limited group together
    for fid, (r, par) in res_nodes.items():
        lim = r.get("limits")
        if not lim:
            continue
        members = [x for x in res_nodes if x == fid or x.startswith(fid + ".")]
        entries = []
        for m in members:
            for k, e in sc["resources"][m]["ledger"].items():
                entries += [(int(k), F(s)) for _, s in e["usage"]]
        for kind in ("dailymax", "weeklymax"):
            if lim.get(kind):
                cap = A.limit_hours(lim[kind]) * 3600
                for key, s in agg(entries, kind).items():
                    if s > cap + EPS:
                        bad.append(f"resource {fid} {kind} {lim[kind]}: {float(s) / 3600:.3f} h booked in period {key}")
    # task limits: all tasks below a limited task
    for fid, t, par, _ in A.flat_tasks(p):
        lim = t.get("limits")
        if not lim:
            continue
        only = {l2f.get(x) for x in lim.get("resources") or []} or None
        entries = []
        for tid, per in by.items():
            if tid == fid or tid.startswith(fid + "."):
                for rid, slots in per.items():
                    if only is None or rid in only:
                        entries += list(slots.items())
        for kind in ("dailymax", "weeklymax"):
            if lim.get(kind):
                cap = A.limit_hours(lim[kind]) * 3600
                for key, s in agg(entries, kind).items():
                    if s > cap + EPS:
                        bad.append(f"task {fid} {kind} {lim[kind]}: {float(s) / 3600:.3f} h booked in period {key}")
    return bad


def c06(p, sc, view, cal=None):
    bad = []
    G = p.get("G", 3600)
    by = ledger_by_task(sc)
    own, alle = A.all_edges(p)
    lene = A.len_edges(p)
    cal = cal or Cal(p)
    T = sc["tasks"]
    for fid, o in T.items():
        if not o["leaf"] or not o["scheduled"]:
            continue
        v = view[fid]
        if o["start"] is None or o["end"] is None:
            bad.append(f"scheduled task {fid} lacks a date")
            continue
        if o["start"] > o["end"]:
            bad.append(f"task {fid}: start {o['start']} > end {o['end']}")
        booked = by.get(fid, {})
        if booked:
            ks = sorted(set().union(*[set(b) for b in booked.values()]))
            first, last = ks[0], ks[-1]
            if not (p["start"] + first * G <= o["start"] < p["start"] + (first + 1) * G):
                bad.append(f"task {fid}: start {o['start']} is not in its first booked slot {first}")
            # reported times are whole seconds: a tail of less than half a second rounds to the slot start
            if not (p["start"] + last * G <= o["end"] <= p["start"] + (last + 1) * G):
                bad.append(f"task {fid}: end {o['end']} is not in its last booked slot {last}")
            if o["start"] >= o["end"]:
                bad.append(f"task {fid} has work but zero length")
            for rid, slots in booked.items():
                if first == last:
                    need = slots[first]
                    if o["end"] - o["start"] < need - 1:
                        bad.append(f"task {fid}: [{o['start']}, {o['end']}] is shorter than the {float(need):.1f} s booked in slot {first}")
                else:
                    if p["start"] + (first + 1) * G - o["start"] < slots.get(first, 0) - 1:
                        bad.append(f"task {fid}: first slot holds {float(slots.get(first, 0)):.1f} s but starts at {o['start']}")
                    if o["end"] - (p["start"] + last * G) < slots.get(last, 0) - 1:
                        bad.append(f"task {fid}: last slot holds {float(slots.get(last, 0)):.1f} s but ends at {o['end']}")
        elif v["effort"] == 0 and (v["node"].get("milestone") or not v["node"].get("alloc")):
            if o["start"] != o["end"]:
                bad.append(f"milestone {fid}: start != end")
            fwd = o["forward"] is not False
            if fwd and v["start"] is None and v["end"] is None:
                bound = p["start"]
                for a in A.ancestors(fid):     # a container's start is a lower bound for its children
                    if view[a]["start"] is not None:
                        bound = max(bound, view[a]["start"])
                        break
                ok = True
                for (q, gap, onstart) in alle[fid]:
                    qo = T.get(q)
                    if qo is None or not qo["scheduled"]:
                        ok = False
                        break
                    ref = qo["start"] if onstart else qo["end"]
                    if ref is not None:
                        bound = max(bound, ref + gap)
                for (q, secs, onstart) in lene[fid]:
                    qo = T.get(q)
                    ref = (qo["start"] if onstart else qo["end"]) if qo and qo["scheduled"] else None
                    lb = cal.len_bound(ref, secs, sc.get("_end", A.end_of(p))) if ref is not None else None
                    if lb is None:
                        ok = False
                        break
                    bound = max(bound, lb)
                if ok and alle[fid] and o["start"] != bound:
                    bad.append(f"milestone {fid} at {o['start']}, its dependency bound is {bound}")
    return bad


def c10(p, sc):
    bad = []
    T = sc["tasks"]
    kids = {}
    for fid, t, par, _ in A.flat_tasks(p):
        if par is not None:
            kids.setdefault(par, []).append(fid)
    for fid, ch in kids.items():
        o = T[fid]
        alls = all(T[c]["scheduled"] for c in ch)
        if o["scheduled"] != alls:
            bad.append(f"container {fid}: scheduled={o['scheduled']} but children scheduled={[T[c]['scheduled'] for c in ch]}")
        if alls and o["scheduled"]:
            ss = [T[c]["start"] for c in ch if T[c]["start"] is not None]
            ee = [T[c]["end"] for c in ch if T[c]["end"] is not None]
            if ss and o["start"] != min(ss):
                bad.append(f"container {fid}: start {o['start']} != earliest child start {min(ss)}")
            if ee and o["end"] != max(ee):
                bad.append(f"container {fid}: end {o['end']} != latest child end {max(ee)}")
    for rid, r in sc["resources"].items():
        for k, e in r["ledger"].items():
            for tid, _ in e["usage"]:
                if tid in kids:
                    bad.append(f"container {tid} occupies resource {rid}")
        if not r["leaf"] and any(e["usage"] for e in r["ledger"].values()):
            bad.append(f"resource group {rid} occupies time")
    return bad


def c08(p, sc, view, cal=None):
    """slot-granular: between bound and end every working, unbooked slot of the (unlimited) resource is used"""
    bad = []
    cal = cal or Cal(p)
    G = p.get("G", 3600)
    by = ledger_by_task(sc)
    own, alle = A.all_edges(p)
    lene = A.len_edges(p)
    l2f = local_to_full(p)
    T = sc["tasks"]
    res_nodes = {fid: (r, par) for fid, r, par in A.flat_resources(p)}

    def limited(rid):
        x = rid
        while x is not None:
            if res_nodes[x][0].get("limits"):
                return True
            x = res_nodes[x][1]
        return False
    for fid, o in T.items():
        v = view[fid]
        if not o["leaf"] or not o["scheduled"] or v["effort"] <= 0 or fid not in by:
            continue
        node = v["node"]
        if node.get("limits") or any(view[a]["node"].get("limits") for a in A.ancestors(fid)):
            continue
        rids = sorted(by[fid])
        if any(limited(r) for r in rids) or len(rids) != 1 or node.get("alt"):
            continue
        rid = rids[0]
        fwd = o["forward"] is not False
        if not all(T.get(q, {}).get("scheduled") for (q, _, _) in alle[fid]):
            continue
        if fwd:
            bound = v["start"] if v["start"] is not None else p["start"]
            if v["start"] is None:
                for a in A.ancestors(fid):     # a container's start is a lower bound for its children
                    if view[a]["start"] is not None:
                        bound = max(bound, view[a]["start"])
                        break
                for (q, gap, onstart) in alle[fid]:
                    ref = T[q]["start"] if onstart else T[q]["end"]
                    if ref is not None:
                        bound = max(bound, ref + gap)
                for (q, secs, onstart) in lene[fid]:
                    ref = T[q]["start"] if onstart else T[q]["end"]
                    lb = cal.len_bound(ref, secs, sc.get("_end", A.end_of(p))) if ref is not None else None
                    if lb is not None:
                        bound = max(bound, lb)
            lo, hi = bound, o["end"]
        else:
            if any(onstart for (_, _, onstart) in alle[fid]):
                continue        # on-start edges in backward mode give a deadline the property does not name
            # deadline: explicit end, earliest successor start minus gap, or project end
            dl = v["end"]
            if dl is None:
                dl = sc.get("_end", A.end_of(p))
                me = {fid} | set(A.ancestors(fid))
                terminal = not any(q in me and not onstart for sid in T if T[sid]["leaf"] and sid != fid
                                   for (q, gap, onstart) in alle.get(sid, []))
                if terminal:
                    for a in A.ancestors(fid):  # the nearest dated enclosing container is the deadline of its terminal tasks
                        if view[a]["end"] is not None:
                            dl = min(dl, view[a]["end"])
                            break
                for sid, so in T.items():
                    if not so["leaf"] or sid == fid:
                        continue
                    for (q, gap, onstart) in alle.get(sid, []):
                        if q in me and not onstart and so["scheduled"] and so["start"] is not None:
                            dl = min(dl, so["start"] - gap)
            if o["end"] > dl:
                bad.append(f"ALAP task {fid} ends {o['end']} after its deadline {dl}")
            lo, hi = o["end"], dl
        k0 = -(-(lo - p["start"]) // G)
        k1 = (hi - p["start"]) // G
        led = sc["resources"][rid]["ledger"]
        for k in range(k0, k1):
            t0 = p["start"] + k * G
            if str(k) in led and led[str(k)]["usage"]:
                continue
            if cal.work_seconds(rid, t0, t0 + G) == G:
                bad.append(f"task {fid} ({'ASAP' if fwd else 'ALAP'}): working, unbooked slot {k} of {rid} left idle between {lo} and {hi}")
                break
    return bad
