"""Declarative working time (Spec/CalSpec in DESIGN §3): independent of the implementation.

working(p, rid, t): is second `t` (epoch, UTC) inside resource `rid`'s declared working time —
own hours / shift hours / project default (Mon-Fri 09-17 UTC), read in the resource's zone, an
interval with end <= start running into the next local day — and outside every leave, vacation,
booking and global holiday.  A dateless leave is that calendar day (24 h).
"""
from datetime import datetime, timedelta, timezone
import zoneinfo

from . import astutil as A

DAYS = ["mon", "tue", "wed", "thu", "fri", "sat", "sun"]
_Z = {}


def zone(name):
    if name not in _Z:
        _Z[name] = zoneinfo.ZoneInfo(name)
    return _Z[name]


def local_wd_min(t, tz):
    d = datetime.fromtimestamp(t, tz=timezone.utc)
    if tz:
        d = d.astimezone(zone(tz))
    return d.weekday(), d.hour * 60 + d.minute


class Cal:
    def __init__(self, p):
        self.p = p
        self.res = {fid: (r, par) for fid, r, par in A.flat_resources(p)}
        self.shifts = {s["id"]: s for s in p.get("shifts") or []}
        self.gl = []
        for (a, b) in p.get("vacations") or []:
            self.gl.append((a, b if (b is not None and b != a) else a + 86400))
        for (_ty, a, b) in p.get("leaves") or []:
            self.gl.append((a, b if b is not None else a + 86400))

    def _inherited(self, fid, key):
        """resource attributes are inherited from enclosing resources unless given"""
        while fid is not None:
            r, par = self.res[fid]
            if r.get(key):
                return r[key]
            fid = par
        return None

    def hours(self, fid):
        """the working hours a resource declares - through a shift reference or inline - or, if it declares none, those of
        the closest enclosing group that does (finding F55: an inherited shift must not beat a resource's own hours)"""
        while fid is not None:
            r, par = self.res[fid]
            if r.get("shift") and r["shift"] in self.shifts:
                return self.shifts[r["shift"]]["wh"]
            if r.get("wh"):
                return r["wh"]
            fid = par
        return None

    def off(self, fid, t):
        for a, b in self.gl:
            if a <= t < b:
                return True
        # leaves, vacations and bookings of a resource are ONE inherited list: a resource that declares any of them has its
        # own list, a resource that declares none takes the list of the nearest enclosing resource that does
        r = None
        f = fid
        while f is not None:
            r0, par = self.res[f]
            if r0.get("leaves") or r0.get("vacations") or r0.get("bookings"):
                r = r0
                break
            f = par
        if r is None:
            return False
        iv = []
        for (_ty, a, b) in r.get("leaves") or []:
            iv.append((a, b if (b is not None and b != a) else a + 86400))
        for (a, b) in r.get("vacations") or []:
            iv.append((a, b if (b is not None and b != a) else a + 86400))
        for (a, d) in r.get("bookings") or []:
            iv.append((a, a + A.gap_seconds(d)))
        return any(a <= t < b for a, b in iv)

    def on_hours(self, fid, t):
        specs = self.hours(fid)
        if not specs:
            wd, m = local_wd_min(t, None)
            return wd < 5 and 9 * 60 <= m < 17 * 60
        tz = self._inherited(fid, "tz")
        wd, m = local_wd_min(t, tz)
        per = {}
        for sp in specs:
            for d in sp["days"]:
                per.setdefault(DAYS.index(d), []).extend(sp["ranges"])
        for (s, e) in per.get(wd, []):
            if e <= s:
                if m >= s:
                    return True
            elif s <= m < e:
                return True
        for (s, e) in per.get((wd - 1) % 7, []):
            if e <= s and m < e:
                return True
        return False

    def working(self, fid, t):
        return self.on_hours(fid, t) and not self.off(fid, t)

    def proj_working(self, t):
        """the project calendar: Monday to Friday 9:00 - 17:00 (UTC projects), outside every global vacation"""
        for (a, b) in self.p.get("vacations") or []:
            if a <= t < (b if (b is not None and b != a) else a + 86400):
                return False
        wd, m = local_wd_min(t, None)
        return wd < 5 and 9 * 60 <= m < 17 * 60

    def len_bound(self, ref, secs, horizon):
        """`gaplength`: the instant at which `secs` seconds of project working time have passed since `ref` (None when the
        project ends before that).  Project working time is kept per slot of the scheduling grid: a slot counts as working
        time iff it begins in working time (on grids aligned with 9:00 and 17:00 that is plain Mon-Fri 9-17)."""
        G = self.p.get("G", 3600)
        t = ref
        left = secs
        while left > 0:
            if t >= horizon:
                return None
            slot0 = self.p["start"] + (t - self.p["start"]) // G * G
            step = min(slot0 + G - t, left)
            if self.proj_working(slot0):
                left -= step
            else:
                step = slot0 + G - t
            t += step
        return t

    def work_seconds(self, fid, t0, t1):
        """declared working seconds in [t0, t1) (minute granularity: .tjp times have minute precision)"""
        n = 0
        t = t0
        while t < t1:
            step = min(60 - t % 60, t1 - t)
            if self.working(fid, t):
                n += step
            t += step
        return n
