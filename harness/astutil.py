"""Helpers over the project AST (plain dicts): flattening, units, intended semantics of references."""
import re
from fractions import Fraction

EFFORT_MULT = {"d": 8, "w": 40, "h": 1, "m": Fraction(1, 60), "y": 2080, "min": Fraction(1, 60)}
GAP_SECONDS = {"min": 60, "h": 3600, "d": 86400, "w": 7 * 86400, "m": 30 * 86400, "y": 365 * 86400}


def effort_hours(e):
    """exact effort in hours of an AST effort [decimal string, unit]"""
    if not e:
        return Fraction(0)
    return Fraction(e[0]) * EFFORT_MULT[e[1]]


def gap_seconds(g):
    """calendar seconds of a gap duration string like '3h', '20min', '1d'"""
    if not g:
        return 0
    m = re.match(r"(\d+(?:\.\d+)?)(min|h|d|w|m|y)$", g)
    return int(Fraction(m.group(1)) * GAP_SECONDS[m.group(2)])


def limit_hours(s):
    m = re.match(r"(\d+(?:\.\d+)?)(h|d|w|min)$", s)
    v = Fraction(m.group(1))
    return v * {"h": 1, "d": 8, "w": 40, "min": Fraction(1, 60)}[m.group(2)]


def end_of(p):
    n, u = p["dur"]
    if u == "m":
        # `+Nm`: the same day of the month N months later, clamped to the length of that month
        import calendar
        import datetime as _dt
        d0 = _dt.datetime(1970, 1, 1) + _dt.timedelta(seconds=p["start"])
        mm = d0.month - 1 + n
        y, m = d0.year + mm // 12, mm % 12 + 1
        d1 = d0.replace(year=y, month=m, day=min(d0.day, calendar.monthrange(y, m)[1]))
        return int((d1 - _dt.datetime(1970, 1, 1)).total_seconds())
    return p["start"] + n * {"d": 86400, "w": 7 * 86400}[u]


def flat_tasks(p):
    """[(fullId, node, parentFullId|None, depth)] in declaration (creation) order"""
    out = []

    def rec(t, parent, depth):
        fid = t["id"] if parent is None else parent + "." + t["id"]
        out.append((fid, t, parent, depth))
        for c in t.get("children") or []:
            rec(c, fid, depth + 1)
    for t in p.get("tasks") or []:
        rec(t, None, 0)
    return out


def flat_resources(p):
    out = []

    def rec(r, parent):
        fid = r["id"] if parent is None else parent + "." + r["id"]
        out.append((fid, r, parent))
        for c in r.get("children") or []:
            rec(c, fid)
    for r in p.get("resources") or []:
        rec(r, None)
    return out


def scenario_ids(p):
    out = []

    def rec(s, parent):
        out.append((s["id"], parent))
        for c in s.get("children") or []:
            rec(c, s["id"])
    for s in p.get("scenarios") or [{"id": "plan"}]:
        rec(s, None)
    return out


def ancestors(fid):
    parts = fid.split(".")
    return [".".join(parts[:k]) for k in range(len(parts) - 1, 0, -1)]


def is_leaf(t):
    return not (t.get("children") or [])


def all_edges(p):
    """intended dependency edges per task: {taskFullId: [(predFullId, gapSeconds, onstart)]} — own deps,
    deps of every enclosing container, and inverted `precedes` (target gets the edge)."""
    ft = flat_tasks(p)
    own = {fid: [] for fid, *_ in ft}
    for fid, t, par, _ in ft:
        for d in t.get("deps") or []:
            own[fid].append((d["target"], gap_seconds(d.get("gap")), bool(d.get("onstart"))))
    for fid, t, par, _ in ft:
        for d in t.get("prec") or []:
            own[d["target"]].append((fid, gap_seconds(d.get("gap")), bool(d.get("onstart"))))
    alle = {}
    for fid, t, par, _ in ft:
        e = list(own[fid])
        for a in ancestors(fid):
            e += own[a]
        alle[fid] = e
    return own, alle


def glen_seconds(d):
    """working seconds of a dependency's gaplength; a gapduration on the same edge wins (`if gapduration: … elif gaplength:`)"""
    if not d.get("glen") or d.get("gap"):
        return 0
    return int(round(limit_hours(d["glen"]) * 3600))


def len_edges(p):
    """working-time gaps per task: {taskFullId: [(predFullId, workingSeconds, onstart)]} — own edges, those of every
    enclosing container, and inverted `precedes`; only edges with a gaplength and no gapduration"""
    ft = flat_tasks(p)
    own = {fid: [] for fid, *_ in ft}
    for fid, t, par, _ in ft:
        for d in t.get("deps") or []:
            if glen_seconds(d):
                own[fid].append((d["target"], glen_seconds(d), bool(d.get("onstart"))))
        for d in t.get("prec") or []:
            if glen_seconds(d):
                own[d["target"]].append((fid, glen_seconds(d), bool(d.get("onstart"))))
    return {fid: list(own[fid]) + [e for a in ancestors(fid) for e in own[a]] for fid, *_ in ft}


def effective_override(p, t, sid):
    """scenario-specific values of task node `t` in scenario `sid`: own, else inherited from the nearest
    enclosing scenario (nested scenarios inherit from their parent scenario)"""
    par = dict(scenario_ids(p))
    out = {}
    x = sid
    while x is not None:
        for k, v in ((t.get("sc") or {}).get(x, {})).items():
            out.setdefault(k, v)
        x = par.get(x)
    return out
