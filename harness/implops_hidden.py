"""C12 — JSON ops executed inside the implementation's interpreter.

hidden_inventory : static AST scan of the implementation copy for process-global mutable state
hidden_history   : execute a history of ops in THIS interpreter (instrumented), then a probe; return the
                   per-op observations of every hidden component and the probe's output digest
hidden_probe     : the probe alone (used in fresh processes), same digest code
"""
import ast
import hashlib
import io
import json
import os
import re
import shutil
import sys
import tempfile

# --------------------------------------------------------------------------------------- static scan

MUTATORS = {"append", "extend", "update", "add", "pop", "clear", "insert", "remove", "setdefault",
            "popitem", "discard", "sort", "reverse", "appendleft", "__setitem__"}
ENV_CALLS = {("datetime", "now"), ("datetime", "today"), ("datetime", "utcnow"), ("time", "time"),
             ("os", "getpid"), ("os", "getenv"), ("random", "shuffle"), ("random", "random"),
             ("random", "choice"), ("random", "randint"), ("random", "seed"), ("random", "sample"),
             ("secrets", "token_hex"), ("uuid", "uuid4"), ("date", "today"), ("time", "monotonic"),
             ("locale", "setlocale"), ("os", "chdir"), ("os", "umask"), ("time", "tzset")}


def _is_mutable_value(v):
    if v is None:
        return False
    if isinstance(v, (ast.List, ast.Dict, ast.Set, ast.ListComp, ast.DictComp, ast.SetComp)):
        return True
    if isinstance(v, ast.Call):
        f = v.func
        name = f.id if isinstance(f, ast.Name) else (f.attr if isinstance(f, ast.Attribute) else "")
        if name in ("list", "dict", "set", "defaultdict", "OrderedDict", "deque", "Counter", "bytearray",
                    "WeakValueDictionary", "WeakKeyDictionary", "WeakSet", "Lock", "RLock", "local"):
            return True
    return False


IMMUTABLE_CTORS = {"TypeVar", "ParamSpec", "Path", "PurePath", "Fraction", "Decimal", "NamedTuple", "Enum", "Final", "Literal",
                   "Optional", "Union", "Callable", "Pattern", "ZoneInfo"}


def _is_instance_value(v):
    """`Name(...)` / `mod.Name(...)` with a capitalised callee: an instance of a class (constructors of immutable values excepted)"""
    if not isinstance(v, ast.Call):
        return False
    f = v.func
    name = f.id if isinstance(f, ast.Name) else (f.attr if isinstance(f, ast.Attribute) else "")
    return bool(name) and name[0].isupper() and not name.isupper() and name not in IMMUTABLE_CTORS


class _Scan(ast.NodeVisitor):
    """one module: collect class-level / module-level state and every place that rebinds or mutates it"""

    def __init__(self, rel):
        self.rel = rel
        self.items = {}        # id -> {"kind":..., "writers": set()}
        self.classes = {}      # class name -> {attr: value-node}
        self.modvars = {}      # module var -> value-node
        self.stack = []        # enclosing (kind, name)
        self.instance_attrs = {}   # class -> attrs assigned as self.X = ...

    def _add(self, ident, kind, writer=None):
        it = self.items.setdefault(ident, {"kind": kind, "writers": set()})
        order = ["constant-table", "import-const", "mutable-container", "rebound-at-runtime"]
        if kind in order and it["kind"] in order and order.index(kind) > order.index(it["kind"]):
            it["kind"] = kind
        if writer:
            it["writers"].add(writer)

    def _where(self):
        return ".".join(n for _, n in self.stack) or "<module>"

    def _in_func(self):
        return any(k == "def" for k, _ in self.stack)

    def _cur_class(self):
        for k, n in reversed(self.stack):
            if k == "class":
                return n
        return None

    def visit_ClassDef(self, node):
        self.classes.setdefault(node.name, {})
        for b in node.body:
            tg = []
            val = None
            if isinstance(b, ast.Assign):
                tg, val = b.targets, b.value
            elif isinstance(b, ast.AnnAssign):
                tg, val = [b.target], b.value
            for t in tg:
                if isinstance(t, ast.Name):
                    self.classes[node.name][t.id] = val
        self.stack.append(("class", node.name))
        self.generic_visit(node)
        self.stack.pop()

    def _visit_func(self, node):
        for d in node.decorator_list:
            s = ast.unparse(d)
            if "cache" in s:
                self._add(f"{self.rel}:{self._where()}.{node.name}@{s}", "cache-decorator")
        for a in list(node.args.defaults) + [x for x in node.args.kw_defaults if x is not None]:
            if _is_mutable_value(a):
                self._add(f"{self.rel}:{self._where()}.{node.name}(default {ast.unparse(a)[:30]})", "mutable-default")
        self.stack.append(("def", node.name))
        self.generic_visit(node)
        self.stack.pop()

    visit_FunctionDef = _visit_func
    visit_AsyncFunctionDef = _visit_func

    def visit_Global(self, node):
        for n in node.names:
            self._add(f"{self.rel}:{n}", "rebound-at-runtime", self._where())

    def _target(self, t, aug=False):
        # cls.X = / ClassName.X = inside a function : runtime rebinding of a class variable
        if isinstance(t, ast.Attribute) and isinstance(t.value, ast.Name) and self._in_func():
            base = t.value.id
            if base == "cls" and self._cur_class():
                self._add(f"{self.rel}:{self._cur_class()}.{t.attr}", "rebound-at-runtime", self._where())
            elif base in self.classes or (base[:1].isupper() and base != "self"):
                self._pending_clswrite.append((base, t.attr, self._where()))
            elif base == "self" and self._cur_class():
                self.instance_attrs.setdefault(self._cur_class(), set()).add(t.attr)
        # X[...] = on a class/module container
        if isinstance(t, ast.Subscript):
            self._mutation(t.value, "[]=")
        if isinstance(t, (ast.Tuple, ast.List)):
            for e in t.elts:
                self._target(e)

    def _mutation(self, obj, how):
        # cls.X / ClassName.X / self.X (class-level container) / module var
        if isinstance(obj, ast.Attribute) and isinstance(obj.value, ast.Name):
            base, attr = obj.value.id, obj.attr
            self._pending_mut.append((base, attr, self._cur_class(), self._where(), how))
        elif isinstance(obj, ast.Name) and self._in_func():
            self._pending_modmut.append((obj.id, self._where(), how))
        elif isinstance(obj, ast.Name) and not self._in_func() and not self._cur_class():
            self._pending_modmut.append((obj.id, "<module>", how))

    def visit_Assign(self, node):
        for t in node.targets:
            self._target(t)
        self.generic_visit(node)

    def visit_AnnAssign(self, node):
        if node.value is not None:
            self._target(node.target)
        self.generic_visit(node)

    def visit_AugAssign(self, node):
        self._target(node.target, True)
        self.generic_visit(node)

    def visit_Delete(self, node):
        for t in node.targets:
            if isinstance(t, ast.Subscript):
                self._mutation(t.value, "del[]")
        self.generic_visit(node)

    def visit_Call(self, node):
        f = node.func
        if isinstance(f, ast.Attribute):
            if f.attr in MUTATORS:
                self._mutation(f.value, "." + f.attr)
            if isinstance(f.value, ast.Name) and (f.value.id, f.attr) in ENV_CALLS:
                self._add(f"{self.rel}:{self._where()}:{f.value.id}.{f.attr}()", "environment-read")
            if isinstance(f.value, ast.Attribute) and isinstance(f.value.value, ast.Name) and \
                    (f.value.attr, f.attr) in ENV_CALLS:
                self._add(f"{self.rel}:{self._where()}:{f.value.attr}.{f.attr}()", "environment-read")
            # logging.getLogger().setLevel(...) : the stdlib's process-global logger tree
            if f.attr in ("setLevel", "addHandler", "basicConfig", "removeHandler", "disable") and "logging" in ast.unparse(f.value):
                self._add(f"{self.rel}:{self._where()}:{ast.unparse(f)[:50]}", "stdlib-global-write")
            if f.attr == "basicConfig" and isinstance(f.value, ast.Name) and f.value.id == "logging":
                self._add(f"{self.rel}:{self._where()}:logging.basicConfig", "stdlib-global-write")
        self.generic_visit(node)

    def visit_Attribute(self, node):
        if isinstance(node.value, ast.Name) and node.value.id == "os" and node.attr == "environ":
            self._add(f"{self.rel}:{self._where()}:os.environ", "environment-read")
        if isinstance(node.value, ast.Name) and node.value.id == "sys" and node.attr in ("argv", "path", "modules"):
            if isinstance(getattr(node, "ctx", None), ast.Store):
                self._add(f"{self.rel}:{self._where()}:sys.{node.attr}", "stdlib-global-write")
        self.generic_visit(node)

    def run(self, tree):
        self._pending_clswrite, self._pending_mut, self._pending_modmut = [], [], []
        # module-level variables
        for node in tree.body:
            nodes = [node]
            if isinstance(node, (ast.Try, ast.If)):
                nodes = [n for n in ast.walk(node) if isinstance(n, (ast.Assign, ast.AnnAssign))]
                in_try = True
            else:
                in_try = False
            for n in nodes:
                tg, val = [], None
                if isinstance(n, ast.Assign):
                    tg, val = n.targets, n.value
                elif isinstance(n, ast.AnnAssign):
                    tg, val = [n.target], n.value
                for t in tg:
                    if isinstance(t, ast.Name) and not (t.id.startswith("__") and t.id.endswith("__")):
                        self.modvars[t.id] = val
                        if in_try and isinstance(val, ast.Constant):
                            self._add(f"{self.rel}:{t.id}", "import-const")
                        elif _is_mutable_value(val):
                            self._add(f"{self.rel}:{t.id}", "constant-table")
                        elif _is_instance_value(val):
                            # an object built once at import time and shared by every later call (a parser, a processor, a
                            # registry): whatever it remembers outlives the run that taught it
                            self._add(f"{self.rel}:{t.id}", "module-instance")
        self.visit(tree)
        # class-level containers
        for c, attrs in self.classes.items():
            for a, v in attrs.items():
                if _is_mutable_value(v) and a != "__slots__":
                    self._add(f"{self.rel}:{c}.{a}", "constant-table")
        for base, attr, w in self._pending_clswrite:
            if base in self.classes:
                self._add(f"{self.rel}:{base}.{attr}", "rebound-at-runtime", w)
            else:
                self._add(f"{self.rel}:{base}.{attr}", "rebound-at-runtime", w)   # class of another module
        for base, attr, cur, w, how in self._pending_mut:
            cls = None
            if base == "cls":
                cls = cur
            elif base in self.classes:
                cls = base
            elif base == "self" and cur and attr in self.classes.get(cur, {}) and attr not in self.instance_attrs.get(cur, set()):
                cls = cur      # self.X.append(...) where X exists only at class level: shared between instances
            if cls and attr in self.classes.get(cls, {}):
                self._add(f"{self.rel}:{cls}.{attr}", "mutable-container", f"{w} {how}")
        for name, w, how in self._pending_modmut:
            if name in self.modvars and f"{self.rel}:{name}" in self.items or (name in self.modvars and _is_mutable_value(self.modvars[name])):
                self._add(f"{self.rel}:{name}", "mutable-container" if w != "<module>" else "import-const", f"{w} {how}")
        return self.items


PYX_GLOBAL = re.compile(r"^(cdef\s+(?!class|inline|extern|struct|enum|public|api)[\w\[\]\* ]+\s+\w+\s*(=|$)|[A-Za-z_]\w*\s*=)")


def scan_tree(root):
    """-> sorted list of [id, kind, writers] for every piece of process-global state found under `root`"""
    out = {}
    for dp, dn, fn in os.walk(root):
        dn[:] = sorted(d for d in dn if d != "__pycache__")
        for f in sorted(fn):
            p = os.path.join(dp, f)
            rel = os.path.relpath(p, root)
            if f.endswith(".py"):
                try:
                    tree = ast.parse(open(p, encoding="utf-8").read())
                except SyntaxError as e:
                    out[f"{rel}:<unparsable>"] = {"kind": "unparsable", "writers": {str(e)[:60]}}
                    continue
                for k, v in _Scan(rel).run(tree).items():
                    out[k] = v
            elif f.endswith(".pyx"):
                for n, line in enumerate(open(p, encoding="utf-8").read().split("\n"), 1):
                    if PYX_GLOBAL.match(line) and not line.startswith(("cdef class", "cdef inline", "cdef extern")):
                        out[f"{rel}:{line.split('=')[0].strip()[:40]}"] = {"kind": "pyx-module-global", "writers": set()}
    return [[k, v["kind"], sorted(v["writers"])] for k, v in sorted(out.items())]


def hidden_inventory(req):
    import scriptplan
    root = os.path.dirname(os.path.abspath(scriptplan.__file__))
    return {"items": scan_tree(root)}


# --------------------------------------------------------------------------------------- observation

def _imp():
    from scriptplan.core.property import AttributeBase, ListAttributeBase
    from scriptplan.utils.data_cache import DataCache
    from scriptplan.utils.message_handler import MessageHandlerInstance
    from scriptplan.utils.time import TjTime
    from scriptplan.utils.logger import Log
    return AttributeBase, ListAttributeBase, DataCache, MessageHandlerInstance, TjTime, Log


def snapshot():
    """value of every hidden component of the model's inventory, canonical"""
    AttributeBase, _L, DataCache, MHI, TjTime, Log = _imp()
    mh = MHI._instance
    import logging
    return {
        "mode": AttributeBase._mode,
        "cacheInst": DataCache._instance is not None,
        "cacheLen": 0 if DataCache._instance is None else len(DataCache._instance._cache),
        "mhInst": mh is not None,
        "msgs": 0 if mh is None or not getattr(mh, "_initialized", False) else len(mh._messages),
        "errors": 0 if mh is None or not getattr(mh, "_initialized", False) else mh._errors,
        "mhCfg": None if mh is None or not getattr(mh, "_initialized", False) else
        [mh._output_level, mh._log_level, mh._log_file, mh._hide_scenario, mh._app_name, mh._abort_on_warning,
         len(mh._baseline_sfi), len(mh._trap_setup)],
        "tz": TjTime._tz,
        "log": [Log._level, list(Log._stack), list(Log._segments), Log._silent, Log._progress, Log._progressMeter,
                Log._instance is not None],
        "rootLogLevel": logging.getLogger().level,
    }


class ModeTrace:
    """wraps setMode / mode / every `set` that reads the mode; records the order of reads and writes"""

    def __init__(self):
        self.events = []
        self.installed = False

    def install(self):
        if self.installed:
            return
        AttributeBase, ListAttributeBase = _imp()[:2]
        tr = self
        self.saved = []
        orig_setMode = AttributeBase.__dict__["setMode"].__func__
        orig_mode = AttributeBase.__dict__["mode"].__func__

        def setMode(cls, m):
            tr.events.append(("w", m))
            return orig_setMode(cls, m)

        def mode(cls):
            tr.events.append(("r", "mode()", AttributeBase._mode))
            return orig_mode(cls)
        self.saved.append((AttributeBase, "setMode", AttributeBase.__dict__["setMode"]))
        self.saved.append((AttributeBase, "mode", AttributeBase.__dict__["mode"]))
        AttributeBase.setMode = classmethod(setMode)
        AttributeBase.mode = classmethod(mode)
        TjTime = _imp()[4]
        orig_tz = TjTime.__dict__["timeZone"].__func__

        def timeZone(cls):
            tr.events.append(("tz",))
            return orig_tz(cls)
        self.saved.append((TjTime, "timeZone", TjTime.__dict__["timeZone"]))
        TjTime.timeZone = classmethod(timeZone)
        seen = set()
        todo = [AttributeBase]
        while todo:
            c = todo.pop()
            if c in seen:
                continue
            seen.add(c)
            todo.extend(c.__subclasses__())
            if "set" in c.__dict__:
                orig = c.__dict__["set"]

                def make(orig):
                    def set_(self_, value):
                        try:
                            aid = self_._type.id
                        except Exception:  # noqa: BLE001
                            aid = "?"
                        tr.events.append(("r", aid, AttributeBase._mode))
                        return orig(self_, value)
                    return set_
                self.saved.append((c, "set", orig))
                setattr(c, "set", make(orig))
        self.installed = True

    def uninstall(self):
        for c, n, o in reversed(getattr(self, "saved", [])):
            setattr(c, n, o)
        self.installed = False

    def take(self):
        ev, self.events = self.events, []
        writes = [e[1] for e in ev if e[0] == "w"]
        rbw = []          # attribute ids whose set() read the mode before the first write of this op
        for e in ev:
            if e[0] == "w":
                break
            rbw.append(e[1])
        ids = []
        for e in ev:
            if e[0] == "r" and e[1] != "mode()" and e[1] not in ids:
                ids.append(e[1])
        return {"writes": _compress(writes), "readsBeforeWrite": sorted(set(rbw)), "nReads": sum(1 for e in ev if e[0] == "r"),
                "readValues": sorted({e[2] for e in ev if e[0] == "r"}), "attrIds": ids,
                "modeCalls": sum(1 for e in ev if e[0] == "r" and e[1] == "mode()"),
                "indexSets": sum(1 for e in ev if e[0] == "r" and e[1] == "index"),
                "tzReads": sum(1 for e in ev if e[0] == "tz"),
                "instrumented": self.installed}


def _compress(ws):
    """[0,1,2,1,2] stays; long runs of identical (1,2) pairs are kept (one pair per scenario)"""
    return ws


# --------------------------------------------------------------------------------------- digest

def _iso(d):
    if d is None:
        return None
    try:
        return d.strftime("%Y-%m-%dT%H:%M:%S")
    except AttributeError:
        return str(d)


def _num(x):
    if isinstance(x, float):
        return round(x, 6)
    return x


def _tid(t):
    return getattr(t, "fullId", None) or str(t)


def digest(project, with_reports=True, outdir=None):
    """every observable result of a run: task dates/flags per scenario, resource ledgers, limit counters,
    every report's cells (intermediate table, json, csv and the generated files' bytes)"""
    from scriptplan.core.task import Task
    res = {"tasks": {}, "ledger": {}, "reports": {}, "internal": {}, "project": {}}
    nsc = len(list(project.scenarios))
    res["project"] = {"start": _iso(project["start"]), "end": _iso(project["end"]), "nsc": nsc,
                      "timezone": str(project["timezone"]), "resolution": project["scheduleGranularity"],
                      "scen": [[s.fullId, bool(s.get("active"))] for s in project.scenarios]}
    # every plain project attribute except the wall-clock one (`now` is an environment input)
    from datetime import datetime as _dt
    for k, v in sorted(project.attributes.items()):
        if k == "now":
            continue
        if isinstance(v, (str, int, float, bool, type(None))):
            res["project"]["attr:" + k] = _num(v)
        elif isinstance(v, _dt):
            res["project"]["attr:" + k] = _iso(v)
        elif isinstance(v, (list, tuple, dict)):
            res["project"]["attr:" + k] = len(v)
    for sc in range(nsc):
        for t in project.tasks:
            res["tasks"][f"{sc}:{t.fullId}"] = [_iso(t.get("start", sc)), _iso(t.get("end", sc)), bool(t.get("scheduled", sc)),
                                               t.get("forward", sc), _num(t.get("effort", sc)), t.get("priority", sc),
                                               bool(t.get("milestone", sc)), sorted(_tid(d.get("task") if isinstance(d, dict) else d) for d in (t.get("depends", sc) or []))]
            ts = t.data[sc] if t.data else None
            if ts is not None:
                res["internal"][f"{sc}:{t.fullId}"] = [bool(getattr(ts, "scheduled", False)), bool(getattr(ts, "isRunAway", False)),
                                                      getattr(ts, "currentSlotIdx", None), _num(getattr(ts, "doneEffort", None))]
                lim = t.get("limits", sc)
                if lim is not None and hasattr(lim, "limits"):
                    res["ledger"][f"{sc}:tasklimits:{t.fullId}"] = [[type(l).__name__, getattr(l, "name", None), list(getattr(l, "_scoreboard", []))] for l in lim.limits]
        for r in project.resources:
            rs = r.data[sc] if r.data else None
            if rs is None:
                continue
            marks = []
            if rs.scoreboard is not None:
                for i in range(rs.scoreboard.size):
                    v = rs.scoreboard[i]
                    if isinstance(v, Task):
                        marks.append([i, v.fullId])
                    elif v not in (None, 2):
                        marks.append([i, v])
            lim = r.get("limits", sc)
            res["ledger"][f"{sc}:{r.fullId}"] = {
                "used": sorted([i, _num(s)] for i, s in rs.slotSecondsUsed.items()),
                "usage": sorted([i, [[_tid(t), _num(s)] for t, s in lst]] for i, lst in rs.slotTaskUsage.items()),
                "effort": _num(rs.bookedEffort()), "marks": marks,
                "first": rs.firstBookedSlot, "last": rs.lastBookedSlot,
                "firsts": sorted([_tid(t), i] for t, i in rs.firstBookedSlots.items()),
                "lasts": sorted([_tid(t), i] for t, i in rs.lastBookedSlots.items()),
                "duties": [_tid(t) for t in (r.get("duties", sc) or [])],
                "limits": None if lim is None or not hasattr(lim, "limits") else
                [[type(l).__name__, list(getattr(l, "_scoreboard", []))] for l in lim.limits],
            }
    if with_reports:
        from scriptplan.report import ReportContext
        tmp = tempfile.mkdtemp(prefix="c12rep-", dir=outdir)
        old_out = project.outputDir
        project.outputDir = tmp
        try:
            for rep in project.reports:
                key = rep.fullId
                ctx = ReportContext(project, rep)
                ctx.push()
                try:
                    try:
                        rc = rep.generate()
                        entry = {"rc": rc, "json": rep.to_json(), "csv": rep.to_csv()}
                    except SystemExit as e:
                        entry = {"exit": str(e.code)}
                    except Exception as e:  # noqa: BLE001 - the error class is the observable
                        entry = {"error": type(e).__name__, "msg": str(e)[:200]}
                finally:
                    ctx.pop()
                res["reports"][key] = json.loads(json.dumps(entry, sort_keys=True, default=str))
            files = {}
            for dp, dn, fn in os.walk(tmp):
                for f in sorted(fn):
                    p = os.path.join(dp, f)
                    files[os.path.relpath(p, tmp)] = hashlib.sha256(open(p, "rb").read()).hexdigest()
            res["reports"]["<files>"] = files
        finally:
            project.outputDir = old_out
            shutil.rmtree(tmp, ignore_errors=True)
    return res


def dsha(d, sections=("project", "tasks", "ledger", "reports")):
    return hashlib.sha256(json.dumps({k: d[k] for k in sections}, sort_keys=True, default=str).encode()).hexdigest()[:24]


def first_diff(a, b, path=""):
    if type(a) is not type(b):
        return f"{path}: {str(a)[:80]} != {str(b)[:80]}"
    if isinstance(a, dict):
        for k in sorted(set(a) | set(b)):
            if k not in a or k not in b:
                return f"{path}/{k}: only on one side ({str(a.get(k))[:60]} | {str(b.get(k))[:60]})"
            d = first_diff(a[k], b[k], f"{path}/{k}")
            if d:
                return d
        return None
    if isinstance(a, list):
        if len(a) != len(b):
            return f"{path}: length {len(a)} != {len(b)} ({str(a)[:70]} | {str(b)[:70]})"
        for i, (x, y) in enumerate(zip(a, b)):
            d = first_diff(x, y, f"{path}[{i}]")
            if d:
                return d
        return None
    return None if a == b else f"{path}: {str(a)[:80]} != {str(b)[:80]}"


# --------------------------------------------------------------------------------------- ops

def _msg_count():
    MHI = _imp()[3]
    mh = MHI._instance
    return 0 if mh is None or not getattr(mh, "_initialized", False) else len(mh._messages)


def _msg_ids(start):
    MHI = _imp()[3]
    mh = MHI._instance
    if mh is None or not getattr(mh, "_initialized", False):
        return []
    return [m.id for m in mh._messages[start:]]


def scen_warns(marks, start_count):
    """per pass of the scenario loop: ids of the messages emitted between `prepare` and the end of that pass"""
    out = []
    cur = None
    for tag, cnt in marks:
        if tag == "prepare":
            cur = cnt
        elif tag in ("finish-done",) and cur is not None:
            out.append(_msg_ids(cur)[: cnt - cur])
            cur = None
    if cur is not None:
        out.append(_msg_ids(cur))
    return out


def features(proj, mode_rec, marks, text=None):
    """what the state machine needs to know about a text (see Model/Hidden.lean: TextAbs)"""
    f = {"lexOk": True, "attrs": [a for a in mode_rec.get("attrIds", []) if a not in ("bsi", "index")],
         "rootInits": mode_rec.get("modeCalls", 0)}
    if proj is not None:
        f["nres"] = len(list(proj.resources))
        f["props"] = len(list(proj.accounts)) + len(list(proj.shifts)) + len(list(proj.resources)) + len(list(proj.tasks))
        f["hasTasks"] = not proj.tasks.empty()
        nact = sum(1 for s in proj.scenarios if s.get("active") or s.get("active") is None)
        sw = scen_warns(marks, 0)
        f["scens"] = [(sw[i] if i < len(sw) else []) for i in range(nact)]
        f["nscAll"] = len(list(proj.scenarios))
    if text is not None:
        f["reportSets"] = 1 if re.search(r"^(taskreport|resourcereport)\b", text, re.M) else 0
    return f


class _Injected(Exception):
    """fault injected by the harness at an abstract point of a run (models an arbitrary exception there)"""


class Session:
    """one interpreter-wide session: retained projects, shared parser, trace"""

    def __init__(self):
        self.slots = {}
        self.parser = None
        self.trace = ModeTrace()
        self.phase = []
        self.marks = []

    def get_parser(self, new):
        from scriptplan.parser.tjp_parser import ProjectFileParser
        if new or self.parser is None:
            p = ProjectFileParser()
            if not new:
                self.parser = p
            return p
        return self.parser

    # phase markers: which abstract point of a run was reached (the model's `failure point`)
    def install_phase(self, inject=None, inject_n=0):
        from scriptplan.core.project import Project
        from scriptplan.parser import tjp_parser
        sess = self
        saved = []
        seen = {}

        def hit(tag):
            sess.phase.append(tag)
            sess.marks.append([tag, _msg_count()])
            if inject == tag:
                seen[tag] = seen.get(tag, 0) + 1
                if seen[tag] - 1 == inject_n:
                    raise _Injected(tag)

        def wrap(cls, name, tag):
            orig = cls.__dict__[name]

            def w(self_, *a, **k):
                hit(tag)
                r = orig(self_, *a, **k)
                hit(tag + "-done")
                return r
            saved.append((cls, name, orig))
            setattr(cls, name, w)
        wrap(Project, "__init__", "new")
        wrap(Project, "schedule", "schedule")
        wrap(Project, "prepareScenario", "prepare")
        wrap(Project, "scheduleScenario", "scheduleScenario")
        wrap(Project, "finishScenario", "finish")
        wrap(tjp_parser.ModelBuilder, "build", "build")
        return saved

    @staticmethod
    def uninstall(saved):
        for cls, name, orig in reversed(saved):
            setattr(cls, name, orig)


_SESSION = None


def session():
    global _SESSION
    if _SESSION is None:
        _SESSION = Session()
    return _SESSION


def _quiet():
    """stderr of the implementation (warnings are printed there) is captured, and its length reported"""
    return io.StringIO()


def run_op(sess, op, outdir):
    """execute one op; returns the observation record"""
    import contextlib
    k = op["k"]
    before = snapshot()
    sess.phase = []
    sess.marks = []
    msgs0 = _msg_count()
    saved = sess.install_phase(op.get("inject"), op.get("injectN", 0))
    sess.trace.install()
    sess.trace.take()
    err = _quiet()
    rec = {"k": k}
    exc = None
    proj = None
    dig = None
    try:
        with contextlib.redirect_stderr(err):
            if k in ("run", "parse"):
                parser = sess.get_parser(op.get("newparser", False))
                proj = parser.parse(op["text"], schedule=(k == "run"))
                if op.get("keep") is not None:
                    sess.slots[op["keep"]] = proj
            elif k == "sched":
                proj = sess.slots.get(op["slot"])
                if proj is None:
                    rec["skipped"] = True
                else:
                    proj.schedule()
            elif k == "report":
                proj = sess.slots.get(op["slot"])
                if proj is None:
                    rec["skipped"] = True
                else:
                    dig = digest(proj, True, outdir)
            elif k == "api":
                # a project built through the API and abandoned half-way (no schedule)
                from datetime import datetime
                from scriptplan.core.project import Project
                from scriptplan.core.resource import Resource
                from scriptplan.core.task import Task
                proj = Project("api", "Api", "1")
                proj["start"] = datetime(2025, 3, 3)
                proj["end"] = datetime(2025, 3, 17)
                Resource(proj, "ar", "AR", None)
                t = Task(proj, "at", "AT", None)
                t[("effort", 0)] = 5
                if op.get("keep") is not None:
                    sess.slots[op["keep"]] = proj
            else:
                raise ValueError("unknown op " + k)
    except _Injected as e:
        exc = "Injected"
        rec["at"] = str(e)
    except SystemExit as e:
        exc = "SystemExit"
    except Exception as e:  # noqa: BLE001 - the class is the observable
        exc = type(e).__name__
        rec["msg"] = str(e)[:160]
    finally:
        Session.uninstall(saved)
    rec["exc"] = exc
    rec["phase"] = sess.phase[:]
    rec["mode"] = sess.trace.take()
    rec["before"] = before
    rec["after"] = snapshot()
    rec["stderrLines"] = err.getvalue().count("\n")
    rec["newMsgs"] = _msg_ids(msgs0)
    rec["marks"] = [[t, c - msgs0] for t, c in sess.marks]
    rec["passWarns"] = scen_warns(sess.marks, msgs0)
    try:
        rec["feat"] = features(proj if (k in ("run", "parse", "api")) else None, rec["mode"], sess.marks, op.get("text"))
        if exc is not None:
            rec["feat"]["scensPartial"] = scen_warns(sess.marks, msgs0)
    except Exception as e:  # noqa: BLE001
        rec["featError"] = repr(e)[:200]
    if dig is not None:
        rec["sha"] = dsha(dig)
    return rec, proj


def cli_inprocess(text, outdir):
    """the programmatic entry point (`run_scriptplan`: what `plan report` calls) on the same text, in THIS interpreter:
    [success flag, generated files with the hash of their bytes] - a healthy project must fare the same whatever ran before"""
    import contextlib
    import shutil
    from scriptplan.cli.main import run_scriptplan
    tmp = tempfile.mkdtemp(prefix="c12cli-", dir=outdir)
    try:
        path = os.path.join(tmp, "probe.tjp")
        with open(path, "w", encoding="utf-8") as f:
            f.write(text)
        od = os.path.join(tmp, "out")
        os.makedirs(od)
        with contextlib.redirect_stdout(io.StringIO()), contextlib.redirect_stderr(io.StringIO()):
            try:
                ok, _msg = run_scriptplan(path, od)
            except SystemExit as e:
                ok = f"SystemExit({e.code})"
            except Exception as e:  # noqa: BLE001
                ok = type(e).__name__
        files = []
        for root, _d, fs in os.walk(od):
            for fn in sorted(fs):
                with open(os.path.join(root, fn), "rb") as f:
                    files.append([os.path.relpath(os.path.join(root, fn), od), hashlib.sha256(f.read()).hexdigest()[:16]])
        return [ok if isinstance(ok, str) else bool(ok), sorted(files)]
    finally:
        shutil.rmtree(tmp, ignore_errors=True)


def probe(sess, text, again, outdir, newparser=True, keep_struct=True):
    """the run whose output is the subject of C12: parse(+schedule), reports, then `again` further schedule() calls
    with a digest after each"""
    import contextlib
    out = {"digests": [], "shas": []}
    before = snapshot()
    sess.trace.install()
    sess.trace.take()
    err = _quiet()
    try:
        with contextlib.redirect_stderr(err):
            parser = sess.get_parser(newparser)
            sess.marks = []
            msgs0 = _msg_count()
            saved = sess.install_phase(None)
            try:
                proj = parser.parse(text)
            finally:
                Session.uninstall(saved)
            out["modeRun"] = sess.trace.take()
            out["stderrRun"] = err.getvalue()
            out["newMsgs"] = _msg_ids(msgs0)
            out["feat"] = features(proj, out["modeRun"], sess.marks, text)
            d = digest(proj, True, outdir)
            out["modeReport"] = sess.trace.take()
            out["digests"].append(d)
            for _ in range(again):
                m0 = _msg_count()
                proj.schedule()
                ma = sess.trace.take()
                ma["newMsgs"] = _msg_ids(m0)
                ma["after"] = snapshot()
                out.setdefault("modeAgain", []).append(ma)
                out["digests"].append(digest(proj, True, outdir))
                sess.trace.take()
            out["cli"] = cli_inprocess(text, outdir)
            sess.trace.take()
    except SystemExit:
        out["exc"] = "SystemExit"
    except Exception as e:  # noqa: BLE001
        out["exc"] = type(e).__name__
        out["msg"] = str(e)[:160]
    out["before"] = before
    out["after"] = snapshot()
    out["stderrLines"] = err.getvalue().count("\n")
    out["shas"] = [dsha(d) for d in out["digests"]]
    out["internalShas"] = [dsha(d, ("internal",)) for d in out["digests"]]
    if not keep_struct:
        out["digests"] = out["digests"][:1]
    try:
        out["unscheduled"] = sum(1 for k, v in out["digests"][0]["tasks"].items() if not v[2]) if out["digests"] else None
        out["ntasks"] = len(out["digests"][0]["tasks"]) if out["digests"] else 0
        out["nsc"] = out["digests"][0]["project"]["nsc"] if out["digests"] else 0
    except Exception:  # noqa: BLE001
        pass
    return out


_CONST_IDS = None


def constants_state():
    """repr of every class-level / module-level container the static scan classifies as a constant table (no mutation site
    found): the runtime guard of that classification — a table whose repr changes during a history is state, not a constant"""
    global _CONST_IDS
    import importlib
    import scriptplan
    if _CONST_IDS is None:
        root = os.path.dirname(os.path.abspath(scriptplan.__file__))
        _CONST_IDS = [a for a, k, _w in scan_tree(root) if k == "constant-table"]
    out = {}
    for ident in _CONST_IDS:
        rel, path = ident.split(":", 1)
        try:
            obj = importlib.import_module("scriptplan." + rel[:-3].replace(os.sep, ".").replace("/", "."))
            for part in path.split("."):
                obj = getattr(obj, part)
        except Exception:  # noqa: BLE001  (optional module, attribute of a nested scope)
            continue
        if isinstance(obj, (dict, list, set, frozenset, tuple)):
            out[ident] = hashlib.sha256(repr(obj).encode("utf-8", "replace")).hexdigest()[:16]
    return out


def hidden_history(req):
    """{"ops": [...], "probe": text, "again": n, "instrument": bool}"""
    sess = session()
    outdir = req.get("outdir") or None
    recs = []
    consts0 = constants_state()
    if not req.get("instrument", True):
        sess.trace.uninstall()
    for op in req.get("ops", []):
        rec, _ = run_op(sess, op, outdir)
        recs.append(rec)
    pr = probe(sess, req["probe"], req.get("again", 2), outdir, newparser=req.get("newparser", True),
               keep_struct=req.get("struct", True))
    sess.trace.uninstall()
    consts1 = constants_state()
    return {"ops": recs, "probe": pr, "pid": os.getpid(), "hashseed": os.environ.get("PYTHONHASHSEED"),
            "hashprobe": hash("scriptplan") & 0xFFFF, "constants": len(consts1),
            "constants_changed": sorted(k for k in consts1 if consts0.get(k) != consts1[k])}


def hidden_probe(req):
    """probe only, no instrumentation at all (the reference run in a fresh process)"""
    import contextlib
    from scriptplan.parser.tjp_parser import ProjectFileParser
    out = {"pid": os.getpid(), "hashseed": os.environ.get("PYTHONHASHSEED"), "hashprobe": hash("scriptplan") & 0xFFFF}
    err = _quiet()
    try:
        with contextlib.redirect_stderr(err):
            proj = ProjectFileParser().parse(req["probe"])
            out["stderrRun"] = err.getvalue()
            ds = [digest(proj, True, req.get("outdir"))]
            for _ in range(req.get("again", 0)):
                proj.schedule()
                ds.append(digest(proj, True, req.get("outdir")))
        out["digests"] = ds if req.get("struct", True) else ds[:1]
        out["shas"] = [dsha(d) for d in ds]
        with contextlib.redirect_stderr(err):
            out["cli"] = cli_inprocess(req["probe"], req.get("outdir"))
    except SystemExit:
        out["exc"] = "SystemExit"
    except Exception as e:  # noqa: BLE001
        out["exc"] = type(e).__name__
        out["msg"] = str(e)[:160]
    out["stderrLines"] = err.getvalue().count("\n")
    out["snapshot"] = snapshot()
    return out


def hidden_diff(req):
    return {"diff": first_diff(req["a"], req["b"])}


JOPS = {"hidden_inventory": hidden_inventory, "hidden_history": hidden_history, "hidden_probe": hidden_probe,
        "hidden_diff": hidden_diff}
