"""Direct in-process schedule of a project text (stdin, UTF-8): prints the id/start/end rows the
auto report of `plan report` must contain, as JSON.  Run in a fresh interpreter per text (no
process-global state is shared with anything else)."""
import json
import sys


def main():
    text = sys.stdin.buffer.read().decode("utf-8")
    from scriptplan.parser.tjp_parser import ProjectFileParser
    project = ProjectFileParser().parse(text)        # parse() schedules the project
    rows = []
    for t in project.tasks:
        def fmt(v):
            return v.strftime("%Y-%m-%d-%H:%M") if v is not None else ""
        rows.append([t.fullId, fmt(t.get("start", 0)), fmt(t.get("end", 0))])
    sys.stdout.write(json.dumps(rows))


if __name__ == "__main__":
    try:
        main()
    except Exception as e:                              # noqa: BLE001
        sys.stdout.write(json.dumps({"error": "%s: %s" % (type(e).__name__, str(e)[:200])}))
