"""Build the implementation under test: a scratch copy of /repo's *current working tree*.

native/  : sources + Cython extensions re-cythonised and compiled from the .pyx found there
pure/    : the same sources without any compiled extension (ImportError fallbacks)

The scratch directory lives outside /repo and /verif and is removed by `cleanup()` (also atexit).
"""
import atexit
import os
import shutil
import subprocess
import sys
import tempfile

REPO = os.environ.get("VERIF_REPO", "/repo")
PY = os.environ.get("VERIF_IMPL_PYTHON", "/venv/bin/python")


class ImplBuild:
    def __init__(self):
        base = os.environ.get("VERIF_SCRATCH_BASE") or os.environ.get("XDG_RUNTIME_DIR") or "/var/tmp"
        os.makedirs(base, exist_ok=True)
        self.root = tempfile.mkdtemp(prefix="spverif-impl-", dir=base)
        self.native = os.path.join(self.root, "native")
        self.pure = os.path.join(self.root, "pure")
        self.native_ok = False
        self.build_log = ""
        atexit.register(self.cleanup)

    def build(self):
        ign = shutil.ignore_patterns("*.so", "__pycache__", "*.pyc", "*.c", "build")
        for d in (self.native, self.pure):
            os.makedirs(d)
            shutil.copytree(os.path.join(REPO, "scriptplan"), os.path.join(d, "scriptplan"), ignore=ign)
        shutil.copy(os.path.join(REPO, "setup.py"), self.native)
        for f in ("pyproject.toml", "README.md", "MANIFEST.in", "LICENSE"):
            p = os.path.join(REPO, f)
            if os.path.exists(p):
                shutil.copy(p, self.native)
        env = dict(os.environ)
        env.pop("SCRIPTPLAN_NO_CYTHON", None)
        r = subprocess.run([PY, "setup.py", "build_ext", "--inplace", "-j", "3"], cwd=self.native,
                           env=env, capture_output=True, text=True, timeout=600)
        self.build_log = (r.stdout + r.stderr)[-4000:]
        sos = [f for f in os.listdir(os.path.join(self.native, "scriptplan", "_cython")) if f.endswith(".so")]
        self.native_ok = r.returncode == 0 and len(sos) == 3
        shutil.rmtree(os.path.join(self.native, "build"), ignore_errors=True)
        return self

    def path(self, config):
        return {"native": self.native, "pure": self.pure}[config]

    def cleanup(self):
        shutil.rmtree(self.root, ignore_errors=True)


if __name__ == "__main__":
    b = ImplBuild().build()
    print(b.root, b.native_ok)
    print(b.build_log[-500:])
