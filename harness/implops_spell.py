"""C15 ops executed inside the implementation's interpreter (see implserver.py).

Token ops (same request line goes to the Lean driver): resolve, deps, macro, mdefs, strip.
JSON ops (implementation only): spell_sched (parse + schedule a text, report every task's dates),
spell_menv (what `_extract_project_dates` extracts: the macro environment), spell_charclass.
"""
import json

from harness import spell_gen as G
from harness.implops import ts

_PARSER = None


def parser():
    """one ProjectFileParser (Lark grammar compilation = 0.16 s) per worker process"""
    global _PARSER
    if _PARSER is None:
        from scriptplan.parser.tjp_parser import ProjectFileParser
        _PARSER = ProjectFileParser()
    return _PARSER


def _pos_map(project):
    """id(task) -> position (child indices from the top level), by object identity"""
    m = {}
    tops = [t for t in project.tasks if t.parent is None]

    def go(ts_, pos):
        for i, t in enumerate(ts_):
            m[id(t)] = pos + [i]
            go(t.children, pos + [i])
    go(tops, [])
    return m


def _show_pos(p):
    return ".".join(str(i) for i in p)


# ------------------------------------------------------------------ resolve

def op_resolve(tok):
    from scriptplan.core.project import Project
    from scriptplan.core.task import Task
    from scriptplan.parser.tjp_parser import ModelBuilder
    req = json.loads(tok[0])
    project = Project("p", "P", "")
    by_pos = {}

    def mk(trees, parent, pos):
        for i, t in enumerate(trees):
            task = Task(project, str(t[0]), "T", parent)
            by_pos[tuple(pos + [i])] = task
            mk(t[1], task, pos + [i])
    mk(req["f"], None, [])
    src = by_pos.get(tuple(req["src"]))
    if src is None:
        return "bad-op"
    got = ModelBuilder()._resolve_task_reference(project, src, req["ref"])
    if got is None:
        return "none"
    return "some " + _show_pos(_pos_map(project)[id(got)])


# ------------------------------------------------------------------ deps (text -> Lark -> transformer -> builder, inheritance off)

def _entry(e, pm):
    if isinstance(e, dict):
        o = lambda k: e.get(k) if e.get(k) is not None else "-"
        return "d%s/%s/%s/%s/%d/%d" % (_show_pos(pm[id(e["task"])]), o("gapduration"), o("gaplength"), o("maxgapduration"),
                                      1 if e.get("onstart") else 0, 1 if e.get("onend") else 0)
    return "b" + _show_pos(pm[id(e)])


def op_deps(tok):
    from scriptplan.parser.tjp_parser import ModelBuilder, TJPTransformer
    req = json.loads(tok[0])
    text = G.render_deps_case(req)
    tree = parser().parser.parse(text)
    data = TJPTransformer().transform(tree)
    b = ModelBuilder()
    b._inherit_all_attributes = lambda project: None      # observe the lists before inheritance
    project = b.build(data)
    pm = _pos_map(project)
    out = []
    for t in project.tasks:
        lst = t.get("depends", 0) or []
        out.append(_show_pos(pm[id(t)]) + "=" + ",".join(_entry(e, pm) for e in lst))
    return "deps " + " ".join(out)


# ------------------------------------------------------------------ macro

class _Unbounded(Exception):
    pass


class _FakeNow:
    def __init__(self, s):
        self.s = s

    def strftime(self, fmt):
        assert fmt == "%Y-%m-%d"
        return self.s


def _opt(h):
    return None if h == "-" else G.unhexs(h)


def op_macro(tok):
    import scriptplan.parser.macro_processor as mp
    cap, text, ps, pe, nw, td = tok
    cap = None if cap == "-" else int(cap)
    text, ps, pe, nw, td = G.unhexs(text), _opt(ps), _opt(pe), _opt(nw), G.unhexs(td)
    proc = mp.MacroProcessor()
    if cap is not None and hasattr(mp.MacroProcessor, "MAX_EXPANDED_SIZE"):
        proc.MAX_EXPANDED_SIZE = cap
    real_dt = mp.datetime

    class FakeDT:
        @staticmethod
        def now():
            return _FakeNow(td)
        strptime = staticmethod(real_dt.strptime)
    env = {}
    orig_dates = proc._extract_project_dates

    def dates(content):
        orig_dates(content)
        env["got"] = (proc._project_start, proc._project_end, proc._now)
    proc._extract_project_dates = dates
    orig_once = proc._expand_once

    def once(content):
        r = orig_once(content)
        if cap is not None and len(r) > cap:
            raise _Unbounded()       # the code under test returned a text above the bound without raising
        return r
    proc._expand_once = once
    mp.datetime = FakeDT
    try:
        out = proc.process(text)
    except _Unbounded:
        return "unbounded"
    except Exception as e:  # noqa: BLE001
        if type(e).__name__ == "MacroExpansionError":
            return "too-large"
        raise
    finally:
        mp.datetime = real_dt
    if env.get("got") != (ps, pe, nw):
        return "env-mismatch " + json.dumps(env.get("got"))
    return "ok " + G.hexs(out)


def spell_menv(req):
    """the environment `_extract_project_dates` derives from the text (after extraction)"""
    import scriptplan.parser.macro_processor as mp
    proc = mp.MacroProcessor()
    content = proc._extract_macros(mp.blank_comments(req["text"]))
    try:
        proc._extract_project_dates(content)
    except ValueError:
        return {"invalid_date": True}
    return {"ps": proc._project_start, "pe": proc._project_end, "now": proc._now}


def op_mdefs(tok):
    import scriptplan.parser.macro_processor as mp
    proc = mp.MacroProcessor()
    rest = proc._extract_macros(G.unhexs(tok[0]))
    return "defs " + ",".join(G.hexs(k) + ":" + G.hexs(v) for k, v in proc._macros.items()) + " rest " + G.hexs(rest)


def op_blank(tok):
    import scriptplan.parser.macro_processor as mp
    return "ok " + G.hexs(mp.blank_comments(G.unhexs(tok[0])))


def op_strip(tok):
    import scriptplan.parser.macro_processor as mp
    return "ok " + G.hexs(mp.strip_shell_comments(G.unhexs(tok[0])))


def spell_charclass(req):
    """the character classes the model hard-codes, as Python sees them on ASCII"""
    import re
    return {"space": [c for c in range(128) if chr(c).isspace()],
            "re_space": [c for c in range(128) if re.match(r"\s", chr(c))],
            "re_word": [c for c in range(128) if re.match(r"\w", chr(c))]}


# ------------------------------------------------------------------ end-to-end: parse + schedule one spelling

def spell_sched(req):
    import io
    import contextlib
    try:
        with contextlib.redirect_stdout(io.StringIO()), contextlib.redirect_stderr(io.StringIO()):
            project = parser().parse(req["text"])
    except Exception as e:  # noqa: BLE001 - the error class is the observable
        mod = type(e).__module__ or ""
        cls = "ParseError" if mod.startswith("lark") else type(e).__name__
        return {"err": cls, "msg": str(e)[:200]}
    tasks = {}
    for t in project.tasks:
        s, e = t.get("start", 0), t.get("end", 0)
        tasks[t.fullId] = [ts(s) if s is not None else None, ts(e) if e is not None else None, bool(t.get("scheduled", 0))]
    return {"tasks": tasks}


def spell_macro_default(req):
    """preprocess with the bound the code ships with; a pass that returns more than 20 M characters
    without raising is reported as `unbounded` (keeps the unrepaired code from eating the machine)"""
    import scriptplan.parser.macro_processor as mp
    proc = mp.MacroProcessor()
    orig_once = proc._expand_once

    def once(content):
        r = orig_once(content)
        if len(r) > 20_000_000:
            raise _Unbounded()
        return r
    proc._expand_once = once
    try:
        out = proc.process(req["text"])
    except _Unbounded:
        return {"outcome": "unbounded"}
    except Exception as e:  # noqa: BLE001
        return {"outcome": type(e).__name__, "msg": str(e)[:160]}
    return {"outcome": "ok", "length": len(out)}


OPS = {"resolve": op_resolve, "deps": op_deps, "macro": op_macro, "mdefs": op_mdefs, "strip": op_strip, "blank": op_blank}
JOPS = {"spell_macro_default": spell_macro_default, "spell_sched": spell_sched, "spell_menv": spell_menv, "spell_charclass": spell_charclass}
