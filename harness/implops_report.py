"""C18 ops executed inside the implementation's interpreter (see implserver.py).

`rep_run` (JSON op)  : .tjp text -> real parser + scheduler + report generation (x3), returns the
                       scheduled data as plain values, what the report showed, what was written,
                       and whether generation changed the schedule.
`repfmt` / `reptables` (token ops, same request line as the Lean driver).
"""
import contextlib
import csv
import io
import json
import os
import shutil
import tempfile
from datetime import datetime, timedelta
from fractions import Fraction

EPOCH = datetime(1970, 1, 1)
_PARSER = None


def _ts(d):
    delta = d.replace(tzinfo=None) - EPOCH
    return delta.days * 86400 + delta.seconds


def _frac(x):
    f = Fraction(x)
    return f"{f.numerator}/{f.denominator}"


def _value(v):
    """a Python value as the tagged plain value of the model; None if it has no counterpart"""
    if v is None:
        return {"t": "none"}
    if isinstance(v, bool):
        return {"t": "bool", "v": v}
    if isinstance(v, datetime):
        if v.microsecond:
            return None
        return {"t": "time", "v": _ts(v)}
    if isinstance(v, float):
        if v != v or v in (float("inf"), float("-inf")):
            return None
        return {"t": "float", "v": _frac(v)}
    if isinstance(v, int):
        return {"t": "int", "v": v}
    if isinstance(v, str):
        return {"t": "str", "v": v}
    if isinstance(v, list):
        return {"t": "list", "v": [str(x) for x in v]}
    return None


def _parser():
    global _PARSER
    if _PARSER is None:
        from scriptplan.parser.tjp_parser import ProjectFileParser
        _PARSER = ProjectFileParser()
    return _PARSER


def _snapshot(proj):
    """everything C18 calls 'the schedule': task dates/flags and the resource ledgers, as comparable text"""
    snap = {"tasks": [], "res": []}
    for t in proj.tasks:
        snap["tasks"].append([t.fullId, repr(t.get("scheduled", 0)), repr(t.get("start", 0)), repr(t.get("end", 0)),
                              repr(t.get("effort", 0)), repr(t.get("priority", 0))])
    for r in proj.resources:
        rs = r.data[0] if r.data else None
        usage = {}
        used = {}
        board = None
        if rs is not None:
            for i, lst in sorted(getattr(rs, "slotTaskUsage", {}).items()):
                usage[str(i)] = [[getattr(t, "fullId", str(t)), repr(s)] for (t, s) in lst]
            for i, s in sorted(getattr(rs, "slotSecondsUsed", {}).items()):
                used[str(i)] = repr(s)
            sb = getattr(rs, "scoreboard", None)
            if sb is not None:
                cells = []
                for i in range(sb.size):
                    v = sb[i]
                    cells.append(getattr(v, "fullId", None) or repr(v))
                board = cells
        snap["res"].append([r.fullId, repr(r.get("rate", 0)), usage, used, board])
    return snap


FIXED_SCEN = ("start", "end", "effort", "priority", "scheduled")
FIXED_PLAIN = ("id", "name", "seqno")


def _extract(proj, column_ids, sc=0):
    """`sc`: index of the scenario the report is about (its `scenarios` attribute; the first one by default)"""
    defs = proj.tasks.attributeDefinitions
    tasks = []
    unmodelled = []
    for t in proj.tasks:
        scen, plain = [], []
        for cid in sorted(set(column_ids)):
            d = defs.get(cid)
            if d is None or cid in FIXED_SCEN or cid in FIXED_PLAIN:
                continue
            if cid == "index":          # rewritten by every PropertyList.sort() during generation: not modelled
                unmodelled.append(cid)
                continue
            try:
                raw = t.get(cid, sc) if d.scenarioSpecific else t.get(cid)
            except Exception:  # noqa: BLE001
                continue
            v = _value(raw)
            if v is None:
                unmodelled.append(cid)
                continue
            (scen if d.scenarioSpecific else plain).append([cid, v])
        st, en = t.get("start", sc), t.get("end", sc)
        tasks.append({
            "id": t.fullId, "name": t.name, "seq": t.get("seqno"), "leaf": bool(t.leaf()),
            "scheduled": bool(t.get("scheduled", sc)),
            "start": _ts(st) if st is not None else None, "end": _ts(en) if en is not None else None,
            "effort": _value(t.get("effort", sc)), "priority": int(t.get("priority", sc)),
            "scen": scen, "plain": plain})
    resources, ledger = [], []
    for r in proj.resources:
        resources.append({"id": r.fullId, "rate": _frac(r.get("rate", sc) or 0.0)})
        rs = r.data[sc] if r.data else None
        per_task = {}
        if rs is not None:
            for _i, lst in getattr(rs, "slotTaskUsage", {}).items():
                for (t, s) in lst:
                    per_task[t.fullId] = per_task.get(t.fullId, Fraction(0)) + Fraction(s)
        for tid in sorted(per_task):
            ledger.append({"res": r.fullId, "task": tid, "secs": _frac(per_task[tid])})
    return {"tasks": tasks, "resources": resources, "ledger": ledger}, sorted(set(unmodelled))


def rep_run(req):
    from scriptplan.report import ReportContext
    sink = io.StringIO()
    outdir = tempfile.mkdtemp(prefix="c18-out-", dir=os.getcwd())
    try:
        with contextlib.redirect_stdout(sink), contextlib.redirect_stderr(sink):
            proj = _parser().parse(req["tjp"])
            proj.outputDir = outdir
            report = [r for r in proj.reports if r.id == req.get("report", "rep")][0]
            cols = report.get("columns") or []
            for c, title in zip(cols, req.get("titles") or []):
                if title is not None:            # API-level column title (the grammar's `title` option is lost by the parser)
                    c.setdefault("options", {})
                    c["options"]["title"] = title
            before = _snapshot(proj)
            data, unmodelled = _extract(proj, [c["id"] for c in cols], int(req.get("scenario", 0)))
            rounds = []
            for _k in range(int(req.get("times", 3))):
                ctx = ReportContext(proj, report)
                ctx.push()
                try:
                    rc = report.generate()
                finally:
                    ctx.pop()
                    leftover_ctx = len(proj.reportContexts)
                tbl = report.content.table
                files = {}
                for fn in sorted(os.listdir(outdir)):
                    p = os.path.join(outdir, fn)
                    if fn.endswith(".json"):
                        with open(p, encoding="utf-8") as f:
                            files[fn] = json.load(f, object_pairs_hook=lambda kv: [[k, v] for k, v in kv])
                    elif fn.endswith(".csv"):
                        with open(p, newline="", encoding="utf-8") as f:
                            files[fn] = [row for row in csv.reader(f)]
                    else:
                        files[fn] = None
                    os.unlink(p)
                ctx2 = ReportContext(proj, report)     # to_json() reads the context stack for report_id
                ctx2.push()
                try:
                    js = report.to_json()
                finally:
                    ctx2.pop()
                rounds.append({
                    "rc": rc, "contexts_left": leftover_ctx,
                    "header": [[c.text for c in ln.cells] for ln in tbl.header_lines],
                    "body": [[c.text for c in ln.cells] for ln in tbl.body_lines],
                    "rows": [getattr(ln.property, "fullId", None) for ln in tbl.body_lines],
                    "jcolumns": js["columns"], "jdata": [[[k, v] for k, v in rec.items()] for rec in js["data"]],
                    "jextra": sorted(k for k in js if k not in ("columns", "data")),
                    "csv": report.to_csv(), "files": files})
            after = _snapshot(proj)
            spec_seen = {"timeFormat": report.get("timeFormat"), "projectTimeformat": proj.attributes.get("timeformat"),
                         "leafTasksOnly": bool(report.get("leafTasksOnly")),
                         "formats": [f.value for f in (report.get("formats") or [])],
                         "columns": [{"id": c["id"], "title": (c.get("options") or {}).get("title")} for c in cols],
                         "name": report.name}
    finally:
        shutil.rmtree(outdir, ignore_errors=True)
    return {"data": data, "unmodelled": unmodelled, "rounds": rounds, "readonly": before == after,
            "diff": None if before == after else _first_diff(before, after), "spec_seen": spec_seen,
            "log": sink.getvalue()[-300:]}


def _first_diff(a, b):
    for k in ("tasks", "res"):
        for x, y in zip(a[k], b[k]):
            if x != y:
                return {"kind": k, "before": json.dumps(x)[:400], "after": json.dumps(y)[:400]}
    return {"kind": "length"}


# ------------------------------------------------------------------ token ops (same line as the Lean driver)

_TR = None


def _table_report():
    """a real TaskReport on a tiny project, to call `_format_value` on"""
    global _TR
    if _TR is None:
        from scriptplan.report import ReportContext
        with contextlib.redirect_stdout(io.StringIO()), contextlib.redirect_stderr(io.StringIO()):
            proj = _parser().parse('project p "P" 2025-01-06 +1w { }\ntask a "A" { }\n'
                                   'taskreport rep "rep" { columns id }\n')
            rep = list(proj.reports)[0]
            ReportContext(proj, rep).push()
            rep.generate_intermediate_format()
        _TR = rep
    return _TR


def _unvalue(v):
    t = v["t"]
    if t == "none":
        return None
    if t == "time":
        return EPOCH + timedelta(seconds=v["v"])
    if t == "float":
        return float(Fraction(v["v"]))
    return v["v"]


def op_repfmt(tok):
    req = json.loads(tok[0])
    rep = _table_report()
    rep["timeFormat"] = req["fmt"]
    rep.project.attributes.pop("timeformat", None)
    return json.dumps(rep.content._format_value(_unvalue(req["v"]), "x"), separators=(",", ":"), ensure_ascii=False)


def op_reptables(tok):
    from scriptplan.report.table_report import TableReport
    rep = _table_report()
    defs = rep.project.tasks.attributeDefinitions
    special = [c for c in ("chart", "hourly", "daily", "weekly", "monthly", "quarterly", "yearly", "id", "foo")
               if TableReport.default_column_title(c) == ""]
    return json.dumps({
        "props": [[k, v[0], bool(v[3])] for k, v in TableReport.PROPERTIES_BY_ID.items()],
        "defs": [[k, bool(d.scenarioSpecific)] for k, d in defs.items()],
        "special": special}, separators=(",", ":"))


OPS = {"repfmt": op_repfmt, "reptables": op_reptables}
JOPS = {"rep_run": rep_run}
