"""Shared machinery: implementation pool, Lean driver / build / audit, evidence and verdicts."""
import concurrent.futures as cf
import json
import os
import random
import re
import subprocess
import sys
import time

from . import implbuild

ROOT = os.path.dirname(os.path.dirname(os.path.abspath(__file__)))
LEAN = os.path.join(ROOT, "lean")
DRIVER = os.path.join(LEAN, ".lake", "build", "bin", "driver")
NPROC = int(os.environ.get("VERIF_JOBS", str(min(16, os.cpu_count() or 4))))
ALLOWED_AXIOMS = {"propext", "Classical.choice", "Quot.sound"}
FORBIDDEN = re.compile(r"\bsorry\b|\badmit\b|^axiom\s|native_decide|bv_decide|implemented_by|\bunsafe\s|maxHeartbeats\s+0\b")


class HarnessFault(Exception):
    """tooling problem (timeout, missing tool): exit 2, never a VIOLATION"""


# --------------------------------------------------------------------------- Lean side

def lake_build():
    t0 = time.time()
    r = subprocess.run(["lake", "build"], cwd=LEAN, capture_output=True, text=True, timeout=3600)
    return r.returncode == 0, (r.stdout + r.stderr)[-6000:], time.time() - t0


def lean_grep():
    """forbidden tokens outside comments in every .lean file of the project"""
    hits = []
    for dp, dn, fn in os.walk(LEAN):
        if ".lake" in dp:
            continue
        for f in fn:
            if not f.endswith(".lean"):
                continue
            p = os.path.join(dp, f)
            src = open(p).read()
            src = re.sub(r"/-.*?-/", lambda m: "\n" * m.group(0).count("\n"), src, flags=re.S)
            for n, line in enumerate(src.split("\n"), 1):
                code = line.split("--")[0]
                if FORBIDDEN.search(code):
                    hits.append(f"{os.path.relpath(p, LEAN)}:{n}: {line.strip()[:120]}")
    return hits


_AUDIT_CACHE = {}


def all_property_theorems():
    names = []
    pd = os.path.join(LEAN, "Properties")
    for f in sorted(os.listdir(pd)):
        if f.endswith(".lean"):
            names += theorems_declared(os.path.join("Properties", f))
    return names


def audit():
    """`#print axioms` for every theorem declared under Properties/ -> {theorem: [axioms]}.
    The audit file is generated from the sources on every run (nothing to forget to list)."""
    if "r" in _AUDIT_CACHE:
        return _AUDIT_CACHE["r"]
    names = all_property_theorems()
    gen = os.path.join(LEAN, ".lake", "AuditGen.lean")
    os.makedirs(os.path.dirname(gen), exist_ok=True)
    with open(gen, "w") as f:
        f.write("import Properties\n" + "".join(f"#print axioms {n}\n" for n in names))
    r = subprocess.run(["lake", "env", "lean", gen], cwd=LEAN, capture_output=True, text=True, timeout=1800)
    out = r.stdout + r.stderr
    res = {}
    for m in re.finditer(r"'([^']+)' depends on axioms: \[([^\]]*)\]", out):
        res[m.group(1)] = [a.strip() for a in m.group(2).replace("\n", " ").split(",") if a.strip()]
    for m in re.finditer(r"'([^']+)' does not depend on any axioms", out):
        res[m.group(1)] = []
    _AUDIT_CACHE["r"] = (r.returncode == 0, res, out[-3000:])
    return _AUDIT_CACHE["r"]


def theorems_declared(module_file):
    """names of `theorem`s declared in a Properties file (namespace-qualified)"""
    src = open(os.path.join(LEAN, module_file)).read()
    src = re.sub(r"/-.*?-/", "", src, flags=re.S)
    ns = []
    names = []
    for line in src.split("\n"):
        line = line.split("--")[0]
        m = re.match(r"\s*namespace\s+(\S+)", line)
        if m:
            ns.append(m.group(1)); continue
        m = re.match(r"\s*end\s+(\S+)", line)
        if m and ns and ns[-1] == m.group(1):
            ns.pop(); continue
        m = re.match(r"\s*(?:@\[[^\]]*\]\s*)?(?:private\s+|protected\s+)?theorem\s+(\S+)", line)
        if m:
            names.append(".".join(ns + [m.group(1)]))
    return names


def run_driver(lines, timeout=1800):
    if not lines:
        return []
    if not os.path.exists(DRIVER):
        raise HarnessFault("Lean driver not built")
    r = subprocess.run([DRIVER], input="\n".join(lines) + "\n", capture_output=True, text=True, timeout=timeout)
    out = r.stdout.split("\n")
    if out and out[-1] == "":
        out.pop()
    if len(out) != len(lines):
        raise HarnessFault(f"driver answered {len(out)} lines for {len(lines)} requests: {r.stderr[-500:]}")
    return out


# --------------------------------------------------------------------------- implementation side

class Impl:
    def __init__(self):
        self.build = implbuild.ImplBuild().build()
        if not self.build.native_ok:
            # a source change that no longer compiles is reported by the caller
            pass

    def _run_chunk(self, config, lines, timeout, extra_env):
        env = dict(os.environ)
        env["PYTHONPATH"] = self.build.path(config)
        env["PYTHONDONTWRITEBYTECODE"] = "1"
        env.setdefault("PYTHONHASHSEED", "0")
        env.update(extra_env or {})
        try:
            r = subprocess.run([implbuild.PY, os.path.join(ROOT, "harness", "implserver.py")],
                               input="\n".join(lines) + "\n", capture_output=True, text=True,
                               timeout=timeout, env=env, cwd=self.build.root)
        except subprocess.TimeoutExpired:
            raise HarnessFault("implementation worker timed out")
        out = r.stdout.split("\n")
        if out and out[-1] == "":
            out.pop()
        if len(out) != len(lines):
            # the worker died: answer what we have, mark the rest
            out = out + ["Crash " + json.dumps({"type": "WorkerDied", "msg": r.stderr[-300:]})] * (len(lines) - len(out))
        return out

    def run(self, lines, config="native", jobs=None, timeout=1800, extra_env=None):
        """answers for `lines`, in order, computed by up to `jobs` worker processes"""
        if not lines:
            return []
        jobs = jobs or NPROC
        n = max(1, min(jobs, (len(lines) + 49) // 50))
        chunks = [lines[i::n] for i in range(n)]
        with cf.ThreadPoolExecutor(n) as ex:
            outs = list(ex.map(lambda c: self._run_chunk(config, c, timeout, extra_env), chunks))
        res = [None] * len(lines)
        for k, o in enumerate(outs):
            res[k::n] = o
        return res

    def close(self):
        self.build.cleanup()


# --------------------------------------------------------------------------- check context

class Check:
    def __init__(self, prop, tier, seed, level="proof"):
        self.prop = prop
        self.tier = tier
        self.seed = seed
        self.level = level
        self.rng = random.Random(seed)
        self.t0 = time.time()
        self.cov = {"evaluations": 0, "distinct_nontrivial": 0, "rule": "", "samples": [],
                    "streams": {}, "obligations": 0, "discharged": 0, "checker_cmd": "",
                    "trusted_base": [], "known_findings": [], "disagreements": 0}
        self.assumptions = []
        self.violations = []       # (what, replay_path, found_input: bool)
        self.replay_payload = None  # set by `--replay`: the check runs on the recorded input only, evidence is not rewritten
        self.broken = []           # names of theorems / streams that no longer check
        self.known = []
        self._impl = None

    @property
    def impl(self):
        if self._impl is None:
            self._impl = Impl()
        return self._impl

    # ---- obligations
    def obligations(self, modules):
        """lake build + grep + audit for the theorems of `modules` (paths under lean/)"""
        ok, log, secs = lake_build()
        self.cov["checker_cmd"] = "cd lean && lake build && lake env lean Audit.lean (+ grep for sorry/axiom/native_decide)"
        self.cov["lake_build_s"] = round(secs, 1)
        names = []
        for m in modules:
            names += theorems_declared(m)
        self.cov["obligations"] = len(names)
        if not ok:
            self.broken.append({"kind": "lake build", "detail": log[-1500:]})
            self.cov["discharged"] = 0
            return False
        hits = lean_grep()
        if hits:
            self.broken.append({"kind": "forbidden token", "detail": hits[:10]})
        aok, ax, alog = audit()
        discharged = 0
        missing = []
        for n in names:
            if n in ax and set(ax[n]) <= ALLOWED_AXIOMS:
                discharged += 1
            else:
                missing.append({"theorem": n, "axioms": ax.get(n)})
        if missing:
            self.broken.append({"kind": "audit", "detail": missing[:10], "log": "" if aok else alog[-800:]})
        self.cov["discharged"] = discharged if not hits else 0
        self.cov["theorems"] = names
        self.cov["trusted_base"] = [
            "Lean 4.33.0 kernel", "axioms: propext, Classical.choice, Quot.sound only (audited this run)",
            "hand-written Lean model tied to /repo by the correspondence streams of this run",
            "Lean compiler/runtime for the driver executable", "harness generators, renderer, canonicalisation",
            "CPython 3.12, Cython 3.3 + gcc for the rebuilt extensions"]
        return not self.broken

    def leanchecker(self, modules):
        r = subprocess.run(["lake", "env", "leanchecker"] + modules, cwd=LEAN, capture_output=True, text=True, timeout=3600)
        self.cov["leanchecker"] = {"modules": modules, "ok": r.returncode == 0}
        if r.returncode != 0:
            self.broken.append({"kind": "leanchecker", "detail": (r.stdout + r.stderr)[-1000:]})

    # ---- correspondence
    def differential(self, stream, lines, impl_of=lambda l: "native", canon=None, samples=3):
        """run `lines` through the Lean driver and the implementation; returns list of disagreements"""
        model = run_driver(lines)
        by_cfg = {}
        for i, l in enumerate(lines):
            by_cfg.setdefault(impl_of(l), []).append(i)
        real = [None] * len(lines)
        for cfg, idxs in by_cfg.items():
            outs = self.impl.run([lines[i] for i in idxs], config=cfg)
            for i, o in zip(idxs, outs):
                real[i] = o
        dis = []
        for l, m, r in zip(lines, model, real):
            cm, cr = (canon(m), canon(r)) if canon else (m, r)
            if cm != cr:
                dis.append({"stream": stream, "input": l, "model": m, "impl": r})
        st = self.cov["streams"].setdefault(stream, {"cases": 0, "disagreements": 0})
        st["cases"] += len(lines)
        st["disagreements"] += len(dis)
        self.cov["evaluations"] += len(lines)
        self.cov["disagreements"] += len(dis)
        if lines and len(self.cov["samples"]) < 12:
            for k in range(min(samples, len(lines))):
                i = (k * 7919) % len(lines)
                self.cov["samples"].append({"stream": stream, "input": lines[i][:400], "model": model[i][:400], "impl": (real[i] or "")[:400]})
        return dis, model, real

    # ---- verdicts
    def replay_path(self, tag):
        d = os.path.join(ROOT, "replays")
        os.makedirs(d, exist_ok=True)
        return os.path.join(d, ("replayed-" if self.replay_payload is not None else "") + f"{self.prop}-{self.seed}-{tag}.json")

    def violation(self, what, payload, found_input=True, tag=None):
        p = self.replay_path(tag or str(len(self.violations)))
        with open(p, "w") as f:
            json.dump({"property": self.prop, "what": what, "found_failing_input": found_input, **payload}, f, indent=1, default=str)
        self.violations.append((what, p, found_input))

    def known_finding(self, fid, what):
        self.known.append((fid, what))
        self.cov["known_findings"].append({"id": fid, "what": what})

    def finish(self):
        wall = time.time() - self.t0
        ev = {"property_id": self.prop, "tier": self.tier, "seed": self.seed, "level": self.level,
              "coverage": self.cov, "assumptions": self.assumptions, "wall_s": round(wall, 2),
              "violations": len(self.violations)}
        if self.broken:
            ev["coverage"]["broken"] = self.broken
        if self.replay_payload is None:
            os.makedirs(os.path.join(ROOT, "evidence"), exist_ok=True)
            with open(os.path.join(ROOT, "evidence", f"{self.prop}.json"), "w") as f:
                json.dump(ev, f, indent=1, default=str)
        if self._impl:
            self._impl.close()
        for fid, what in self.known:
            print(f"KNOWN-FINDING: property={self.prop} {fid} {what}")
        if self.violations:
            # one line; prefer a violation with a concrete failing input
            self.violations.sort(key=lambda v: not v[2])
            what, p, found = self.violations[0]
            rel = os.path.relpath(p, ROOT)
            print(f"VIOLATION property={self.prop} replay={rel}" + ("" if found else " no-failing-input-found"))
            return 1
        if self.replay_payload is not None:
            print(f"OK property={self.prop} replay: the recorded input no longer fails ({self.cov['evaluations']} evaluations)")
            return 0
        print(f"OK property={self.prop} tier={self.tier} seed={self.seed} evaluations={self.cov['evaluations']} "
              f"obligations={self.cov['discharged']}/{self.cov['obligations']} wall={wall:.1f}s")
        return 0
