from .metamorphic import run_c14 as run  # noqa: F401
