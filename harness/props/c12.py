"""C12 — same input, same output: independent of history and process state.

Streams
  inventory : static AST scan of the implementation copy for process-global mutable state  ==  Model/Hidden.lean `inventory`
  hidden    : random histories executed in ONE interpreter (other projects, syntax errors, unschedulable projects,
              aborted runs, repeated schedule(), reports), then the probe; per op the observed accesses of the mode
              variable and the hidden state afterwards  ==  the model's state machine (Driver/Hidden.lean)
Oracle (the property itself, on the real code)
  digest(probe after history, any PYTHONHASHSEED, worker process) == digest(probe in a fresh process)
  digest after schedule() #2 and #3 == digest after #1     (incl. projects with unschedulable tasks: F21)
"""
import concurrent.futures as cf
import json
import datetime as _dt
import os

from .. import c12gen
from ..core import ROOT, HarnessFault, run_driver
from .common import conclude, jline, junline

THEOREM_FILES = ["Properties/C12.lean"]
SEEDS = ["0", "1", "12345", "random"]


def par(chk, jobs, timeout=900):
    """jobs: [(config, [lines], extra_env)] -> [[answers]] ; every job is ONE fresh interpreter"""
    def one(j):
        cfg, lines, env = j
        e = {"VERIF_CASE_TIMEOUT": "240"}
        e.update(env or {})
        return chk.impl._run_chunk(cfg, lines, timeout, e)
    with cf.ThreadPoolExecutor(max(1, min(len(jobs), int(os.environ.get("VERIF_JOBS", "12"))))) as ex:
        return list(ex.map(one, jobs))


def F21_cases():
    p = os.path.join(ROOT, "findings", "F21.json")
    if not os.path.exists(p):
        return []
    return json.load(open(p))["cases"]


# ------------------------------------------------------------------------------------------------ model side

def point_of(phase):
    """abstract failure point of a run from the phase markers reached (see implops_hidden.Session.install_phase)"""
    if "new" not in phase:
        return {"at": "lex"}
    if "new-done" not in phase:
        return {"at": "afterNew"}
    if "schedule" not in phase:
        if "build-done" in phase:
            return {"at": "build", "n": 1000000}
        return {"at": "build", "n": 1000000, "partial": True}
    return sched_point(phase[phase.index("schedule"):])


def sched_point(ph):
    k = ph.count("finish-done")
    tail = ph[len(ph) - ph[::-1].index("finish-done"):] if "finish-done" in ph else ph[1:]
    if ph and ph[-1] == "finish-done":
        # interrupted after finishScenario of pass k-1, before the scenario is recorded as scheduled
        return {"at": "finish", "sc": k - 1}
    if "scheduleScenario-done" in tail or "finish" in tail:
        return {"at": "finish", "sc": k}
    if "scheduleScenario" in tail:
        return {"at": "sched", "sc": k}
    if "prepare" in tail:
        return {"at": "prepare", "sc": k}
    return {"at": "schedTop"}


def model_text(feat):
    if feat is None:
        return {"lexOk": False}
    t = {"lexOk": feat.get("lexOk", True), "attrs": feat.get("attrs", []), "rootInits": feat.get("rootInits", 0),
         "nres": feat.get("nres", 0), "props": feat.get("props", 0), "hasTasks": feat.get("hasTasks", True),
         "scens": feat.get("scens", [[]]), "reportSets": feat.get("reportSets", 0)}
    return t


def model_request(hist, impl, featcache):
    """the driver request for one executed history, built from the ops and the abstract outcome the
    implementation reported for each (where it failed, how many scenarios, which warnings)"""
    ops = []
    idx = []          # index of the impl record each model op corresponds to
    for i, (op, rec) in enumerate(zip(hist["ops"], impl["ops"])):
        if rec.get("skipped"):
            continue
        k = op["k"]
        feat = rec.get("feat")
        if k in ("run", "parse", "api"):
            if rec["exc"] is None:
                mo = {"k": "run" if k == "run" else "parse", "t": model_text(feat)}
                if op.get("keep") is not None:
                    mo["keep"] = op["keep"]
            else:
                pt = point_of(rec["phase"])
                full = featcache.get(op.get("text"))
                if pt["at"] == "lex":
                    t = {"lexOk": True} if False else model_text(None)
                    mo = {"k": "fail", "at": "lex", "t": {"lexOk": False}}
                    ops.append(mo)
                    idx.append(i)
                    continue
                if rec["exc"] == "Injected" and full is not None:
                    t = model_text(full)
                    if pt["at"] == "build" and pt.get("partial"):
                        pt = {"at": "afterNew"}
                else:
                    # a failure of the implementation's own: only what was observed before it is known
                    t = model_text(feat)
                    part = (feat or {}).get("scensPartial", [])
                    t["scens"] = part if part else [[]]
                    t["hasTasks"] = True
                    t["nres"] = 1 if rec["after"]["cacheInst"] and not rec["before"]["cacheInst"] else 0
                    t["props"] = 0
                mo = {"k": "fail", "t": t}
                mo.update({a: b for a, b in pt.items() if a != "partial"})
        elif k == "sched":
            mo = {"k": "sched", "slot": op["slot"], "warns": rec.get("passWarns", [])}
            if rec["exc"] is not None:
                pt = sched_point(rec["phase"])
                if pt["at"] in ("prepare", "sched", "finish"):
                    # `sc` counts passes started by THIS call; the model wants the scenario index: resolved by the driver
                    mo["failAt"] = pt["at"]
                    mo["scPass"] = pt["sc"]
                else:
                    mo["failAt"] = None
                    mo["unmodelled"] = True
        elif k == "report":
            mo = {"k": "report", "slot": op["slot"]}
        else:
            continue
        ops.append(mo)
        idx.append(i)
    b = impl["ops"][0]["before"] if impl["ops"] else impl["probe"]["before"]
    init = {"mode": b["mode"], "cacheInst": b["cacheInst"], "cacheLen": b["cacheLen"], "mhInst": b["mhInst"],
            "msgs": b["msgs"], "errors": b["errors"], "tz": b["tz"],
            "cfgDefault": b["mhCfg"] in (None, [4, 3, None, True, "unknown", False, 0, 0])}
    req = {"init": init, "ops": ops, "probe": model_text(impl["probe"].get("feat")), "again": hist["again"]}
    return req, idx


CFG_DEFAULT = [4, 3, None, True, "unknown", False, 0, 0]


def obs_state(after, new_msgs):
    return {"mode": after["mode"], "cacheInst": after["cacheInst"], "cacheLen": after["cacheLen"],
            "mhInst": after["mhInst"], "newMsgs": new_msgs, "errors": after["errors"], "tz": after["tz"],
            "cfgDefault": after["mhCfg"] in (None, CFG_DEFAULT)}


def compare_history(hist, impl, model, idx):
    """-> list of differences between the model's table and the observations"""
    diffs = []
    for mo, i in zip(model["ops"], idx):
        rec = impl["ops"][i]
        want = {k: mo[k] for k in ("mode", "cacheInst", "cacheLen", "mhInst", "newMsgs", "errors", "tz", "cfgDefault")}
        got = obs_state(rec["after"], rec.get("newMsgs", []))
        if hist["ops"][i]["k"] == "report":
            want.pop("newMsgs"), got.pop("newMsgs")       # a report may warn (unsupported format): not modelled
        if want != got:
            diffs.append({"op": i, "kind": hist["ops"][i]["k"], "what": "hidden state after the op", "model": want, "impl": got})
        if rec["mode"].get("instrumented"):
            if mo["writes"] != rec["mode"]["writes"]:
                diffs.append({"op": i, "kind": hist["ops"][i]["k"], "what": "writes of the mode variable",
                              "model": mo["writes"], "impl": rec["mode"]["writes"], "phase": rec.get("phase")})
            if mo["rbw"] != rec["mode"]["readsBeforeWrite"]:
                diffs.append({"op": i, "kind": hist["ops"][i]["k"], "what": "mode read before the op's first write",
                              "model": mo["rbw"], "impl": rec["mode"]["readsBeforeWrite"]})
            if mo["tzReads"] != rec["mode"].get("tzReads"):
                diffs.append({"op": i, "kind": hist["ops"][i]["k"], "what": "reads of TjTime._tz", "model": mo["tzReads"],
                              "impl": rec["mode"].get("tzReads")})
            if mo["cfgReads"] != len(rec.get("newMsgs", [])) and hist["ops"][i]["k"] != "report":
                diffs.append({"op": i, "kind": hist["ops"][i]["k"], "what": "reads of the message handler configuration (one per message)",
                              "model": mo["cfgReads"], "impl": len(rec.get("newMsgs", []))})
    pr, mp = impl["probe"], model["probe"]
    if pr.get("exc") is None and "modeRun" in pr:
        want = {k: mp[k] for k in ("mode", "cacheInst", "cacheLen", "mhInst", "newMsgs", "tz", "cfgDefault")}
        after_run = pr["modeAgain"][0]["after"] if False else None
        if pr["modeRun"].get("instrumented"):
            if mp["writes"] != pr["modeRun"]["writes"]:
                diffs.append({"op": "probe", "what": "writes of the mode variable", "model": mp["writes"], "impl": pr["modeRun"]["writes"]})
            if mp["rbw"] != pr["modeRun"]["readsBeforeWrite"]:
                diffs.append({"op": "probe", "what": "mode read before first write", "model": mp["rbw"], "impl": pr["modeRun"]["readsBeforeWrite"]})
            if mp["tzReads"] != pr["modeRun"].get("tzReads"):
                diffs.append({"op": "probe", "what": "reads of TjTime._tz", "model": mp["tzReads"], "impl": pr["modeRun"].get("tzReads")})
            if mp["reportRbw"] != pr["modeReport"]["readsBeforeWrite"] or pr["modeReport"]["writes"]:
                diffs.append({"op": "probe-report", "what": "mode accesses of report generation",
                              "model": [mp["reportRbw"], []], "impl": [pr["modeReport"]["readsBeforeWrite"], pr["modeReport"]["writes"]]})
        if mp["newMsgs"] != pr.get("newMsgs", []):
            diffs.append({"op": "probe", "what": "messages", "model": mp["newMsgs"], "impl": pr.get("newMsgs")})
        for j, (ma, ia) in enumerate(zip(mp["again"], pr.get("modeAgain", []))):
            changed = pr["shas"][j + 1] != pr["shas"][j]
            if ma["resultChanges"] != changed:
                diffs.append({"op": f"probe-again-{j + 1}", "what": "does a repeated schedule() change the result",
                              "model": ma["resultChanges"], "impl": changed})
            if ia.get("instrumented"):
                if ma["writes"] != ia["writes"] or ma["rbw"] != ia["readsBeforeWrite"]:
                    diffs.append({"op": f"probe-again-{j + 1}", "what": "mode accesses of a repeated schedule()",
                                  "model": [ma["writes"], ma["rbw"]], "impl": [ia["writes"], ia["readsBeforeWrite"]]})
            want = {k: ma[k] for k in ("mode", "cacheInst", "cacheLen", "mhInst", "newMsgs", "errors", "tz", "cfgDefault")}
            got = obs_state(ia["after"], ia.get("newMsgs", []))
            if want != got:
                diffs.append({"op": f"probe-again-{j + 1}", "what": "hidden state after a repeated schedule()", "model": want, "impl": got})
    return diffs


# ------------------------------------------------------------------------------------------------ the check

def run(chk):
    tier = chk.tier
    rng = chk.rng
    quick = tier == "quick"
    chk.obligations(THEOREM_FILES)
    if not quick:
        chk.leanchecker(["Properties.C12", "Proofs.Hidden", "Model.Hidden"])
    impl = chk.impl
    outdir = impl.build.root
    disagreements = []
    found = []
    st = chk.cov["streams"]

    # ---- (a) static inventory stream
    inv_impl = junline(impl.run([jline({"op": "hidden_inventory"})])[0])
    inv_model = json.loads(run_driver(["hiddeninv"])[0])
    # an environment read (`datetime.now()`, `os.environ`, …) is identified by the file and the call, not by the function it
    # stands in: moving it into a helper of the same file is a refactoring, a new read in a file is a new input
    def norm(a, b):
        return (a.split(":")[0] + ":" + a.split(":")[-1], b) if b == "environment-read" and a.count(":") >= 2 else (a, b)
    si = {norm(a, b) for a, b, _w in inv_impl.get("items", [])}
    sm = {norm(a, b) for a, b in inv_model}
    # state (rebound or mutated somewhere, module globals of the extensions, …) must be exactly the model's list; containers
    # for which the scan finds no mutation site (`constant-table`) are not state: a new or vanished one is recorded, not a
    # disagreement — their constancy is checked at run time on every history below (`constants_changed`)
    is_const = lambda it: it[1] == "constant-table"
    delta = {it for it in si ^ sm if not is_const(it)}
    # an item the model knows as a constant that the scan now finds written, or the reverse, differs in kind: it is in `delta`
    st["inventory"] = {"cases": len(si | sm), "disagreements": len(delta)}
    chk.cov["evaluations"] += len(si | sm)
    chk.cov["inventory"] = {"items": len(si), "stateful": sorted(a for a, b in si if b in ("rebound-at-runtime", "mutable-container")),
                            "only_in_impl": sorted(si - sm), "only_in_model": sorted(sm - si),
                            "constant_tables_not_in_model": sorted(a for a, b in si - sm if b == "constant-table"),
                            "constant_tables_gone": sorted(a for a, b in sm - si if b == "constant-table")}
    if delta:
        disagreements.append({"stream": "inventory", "only_in_impl": sorted(si - sm)[:20], "only_in_model": sorted(sm - si)[:20]})

    # ---- texts
    n_ok, n_un, n_bad = (12, 8, 12) if quick else (60, 40, 60)
    pool = {"ok": [], "unsched": [], "bad": []}
    for i in range(n_ok):
        pool["ok"].append(c12gen.sort_fix(c12gen.gen_project(rng, "ok" if i % 5 else "tiny", pid=f"o{i}")))
    for i in range(n_un):
        pool["unsched"].append(c12gen.sort_fix(c12gen.gen_project(rng, ["limits", "shared", "lowefficiency", "deadlock"][i % 4], pid=f"u{i}")))
    for i in range(n_bad):
        pool["bad"].append(c12gen.malform(rng, rng.choice(pool["ok"] + pool["unsched"])))
    corpus = [c["text"] for c in F21_cases()]
    n_probe = 14 if quick else 60
    # projects in which the written order of alternatives / team members / dependencies decides the schedule: any detour
    # through an unordered container shows as a difference between hash seeds
    order_texts = [c12gen.gen_order_sensitive(rng, pid=f"q{i}") for i in range(5 if quick else 30)]
    pool["ok"] += order_texts
    probes = corpus + order_texts + [rng.choice(pool["ok"]) for _ in range(n_probe // 2)] + [rng.choice(pool["unsched"]) for _ in range(n_probe - n_probe // 2)]
    probes = list(dict.fromkeys(probes))
    all_texts = list(dict.fromkeys(pool["ok"] + pool["unsched"] + probes))

    # ---- reference runs: every text alone in a FRESH process (two hash seeds), no instrumentation
    ref_jobs = []
    ref_keys = []
    for t in all_texts:
        for cfg, seed in ((("native", "0"), ("native", "1"), ("native", "12345"), ("native", "random"), ("pure", "0")) if t in order_texts
                          else (("native", "0"), ("native", "random"), ("pure", "0")) if t in probes else (("native", "0"),)):
            ref_keys.append((t, cfg, seed))
            ref_jobs.append((cfg, [jline({"op": "hidden_probe", "probe": t, "again": 0, "outdir": outdir, "struct": True})], {"PYTHONHASHSEED": seed}))
    # features of every text (an instrumented run alone in a fresh process)
    feat_jobs = [("native", [jline({"op": "hidden_history", "ops": [], "probe": t, "again": 0, "outdir": outdir, "struct": False})], {}) for t in all_texts]
    outs = par(chk, ref_jobs + feat_jobs)
    ref = {}
    ref_cfg = {}
    k = 0
    for (t, cfg, seed) in ref_keys:
        r = junline(outs[k][0])
        k += 1
        if "_raw" in r:
            raise HarnessFault(f"reference run failed in the harness: {r['_raw'][:300]}")
        ref_cfg[(t, cfg)] = r
        if cfg == "native":
            ref.setdefault(t, []).append((seed, r))
    featcache = {}
    for t in all_texts:
        r = junline(outs[k][0])
        k += 1
        if "_raw" not in r and r["probe"].get("feat"):
            featcache[t] = r["probe"]["feat"]
    chk.cov["evaluations"] += len(ref_jobs) + len(feat_jobs)
    for t, rs in ref.items():
        shas = {json.dumps(r.get("shas")) + str(r.get("exc")) + json.dumps(r.get("cli")) for _, r in rs}
        if len(shas) > 1:
            a, b = rs[0][1], rs[1][1]
            found.append(("two fresh processes with different PYTHONHASHSEED give different results",
                          {"text": t, "seeds": [s for s, _ in rs], "shas": [r.get("shas") for _, r in rs],
                           "first_diff": first_diff(a.get("digests", [None])[0], b.get("digests", [None])[0])}))

    # ---- (b) dynamic stream: histories in shared interpreters
    n_workers, per_worker = (12, 5) if quick else (16, 60)
    hists = []
    jobs = []
    for w in range(n_workers):
        lines = []
        seed = SEEDS[w % len(SEEDS)]
        cfg = "pure" if (w % 8 == 7) else "native"
        for h in range(per_worker):
            ops = c12gen.gen_history(rng, pool, rng.randrange(2, 8 if quick else 12))
            probe = probes[(w * per_worker + h) % len(probes)]
            hist = {"ops": ops, "probe": probe, "again": 2, "instrument": not (h % 4 == 3), "newparser": h % 2 == 0,
                    "worker": w, "seed": seed, "config": cfg}
            # the histories of one worker share an interpreter: what ran before this one in the same process is part of its
            # history (kept by reference to the earlier records, written out only into a replay file)
            hist["earlier_in_worker"] = [x for x in hists if x["worker"] == w]
            hists.append(hist)
            lines.append(jline({"op": "hidden_history", "ops": ops, "probe": probe, "again": 2, "outdir": outdir,
                                "instrument": hist["instrument"], "newparser": hist["newparser"], "struct": True}))
        jobs.append((cfg, lines, {"PYTHONHASHSEED": seed}))
    outs = par(chk, jobs)
    results = [junline(o) for ws in outs for o in ws]
    chk.cov["evaluations"] += len(results)
    st["hidden"] = {"cases": 0, "disagreements": 0}
    nontrivial = set()
    op_kinds = {}
    mode_left = {}
    driver_lines = []
    meta = []
    for hist, r in zip(hists, results):
        if "_raw" in r:
            raise HarnessFault(f"history op failed in the harness: {r['_raw'][:300]}")
        pr = r["probe"]
        fresh = ref_cfg.get((hist["probe"], hist["config"]))
        if r.get("constants_changed"):
            disagreements.append({"stream": "inventory", "history": flat_history(hist),
                                  "constant_tables_changed_at_run_time": r["constants_changed"]})
            st["inventory"]["disagreements"] += 1
        chk.cov["inventory"]["constant_tables_watched"] = max(chk.cov["inventory"].get("constant_tables_watched", 0), r.get("constants", 0))
        # oracle 1: history independence
        if fresh is not None and "_raw" not in fresh:
            same = (pr.get("exc") == fresh.get("exc")) and (pr.get("shas", [None])[:1] == fresh.get("shas", [None])[:1])
            if same and pr.get("cli") != fresh.get("cli"):
                found.append(("the programmatic entry point (run_scriptplan) on the probe gives a different result after a history than in a fresh process",
                              {"history": flat_history(hist), "after_history": pr.get("cli"), "fresh": fresh.get("cli")}))
            if same and pr.get("stderrRun") != fresh.get("stderrRun"):
                found.append(("the messages a run prints differ from those in a fresh process",
                              {"history": flat_history(hist), "after_history": pr.get("stderrRun"), "fresh": fresh.get("stderrRun")}))
            if not same:
                found.append(("the probe's result after a history differs from the result in a fresh process",
                              {"history": flat_history(hist), "after_history": pr.get("shas"), "fresh": fresh.get("shas"),
                               "exc": [pr.get("exc"), fresh.get("exc")],
                               "first_diff": first_diff((pr.get("digests") or [None])[0], (fresh.get("digests") or [None])[0])}))
        # oracle 2: repeated schedule()
        shas = pr.get("shas", [])
        if len(shas) >= 2 and len(set(shas)) > 1:
            j = next(i for i in range(1, len(shas)) if shas[i] != shas[i - 1])
            found.append((f"schedule() call #{j + 1} on the scheduled probe changed the result",
                          {"text": hist["probe"], "shas": shas, "first_diff": first_diff(pr["digests"][j - 1], pr["digests"][j])}))
        for op, rec in zip(hist["ops"], r["ops"]):
            tag = op["k"] + ("!" + str(rec.get("exc")) if rec.get("exc") else "") + ("@" + op["inject"] if op.get("inject") else "")
            op_kinds[tag] = op_kinds.get(tag, 0) + 1
            if not rec.get("skipped"):
                mode_left[rec["after"]["mode"]] = mode_left.get(rec["after"]["mode"], 0) + 1
        if any(not rec.get("skipped") for rec in r["ops"]):
            nontrivial.add(json.dumps([hist["ops"], hist["probe"]], sort_keys=True))
        req, idx = model_request(hist, r, featcache)
        driver_lines.append("hidden " + json.dumps(req, separators=(",", ":")))
        meta.append((hist, r, idx))
    model_out = run_driver(driver_lines)
    for (hist, r, idx), line, mo in zip(meta, driver_lines, model_out):
        st["hidden"]["cases"] += 1
        try:
            m = json.loads(mo)
        except ValueError:
            m = None
        if not isinstance(m, dict):
            disagreements.append({"stream": "hidden", "input": line[:2000], "model": mo[:300], "impl": "see replay"})
            st["hidden"]["disagreements"] += 1
            continue
        diffs = compare_history(hist, r, m, idx)
        if m["probe"]["dependsOnHistory"]:
            diffs.append({"op": "probe", "what": "model: the probe's observations depend on the history"})
        if diffs:
            st["hidden"]["disagreements"] += 1
            disagreements.append({"stream": "hidden", "history": {"ops": [{k: (v if k != "text" else v[:120]) for k, v in o.items()} for o in hist["ops"]],
                                                                 "worker": hist["worker"], "seed": hist["seed"]},
                                  "diffs": diffs[:6], "model_request": line[:3000]})
        if len(chk.cov["samples"]) < 4:
            chk.cov["samples"].append({"stream": "hidden", "history": [{k: (v if k != "text" else v[:160] + "…") for k, v in o.items()} for o in hist["ops"]],
                                       "observed": [{"k": rec["k"], "exc": rec.get("exc"), "phase_last": (rec.get("phase") or [None])[-1],
                                                     "mode_writes": rec["mode"]["writes"], "mode_after": rec["after"]["mode"]} for rec in r["ops"]],
                                       "model": [{"writes": x["writes"], "mode": x["mode"], "rbw": x["rbw"]} for x in m["ops"]],
                                       "probe_shas": r["probe"].get("shas"), "fresh_sha": (ref_cfg.get((hist["probe"], hist["config"])) or {}).get("shas"),
                                       "seed": hist["seed"], "config": hist["config"]})
    chk.cov["disagreements"] += st["hidden"]["disagreements"] + st["inventory"]["disagreements"]

    # ---- carry-over stream (model-free): names a text DEFINES (macros) must not reach the next text parsed in the same
    # interpreter.  One project defines `macro <name> [...]`; the next one uses `${<name>}` without defining it — in a task
    # name (kept literally by a fresh process) or as an effort (rejected by a fresh process).  History = [run definer], probe = user.
    co_jobs, co_meta = [], []
    for k in range(4 if quick else 24):
        nm = rng.choice(["rel", "dur", "who", "len"])
        val = rng.choice(["6h", "12h", "3d"])
        definer = (f'project d{k} "D{k}" 2025-01-06 +6w {{ timezone "Etc/UTC" }}\nmacro {nm} [{val}]\nresource r "R" {{}}\n'
                   f'task a "A ${{{nm}}}" {{ effort ${{{nm}}} allocate r }}\ntaskreport rep "rep" {{ formats csv columns id, name, start, end }}\n')
        if k % 2 == 0:
            user = (f'project u{k} "U{k}" 2025-02-03 +6w {{ timezone "Etc/UTC" }}\nresource r "R" {{}}\n'
                    f'task b "Cut ${{{nm}}}" {{ effort 8h allocate r }}\ntaskreport rep "rep" {{ formats csv columns id, name, start, end }}\n')
        else:
            user = (f'project u{k} "U{k}" 2025-02-03 +6w {{ timezone "Etc/UTC" }}\nresource r "R" {{}}\n'
                    f'task b "B" {{ effort ${{{nm}}} allocate r }}\ntaskreport rep "rep" {{ formats csv columns id, name, start, end }}\n')
        hist = {"ops": [{"k": "run", "text": definer, "newparser": k % 4 < 2}], "probe": user, "again": 0, "instrument": False,
                "newparser": True, "seed": "0", "config": "native"}
        co_meta.append(hist)
        co_jobs.append(("native", [jline({"op": "hidden_history", "ops": hist["ops"], "probe": user, "again": 0, "outdir": outdir,
                                          "instrument": False, "newparser": True, "struct": False})], {"PYTHONHASHSEED": "0"}))
        co_jobs.append(("native", [jline({"op": "hidden_probe", "probe": user, "again": 0, "outdir": outdir, "struct": False})], {"PYTHONHASHSEED": "0"}))
    # ... and what a text DECLARES about the project calendar (global vacation days) must not reach the next text with the same
    # window and resolution: tasks placed by the project calendar (no allocation; a working-time gap) after a twin text
    # without / with other vacation days
    for k in range(2 if quick else 12):
        day0 = rng.choice(["2025-01-06", "2025-03-03", "2025-06-02"])
        hol = _dt.date.fromisoformat(day0) + _dt.timedelta(days=rng.choice([0, 1, 2]))
        other = hol + _dt.timedelta(days=rng.choice([1, 2]))
        body = ('resource r "R" {}\ntask a "A" { effort 4h allocate r }\ntask b "B" { effort 4h allocate r depends !a { gaplength 2d } }\n'
                'task c "C" { effort 6h }\ntaskreport rep "rep" { formats csv columns id, start, end }\n')
        head = f'project v{k} "V{k}" {day0} +6w {{ timezone "Etc/UTC" }}\n'
        definer = head + (f'vacation "Other" {other.isoformat()}\n' if k % 2 else "") + body
        user = head + f'vacation "Hol" {hol.isoformat()}\n' + body
        hist = {"ops": [{"k": "run", "text": definer, "newparser": True}], "probe": user, "again": 0, "instrument": False,
                "newparser": True, "seed": "0", "config": "native"}
        co_meta.append(hist)
        co_jobs.append(("native", [jline({"op": "hidden_history", "ops": hist["ops"], "probe": user, "again": 0, "outdir": outdir,
                                          "instrument": False, "newparser": True, "struct": False})], {"PYTHONHASHSEED": "0"}))
        co_jobs.append(("native", [jline({"op": "hidden_probe", "probe": user, "again": 0, "outdir": outdir, "struct": False})], {"PYTHONHASHSEED": "0"}))
    n_macro = 4 if quick else 24
    co_out = par(chk, co_jobs)
    carry = {"cases": 0, "name_use": 0, "effort_use": 0, "fresh_rejected": 0, "differences": 0}
    for k, hist in enumerate(co_meta):
        a, f = junline(co_out[2 * k][0]), junline(co_out[2 * k + 1][0])
        if "_raw" in a or "_raw" in f:
            raise HarnessFault(f"carry-over stream op failed in the harness: {(a.get('_raw') or f.get('_raw'))[:300]}")
        pa = a["probe"]
        carry["cases"] += 1
        carry["calendar_twin" if k >= n_macro else "name_use" if k % 2 == 0 else "effort_use"] = carry.get("calendar_twin" if k >= n_macro else "name_use" if k % 2 == 0 else "effort_use", 0) + 1
        carry["fresh_rejected"] += 1 if f.get("exc") else 0
        if (pa.get("exc"), (pa.get("shas") or [None])[0], pa.get("cli")) != (f.get("exc"), (f.get("shas") or [None])[0], f.get("cli")):
            carry["differences"] += 1
            found.append(("a text parsed after another one in the same interpreter gives another result than alone in a fresh process "
                          "(something the earlier text defined or declared — a macro, the project calendar's holidays — is used for the later one)",
                          {"history": flat_history(hist), "text": hist["probe"], "after_history": [pa.get("exc"), pa.get("shas"), pa.get("cli")],
                           "fresh": [f.get("exc"), f.get("shas"), f.get("cli")]}))
    st["carry_over"] = carry
    chk.cov["evaluations"] += 2 * len(co_meta)

    # ---- F21 decision stream: schedule() a second and third time on unschedulable probes
    n_f21 = 45 if quick else 1500
    fam = [c12gen.sort_fix(c12gen.gen_project(rng, ["limits", "shared", "lowefficiency", "deadlock", "ok"][i % 5], pid=f"f{i}")) for i in range(n_f21)]
    fam = corpus + fam
    nchunk = 12 if quick else 16
    jobs = [("native", [jline({"op": "hidden_probe", "probe": t, "again": 2, "outdir": outdir, "struct": True}) for t in fam[i::nchunk]],
             {"PYTHONHASHSEED": SEEDS[i % 4]}) for i in range(nchunk) if fam[i::nchunk]]
    outs = par(chk, jobs)
    f21 = {"tried": 0, "with_unscheduled_tasks": 0, "changed_by_second_call": 0}
    for i, ws in enumerate(outs):
        for t, o in zip(fam[i::nchunk], ws):
            r = junline(o)
            f21["tried"] += 1
            if "_raw" in r:
                raise HarnessFault(f"F21 stream op failed in the harness: {r['_raw'][:300]}")
            if r.get("exc"):
                continue
            d0 = r["digests"][0]
            if any(not v[2] for v in d0["tasks"].values()):
                f21["with_unscheduled_tasks"] += 1
                nontrivial.add("f21:" + t)
            if len(set(r["shas"])) > 1:
                f21["changed_by_second_call"] += 1
                j = next(i for i in range(1, len(r["shas"])) if r["shas"][i] != r["shas"][i - 1])
                found.append((f"schedule() call #{j + 1} changed the result of an already scheduled project",
                              {"text": t, "shas": r["shas"], "first_diff": first_diff(r["digests"][j - 1], r["digests"][j])}))
    chk.cov["evaluations"] += f21["tried"]
    chk.cov["F21_search"] = f21

    # ---- evidence
    chk.cov["distinct_nontrivial"] = len(nontrivial)
    chk.cov["op_kinds"] = dict(sorted(op_kinds.items()))
    chk.cov["mode_left_behind_by_history_ops"] = mode_left
    chk.cov["hash_seeds"] = SEEDS
    chk.cov["reference_runs"] = len(ref_jobs)
    chk.cov["rule"] = ("histories: 2..7 (thorough ..11) random ops over a pool of generated projects (1-3 scenarios, 15/30/60 min resolution, "
                       "six time zones, limits, leaves, ALAP, reports in csv/json), malformed texts (token delete/dup/swap/truncate/brace/garbage/"
                       "missing header), unschedulable projects (limit run-aways, shared container limits, efficiency 0.1, dependency cycles), runs "
                       "aborted by an injected exception at 9 points, parse without schedule, API-built projects, schedule()/reports on kept "
                       "projects; 5 (thorough 60) histories per worker process share one interpreter; workers run under PYTHONHASHSEED 0/1/12345/random, one "
                       "in eight without the compiled extensions; a quarter of the histories run without instrumentation. non-trivial = distinct "
                       "(history, probe) pairs in which at least one history op executed + distinct F21-stream projects with an unscheduled task. "
                       "wall-clock macros (${now}, ${today}, attribute now) are environment inputs and never generated")
    chk.cov["exhaustive"] = False
    chk.assumptions += [
        "set iteration order, GC timing and threads are not modelled; the static scan is the guard for the completeness of the model's inventory",
        "wall-clock inputs (${now}, ${today}, project attribute now, TjTime()) are environment inputs, excluded from generated texts",
        "the abstract outcome of an op (where it failed, number of scenarios, warnings emitted) is an input of the model",
        "floats in digests are rounded to 1e-6",
        "CLI-level state (logging configuration, F17) is outside this property's check"]
    return conclude(chk, disagreements, lambda: dedup(found))


def dedup(found):
    seen = set()
    out = []
    for what, payload in found:
        key = (what, payload.get("text") or json.dumps(payload.get("history", ""), sort_keys=True)[:200])
        if key in seen:
            continue
        seen.add(key)
        out.append((what, payload))
    # smallest text first: the replay should be readable
    out.sort(key=lambda x: len(x[1].get("text") or "") or 10 ** 6)
    return out


def first_diff(a, b, path=""):
    if path == "" and isinstance(a, dict) and isinstance(b, dict) and "internal" in a:
        # most readable section first: dates/flags, then report cells, then the ledgers
        for sec in ("project", "tasks", "reports", "ledger"):
            d = first_diff(a.get(sec), b.get(sec), "/" + sec)
            if d:
                return d
        return None
    if a is None or b is None:
        return None if a is b else f"{path}: one side missing"
    if type(a) is not type(b):
        return f"{path}: {str(a)[:80]} != {str(b)[:80]}"
    if isinstance(a, dict):
        for k in sorted(set(a) | set(b)):
            if k not in a or k not in b:
                return f"{path}/{k}: only on one side ({str(a.get(k))[:60]} | {str(b.get(k))[:60]})"
            d = first_diff(a[k], b[k], f"{path}/{k}")
            if d:
                return d
        return None
    if isinstance(a, list):
        if len(a) != len(b):
            return f"{path}: length {len(a)} != {len(b)} ({str(a)[:70]} | {str(b)[:70]})"
        for i, (x, y) in enumerate(zip(a, b)):
            d = first_diff(x, y, f"{path}[{i}]")
            if d:
                return d
        return None
    return None if a == b else f"{path}: {str(a)[:80]} != {str(b)[:80]}"


def flat_history(hist):
    """a history as it goes into a replay file: the histories that ran before it in the same worker process written out (ops,
    probe and parameters only)"""
    keys = ("ops", "probe", "again", "instrument", "newparser", "worker", "seed", "config")
    out = {k: hist[k] for k in keys if k in hist}
    out["earlier_in_worker"] = [{k: e[k] for k in keys if k in e} for e in hist.get("earlier_in_worker", [])]
    return out


def replay(chk, data):
    """re-run the failing input of a replay file: prints the digests"""
    text = data.get("text") or (data.get("history") or {}).get("probe")
    if not text:
        print("replay file holds no probe text")
        return 2
    if data.get("seeds") and not data.get("history"):
        # a difference between fresh processes under different hash seeds: run the probe alone under each of them (and under a
        # few fixed ones, in case a recorded seed was `random`)
        seeds = [s for s in data["seeds"] if s != "random"] + ["0", "1", "12345", "7", "99"]
        outs = {}
        for sd in dict.fromkeys(seeds):
            r = junline(chk.impl._run_chunk("native", [jline({"op": "hidden_probe", "probe": text, "again": 0,
                                                              "outdir": chk.impl.build.root})], 600, {"PYTHONHASHSEED": sd})[0])
            outs[sd] = json.dumps(r.get("shas")) + str(r.get("exc")) + json.dumps(r.get("cli"))
            print(f"PYTHONHASHSEED={sd}: {outs[sd][:160]}")
        chk.impl.close()
        bad = len(set(outs.values())) > 1
        if bad:
            print(f"VIOLATION property=C12 replay={data.get('_path', '?')}")
        return 1 if bad else 0
    hist = data.get("history") or {"ops": []}
    cfg = hist.get("config", "native")
    env = {"PYTHONHASHSEED": str(hist["seed"])} if hist.get("seed") not in (None, "random") else {}

    def hline(h, probe):
        return jline({"op": "hidden_history", "ops": h.get("ops", []), "probe": probe, "again": int(h.get("again", 2)),
                      "outdir": chk.impl.build.root, "struct": True, "newparser": bool(h.get("newparser", True)),
                      "instrument": bool(h.get("instrument", True))})
    # the histories that ran before it in the same worker process first, in the same interpreter (one chunk = one process)
    lines = [hline(e, e.get("probe", text)) for e in hist.get("earlier_in_worker", [])] + [hline(hist, text)]
    out = junline(chk.impl._run_chunk(cfg, lines, 900, env)[-1])
    fresh = junline(chk.impl._run_chunk("native", [jline({"op": "hidden_probe", "probe": text, "again": 0, "outdir": chk.impl.build.root})], 600, {})[0])
    shas = out.get("probe", {}).get("shas")
    print("after history / repeated schedule():", shas)
    print("fresh process:", fresh.get("shas"))
    bad = (shas and len(set(shas)) > 1) or (shas and fresh.get("shas") and shas[0] != fresh["shas"][0])
    if bad:
        d = out["probe"]["digests"]
        print("first difference:", first_diff(d[0], d[1]) if len(set(shas)) > 1 else first_diff(d[0], fresh["digests"][0]))
    # the programmatic entry point on the same text, after the history and in a fresh process
    cli_a, cli_f = out.get("probe", {}).get("cli"), fresh.get("cli")
    print("run_scriptplan after history:", cli_a)
    print("run_scriptplan fresh process:", cli_f)
    if cli_a != cli_f:
        bad = True
    if out.get("probe", {}).get("exc") != fresh.get("exc"):
        print("exception after history:", out.get("probe", {}).get("exc"), "| fresh process:", fresh.get("exc"))
        bad = True
    chk.impl.close()
    if bad:
        print(f"VIOLATION property=C12 replay={data.get('_path', '?')}")
    return 1 if bad else 0
