from .metamorphic import run_c16 as run  # noqa: F401
