"""C17 — slot/time conversion and interval scanning obey their algebra."""
import itertools

from .common import conclude, jline, junline

RES = [60, 300, 900, 1800, 3600]
THEOREM_FILES = ["Properties/C17.lean"]


def boards(chk, tier):
    rng = chk.rng
    out = []
    max_slots = 40 if tier == "quick" else 400
    sizes = sorted(set([1, 2, 3, 5, 8, 13, 24, max_slots] + [rng.randrange(1, max_slots) for _ in range(6 if tier == "quick" else 40)]))
    for g in RES:
        for n in sizes:
            for off in sorted(set([0, 1, g // 2, g - 1, rng.randrange(0, g)])):
                start = 1735689600 + rng.randrange(0, 400) * 86400 + rng.choice([0, 60, 3600 * 9, 86400 - 60])
                end = start + n * g + off
                out.append((start, end, g))
    return out


def slot_lines(bds, tier):
    lines = []
    for (s, e, g) in bds:
        n = -((-(e - s)) // g) + 1
        lines.append(f"size {s} {e} {g}")
        idxs = list(range(-3, n + 3)) if n <= 60 or tier != "quick" else list(range(-3, 8)) + list(range(n - 8, n + 3))
        for impl in ("py", "cy"):
            for i in idxs:
                for f in "01":
                    lines.append(f"idx2t {impl} {s} {e} {g} {i} {f}")
            ts = set()
            for i in idxs:
                base = s + i * g
                ts.update((base, base - 1, base + 1, base + g // 2))
            for t in sorted(ts):
                for f in "01":
                    lines.append(f"t2idx {impl} {s} {e} {g} {t} {f}")
            for i in idxs[:: max(1, len(idxs) // 12)]:
                lines.append(f"pidx2t {impl} {s} {g} {i}")
                lines.append(f"pt2idx {impl} {s} {g} {s + i * g + g // 3}")
    # indices with |i*G| >= 2^31 are outside the C-int guard of the compiled variants (trusted base)
    return lines


def scan_cases(chk, tier):
    bits = 9 if tier == "quick" else 13
    cases = []
    for n in range(2, bits + 1):
        pats = itertools.product("01", repeat=n) if n <= (8 if tier == "quick" else 11) else \
            ("".join(chk.rng.choice("01") for _ in range(n)) for _ in range(300 if tier == "quick" else 3000))
        for p in pats:
            p = "".join(p)
            wins = [(0, n - 1)]
            if n >= 4:
                wins += [(1, n - 2), (2, n - 1), (0, n // 2), (n // 2, n - 1)]
            if n <= 7 or tier != "quick":
                wins = [(a, b) for a in range(n) for b in range(a, n)] if n <= (6 if tier == "quick" else 9) else wins
            for (a, b) in wins:
                for m in (1, 2, 3):
                    cases.append((p, a, b, m))
    return cases


def run(chk):
    tier = chk.tier
    chk.obligations(THEOREM_FILES)
    if tier == "thorough":
        chk.leanchecker(["Properties.C17", "Proofs.Slots", "Proofs.Scan"])
    bds = boards(chk, tier)
    lines = slot_lines(bds, tier)
    cfg = lambda l: "pure" if l.split()[1] == "py" else "native"
    dis, _, _ = chk.differential("slots", lines, impl_of=cfg)
    sc = scan_cases(chk, tier)
    slines = [f"scan {impl} {p} {a} {b} {m}" for (p, a, b, m) in sc for impl in ("py", "cy")]
    # windows whose ends lie inside slots (the result must be that of the window of whole slots containing them)
    offs = [(0, 1800), (900, 0), (1234, 3599), (1, 1)]
    for j, (p, a, b, m) in enumerate(sc):
        if j % (5 if tier == "quick" else 3) == 0 and b <= len(p) - 2:
            so, eo = offs[(j // 5) % len(offs)]
            if a == b and so > eo:
                continue                                  # an inverted window
            slines += [f"scanw {impl} {p} {a} {so} {b} {eo} {m}" for impl in ("py", "cy")]
    dis2, _, _ = chk.differential("scan", slines, impl_of=cfg)
    # oracle pass on the real code (both configurations)
    found = []
    oracle_lines = [jline({"op": "c17_board", "s": s, "e": e, "g": g}) for (s, e, g) in bds]
    scan_or = [jline({"op": "c17_scan", "pat": p, "s": a, "e": b, "m": m}) for (p, a, b, m) in sc]
    for j, (p, a, b, m) in enumerate(sc):
        if j % (5 if tier == "quick" else 3) == 0 and b <= len(p) - 2:
            so, eo = offs[(j // 5) % len(offs)]
            if not (a == b and so > eo):
                scan_or.append(jline({"op": "c17_scan", "pat": p, "s": a, "e": b, "m": m, "so": so, "eo": eo}))
    nontrivial = set()
    for cfgname in ("native", "pure"):
        outs = chk.impl.run(oracle_lines + scan_or, config=cfgname)
        for l, o in zip(oracle_lines + scan_or, outs):
            r = junline(o)
            if "_raw" in r:
                found.append((f"C17 oracle crashed ({cfgname})", {"config": cfgname, "input": l, "impl": o}))
            elif r.get("bad"):
                found.append((f"slot algebra violated ({cfgname}): {r['bad'][0]}", {"config": cfgname, "input": l, "impl": r}))
            elif r.get("ok") is False:
                found.append((f"scan != maximal runs clipped to window ({cfgname})", {"config": cfgname, "input": l, "impl": r}))
            if r.get("want"):
                nontrivial.add(l)
        chk.cov["evaluations"] += len(outs)
    chk.cov["distinct_nontrivial"] = len(nontrivial) + len(set(bds))
    chk.cov["rule"] = ("boards: resolutions x sizes x end offsets x starts, all indices in [-3,size+3] (+/-1 s instants), "
                       "py=pure fallback, cy=rebuilt extension; scans: all bit patterns up to the tier's length x windows (a fifth of them with ends inside slots) x "
                       "m in 1..3; non-trivial = distinct boards + distinct scans whose expected result is non-empty")
    chk.cov["exhaustive"] = False
    chk.assumptions += ["double division == exact truncation for |diff| < 2^53/res", "C int guard for compiled variants",
                        "empty clipped intervals (start == end) emitted for runs outside the window are not counted as runs"]
    return conclude(chk, dis + dis2, lambda: found)


def replay(chk, payload):
    """re-run the recorded input: an oracle request (JSON op) in its configuration, or a line of the slots / scan streams"""
    from .common import replay_items
    found, dis = [], []
    cfg = lambda l: "pure" if l.split()[1] == "py" else "native"
    for it in replay_items(chk):
        l = it.get("input")
        if not isinstance(l, str):
            continue
        if l.startswith("J "):
            for cfgname in ([it["config"]] if it.get("config") else ["native", "pure"]):
                o = chk.impl.run([l], config=cfgname)[0]
                r = junline(o)
                if "_raw" in r:
                    found.append((f"C17 oracle crashed ({cfgname})", {"config": cfgname, "input": l, "impl": o}))
                elif r.get("bad"):
                    found.append((f"slot algebra violated ({cfgname}): {r['bad'][0]}", {"config": cfgname, "input": l, "impl": r}))
                elif r.get("ok") is False:
                    found.append((f"scan != maximal runs clipped to window ({cfgname})", {"config": cfgname, "input": l, "impl": r}))
        else:
            d, _, _ = chk.differential(it.get("stream", "replay"), [l], impl_of=cfg)
            dis += d
        chk.cov["evaluations"] += 1
    return conclude(chk, dis, lambda: found)
