"""C07 — ASAP schedules equal the priority-ordered earliest-fit schedule (core dialect)."""
import itertools
import json

from .. import astutil as A
from .. import gen, listsched, project_stream
from ..gen import Knobs, MON, H, D
from . import sched_common as SC
from .common import conclude


def universe_member(rng):
    """a random member of the bounded universe of DESIGN §6 C07"""
    nres = rng.choice([1, 2])
    res = []
    for i in range(nres):
        r = {"id": f"r{i}"}
        if i == 0 and rng.random() < 0.3:
            r["leaves"] = [["annual", MON + 9 * H + rng.choice([1, 2, 3]) * H, MON + 9 * H + rng.choice([4, 5]) * H]]
        elif i == 0 and rng.random() < 0.3:
            r["limits"] = {"dailymax": "2h"}
        res.append(r)
    ntask = rng.choice([2, 3, 3])
    tasks = []
    for i in range(ntask):
        t = {"id": f"t{i}", "effort": [str(rng.choice([1, 2, 3])), "h"], "prio": rng.choice([100, 500, 900])}
        t["alloc"] = ["r0", "r1"] if nres == 2 and rng.random() < 0.25 else [rng.choice([r["id"] for r in res])]
        if rng.random() < 0.25:
            t["start"] = MON + 11 * H
        tasks.append(t)
    for i in range(1, ntask):
        for j in range(i):
            if rng.random() < 0.35:
                tasks[i].setdefault("deps", []).append({"target": f"t{j}", "ref": f"t{j}", "gap": rng.choice([None, "1h"])})
    if rng.random() < 0.4 and ntask >= 2:
        kid = tasks.pop()
        kid.pop("deps", None)
        c = {"id": "box", "children": [kid]}
        if rng.random() < 0.5:
            c["children"].append({"id": "k2", "effort": [str(rng.choice([1, 2])), "h"], "alloc": list(kid["alloc"]), "prio": rng.choice([100, 500, 900])})
        tasks.insert(rng.randrange(len(tasks) + 1), c)
        # a task that waits for the whole container, possibly ranked above the container's leaves
        if rng.random() < 0.7:
            others = [t for t in tasks if t is not c and not any(d["target"].startswith("box") for d in t.get("deps", []))]
            if others:
                o = rng.choice(others)
                if not any(d["target"] == o["id"] for k in c["children"] for d in k.get("deps", [])):
                    o.setdefault("deps", []).append({"target": "box", "ref": "box", "gap": None})
    return {"start": MON, "dur": [1, "w"], "G": 3600, "resources": res, "tasks": tasks}


def enumerate_universe():
    """EVERY project of the bounded universe U (thorough tier): one-week project at 1 h resolution;
      resources: (A) one plain, (B) one with a leave Mon 10:00-13:00, (C) one with dailymax 2h, (D) two plain;
      2 or 3 leaf tasks, effort 1h|2h, priority 100|900; in (D) each task on r0 | r1 | team r0,r1;
      each pair j<i: no edge | depends | depends with gap 1h ((D): no edge | depends); t0 pinned to Mon 11:00 or not ((A)-(C));
      (E) one plain resource, t0, t1 and a container box{k1}: t1 depends t0 or not, one of t0/t1/nobody depends on box,
          k1 depends on t0 or not (cyclic combinations left out)."""
    out = []
    def proj(res, tasks):
        return {"start": MON, "dur": [1, "w"], "G": 3600, "resources": res, "tasks": tasks}
    def res_of(cfg):
        if cfg == "A":
            return [{"id": "r0"}]
        if cfg == "B":
            return [{"id": "r0", "leaves": [["annual", MON + 10 * H, MON + 13 * H]]}]
        if cfg == "C":
            return [{"id": "r0", "limits": {"dailymax": "2h"}}]
        return [{"id": "r0"}, {"id": "r1"}]
    for cfg in "ABCD":
        allocs = [["r0"]] if cfg != "D" else [["r0"], ["r1"], ["r0", "r1"]]
        edge_kinds = [None, "dep", "gap"] if cfg != "D" else [None, "dep"]
        pins = [False, True] if cfg != "D" else [False]
        for n in (2, 3):
            pairs = [(i, j) for i in range(1, n) for j in range(i)]
            per_task = list(itertools.product([1, 2], [100, 900], allocs))
            for attrs in itertools.product(per_task, repeat=n):
                for edges in itertools.product(edge_kinds, repeat=len(pairs)):
                    for pin in pins:
                        tasks = []
                        for i, (eff, prio, al) in enumerate(attrs):
                            tasks.append({"id": f"t{i}", "effort": [str(eff), "h"], "prio": prio, "alloc": list(al)})
                        for (i, j), e in zip(pairs, edges):
                            if e:
                                tasks[i].setdefault("deps", []).append({"target": f"t{j}", "ref": f"t{j}", "gap": "1h" if e == "gap" else None})
                        if pin:
                            tasks[0]["start"] = MON + 11 * H
                        out.append(proj(res_of(cfg), tasks))
    for attrs in itertools.product(itertools.product([1, 2], [100, 900]), repeat=3):
        for t1dep in (False, True):
            for waits in (None, "t0", "t1"):
                for kdep in (False, True):
                    if kdep and waits == "t0":
                        continue        # t0 -> box -> k1 -> t0
                    t0 = {"id": "t0", "effort": [str(attrs[0][0]), "h"], "prio": attrs[0][1], "alloc": ["r0"]}
                    t1 = {"id": "t1", "effort": [str(attrs[1][0]), "h"], "prio": attrs[1][1], "alloc": ["r0"]}
                    k1 = {"id": "k1", "effort": [str(attrs[2][0]), "h"], "prio": attrs[2][1], "alloc": ["r0"]}
                    if t1dep:
                        t1["deps"] = [{"target": "t0", "ref": "t0", "gap": None}]
                    if kdep:
                        k1["deps"] = [{"target": "t0", "ref": "!!t0" , "gap": None}]
                    if waits:
                        (t0 if waits == "t0" else t1).setdefault("deps", []).append({"target": "box", "ref": "box", "gap": None})
                    out.append(proj(res_of("A"), [t0, t1, {"id": "box", "children": [k1]}]))
    return out


def run(chk):
    tier = chk.tier
    chk.obligations(["Properties/C07.lean"])
    if tier == "thorough":
        chk.leanchecker(["Properties.C07", "Proofs.Order", "Proofs.Walk"])
    n = 250 if tier == "quick" else 6000
    nu = 250 if tier == "quick" else 3000
    k = Knobs(envelope="asap", sub_slot=0.0, p_alt=0.0, p_tz=0.0, p_eff=0.15, eff=["0.5", "2", "0.25"], p_onstart=0.15, p_leave=0.6, p_long_leave=0.5, p_nested_abs=1.0,
              p_prec=0.2, p_limits=0.3, p_tasklimits=0.1, p_team=0.2, big_effort=0.05, aligned_only=True, dur_weeks=[3, 4])
    k2 = Knobs(envelope="asap", sub_slot=0.0, p_alt=0.0, p_tz=0.0, p_eff=0.0, max_res=1, max_tasks=6, p_container=0.7, p_dep=0.7,
               p_gap=0.2, p_onstart=0.0, p_limits=0.1, p_tasklimits=0.0, p_team=0.0, big_effort=0.0, p_wh=0.1, p_leave=0.1,
               aligned_only=True, dur_weeks=[3, 4], p_pin=0.05)
    # alternatives under contention: outside the reference scheduler's dialect, compared with the model, whose driver evaluates
    # C07.alternative_earliest_fit on every one of them
    k3 = Knobs(envelope="asap", sub_slot=0.3, p_alt=0.6, p_tz=0.0, p_team=0.0, p_limits=0.2, p_tasklimits=0.1, p_leave=0.4,
               max_res=3, max_tasks=6, big_effort=0.3, aligned_only=True, dur_weeks=[3, 4])
    n3 = 60 if tier == "quick" else 1000
    # long tasks under task / container limits that run out in the middle of a day or week: where the walk resumes is part of
    # "earliest fit"
    k4 = Knobs(envelope="asap", sub_slot=0.0, p_alt=0.0, p_tz=0.0, p_team=0.0, p_eff=0.0, p_limits=0.2, p_tasklimits=0.7,
               p_container=0.4, big_effort=0.7, max_res=2, max_tasks=5, p_leave=0.2, aligned_only=True, dur_weeks=[5, 6])
    n4 = 60 if tier == "quick" else 1000
    asts = ([gen.gen_project(chk.rng, k) for _ in range(n // 2)] + [gen.gen_project(chk.rng, k2) for _ in range(n - n // 2)]
            + [universe_member(chk.rng) for _ in range(nu)] + [gen.gen_project(chk.rng, k3) for _ in range(n3)]
            + [gen.gen_project(chk.rng, k4) for _ in range(n4)])
    universe = enumerate_universe()
    # quick: a sample of the enumerated universe; thorough: all of it
    asts += universe if tier != "quick" else chk.rng.sample(universe, 150)
    from .common import replay_asts
    if replay_asts(chk) is not None:
        asts = replay_asts(chk)
    base = project_stream.run_projects(chk, asts, want_oracles=())
    dis = [{"stream": "project", "text": r["text"], "ast": r["ast"], "diffs": r["diffs"][:6]} for r in base if r["diffs"] and not r["skipped"]]
    found = []
    nontriv = 0
    in_dialect = 0
    seen = set()
    for r in base:
        p, obs = r["ast"], r["obs"]
        if not obs or "error" in obs:
            continue
        sc = obs["scenarios"][0]
        if any(not o["scheduled"] for o in sc["tasks"].values()):
            continue                    # something does not fit: outside the rule's claim
        ref = listsched.reference_schedule(p, obs["end"])
        if ref is None:
            continue
        in_dialect += 1
        bad = [(f, ref[f], (sc["tasks"][f]["start"], sc["tasks"][f]["end"])) for f in ref
               if (sc["tasks"][f]["start"], sc["tasks"][f]["end"]) != ref[f]]
        if bad:
            f = bad[0][0]
            if True:
                found.append((f"C07: task {f} is at {bad[0][2]}, the priority-ordered earliest-fit rule gives {bad[0][1]}",
                              {"ast": p, "text": r["text"], "reference": {k2: list(v) for k2, v in ref.items()}}))
        key = json.dumps(p, sort_keys=True)
        if key not in seen:
            seen.add(key)
            if len(ref) >= 2:
                nontriv += 1
    chk.cov["evaluations"] += len(asts)
    chk.cov["distinct_nontrivial"] = nontriv
    chk.cov["in_core_dialect"] = in_dialect
    chk.cov["rule"] = ("random core-dialect projects (aligned calendars, whole-slot efforts, DAGs, priorities, gaps, pinned starts, leaves, "
                       "limits, teams, all resolutions; a family with alternatives under contention, model and theorem only) plus random members of the bounded universe (<= 3 leaf tasks, efforts 1-3 slots, three "
                       "priorities, dependency subsets, gaps 0/1 slot, pinned start, 1-2 resources with leave or dailymax 2 slots, team or "
                       "single); real scheduler compared with the Lean model AND with an independent reference list scheduler written from "
                       "the rule; non-trivial = distinct in-dialect projects with >= 2 leaf tasks")
    chk.cov["exhaustive"] = tier != "quick"
    chk.cov["universe_size"] = len(universe)
    chk.cov["rule"] += ("; thorough tier: EVERY project of the bounded universe U defined in c07.enumerate_universe (2-3 leaf tasks, "
                        "efforts 1-2 slots, two priorities, all dependency subsets with gaps 0/1 slot, pinned start, four resource "
                        "configurations incl. leave, dailymax and teams, and the container family E); quick tier: a sample of 150 of them")
    for f in SC.load_known("C07"):
        if f["status"] == "open":
            chk.known_finding(f["id"], f.get("line", f["what_fails"]))
    return conclude(chk, dis, lambda: found)
