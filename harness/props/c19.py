"""C19 — the `plan` CLI honours its output contract.

Theorems: Properties/C19.lean (exit-code map, stdout = the report and nothing else, report_id = H(bytes),
same bytes file/stdin, always the auto report; refutations for the pinned text: F17, F26).
Tie: `cli` stream — the real entry point as a subprocess (private TMPDIR and cwd) for every input class x
channel x format, own reports, every fault point (sitecustomize injection), `-o`; compared with the Lean
model's (exit, stdout class, report_id class, -o file).  Search: the Python oracle in implops_cli.oracle.
"""
import json

from . import cli_common as cc
from .common import conclude, jline, junline
from .. import core

THEOREM_FILES = ["Properties/C19.lean"]
KEYS = ["exit", "out", "id", "ofile"]
KINDS = {"exit", "stdout", "stderr", "id", "rows", "columns", "channel", "F17", "F26"}
MANY_J = ",".join(["pj"] * 6)
MANY_C = ",".join(["pc"] * 5)


def cases(chk):
    rng = chk.rng
    thorough = chk.tier == "thorough"
    K = lambda: rng.randrange(0, 64)
    L = []
    # A. every input class x channel x format
    for fmt in ("json", "csv"):
        for cls in cc.FILE_CLASSES:
            L.append(cc.line(cls, "file", fmt, k=K()))
        for cls in cc.STDIN_CLASSES:
            L.append(cc.line(cls, "stdin", fmt, k=K()))
    # every way the engine can reject a text (k mod 6): syntax errors and grammatical projects refused while they are built
    # through MessageHandler.error() -> sys.exit() (witness of F51), on both channels
    for k in range(6):
        for channel in ("file", "stdin"):
            L.append(cc.line("syntax", channel, "json" if k % 2 else "csv", k=k))
    # every project shape once per channel (CRLF, non-ASCII, nested, comment without newline, ...)
    for shape in range(8):
        k = shape + 8 * rng.randrange(0, 6)
        L.append(cc.line("valid", "file", "json", k=k))
        L.append(cc.line("valid", "stdin", "json", k=k))
    # B. projects with their own reports, in the requested format and in the other one
    for ur in ("pj", "pc", "pb", MANY_J, MANY_C, "sj", "pb,sb", "pj,pj,pc"):
        for channel in ("file", "stdin"):
            for fmt in ("json", "csv"):
                L.append(cc.line("valid", channel, fmt, ureports=ur, k=K()))
    for _ in range(4 if not thorough else 16):          # F17 depends on directory order: several tries
        L.append(cc.line("valid", rng.choice(["file", "stdin"]), "json", ureports=MANY_J, k=K()))
        L.append(cc.line("unsched", "file", "csv", ureports=MANY_C, k=K()))
    # C. every fault point, both channels
    for f in cc.FAULTS:
        for channel in ("file", "stdin"):
            L.append(cc.line("valid", channel, rng.choice(["json", "csv"]), fault=f, k=K()))
        L.append(cc.line("valid", rng.choice(["file", "stdin"]), "json", fault=f, ureports="pj", k=K()))
    for f in ("readInput", "mkdtemp", "engineRaise", "echo", "copyRead"):
        L.append(cc.line(rng.choice(["missing", "empty", "dir"]), "file", "json", fault=f, k=K()))
        L.append(cc.line(rng.choice(["blank", "syntax"]), "stdin", "json", fault=f, k=K()))
    # D. -o / --force
    for out in ("new", "exists", "force", "newforce"):
        L.append(cc.line("valid", "file", "json", out=out, k=K()))
    L.append(cc.line("valid", "stdin", "csv", out="new", k=K()))
    L.append(cc.line("syntax", "file", "json", out="new", k=K()))
    L.append(cc.line("valid", "file", "json", fault="echo", out="new", k=K()))
    # E. random combinations
    for _ in range(20 if not thorough else 1200):
        channel = rng.choice(["file", "stdin"])
        cls = rng.choice(cc.FILE_CLASSES if channel == "file" else cc.STDIN_CLASSES)
        ur = rng.choice(["-", "-", "pj", "pc", "pb", "sj", "pj,pc,pb", MANY_J])
        L.append(cc.line(cls, channel, rng.choice(["json", "csv"]), fault=rng.choice(["none"] * 3 + cc.FAULTS),
                         out=rng.choice(["-"] * 4 + ["new", "exists", "force"]), ureports=ur, k=K()))
    seen, out = set(), []
    for l in L:
        if l not in seen:
            seen.add(l)
            out.append(l)
    return out


def channel_pairs(lines, real):
    """same text through both channels: stdout must be the same bytes"""
    by = {}
    for l, r in zip(lines, real):
        t = l.split()
        # key = everything except the channel; only fault-free stdout runs of accepted inputs
        if t[5] == "none" and t[6] == "-" and t[2] in ("valid", "unsched"):
            by.setdefault((t[2], t[4], t[7], t[8]), {})[t[3]] = (l, r)
    bad, n = [], 0
    for key, d in by.items():
        if "file" in d and "stdin" in d:
            n += 1
            a, b = cc.detail(d["file"][1]), cc.detail(d["stdin"][1])
            fa, fb = cc.fields(d["file"][1]), cc.fields(d["stdin"][1])
            # absolute report names embed the sandbox path in the text; they do not occur in this stream
            if fa and fb and fa["exit"] == "0" and fb["exit"] == "0" and a.get("input_sha") == b.get("input_sha") \
                    and a.get("stdout_sha") != b.get("stdout_sha") and fa["out"] == fb["out"] == "auto":
                bad.append(("the same bytes give different stdout through file and stdin",
                            {"stream": "cli", "input": d["file"][0], "other": d["stdin"][0], "kind": "channel"}))
    return bad, n


def run(chk):
    chk.obligations(THEOREM_FILES)
    if chk.tier == "thorough":
        chk.leanchecker(["Properties.C19", "Proofs.CliContract", "Proofs.Cli", "Proofs.CliClean"])
    lines = cases(chk)
    dis, model, real = cc.differential_cli(chk, "cli", lines, cc.canon_for(KEYS))
    bad = cc.crashed(lines, real)
    if bad:
        raise core.HarnessFault(f"cli worker failed on {bad[0][0]}: {bad[0][1]}")
    # secondary tie: handler -> exit code, read by ast; an entry the reader cannot determine (`?`, e.g. after a refactoring of
    # the handlers) is not comparable and counted — the exit codes are then tied by the subprocess runs of the `cli` stream alone
    exits_model = core.run_driver(["cliexits"])[0]
    mvals = dict(kv.split("=") for kv in exits_model.split())

    def canon_exits(line):
        vals = dict(kv.split("=") for kv in line.split() if "=" in kv)
        return " ".join(f"{k}={mvals[k] if vals.get(k, '?') == '?' else vals[k]}" for k in mvals)
    dis2, _, exits_real = chk.differential("cli-exits", ["cliexits"], canon=canon_exits)
    chk.cov["cli_exits_unreadable"] = exits_real[0].count("=?")
    cc.attribute(chk, dis, KEYS, ("F17", "F26"))
    found = cc.collect_violations(lines, real, KINDS)
    pair_bad, npairs = channel_pairs(lines, real)
    found += pair_bad
    # the same bytes as a file and on stdin, for bytes that are not a text: a project with a Latin-1 byte in it must fare alike
    # on both channels (exit status, nothing on stdout)
    nat_reqs = [{"op": "cli_natural", "k": chk.rng.randrange(0, 64), "fmt": f} for f in ("json", "csv")]
    found += natural_channels(chk, nat_reqs)
    chk.cov["evaluations"] += 2 * len(nat_reqs)
    # coverage
    nontrivial = set()
    hist = {}
    for l, r in zip(lines, real):
        t = l.split()
        if "Processing:" in cc.detail(r).get("stderr", "") or cc.fields(r)["exit"] == "0":
            nontrivial.add(l)
        f = cc.fields(r)
        key = f"{t[2]}/{t[3]}/{t[5]} -> exit {f['exit']} out {f['out']}"
        hist[key] = hist.get(key, 0) + 1
    chk.cov["distinct_nontrivial"] = len(nontrivial)
    chk.cov["rule"] = ("cli stream: input classes (valid, unschedulable, missing, directory, empty, whitespace-only, syntax error) x "
                       "channel (file/stdin) x format (json/csv), own reports in either/both formats (1..6 of them, plain and "
                       "sub-directory names), all 11 fault points x channel, -o/--force, random combinations; texts drawn from 64 "
                       "generated projects (CRLF, non-ASCII, nested, milestone, sub-hour resolution); one case = one subprocess of "
                       "the real entry point in a private sandbox + one fresh-interpreter direct schedule; non-trivial = distinct "
                       "cases that got past input validation (stderr shows 'Processing:') ")
    chk.cov["exhaustive"] = False
    chk.cov["file_stdin_pairs_compared"] = npairs
    chk.cov["outcome_histogram"] = dict(sorted(hist.items()))
    chk.cov["explained_disagreements"] = [{"input": d["input"], "explained_by": d.get("explained_by")} for d in dis[:20]]
    chk.assumptions += [
        "model abstractions: SHA-256, 'is blank', 'is empty', the engine's verdict and the rendered bodies are parameters (Env)",
        "the auto report's body depends on the original bytes and the format only (checked: file vs stdin, direct schedule)",
        "mkstemp/mkdtemp/token_hex return fresh names (OS contract)",
        "click argument parsing, stderr wording, encodings other than UTF-8, signals are not modelled",
        "an unschedulable project (dependency cycle) is a *successful* run of the pinned engine (exit 0, empty dates); "
        "the model takes the engine's verdict as given",
        "at most one injected fault per run; cleanup calls themselves are assumed not to fail",
    ]
    return conclude(chk, dis + dis2, lambda: found)


def natural_channels(chk, reqs):
    """the same bytes (not valid UTF-8) as a file and on stdin must fare alike: exit status, nothing on stdout"""
    found = []
    for rq, ans in zip(reqs, cc.run_impl_parallel(chk, [jline(r) for r in reqs])):
        r = junline(ans)
        if "_raw" in r:
            raise core.HarnessFault(f"cli_natural worker failed: {ans[:400]}")
        ef, es = r["file"]["line"].split()[1], r["stdin"]["line"].split()[1]
        if ef != es or bool(r["file"]["stdout_bytes"]) != bool(r["stdin"]["stdout_bytes"]):
            found.append((f"the same bytes (not valid UTF-8) end with exit {ef} as a file and exit {es} on stdin "
                          f"(stdout bytes {r['file']['stdout_bytes']} / {r['stdin']['stdout_bytes']})",
                          {"stream": "cli-natural", "input": jline(rq), "impl": r, "finding": None, "kind": "channels"}))
    return found


def replay(chk, payload):
    if str(payload.get("input", "")).startswith("J "):
        rq = json.loads(payload["input"][2:])
        found = natural_channels(chk, [rq])
        for f in found:
            print(f[0])
        return conclude(chk, [], lambda: found)
    lines = [payload["input"]] if "input" in payload else [d["input"] for d in payload.get("first_disagreements", [])]
    dis, model, real = cc.differential_cli(chk, "cli", lines, cc.canon_for(KEYS))
    found = cc.collect_violations(lines, real, KINDS)
    for l, m, r in zip(lines, model, real):
        print("input:", l, "\n model:", m, "\n impl: ", r[:600])
    return conclude(chk, dis, lambda: found)
