"""Verdict logic shared by all property checks (DESIGN §5)."""
import json


def jline(obj):
    return "J " + json.dumps(obj, sort_keys=True)


def junline(s):
    if s.startswith("J "):
        return json.loads(s[2:])
    return {"_raw": s}


def conclude(chk, disagreements, search):
    """`search()` -> list of (what, payload) concrete failing inputs found on the real code.

    - failing inputs found: VIOLATION with the input as replay.
    - proof obligations or correspondence broken and nothing found: VIOLATION ... no-failing-input-found,
      naming what no longer checks.
    """
    found = search() or []
    for what, payload in found[:5]:
        chk.violation(what, payload, found_input=True)
    if not found and (chk.broken or disagreements):
        chk.violation("proof obligation or correspondence no longer checks; no failing input found",
                      {"broken": chk.broken, "first_disagreements": disagreements[:5]}, found_input=False, tag="unproved")
    return chk.finish()


def replay_items(chk):
    """the recorded inputs of a `--replay` run (None in an ordinary run): the payload itself, or the disagreements it lists"""
    p = getattr(chk, "replay_payload", None)
    if p is None:
        return None
    items = p.get("first_disagreements") or [p]
    return [it for it in items if isinstance(it, dict)]


def replay_asts(chk):
    it = replay_items(chk)
    return None if it is None else [x["ast"] for x in it if isinstance(x.get("ast"), dict)]


def replay_inputs(chk, stream=None):
    """recorded line-protocol inputs (optionally of one stream)"""
    it = replay_items(chk)
    if it is None:
        return None
    return [x["input"] for x in it if isinstance(x.get("input"), str) and (stream is None or x.get("stream", stream) == stream)]
