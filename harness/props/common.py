"""Verdict logic shared by all property checks (DESIGN §5)."""
import json


def jline(obj):
    return "J " + json.dumps(obj, sort_keys=True)


def junline(s):
    if s.startswith("J "):
        return json.loads(s[2:])
    return {"_raw": s}


def conclude(chk, disagreements, search):
    """`search()` -> list of (what, payload) concrete failing inputs found on the real code.

    - failing inputs found: VIOLATION with the input as replay.
    - proof obligations or correspondence broken and nothing found: VIOLATION ... no-failing-input-found,
      naming what no longer checks.
    """
    found = search() or []
    for what, payload in found[:5]:
        chk.violation(what, payload, found_input=True)
    if not found and (chk.broken or disagreements):
        chk.violation("proof obligation or correspondence no longer checks; no failing input found",
                      {"broken": chk.broken, "first_disagreements": disagreements[:5]}, found_input=False, tag="unproved")
    return chk.finish()
