"""C20 — CLI runs leave no trace and do not interfere with each other.

Theorems: Properties/C20.lean (no_leftover / created_minus_removed_empty on every exit path under the engine
footprint hypothesis, repaired_no_leftover, noninterference + steps_commute + interleaved_no_trace for every
interleaving and every N; refutations for the pinned text: F18, F43).
Tie: `cli` stream — before/after listings of cwd, TMPDIR and the directory absolute names point to, for every
input class x channel, escaping / absolute / sub-directory report names, every fault point; compared with the
model's leftover set.  `cli-conc`: N concurrent runs in ONE cwd and ONE TMPDIR; every process is compared with the
model's solitary answer (noninterference) and, byte for byte, with the real solitary run (oracle).
"""
import json

from . import cli_common as cc
from .common import conclude, jline, junline
from .. import core

THEOREM_FILES = ["Properties/C20.lean"]
KEYS = ["left"]
KINDS = {"trace", "F18", "F43"}


def cases(chk):
    rng = chk.rng
    thorough = chk.tier == "thorough"
    K = lambda: rng.randrange(0, 64)
    L = []
    # A. every input class x channel
    for cls in cc.FILE_CLASSES:
        L.append(cc.line(cls, "file", rng.choice(["json", "csv"]), k=K()))
    for cls in cc.STDIN_CLASSES:
        L.append(cc.line(cls, "stdin", rng.choice(["json", "csv"]), k=K()))
    # every way the engine can reject a text (k mod 6): syntax errors and grammatical projects refused while they are built
    # through MessageHandler.error() -> sys.exit() (witness of F51), on both channels
    for k in range(6):
        for channel in ("file", "stdin"):
            L.append(cc.line("syntax", channel, "json" if k % 2 else "csv", k=k))
    # B. report names that point outside / below the output directory
    for ur in ("ej", "ec", "eb", "aj", "ab", "sj", "sb", "pj,ej", "sb,ab", "pb,pb,eb"):
        for channel in ("file", "stdin"):
            L.append(cc.line("valid", channel, rng.choice(["json", "csv"]), ureports=ur, k=K()))
    L.append(cc.line("unsched", "file", "json", ureports="ej", k=K()))
    L.append(cc.line("syntax", "file", "json", ureports="ej", k=K()))       # engine fails before writing anything
    # C. every fault point x channel, with and without own reports
    for f in cc.FAULTS:
        for channel in ("file", "stdin"):
            L.append(cc.line("valid", channel, rng.choice(["json", "csv"]), fault=f, k=K()))
            L.append(cc.line("valid", channel, "json", fault=f, ureports=rng.choice(["pj", "pb", "sj"]), k=K()))
    for f in ("readReport", "echo", "engineNoOutput"):                      # faults after the engine has written
        L.append(cc.line("valid", "file", "json", fault=f, ureports="ej", k=K()))
    for f in cc.FAULTS:
        L.append(cc.line(rng.choice(["missing", "dir", "empty", "syntax", "blank"]), "file", "json", fault=f, k=K()))
    # D. -o writes the requested file and nothing else
    for out in ("new", "exists", "force"):
        L.append(cc.line("valid", rng.choice(["file", "stdin"]), "json", out=out, k=K()))
    L.append(cc.line("valid", "file", "json", fault="readReport", out="new", k=K()))
    # E. random
    for _ in range(16 if not thorough else 400):
        channel = rng.choice(["file", "stdin"])
        cls = rng.choice(cc.FILE_CLASSES if channel == "file" else cc.STDIN_CLASSES)
        L.append(cc.line(cls, channel, rng.choice(["json", "csv"]), fault=rng.choice(["none"] * 2 + cc.FAULTS),
                         out=rng.choice(["-"] * 5 + ["new", "force"]),
                         ureports=rng.choice(["-", "-", "pj", "sb", "ej", "ab", "pj,sc,eb"]), k=K()))
    seen, out = set(), []
    for l in L:
        if l not in seen:
            seen.add(l)
            out.append(l)
    return out


def conc_requests(chk):
    rng = chk.rng
    thorough = chk.tier == "thorough"
    ns = [2, 8, 32] if not thorough else [2, 8, 32, 64, 128]
    reqs = []
    for n in ns:
        K = lambda: rng.randrange(0, 64)
        same = [["valid", rng.choice(["file", "stdin"]), rng.choice(["json", "csv"]), "-", K()]]
        diff = []
        for i in range(min(n, 8)):
            diff.append(["valid", "file" if i % 2 == 0 else "stdin", "json" if i % 3 else "csv",
                         rng.choice(["-", "-", "sj"]), K()])
        mixed = [["valid", "file", "json", "-", K()], ["missing", "file", "json", "-", K()],
                 ["syntax", "stdin", "json", "-", K()], ["blank", "stdin", "csv", "-", K()],
                 ["valid", "stdin", "csv", "-", K()], ["dir", "file", "json", "-", K()],
                 ["unsched", "file", "json", "-", K()], ["empty", "file", "csv", "-", K()]][:max(2, min(n, 8))]
        own = [["valid", "file", "json", "pj,pj,pj,pc", K()], ["valid", "stdin", "csv", "pc,pc,pb", K()]]
        esc = [["valid", "file", "json", "ej", K()], ["valid", "stdin", "json", "eb", K()]]
        for name, specs in (("same", same), ("different", diff), ("mixed-failing", mixed), ("own-reports", own),
                            ("escaping-names", esc)):
            for j in range(1 if not thorough else 2):
                reqs.append({"op": "cli_conc", "n": n, "specs": specs, "jitter": rng.randrange(1, 10**6), "scenario": name})
    # interleavings in which one run finishes - and removes what it created - while others have started but not yet read
    # their input: all processes are started, then fed one after the other
    K = lambda: rng.randrange(0, 64)
    stag = [["valid", "stdin", "json", "-", K()], ["valid", "stdin", "csv", "-", K()], ["valid", "file", "json", "-", K()],
            ["syntax", "stdin", "json", "-", K()]]
    for n in (4, 6) if not thorough else (4, 6, 8, 12):
        # (first in the list: what they find is reproducible, so it is what the replay file should hold)
        reqs.insert(0, {"op": "cli_conc", "n": n, "specs": stag, "jitter": rng.randrange(1, 10**6), "scenario": "chained-input",
                        "chained": True})
    reqs.append({"op": "cli_conc", "n": 4, "specs": stag, "jitter": rng.randrange(1, 10**6), "scenario": "staggered-input",
                 "stagger_ms": 700})
    return reqs


def run(chk):
    chk.obligations(THEOREM_FILES)
    if chk.tier == "thorough":
        chk.leanchecker(["Properties.C20", "Proofs.Cli", "Proofs.CliClean"])
    lines = cases(chk)
    reqs = conc_requests(chk)
    # solitary stream and concurrent stream are sent to the implementation together (one pool of workers)
    nat_reqs = [{"op": "cli_natural", "k": chk.rng.randrange(0, 64), "fmt": f} for f in ("json", "csv")]
    conc_lines = [jline(r) for r in nat_reqs] + [jline(r) for r in reqs]
    model = core.run_driver(lines)
    real_all = cc.run_impl_parallel(chk, conc_lines + lines)
    conc_out, real = real_all[:len(conc_lines)], real_all[len(conc_lines):]
    nat_out, conc_out = conc_out[:len(nat_reqs)], conc_out[len(nat_reqs):]
    bad = cc.crashed(lines, real)
    if bad:
        raise core.HarnessFault(f"cli worker failed on {bad[0][0]}: {bad[0][1]}")
    canon = cc.canon_for(KEYS)
    dis = [{"stream": "cli", "input": l, "model": m, "impl": r[:1500]} for l, m, r in zip(lines, model, real)
           if canon(m) != canon(r)]
    chk.cov["streams"]["cli"] = {"cases": len(lines), "disagreements": len(dis)}
    chk.cov["evaluations"] += len(lines)
    for k in range(4):
        i = (k * 7919) % len(lines)
        chk.cov["samples"].append({"stream": "cli", "input": lines[i], "model": model[i], "impl": real[i].split(" ## ")[0]})
    cc.attribute(chk, dis, KEYS, ("F18", "F43"))
    found = cc.collect_violations(lines, real, KINDS)

    # ---- faults that occur without injection (non-UTF-8 project file): model = the corresponding fault point
    nat_model = core.run_driver([cc.line("valid", "file", "json", fault="copyRead"),
                                 cc.line("valid", "stdin", "json", fault="stdinWrite"),
                                 cc.line("valid", "file", "json", fault="echo"),
                                 cc.line("valid", "stdin", "json", fault="echo")])
    ndis = []
    for rq, ans in zip(nat_reqs, nat_out):
        r = junline(ans)
        if "_raw" in r:
            raise core.HarnessFault(f"cli_natural worker failed: {ans[:400]}")
        for channel, m in zip(("file", "stdin", "gone", "gone-stdin"), nat_model):
            f = cc.fields(m)
            want = f"exit {f['exit']} left {f['left']}"
            if r[channel]["line"] != want:
                ndis.append({"stream": "cli-natural", "input": jline(rq), "channel": channel, "model": want, "impl": r[channel]["line"]})
            if not r[channel]["line"].endswith("left -"):
                if channel.startswith("gone"):
                    found.append((f"a report nobody reads (stdout closed, {channel}): the run leaves " + str(r[channel]["new"]) + " behind",
                                  {"stream": "cli-natural", "input": jline(rq), "channel": channel, "impl": r, "finding": None, "kind": "trace"}))
                else:
                    found.append(("F43: a project file that is not valid UTF-8 leaves " + str(r[channel]["new"]) + " behind",
                                  {"stream": "cli-natural", "input": jline(rq), "impl": r, "finding": "F43", "kind": "F43"}))
            if r[channel]["stdout_bytes"]:
                found.append(("non-UTF-8 input: bytes on stdout although the run failed", {"stream": "cli-natural", "input": jline(rq), "impl": r, "finding": None, "kind": "stdout"}))
    chk.cov["streams"]["cli-natural"] = {"cases": 4 * len(nat_reqs), "disagreements": len(ndis)}
    chk.cov["evaluations"] += 4 * len(nat_reqs)
    # ---- concurrent runs.  Model: by `noninterference`/`interleaved_no_trace` every process equals its solitary
    # run and nothing is left, whatever the interleaving; the model's answer for an experiment is therefore
    # "same-as-solitary left -".  Implementation: every process compared byte for byte with the real solitary run.
    procs = 0
    cdis = []
    conc_hist = {}
    for qi, (rq, ans) in enumerate(zip(reqs, conc_out)):
        r = junline(ans)
        if "_raw" in r:
            raise core.HarnessFault(f"cli_conc worker failed: {ans[:400]}")
        procs += r["n"]
        if r["nmismatch"]:
            cdis.append({"stream": "cli-conc", "input": jline(rq), "model": "same-as-solitary",
                         "impl": f"{r['nmismatch']} of {r['n']} differ", "first": r["mismatch"][:1]})
        if r["left"]:
            cdis.append({"stream": "cli-conc", "input": jline(rq), "model": "left -", "impl": "left " + ",".join(r["left"])})
        key = f"{rq['scenario']} N={rq['n']}"
        conc_hist[key] = {"mismatch": r["nmismatch"], "left": r["left"]}
        # oracle: byte-identical to the solitary run, nothing left in the shared directories
        own_same_fmt = rq["scenario"] == "own-reports"
        if r["nmismatch"]:
            m0 = r["mismatch"][0]
            kind = "F17" if own_same_fmt else "interference"
            msg = (f"{r['nmismatch']} of {r['n']} concurrent runs differ from the solitary run of the same input "
                   f"(process {m0['proc']}: exit {m0['exit']} vs {m0['solo_exit']})")
            found.append(((f"F17: {msg}" if kind == "F17" else msg),
                          {"stream": "cli-conc", "input": jline(rq), "impl": r, "finding": "F17" if kind == "F17" else None,
                           "kind": kind}))
        for c in r["left"]:
            fid = "F18" if (c == "ESC" and rq["scenario"] == "escaping-names") else None
            msg = f"after {r['n']} concurrent runs the shared directories still hold: {r['new']}"
            found.append(((f"{fid}: {msg}" if fid else msg),
                          {"stream": "cli-conc", "input": jline(rq), "impl": r, "finding": fid, "kind": fid or "trace"}))
    chk.cov["streams"]["cli-conc"] = {"cases": len(reqs), "processes": procs, "disagreements": len(cdis)}
    chk.cov["evaluations"] += procs
    chk.cov["disagreements"] += len(dis) + len(cdis) + len(ndis)
    chk.cov["samples"].append({"stream": "cli-conc", "input": reqs[1], "impl": junline(conc_out[1])})
    # F17 is a C19 finding; here it only explains why concurrent stdout differs in the own-reports scenario
    c20_found = [(w, p) for (w, p) in found if p.get("finding") != "F17"]
    f17_only = [(w, p) for (w, p) in found if p.get("finding") == "F17"]
    cdis_c20 = [d for d in cdis if not (json.loads(d["input"][2:])["scenario"] == "own-reports" and d["model"] == "same-as-solitary")]
    if f17_only:
        chk.cov["not_counted_here"] = {"F17 (C19) seen in the own-reports concurrent scenario": len(f17_only)}
    nontrivial = set()
    for l, r in zip(lines, real):
        d = cc.detail(r)
        if "Processing:" in d.get("stderr", "") or cc.fields(r)["exit"] == "0":
            nontrivial.add(l)                     # the run created at least one temp name
    chk.cov["distinct_nontrivial"] = len(nontrivial) + len({json.dumps(r, sort_keys=True) for r in reqs})
    chk.cov["rule"] = ("solitary: input classes x channel, report names that are plain / below / outside the output directory "
                       "(.., absolute), all 11 fault points x channel x with/without own reports, -o, random combinations; "
                       "before/after listing of a private sandbox (cwd, TMPDIR, target of absolute names, input intact). "
                       "concurrent: N in {2,8,32} (thorough: ..128) processes in ONE cwd and ONE TMPDIR, scenarios same input / "
                       "different inputs / mixed with failing ones / own reports / escaping names, start-up jitter; "
                       "non-trivial = distinct solitary cases that created at least one temp name + distinct concurrent experiments")
    chk.cov["exhaustive"] = False
    chk.cov["concurrent"] = conc_hist
    chk.cov["explained_disagreements"] = [{"input": d["input"], "explained_by": d.get("explained_by")} for d in dis[:20]]
    chk.assumptions += [
        "engine footprint hypothesis of the theorems: everything run_scriptplan writes is below its output directory "
        "(proved for the repaired call --report <auto id>; refuted for the pinned call: pinned_footprint_fails)",
        "mkstemp/mkdtemp/token_hex return fresh names (OS contract), encoded as Path.tmp pid kind",
        "real kernel scheduling and file-system semantics are not modelled; SIGKILL mid-run is outside 'every exit path'",
        "cleanup calls (unlink, rmtree) are assumed not to fail; at most one injected fault per run",
        "-o FILE: the requested file is the only thing that may remain",
    ]
    return conclude(chk, dis + ndis + cdis_c20, lambda: c20_found)


def replay(chk, payload):
    inp = payload.get("input", "")
    if inp.startswith("J "):
        out = cc.run_impl_parallel(chk, [inp])
        print(out[0][:2000])
        r = junline(out[0])
        found = []
        if '"cli_natural"' in inp:
            # faults that occur without injection: every channel must leave nothing behind and print nothing on stdout
            for channel in ("file", "stdin", "gone", "gone-stdin"):
                c = r.get(channel) or {}
                if not str(c.get("line", "")).endswith("left -"):
                    found.append((f"{channel}: the run leaves {c.get('new')} behind", {"input": inp, "channel": channel, "impl": r}))
                if c.get("stdout_bytes") and not channel.startswith("gone"):
                    found.append((f"{channel}: bytes on stdout although the run failed", {"input": inp, "channel": channel, "impl": r}))
            return conclude(chk, [], lambda: found)
        if r.get("nmismatch") or r.get("left"):
            found.append(("concurrent runs differ from solitary runs or leave files behind", {"input": inp, "impl": r}))
        return conclude(chk, [], lambda: found)
    lines = [inp]
    dis, model, real = cc.differential_cli(chk, "cli", lines, cc.canon_for(KEYS))
    found = cc.collect_violations(lines, real, KINDS)
    for l, m, r in zip(lines, model, real):
        print("input:", l, "\n model:", m, "\n impl: ", r[:600])
    return conclude(chk, dis, lambda: found)
