"""C18 — reports say what was scheduled.

Streams
  reptables : the tables the Lean model carries (PROPERTIES_BY_ID, task attribute definitions) == the source's
  repfmt    : `_format_value` on random values / time formats, model vs implementation
  report    : random small projects as .tjp + random report specs -> real parser + scheduler + report
              generation (x3) in the implementation worker; the scheduled data it extracts is fed, with the
              intended spec, to the Lean model; header / rows / body / JSON / CSV compared cell by cell.
Oracle (Python, on the implementation's observables only): C18 as stated.
"""
import json
import re
import os
from datetime import datetime, timedelta
from decimal import Decimal
from fractions import Fraction

from .. import core
from .common import conclude, jline, junline

THEOREM_FILES = ["Properties/C18.lean"]
ROOT = core.ROOT
EPOCH = datetime(1970, 1, 1)
DEFAULT_TF = "%Y-%m-%d"
TIE_EPS = Fraction(1, 10**8)          # in currency units: 10^-6 cent

DIRECTIVES = ["%Y", "%m", "%d", "%H", "%M", "%S", "%%"]
LITERALS = ["-", ".", ":", "/", " ", "T", ", ", "_", " at ", "h", "(", ")", "=", "+", ";", "wk ", "d"]
FIXED_FORMATS = [DEFAULT_TF, "%d.%m.%Y %H:%M", "%Y%m%dT%H%M%S", "%H:%M:%S %d/%m/%Y", "%%Y=%Y", "%m/%d", "%Y", "100%%",
                 "%Y-%m-%d %H:%M:%S"]
COLUMN_POOL = (["id", "name", "start", "end", "effort", "priority", "cost"] * 4 +
               ["complete", "duration", "status", "bsi", "seqno", "responsible", "effortdone", "effortleft",
                "scheduled", "milestone", "flags", "foo", "xyz", "chart", "daily", "no", "line", "resources", "rate",
                "scenario", "ID", "Id", "Start", "END", "Cost", "note", "limits", "forward"])
API_TITLES = ["Begin", "ID", "id", "Task", "Name", "Kosten", "end", "X"]
RATES = ["0", "1", "12.5", "33.33", "80", "100", "0.1", "7.77", "250.25", "19.99"]
NAMES = ["Alpha", "Build, test", "Prüfung", "x", "Long name with  two blanks", "Q1/2025", "a;b", "It's"]


def compact(obj):
    """JSON without blanks (blanks inside strings escaped) so that it is one token of the line protocol"""
    return json.dumps(obj, separators=(",", ":"), sort_keys=True).replace(" ", "\\u0020")


# ------------------------------------------------------------------ generators

def gen_format(rng):
    r = rng.random()
    if r < 0.35:
        return rng.choice(FIXED_FORMATS)
    parts = []
    for _ in range(rng.randint(1, 6)):
        parts.append(rng.choice(DIRECTIVES) if rng.random() < 0.65 else rng.choice(LITERALS))
    return "".join(parts)


def gen_project(rng, force=None):
    """returns (tjp text, intended spec, api titles)"""
    start_day = 6 + rng.randrange(0, 20)
    period = rng.choice(["+1w", "+1w", "+2w", "+1m"])
    ptf = None
    if rng.random() < 0.45:
        ptf = gen_format(rng) if rng.random() < 0.9 else ""
    nres = rng.randint(1, 2)
    res = []
    lines = []
    for i in range(nres):
        attrs = []
        if rng.random() < 0.85:
            attrs.append("rate " + rng.choice(RATES))
        if rng.random() < 0.3:
            attrs.append("efficiency " + rng.choice(["0.5", "2", "0.7", "1.5"]))
        res.append(f"r{i + 1}")
        lines.append(f'resource r{i + 1} "R {i + 1}" {{ {" ".join(attrs)} }}')
    slow = rng.random() < 0.35
    if slow:
        lines.append('resource slow "Slow" { rate ' + rng.choice(RATES) + " efficiency 0.1 }")
    # mostly small projects; one in eight has 10-14 tasks (row order across two-digit sibling numbers)
    budget = [rng.randint(1, 6) if rng.random() < 0.875 else rng.randint(10, 14)]
    counter = [0]

    def alloc():
        a = rng.choice(res)
        r = rng.random()
        if r < 0.15 and len(res) > 1:
            return "allocate " + ", ".join(res)
        if r < 0.25 and len(res) > 1:
            b = [x for x in res if x != a][0]
            return f"allocate {a} {{ alternative {b} }}"
        if r < 0.32:
            return f"allocate {a}, {a}"
        return "allocate " + a

    def leaf(prev, depth):
        counter[0] += 1
        tid = f"t{counter[0]}"
        name = rng.choice(NAMES) if rng.random() < 0.4 else f"T {counter[0]}"
        body = []
        kind = rng.random()
        if kind < 0.12:
            body.append("milestone")
        elif kind < 0.2:
            pass
        elif kind < 0.32 and slow:
            body.append(f"effort {rng.choice([40, 60, 80])}h allocate slow")     # run-away in a short project
        else:
            unit = rng.choice(["h", "h", "d", "min"])
            n = {"h": rng.randint(1, 40), "d": rng.randint(1, 6), "min": rng.choice([30, 45, 50, 90, 100, 135, 200])}[unit]
            body.append(f"effort {n}{unit} {alloc()}")
            if rng.random() < 0.15:
                # a backward-scheduled task: it books from its end towards its start (the money column must not care)
                body.append(f"scheduling alap end 2025-01-{min(28, start_day + 4 + rng.randrange(0, 3)):02d}-17:00")
        if prev and rng.random() < 0.45:
            body.append("depends !" + rng.choice(prev))
        if rng.random() < 0.2:
            body.append("priority " + str(rng.choice([100, 300, 700, 900, 1000])))
        if rng.random() < 0.12:
            body.append(f"start 2025-01-{min(28, start_day + rng.randrange(0, 5)):02d}")
        pad = "  " * depth
        return tid, f'{pad}task {tid} "{name}" {{ {" ".join(body)} }}'

    def container(prev, depth):
        counter[0] += 1
        tid = f"c{counter[0]}"
        kids = []
        ids = []
        n = rng.randint(1, 3)
        for _ in range(n):
            if budget[0] <= 0:
                break
            budget[0] -= 1
            if depth < 2 and rng.random() < 0.2 and budget[0] > 0:
                cid, txt = container(ids, depth + 1)
            else:
                cid, txt = leaf(ids, depth + 1)
            ids.append(cid)
            kids.append(txt)
        pad = "  " * depth
        if not kids:
            return tid, f'{pad}task {tid} "Empty {tid}" {{ }}'
        return tid, f'{pad}task {tid} "Group {tid}" {{\n' + "\n".join(kids) + f"\n{pad}}}"

    top = []
    while budget[0] > 0:
        budget[0] -= 1
        if rng.random() < 0.3 and budget[0] > 0:
            tid, txt = container(top, 0)
        else:
            tid, txt = leaf(top, 0)
        top.append(tid)
        lines.append(txt)

    # ---- report spec
    ncol = rng.randint(1, 7)
    cols = [rng.choice(COLUMN_POOL) for _ in range(ncol)]
    if rng.random() < 0.3:
        cols.insert(rng.randrange(0, len(cols) + 1), rng.choice(cols))        # duplicate column
    if force == "distinct":
        seen, out = set(), []
        for c in cols:
            if c.lower() not in seen:
                seen.add(c.lower())
                out.append(c)
        cols = out
    titles = [None] * len(cols)
    if rng.random() < 0.15 and force != "distinct":
        for _ in range(rng.randint(1, 2)):
            titles[rng.randrange(len(cols))] = rng.choice(API_TITLES)
    rtf = None
    r = rng.random()
    if r < 0.5:
        rtf = gen_format(rng)
    elif r < 0.58:
        rtf = DEFAULT_TF                     # explicit default: the project's format wins (as written in the code)
    elif r < 0.62:
        rtf = ""
    leaf_only = None if rng.random() < 0.5 else rng.random() < 0.6
    formats = rng.choice([None, ["json"], ["csv"], ["json", "csv"], ["csv", "json"], ["json", "json"]])
    # a report about a later scenario of a project with two scenarios: its cells are that scenario's values
    scen_hdr, scenario = "", 0
    if rng.random() < 0.2:
        scen_hdr = ' scenario plan "Plan" { scenario delayed "Delayed" }'
        k = 0
        for i, l in enumerate(lines):
            m = re.search(r"effort (\d+)(h|d|min) allocate", l)
            if m and "allocate slow" not in l and rng.random() < 0.6:
                lines[i] = l.replace(m.group(0), f"effort {m.group(1)}{m.group(2)} delayed:effort {int(m.group(1)) + rng.choice([1, 2, 5])}{m.group(2)} allocate", 1)
                k += 1
        scenario = 1 if rng.random() < 0.8 else 0
    rep = ['taskreport rep "rep" {']
    if scen_hdr:
        rep.append("  scenarios " + ("delayed" if scenario == 1 else "plan"))
    if formats:
        rep.append("  formats " + ", ".join(formats))
    rep.append("  columns " + ", ".join(cols))
    if rtf is not None:
        rep.append(f'  timeformat "{rtf}"')
    if leaf_only is not None:
        rep.append("  leaftasksonly " + ("true" if leaf_only else "false"))
    rep.append("}")
    head = f'project p "P" 2025-01-{start_day:02d} {period} {{' + (f' timeformat "{ptf}"' if ptf is not None else "") + scen_hdr + " }"
    tjp = "\n".join([head] + lines + rep) + "\n"
    spec = {"columns": [{"id": c, "title": t} for c, t in zip(cols, titles)], "timeFormat": rtf,
            "projectTimeformat": ptf, "leafTasksOnly": bool(leaf_only), "formats": formats or ["json"]}
    return {"tjp": tjp, "spec": spec, "titles": titles, "scenario": scenario}


def gen_fmt_lines(rng, n):
    lines = []
    for _ in range(n):
        k = rng.random()
        if k < 0.55:
            t = rng.choice([rng.randrange(0, 4102444800), rng.randrange(1700000000, 1800000000),
                            rng.choice([951782400, 951868799, 1709164800, 1735689599, 1735689600, 253402300799,
                                        -30610224000, 4107542399])])
            v = {"t": "time", "v": t}
        elif k < 0.75:
            q = rng.choice([Fraction(rng.randrange(0, 10**7), rng.choice([1, 2, 3, 7, 8, 100, 1000, 3600])),
                            Fraction(rng.randrange(0, 4000) * 2 + 1, 8), Fraction(rng.randrange(0, 10**6), 10**3),
                            Fraction(float(rng.randrange(0, 10**6)) / 1000.0)])
            q = Fraction(float(q))                                   # a value a double can hold
            if rng.random() < 0.15:
                q = -q
            v = {"t": "float", "v": f"{q.numerator}/{q.denominator}"}
        elif k < 0.8:
            v = {"t": "none"}
        elif k < 0.85:
            v = {"t": "bool", "v": rng.random() < 0.5}
        elif k < 0.9:
            v = {"t": "int", "v": rng.choice([0, 1, -1, 500, 1000, rng.randrange(-10**6, 10**12)])}
        elif k < 0.95:
            v = {"t": "str", "v": rng.choice(NAMES + ["", "-", "Yes"])}
        else:
            v = {"t": "list", "v": [rng.choice(NAMES) for _ in range(rng.randrange(0, 4))]}
        fmt = gen_format(rng) if rng.random() < 0.93 else ""
        lines.append("repfmt " + compact({"v": v, "fmt": fmt}))
    return lines


# ------------------------------------------------------------------ oracle: C18 as stated, on the real code's observables

def effective_format(spec):
    tf = spec["timeFormat"] if spec["timeFormat"] is not None else DEFAULT_TF
    if tf == DEFAULT_TF and spec["projectTimeformat"]:
        tf = spec["projectTimeformat"]
    return tf


def titles_distinct(header):
    low = [h.lower() for h in header]
    return len(set(low)) == len(low)


def exact_cost(data, tid):
    rate = {r["id"]: Fraction(r["rate"]) for r in data["resources"]}
    return sum((rate[b["res"]] * Fraction(b["secs"]) / 3600 for b in data["ledger"] if b["task"] == tid), Fraction(0))


def expected_cell(data, t, cid, fmt, known_attrs):
    """what C18 says the cell must show; None = the statement has no opinion on this column"""
    if cid == "id":
        return t["id"]
    if cid == "name":
        return t["name"]
    if cid in ("start", "end"):
        v = t[cid]
        if not t["scheduled"] or v is None:
            return ""                                   # unscheduled tasks show empty dates
        d = EPOCH + timedelta(seconds=v)
        return d.strftime(fmt) if fmt else str(d)
    if cid == "effort":
        e = t["effort"]
        return str(e["v"]) if e["t"] == "int" else "%.2f" % float(Fraction(e["v"]))
    if cid == "priority":
        return str(t["priority"])
    if cid == "cost":
        return ("money", exact_cost(data, t["id"]))
    if cid not in known_attrs and cid != "revenue":
        return "-"
    return None


def money_ok(cell, exact):
    if exact == 0:
        return cell == ""
    try:
        shown = Fraction(Decimal(cell))
    except Exception:  # noqa: BLE001
        return False
    return abs(shown - exact) <= Fraction(1, 200) + TIE_EPS and "." in cell and len(cell.split(".")[1]) == 2


def oracle(case, res, known_attrs):
    """list of (clause, message) violated by the implementation on this case"""
    bad = []
    spec, data = case["spec"], res["data"]
    rounds = res["rounds"]
    r0 = rounds[0]
    tasks = sorted(data["tasks"], key=lambda t: t["seq"])
    want_rows = [t for t in tasks if t["leaf"] or not spec["leafTasksOnly"]]
    if r0["rows"] != [t["id"] for t in want_rows] or len(r0["body"]) != len(want_rows):
        bad.append(("rows", f"rows {r0['rows']} != tasks in declaration order {[t['id'] for t in want_rows]}"))
        return bad
    if len(r0["header"]) != 1 or len(r0["header"][0]) != len(spec["columns"]):
        bad.append(("header", "header is not one cell per column"))
        return bad
    fmt = effective_format(spec)
    for i, t in enumerate(want_rows):
        row = r0["body"][i]
        if len(row) != len(spec["columns"]):
            bad.append(("cell", f"row {t['id']} has {len(row)} cells for {len(spec['columns'])} columns"))
            continue
        for j, c in enumerate(spec["columns"]):
            exp = expected_cell(data, t, c["id"], fmt, known_attrs)
            got = row[j]
            if exp is None:
                continue
            if isinstance(exp, tuple):
                if not money_ok(got, exp[1]):
                    bad.append(("cost", f"task {t['id']}: cost cell {got!r} but rate x booked time = {float(exp[1]):.6f}"))
            elif got != exp:
                if c["id"] in ("start", "end") and not t["scheduled"]:
                    bad.append(("unscheduled-date", f"unscheduled task {t['id']} shows {c['id']} {got!r}"))
                else:
                    bad.append(("cell", f"task {t['id']} column {c['id']}: {got!r} != formatted value {exp!r}"))
    # JSON and CSV carry identical cells
    csv_rows = r0["csv"]
    if csv_rows[0] != r0["header"][0] or csv_rows[1:] != r0["body"]:
        bad.append(("csv", "CSV rows are not header + body"))
    low = [h.lower() for h in r0["header"][0]]
    jc = r0["jcolumns"]
    # one key per column, pairwise different; the lower-cased title itself, or (for a repeated title) the title qualified
    if (len(jc) != len(low) or len(set(jc)) != len(jc) or any(not (k == l or k.startswith(l + "_")) for k, l in zip(jc, low))
            or (titles_distinct(r0["header"][0]) and jc != low)):
        bad.append(("json", f"JSON column names {jc} are not one distinct key per column derived from the lower-cased header {low}"))
    for i, rec in enumerate(r0["jdata"]):
        if [v for _k, v in rec] != csv_rows[i + 1]:
            bad.append(("json-csv", f"row {i}: JSON record carries {len(rec)} cells {[v for _k, v in rec]}, "
                                    f"CSV row {len(csv_rows[i + 1])} cells {csv_rows[i + 1]}"))
            break
    # files written = requested formats, and hold the same content
    want_files = sorted({f"rep.{f}" for f in spec["formats"]})
    if sorted(r0["files"]) != want_files:
        bad.append(("files", f"files written {sorted(r0['files'])} != requested {want_files}"))
    jf = r0["files"].get("rep.json")
    if jf is not None:
        d = dict((k, v) for k, v in jf)
        recs = [[[k, v] for k, v in rec] for rec in d.get("data", [])]
        if recs != r0["jdata"] or d.get("columns") != r0["jcolumns"]:
            bad.append(("files", "rep.json differs from to_json()"))
    cf = r0["files"].get("rep.csv")
    if cf is not None and cf != csv_rows:
        bad.append(("files", "rep.csv differs from to_csv()"))
    # generating any number of times never alters the schedule (nor the output)
    if not res["readonly"]:
        bad.append(("readonly", f"schedule changed by report generation: {res['diff']}"))
    for k, r in enumerate(rounds[1:], 2):
        for key in ("header", "body", "rows", "jcolumns", "jdata", "csv", "files"):
            if r[key] != r0[key]:
                bad.append(("readonly", f"generation #{k} produced a different {key}"))
                break
    if any(r["contexts_left"] != 0 or r["rc"] != 0 for r in rounds):
        bad.append(("readonly", "report context stack not restored / non-zero return"))
    return bad


# ------------------------------------------------------------------ model vs implementation

def model_line(case, res):
    return "report " + compact({"project": res["data"], "spec": case["spec"]})


def compare(case, res, m):
    """differences between the Lean model's answer `m` and the implementation's first round"""
    r0 = res["rounds"][0]
    diffs = []
    seen = res["spec_seen"]
    spec = case["spec"]
    if (seen["timeFormat"] != (spec["timeFormat"] if spec["timeFormat"] is not None else DEFAULT_TF)
            or (seen["projectTimeformat"] or None) != (spec["projectTimeformat"] or None)
            or seen["leafTasksOnly"] != spec["leafTasksOnly"] or seen["formats"] != spec["formats"]
            or seen["columns"] != spec["columns"]):
        diffs.append(f"parsed report attributes {seen} != written spec {spec}")
    if m["header"] != r0["header"][0]:
        diffs.append(f"header {m['header']} vs {r0['header'][0]}")
    if m["rows"] != r0["rows"]:
        diffs.append(f"rows {m['rows']} vs {r0['rows']}")
        return diffs
    ties = {(i, j): alt for i, j, alt in m["ties"]}
    used = case.setdefault("_ties_used", set())

    def cell_eq(mc, ic, i, j):
        if mc == ic:
            return True
        if isinstance(mc, str) and ties.get((i, j)) == ic:
            used.add((i, j))
            return True
        return False
    for i, (mr, ir) in enumerate(zip(m["body"], r0["body"])):
        if len(mr) != len(ir):
            diffs.append(f"row {i}: {len(mr)} vs {len(ir)} cells")
            continue
        for j, (mc, ic) in enumerate(zip(mr, ir)):
            if not cell_eq(mc, ic, i, j):
                diffs.append(f"cell[{i}][{j}] ({case['spec']['columns'][j]['id']}): model {mc!r} impl {ic!r}")
    if len(m["body"]) != len(r0["body"]):
        diffs.append("body length")
    if m["jcolumns"] != r0["jcolumns"]:
        diffs.append("json columns")
    for i, (mrec, irec) in enumerate(zip(m["jdata"], r0["jdata"])):
        if [k for k, _ in mrec] != [k for k, _ in irec]:
            diffs.append(f"json record {i} keys {[k for k, _ in mrec]} vs {[k for k, _ in irec]}")
            continue
        for (k, mv), (_k, iv) in zip(mrec, irec):
            # a record value comes from the last column with that key
            js = [j for j, name in enumerate(m["jcolumns"]) if name == k]
            if not cell_eq(mv, iv, i, js[-1] if js else -1):
                diffs.append(f"json[{i}][{k}]: model {mv!r} impl {iv!r}")
    if len(m["jdata"]) != len(r0["jdata"]):
        diffs.append("json data length")
    if len(m["csv"]) != len(r0["csv"]) or m["csv"][0] != r0["csv"][0]:
        diffs.append("csv shape/header")
    else:
        for i, (mr, ir) in enumerate(zip(m["csv"][1:], r0["csv"][1:])):
            if len(mr) != len(ir) or any(not cell_eq(a, b, i, j) for j, (a, b) in enumerate(zip(mr, ir))):
                diffs.append(f"csv row {i}: {mr} vs {ir}")
    if sorted(set(m["files"])) != sorted(f.split(".")[-1] for f in r0["files"]):
        diffs.append(f"renderings {m['files']} vs files {sorted(r0['files'])}")
    if m["distinct"] != titles_distinct(r0["header"][0]):
        diffs.append("distinct-titles classification differs")
    return diffs


# ------------------------------------------------------------------ the check

def load_findings():
    out = {}
    for fid in ("F19", "F20", "F28"):
        p = os.path.join(ROOT, "findings", fid + ".json")
        if os.path.exists(p):
            out[fid] = json.load(open(p))
    return out


def known_status():
    st = {}
    for src in (os.path.join(ROOT, "known_findings.json"), os.path.join(ROOT, "notes", "findings-report.json")):
        if os.path.exists(src):
            for f in json.load(open(src)).get("findings", []):
                if f.get("property") == "C18":
                    st.setdefault(f["id"], f)
    return st


def run_cases(chk, cases, configs):
    """implementation run + model run + comparison + oracle for `cases`; returns (disagreements, failures)"""
    lines = [jline({"op": "rep_run", "tjp": c["tjp"], "titles": c["titles"], "times": 3, "scenario": c.get("scenario", 0)}) for c in cases]
    by_cfg = {}
    for i, c in enumerate(cases):
        by_cfg.setdefault(configs(i), []).append(i)
    outs = [None] * len(cases)
    for cfg, idxs in by_cfg.items():
        for i, o in zip(idxs, chk.impl.run([lines[i] for i in idxs], config=cfg)):
            outs[i] = o
    results = [junline(o) for o in outs]
    mlines, midx = [], []
    for i, (c, r) in enumerate(zip(cases, results)):
        if "_raw" not in r:
            mlines.append(model_line(c, r))
            midx.append(i)
    mouts = core.run_driver(mlines)
    models = {i: o for i, o in zip(midx, mouts)}
    return results, models


def run(chk):
    tier = chk.tier
    rng = chk.rng
    chk.obligations(THEOREM_FILES)
    if tier == "thorough":
        chk.leanchecker(["Properties.C18", "Proofs.Report", "Model.Report"])
    status = known_status()
    findings = load_findings()
    dis = []

    # ---- stream reptables: the constants the model carries
    d0, mo, io_ = chk.differential("reptables", ["reptables"], canon=lambda s: _canon_tables(s))
    dis += d0
    known_attrs = set()
    try:
        known_attrs = {k for k, _ in json.loads(io_[0])["defs"]}
    except Exception:  # noqa: BLE001
        raise core.HarnessFault("implementation did not answer reptables: " + str(io_[0])[:300])

    # ---- stream repfmt
    nfmt = 4000 if tier == "quick" else 60000
    fl = gen_fmt_lines(rng, nfmt)
    d1, m1, _ = chk.differential("repfmt", fl, canon=_canon_json)
    # out-of-range / unsupported answers of the model are outside its claim, not disagreements
    d1 = [d for d in d1 if not d["model"].startswith('{"err"')]
    outside = sum(1 for m in m1 if m.startswith('{"err"'))
    chk.cov["streams"]["repfmt"]["outside_model"] = outside
    chk.cov["streams"]["repfmt"]["disagreements"] = len(d1)
    dis += d1
    # directives outside the set must be declined by the model, never defaulted
    declined = core.run_driver(["repfmt " + compact({"v": {"t": "time", "v": 1736154000}, "fmt": f})
                                for f in ("%y", "%j", "%A", "%", "%Y%", "%-d", "ä")])
    if any(a != '{"err":"unsupported-directive"}' for a in declined):
        chk.broken.append({"kind": "model", "detail": f"unsupported strftime directives not declined: {declined}"})

    # ---- stream report: corpus (witnesses of recorded findings) first, then generated cases
    corpus = []
    for fid, f in sorted(findings.items()):
        for k, c in enumerate(f["cases"]):
            corpus.append({"tjp": c["tjp"], "spec": c["spec"], "titles": c.get("titles") or [None] * len(c["spec"]["columns"]),
                           "corpus": f"{fid}#{k}", "expect": c.get("expect")})
    ngen = 1500 if tier == "quick" else 40000
    gen = [gen_project(rng, force="distinct" if k % 3 == 0 else None) for k in range(ngen)]
    cases = corpus + gen
    results, models = run_cases(chk, cases, lambda i: "pure" if i % 7 == 3 else "native")

    found = []
    stats = {"cases": len(cases), "parse_or_crash": 0, "rows": 0, "cells": 0, "unscheduled_tasks": 0, "runaway_with_start": 0,
             "containers": 0, "dup_titles": 0, "money_cells": 0, "money_ties": 0, "money_tie_other_neighbour_accepted": 0, "leaf_only": 0, "json_csv_known_region": 0,
             "model_declined": 0, "formats": {}, "nontrivial": 0}
    ndis = 0
    seen_shapes = set()
    for i, (c, r) in enumerate(zip(cases, results)):
        if "_raw" in r:
            stats["parse_or_crash"] += 1
            # the generator only writes valid projects: a crash in parser / scheduler / report is reported, but
            # it is not a statement about C18 unless the oracle can pin it on a report clause
            dis.append({"stream": "report", "input": c["tjp"], "model": None, "impl": r["_raw"][:600]})
            ndis += 1
            continue
        if r.get("unmodelled"):
            stats["model_declined"] += 1
        m = junline("J " + models[i]) if models[i].startswith("{") else {"_raw": models[i]}
        if "_raw" in m:
            dis.append({"stream": "report", "input": c["tjp"], "model": models[i][:300], "impl": "ok"})
            ndis += 1
            continue
        diffs = compare(c, r, m)
        bad = oracle(c, r, known_attrs)
        header = r["rounds"][0]["header"][0] if r["rounds"][0]["header"] else []
        distinct = titles_distinct(header)
        # envelope: the JSON = CSV clause is proved only under distinct titles (F20, open)
        new_bad = []
        for clause, msg in bad:
            if clause == "json-csv" and not distinct and status.get("F20", {}).get("status", "open") == "open":
                # known region; the model must show the same collapse
                mj = [[v for _k, v in rec] for rec in m["jdata"]]
                if mj != [row for row in m["csv"][1:]]:
                    stats["json_csv_known_region"] += 1
                    continue
            new_bad.append((clause, msg))
        if diffs:
            ndis += 1
            dis.append({"stream": "report", "input": c["tjp"], "spec": c["spec"], "model": diffs[:6], "impl": "see replay",
                        "corpus": c.get("corpus")})
        for clause, msg in new_bad[:2]:
            found.append((f"C18 violated ({clause}): {msg}",
                          {"stream": "report", "clause": clause, "tjp": c["tjp"], "spec": c["spec"], "titles": c["titles"],
                           "scenario": c.get("scenario", 0), "config": "pure" if i % 7 == 3 else "native",
                           # the cases that ran before this one in the same implementation process (same configuration): a
                           # failure may depend on what they left behind
                           "earlier_cases": [{"tjp": cases[j]["tjp"], "titles": cases[j]["titles"], "scenario": cases[j].get("scenario", 0)}
                                             for j in range(max(0, i - 60), i) if (j % 7 == 3) == (i % 7 == 3)][-25:],
                           "corpus": c.get("corpus"), "impl_round0": {k: r["rounds"][0][k] for k in ("header", "rows", "body", "jdata", "csv")},
                           "tasks": r["data"]["tasks"], "ledger": r["data"]["ledger"], "resources": r["data"]["resources"]}))
        # coverage accounting
        t = r["data"]["tasks"]
        stats["rows"] += len(r["rounds"][0]["body"])
        stats["cells"] += sum(len(x) for x in r["rounds"][0]["body"])
        stats["unscheduled_tasks"] += sum(1 for x in t if not x["scheduled"])
        stats["runaway_with_start"] += sum(1 for x in t if not x["scheduled"] and x["start"] is not None)
        stats["containers"] += sum(1 for x in t if not x["leaf"])
        stats["dup_titles"] += 0 if distinct else 1
        stats["leaf_only"] += 1 if c["spec"]["leafTasksOnly"] else 0
        stats["money_cells"] += sum(1 for row in r["rounds"][0]["body"] for col, txt in zip(c["spec"]["columns"], row)
                                    if col["id"] == "cost" and txt not in ("", "-"))
        stats["money_ties"] += len(m["ties"])
        stats["money_tie_other_neighbour_accepted"] += len(c.get("_ties_used", ()))
        k = ",".join(c["spec"]["formats"])
        stats["formats"][k] = stats["formats"].get(k, 0) + 1
        shape = (tuple(col["id"] for col in c["spec"]["columns"]), effective_format(c["spec"]), c["spec"]["leafTasksOnly"],
                 tuple((x["leaf"], x["scheduled"]) for x in t))
        if len(t) >= 1 and r["rounds"][0]["body"]:
            seen_shapes.add(shape)
    st = chk.cov["streams"].setdefault("report", {"cases": 0, "disagreements": 0})
    st["cases"] += len(cases)
    st["disagreements"] += ndis
    chk.cov["evaluations"] += len(cases) * 2           # model + implementation (x3 generations) per case
    chk.cov["disagreements"] += ndis
    stats["nontrivial"] = len(seen_shapes)
    chk.cov["report_stats"] = stats
    chk.cov["distinct_nontrivial"] = len(seen_shapes) + len(set(fl))
    chk.cov["rule"] = ("report: distinct (column list, effective time format, leaf flag, per-task (leaf, scheduled) pattern) "
                       "among generated projects whose report has at least one body row; repfmt: distinct (value, format) lines")
    for c, r in list(zip(cases, results))[:3]:
        if "_raw" not in r:
            chk.cov["samples"].append({"stream": "report", "input": c["tjp"][:400], "model": "see header/body",
                                       "impl": json.dumps(r["rounds"][0]["csv"])[:400]})

    # ---- recorded findings: replay the pinned witnesses on the real code
    if status.get("F20", {}).get("status", "open") == "open" and "F20" in findings:
        w = [k for k, c in enumerate(cases) if c.get("corpus", "").startswith("F20#")]
        fails = False
        for k in w:
            r = results[k]
            if "_raw" in r:
                continue
            r0 = r["rounds"][0]
            if any([v for _k, v in rec] != row for rec, row in zip(r0["jdata"], r0["csv"][1:])):
                fails = True
        if fails:
            chk.known_finding("F20", "open: JSON records are keyed by lower-cased column title; columns with equal titles "
                                     "collapse (columns id, start, end, id: 3 JSON values, 4 CSV cells)")
        else:
            chk.cov["f20_witness_no_longer_fails"] = True
    chk.cov["f20_region_cases"] = stats["json_csv_known_region"]
    chk.assumptions += [
        "scenario 0 only; dict column definitions as produced by the parser (the special-column branches of "
        "_generate_task_cell are dead for them); no taskRoot/hideTask/rollupTask/sortTasks/showResources",
        "column titles ASCII (Python str.lower is Unicode-aware, the model lower-cases ASCII)",
        "strftime for %Y %m %d %H %M %S %% and printable ASCII literals, years 1000..9999; anything else is declined by the model",
        "money: model exact rationals, implementation doubles; the other .2f neighbour is accepted only when the exact value is "
        "within 1e-6 cent of a rounding boundary",
        "explicit report-level timeformat \"%Y-%m-%d\" is indistinguishable from the default in the code, so the project-level "
        "format then wins (modelled as written)",
    ]
    return conclude(chk, dis, lambda: found)


def _canon_json(s):
    try:
        return json.dumps(json.loads(s), sort_keys=True)
    except Exception:  # noqa: BLE001
        return s


def _canon_tables(s):
    try:
        d = json.loads(s)
        return json.dumps({k: sorted(map(json.dumps, v)) for k, v in d.items()}, sort_keys=True)
    except Exception:  # noqa: BLE001
        return s


def scenario_of(tjp):
    """index of the scenario the report `rep` is about (its `scenarios` attribute names `delayed` = 1 in the generated cases)"""
    return 1 if re.search(r"^\s*scenarios\s+delayed\b", tjp, flags=re.M) else 0


def replay(chk, rec):
    """re-run one recorded case: `./check C18 --replay replays/C18-....json`"""
    chk.obligations(THEOREM_FILES)
    if "tjp" not in rec:
        print("replay file has no report case (it names a broken obligation/stream): " + json.dumps(rec.get("broken", ""))[:500])
        return chk.finish()
    case = {"tjp": rec["tjp"], "spec": rec["spec"], "titles": rec.get("titles") or [None] * len(rec["spec"]["columns"]),
            "scenario": rec.get("scenario", scenario_of(rec["tjp"]))}
    _d, _m, io_ = chk.differential("reptables", ["reptables"], canon=_canon_tables)
    known_attrs = {k for k, _ in json.loads(io_[0])["defs"]}
    cfg = rec.get("config", "native")
    results, models = run_cases(chk, [case], lambda i: cfg)
    r = results[0]
    if "_raw" not in r and rec.get("earlier_cases") and not oracle(case, r, known_attrs) and not compare(case, r, json.loads(models[0])):
        # alone in a fresh process the case passes: run it after the cases that preceded it, in ONE process
        lines = [jline({"op": "rep_run", "tjp": e["tjp"], "titles": e["titles"], "times": 1, "scenario": e.get("scenario", 0)})
                 for e in rec["earlier_cases"]]
        lines.append(jline({"op": "rep_run", "tjp": case["tjp"], "titles": case["titles"], "times": 3, "scenario": case.get("scenario", 0)}))
        r = junline(chk.impl.run(lines, config=cfg, jobs=1)[-1])
        if "_raw" not in r:
            models = {0: core.run_driver([model_line(case, r)])[0]}
    found, dis = [], []
    if "_raw" in r:
        found.append(("implementation crashed on the replayed case", {"impl": r["_raw"][:600], **case}))
    else:
        m = json.loads(models[0])
        diffs = compare(case, r, m)
        if diffs:
            dis.append({"stream": "report", "input": case["tjp"], "model": diffs[:6]})
        status = known_status()
        distinct = titles_distinct(r["rounds"][0]["header"][0])
        for clause, msg in oracle(case, r, known_attrs):
            if clause == "json-csv" and not distinct and status.get("F20", {}).get("status", "open") == "open":
                chk.known_finding("F20", "open: columns with equal titles collapse in JSON")
                continue
            found.append((f"C18 violated ({clause}): {msg}", {"clause": clause, **case}))
        print(json.dumps({"impl_csv": r["rounds"][0]["csv"], "impl_json": r["rounds"][0]["jdata"], "model_vs_impl": diffs[:6]})[:2000])
    chk.cov["evaluations"] += 2
    return conclude(chk, dis, lambda: found)
