from .sched_props import run  # noqa: F401
