"""C11 — scheduling is total: terminates, reports, never crashes or hangs."""
import copy
import json
import os
import re

from .. import astutil as A
from .. import gen, project_stream, render
from ..gen import Knobs, D, H
from . import sched_common as SC
from .common import conclude


def make_infeasible(p, rng):
    """mutate a valid AST into an awkward but grammatical one; returns (ast, kind, model_comparable)"""
    q = copy.deepcopy(p)
    ft = A.flat_tasks(q)
    leaves = [(fid, t) for fid, t, par, _ in ft if A.is_leaf(t)]
    kind = rng.choice(["cycle", "self", "late-start", "early-end", "never-works", "zero", "huge", "neg", "far-end", "dup-dep", "late-gap",
                       "alap-worktime-gap", "alap-behind-cycle"])
    fid, t = rng.choice(leaves)
    cmp_ok = True
    if kind == "cycle" and len(leaves) >= 2:
        (f1, t1), (f2, t2) = rng.sample(leaves, 2)
        t1.setdefault("deps", []).append({"target": f2, "ref": f2})
        t2.setdefault("deps", []).append({"target": f1, "ref": f1})
    elif kind == "self":
        t.setdefault("deps", []).append({"target": fid, "ref": fid})
    elif kind == "late-start":
        t["start"] = A.end_of(q) + rng.choice([1, 30, 400]) * D
        cmp_ok = False
    elif kind == "early-end":
        t["end"] = q["start"] - rng.choice([0, 1, 20]) * D
        t["mode"] = "alap"
        cmp_ok = False
    elif kind == "far-end":
        t["end"] = A.end_of(q) + rng.choice([1, 60]) * D
        t["mode"] = "alap"
        cmp_ok = False
    elif kind == "never-works":
        for _, r, _ in A.flat_resources(q):
            r["leaves"] = [["annual", q["start"] - 5 * D, A.end_of(q) + 400 * D]]
        cmp_ok = False
    elif kind == "zero":
        t["effort"] = ["0", "h"]
    elif kind == "huge":
        # huge relative to the project; the slot count (and so the admissible running time) grows with
        # effort / resolution, so the largest efforts go with the coarser resolutions
        G = q.get("G", 3600)
        t["effort"] = [str(rng.choice([2000, 9000] if G >= 1800 else [600, 2000] if G >= 900 else [300, 600])), "h"]
        cmp_ok = False
    elif kind == "neg":
        t["effort"] = ["-5", "h"]
        cmp_ok = False
    elif kind == "dup-dep" and len(leaves) >= 2:
        other = rng.choice([f for f, _ in leaves if f != fid])
        t.setdefault("deps", []).extend([{"target": other, "ref": other}] * 3)
    elif kind == "late-gap" and len(leaves) >= 2:
        other = rng.choice([f for f, _ in leaves if f != fid])
        if not other.startswith(fid) and not fid.startswith(other):
            t.setdefault("deps", []).append({"target": other, "ref": other, "gap": "400d"})
        cmp_ok = False
    elif kind == "alap-behind-cycle" and len(leaves) >= 3:
        # a dependency cycle that a backward-scheduled task with a fixed end depends on: the walk that marks predecessors as
        # ALAP must come back from the cycle
        (f1, t1), (f2, t2), (f3, t3) = rng.sample(leaves, 3)
        t1.setdefault("deps", []).append({"target": f2, "ref": f2})
        t2.setdefault("deps", []).append({"target": f1, "ref": f1})
        t3.setdefault("deps", []).append({"target": f1, "ref": f1})
        t3["mode"] = "alap"
        t3["end"] = q["start"] + rng.choice([3, 5, 8]) * D + 17 * H
        cmp_ok = False
    elif kind == "alap-worktime-gap" and len(leaves) >= 2:
        # a working-time gap (gaplength) far longer than the working time there is, on an edge of a backward-scheduled
        # project: whatever a scheduler makes of it, it has to come back
        other = rng.choice([f for f, _ in leaves if f != fid])
        if not other.startswith(fid) and not fid.startswith(other):
            d = {"target": other, "ref": other, "glen": rng.choice(["5w", "60d", "30d", "2w"])}
            if rng.random() < 0.3:
                d["onstart"] = True
            t.setdefault("deps", []).append(d)
        q["sched"] = "alap"
        if rng.random() < 0.5:
            t["end"] = q["start"] + rng.choice([1, 2, 3]) * D + 17 * H
        cmp_ok = False
    return q, kind, cmp_ok


def budget_of(q):
    """admissible seconds for one case: proportional to (slots of work + slots of the project) x scenarios x resources.
    Measured cost on this machine is about 60 us per such unit single-threaded; the factor leaves room for 16 loaded workers."""
    G = q.get("G", 3600)
    work = sum(float(A.effort_hours(t["effort"])) for _, t, _, _ in A.flat_tasks(q) if t.get("effort")) * 3600 / G
    proj = (A.end_of(q) - q["start"]) / G
    nsc = 1 + sum(1 for _ in _walk_scen(q.get("scenarios") or []))
    nres = max(1, len(A.flat_resources(q)))
    return 20 + 0.0005 * (abs(work) + proj) * nsc * nres


def _walk_scen(scs):
    for s in scs:
        yield s
        yield from _walk_scen(s.get("children") or s.get("scenarios") or [])


TOKEN = re.compile(r'"[^"]*"|[A-Za-z_][A-Za-z0-9_.!]*|\d[\d:.\-]*[a-z]*|[{}\[\],+\-]|\S')


def corrupt(text, rng):
    toks = TOKEN.findall(text)
    k = rng.choice(["del", "dup", "swap", "char", "brace", "trunc", "junk"])
    i = rng.randrange(len(toks))
    if k == "del":
        del toks[i]
    elif k == "dup":
        toks.insert(i, toks[i])
    elif k == "swap" and len(toks) > 2:
        j = rng.randrange(len(toks))
        toks[i], toks[j] = toks[j], toks[i]
    elif k == "char":
        t = toks[i]
        if t:
            c = rng.randrange(len(t))
            toks[i] = t[:c] + rng.choice("xq9-:{\"$") + t[c + 1:]
    elif k == "brace":
        toks[i] = rng.choice(["{", "}", "}}"])
    elif k == "trunc":
        toks = toks[:i]
    else:
        toks.insert(i, rng.choice(["${", "macro", "[", "]", "task", "depends", "0", "-1h", "9999-99-99", "~", "@all"]))
    return " ".join(toks) + "\n", k


def scaling_families():
    """(name, sizes, text maker): projects whose size is one parameter"""
    def hdr(scen="", res="60min"):
        return f'project prj "Prj" 2025-01-06 +8w {{ timezone "Etc/UTC" timingresolution {res} {scen} }}\n'

    def nested_scenarios(n):
        s = ""
        for i in range(n, 1, -1):
            s = f'scenario s{i} "S{i}" {{ {s} }}'
        scen = f'scenario plan "Plan" {{ {s} }}' if n > 1 else ""
        over = f"s{n}:effort 6h" if n > 1 else ""
        return (hdr(scen, "15min") + 'resource grp "G" { limits { dailymax 6h } resource r1 "R1" {} resource r2 "R2" {} }\n'
                'task c "C" { limits { weeklymax 20h } task in "IN" { task x "X" { effort 4h ' + over + ' allocate r1 } }\n'
                '  task y "Y" { effort 3h allocate r2 depends !in.x } }\n'
                'task z "Z" { effort 2h allocate r1, r2 depends c }\n')

    def chain(n):
        t = "".join(f'task t{i} "T{i}" {{ effort 2h allocate r{i % 2} ' + (f"depends !t{i - 1}" if i else "") + " }\n" for i in range(n))
        return hdr() + 'resource r0 "R0" {}\nresource r1 "R1" { limits { dailymax 4h } }\n' + f'task c "C" {{\n{t}}}\n'

    def nested_containers(n):
        inner = 'task leaf "L" { effort 3h allocate r0 }'
        for i in range(n):
            inner = f'task c{i} "C{i}" {{ limits {{ dailymax 5h }} {inner} task s{i} "S{i}" {{ effort 1h allocate r0 }} }}'
        return hdr() + 'resource r0 "R0" {}\n' + inner + "\n"

    def resolution(n):      # n = slots per hour
        return (hdr(res=f"{60 // n}min") + 'resource r0 "R0" { limits { dailymax 3h } }\n'
                'task a "A" { effort 30h allocate r0 }\ntask b "B" { effort 10h allocate r0 depends a }\n')

    return [("nested-scenarios", [1, 2, 3, 4], nested_scenarios), ("chain", [10, 20, 40, 80], chain),
            ("nested-containers", [2, 4, 8], nested_containers), ("resolution", [1, 2, 4, 12], resolution)]


def macro_texts(rng, valid_texts, n):
    """valid project texts with macro definitions in front and a call inside: cycles of every length, self-reference
    with and without growth, doubling, long legitimate chains, unknown macros, calls inside macro bodies of comments"""
    out = []
    for i in range(n):
        base = valid_texts[i % len(valid_texts)]
        kind = rng.choice(["self", "self-grow1", "self-prefix", "double", "cycle2", "cycle3", "cycle-grow", "chain", "unknown",
                           "nested-ok", "cycle2-pad"])
        pad = rng.choice(["", " ", "x ", "# c\n"])
        if kind == "self":
            defs = "macro a [${a}]\n"
        elif kind == "self-grow1":
            defs = "macro a [${a} ]\n"
        elif kind == "self-prefix":
            defs = "macro a [" + pad + "${a}]\n"
        elif kind == "double":
            defs = "macro a [${a} ${a}]\n"
        elif kind == "cycle2":
            defs = "macro a [${b}]\nmacro b [${a}]\n"
        elif kind == "cycle2-pad":
            defs = "macro a [ ${b}]\nmacro b [${a} ]\n"
        elif kind == "cycle3":
            defs = "macro a [${b}]\nmacro b [${c}]\nmacro c [${a}]\n"
        elif kind == "cycle-grow":
            defs = "macro a [${b} ]\nmacro b [y ${a}]\n"
        elif kind == "chain":
            k = rng.choice([5, 30, 90, 120])
            defs = "".join(f"macro m{j} [${{m{j + 1}}}]\n" for j in range(k)) + f"macro m{k} [priority 500]\n"
        elif kind == "unknown":
            defs = ""
        else:
            defs = "macro inner [priority 300]\nmacro a [${inner}]\n"
        call = {"chain": "${m0}", "unknown": "${nosuchmacro}"}.get(kind, "${a}")
        # put the call into the first task body when there is one, else at top level
        j = base.find("task ")
        k2 = base.find("{", j) if j >= 0 else -1
        text = defs + (base[:k2 + 1] + "\n  " + call + "\n" + base[k2 + 1:] if k2 >= 0 and rng.random() < 0.8 else base + call + "\n")
        out.append((text, kind))
    return out


def resource_forest(rng, inline_hours=False):
    """many resource groups, some nested, whose members inherit the group's shift reference, its own working hours
    (`inline_hours`: every group declares them itself, F52 region), limits or leaves"""
    n = rng.randint(9, 14)
    L = ['project p "P" 2025-01-06 +3w {', '  timezone "Etc/UTC"']
    if rng.random() < 0.4:
        L.append('  scenario plan "Plan" { scenario s2 "S2" }')
    L += ['}', 'shift sh "SH" {', '  workinghours mon - fri 9:00 - 17:00', '}',
          'shift sh2 "SH2" {', '  workinghours mon - thu 8:00 - 16:00', '}']
    leaves = []
    for i in range(n):
        L.append(f'resource g{i} "G{i}" {{')
        what = rng.choice(["shift", "shift", "shift2", "limits", "leaves", "both", "hours"])
        if inline_hours:
            what = rng.choice(["hours", "hours", "hours+limits"])
        if what.startswith("hours"):
            L.append(rng.choice(['  workinghours mon - fri 8:00 - 16:00', '  workinghours mon - thu 9:00 - 12:00, 13:00 - 18:00',
                                 '  workinghours sat 10:00 - 14:00']))
        if what == "hours+limits":
            L.append('  limits { weeklymax 30h }')
        if what in ("shift", "both"):
            L.append('  workinghours sh')
        if what == "shift2":
            L.append('  workinghours sh2')
        if what in ("limits", "both"):
            L.append('  limits { dailymax 6h }')
        if what == "leaves":
            L.append('  leaves annual 2025-01-15')
        for j in range(rng.randint(1, 3)):
            if rng.random() < 0.35:
                L += [f'  resource m{i}_{j} "M{i}_{j}" {{', f'    resource n{i}_{j} "N{i}_{j}" {{}}', '  }']
                leaves.append(f"n{i}_{j}")
            else:
                L.append(f'  resource m{i}_{j} "M{i}_{j}" {{}}')
                leaves.append(f"m{i}_{j}")
        L.append('}')
    for j in range(rng.randint(2, 5)):
        L += [f'task t{j} "T{j}" {{', f'  effort {rng.choice([2, 4, 8, 12])}h', f'  allocate {rng.choice(leaves)}']
        if j and rng.random() < 0.5:
            L.append(f'  depends t{j - 1}')
        L.append('}')
    return "\n".join(L) + "\n"


def run(chk):
    tier = chk.tier
    chk.obligations(["Properties/C11.lean"])
    if tier == "thorough":
        chk.leanchecker(["Properties.C11", "Proofs.SchedInv"])
    n_inf = 200 if tier == "quick" else 6000
    n_mal = 400 if tier == "quick" else 20000
    k = Knobs(max_tasks=5, dur_weeks=[1, 2], p_scen=0.1)
    base = [gen.gen_project(chk.rng, k) for _ in range(n_inf)]
    inf = [make_infeasible(p, chk.rng) for p in base]
    wit = [w for _, w in SC.witness_asts("C11")]
    # (i) infeasible but grammatical: outcome class must be a schedule (with warnings), equal to the model's where comparable
    comparable = wit + [q for q, kind, ok in inf if ok]
    res = project_stream.run_projects(chk, comparable, want_oracles=())
    dis = [{"stream": "project", "text": r["text"], "ast": r["ast"], "diffs": r["diffs"][:6]} for r in res if r["diffs"] and not r["skipped"]]
    found = []
    kinds = {}
    for r in res:
        o = r["obs"]
        if o is None or "error" in o:
            found.append((f"C11: scheduling a grammatical project failed with {str(o)[:160]}", {"text": r["text"], "ast": r["ast"], "impl": o}))
    others = [(q, kind) for q, kind, ok in inf if not ok]
    texts = [render.render(q) for q, _ in others]
    # witnesses of recorded findings that exist as text only run first
    wtexts = []
    for f in SC.load_known("C11"):
        wp = os.path.join(SC.ROOT, f.get("witness", ""))
        if os.path.exists(wp):
            w = json.load(open(wp))
            if w.get("text") and not w.get("ast"):
                wtexts.append((None, "witness-" + f["id"], w["text"]))
    # wide and deep resource trees whose members inherit a shift / limits / leaves from their groups (F50 region: the
    # cost of building must stay proportional to the size, not double with every inheriting resource)
    for j in range(4 if tier == "quick" else 40):
        wtexts.append((None, "resource-forest", resource_forest(chk.rng, inline_hours=(j % 2 == 1))))
    others = [(None, k) for _, k, _ in wtexts] + others
    texts = [t for _, _, t in wtexts] + texts
    outs = chk.impl.run(["J " + json.dumps({"op": "sched", "text": t, "budget": budget_of(q) if q else 60}) for (q, _), t in zip(others, texts)])
    for (q, kind), t, o in zip(others, texts, outs):
        kinds[kind] = kinds.get(kind, 0) + 1
        if not o.startswith("J "):
            found.append((f"C11: {kind} project: {o[:160]}", {"text": t, "kind": kind, "impl": o[:2000], "case_ast": q}))
            continue
        ob = json.loads(o[2:])
        if "error" in ob and ob["error"] != "ParseError":
            found.append((f"C11: {kind} project raised an internal error: {ob}", {"text": t, "kind": kind, "impl": ob, "case_ast": q}))
            continue
        if "error" in ob:
            kinds[kind + ":rejected"] = kinds.get(kind + ":rejected", 0) + 1
            continue
        for sc in ob["scenarios"]:
            for fid, x in sc["tasks"].items():
                if x["leaf"] and x["scheduled"] and x["start"] is not None and x["end"] is not None and x["start"] > x["end"]:
                    # both dates are the user's own: a start on the task and an end on the task or inherited from an
                    # enclosing container (the pre-pass takes an effort-less leaf with both as dated; nothing is computed)
                    user_pinned = False
                    nodes = {f2: t2 for f2, t2, _, _ in (A.flat_tasks(q) if q else [])}
                    t2 = nodes.get(fid)
                    if t2 is not None and t2.get("start") is not None and (
                            t2.get("end") is not None or any(nodes[a].get("end") is not None for a in A.ancestors(fid) if a in nodes)):
                        user_pinned = True
                    if not user_pinned:
                        found.append((f"C11: {kind} project: task {fid} scheduled with start > end", {"text": t, "kind": kind, "case_ast": q}))
            unsched = [f for f, x in sc["tasks"].items() if x["leaf"] and not x["scheduled"]]
            if unsched and not ({"unscheduled_tasks", "deadlock"} & set(ob["warnings"])):
                found.append((f"C11: {kind} project: tasks {unsched[:3]} unscheduled without any warning", {"text": t, "kind": kind, "case_ast": q}))
    # (ii) corrupted texts: parse error or a schedule, never a crash / hang / internal error
    valid_texts = [render.render(p) for p in base[: max(50, n_mal // 8)]]
    mal = []
    for i in range(n_mal):
        t, kd = corrupt(valid_texts[i % len(valid_texts)], chk.rng)
        mal.append((t, kd))
    outs = chk.impl.run(["J " + json.dumps({"op": "sched", "text": t}) for t, _ in mal])
    classes = {}
    for (t, kd), o in zip(mal, outs):
        if not o.startswith("J "):
            cls = o.split(" ", 1)[0]
            classes[cls] = classes.get(cls, 0) + 1
            found.append((f"C11: corrupted text ({kd}): {o[:200]}", {"text": t, "corruption": kd, "impl": o[:3000]}))
            continue
        ob = json.loads(o[2:])
        cls = ob.get("error", "Scheduled")
        classes[cls] = classes.get(cls, 0) + 1
        if cls not in ("ParseError", "Scheduled"):
            found.append((f"C11: corrupted text ({kd}) raised an internal error instead of a parse error: {ob}", {"text": t, "corruption": kd, "impl": ob}))
    # (iii) macro texts: cycles, self-reference, slow and fast growth, long chains — expansion must stay bounded
    mtexts = macro_texts(chk.rng, valid_texts, 60 if tier == "quick" else 1500)
    outs = chk.impl.run(["J " + json.dumps({"op": "sched", "text": t, "budget": 40}) for t, _ in mtexts])
    mkinds = {}
    for (t, kd), o in zip(mtexts, outs):
        mkinds[kd] = mkinds.get(kd, 0) + 1
        if not o.startswith("J "):
            found.append((f"C11: macro text ({kd}): {o[:200]}", {"text": t, "macro_kind": kd, "impl": o[:3000]}))
            continue
        ob = json.loads(o[2:])
        cls = ob.get("error", "Scheduled")
        if cls not in ("ParseError", "Scheduled"):
            found.append((f"C11: macro text ({kd}) raised an internal error instead of a parse error: {ob}", {"text": t, "macro_kind": kd, "impl": ob}))
    chk.cov["macro_kinds"] = mkinds
    # (iv) scaling families: the same small project at growing size; CPU time must grow about linearly
    fams = scaling_families()
    lines = []
    idx = []
    for name, sizes, make in fams:
        for n in sizes:
            lines.append("J " + json.dumps({"op": "timed", "text": make(n), "budget": 300}))
            idx.append((name, n))
    outs = chk.impl.run(lines, jobs=4)
    times = {}
    for (name, n), o in zip(idx, outs):
        if not o.startswith("J "):
            found.append((f"C11: scaling family {name} size {n}: {o[:120]}", {"family": name, "size": n, "text": dict((nm, mk) for nm, _, mk in fams)[name](n)}))
            continue
        ob = json.loads(o[2:])
        times.setdefault(name, []).append((n, ob["cpu"], ob["outcome"]))
    for name, sizes, make in fams:
        ts = times.get(name, [])
        if len(ts) == len(sizes):
            (n0, t0, _), (n1, t1, _) = ts[0], ts[-1]
            # size grows by n1/n0; allow that factor times 4 plus a constant for start-up noise
            if t1 > 4 * (n1 / n0) * (t0 + 0.25) + 1.0:
                found.append((f"C11: scaling family {name}: {t0:.2f} s of CPU at size {n0} but {t1:.2f} s at size {n1} — not proportional to the size",
                              {"family": name, "times": ts, "text": make(n1)}))
    chk.cov["scaling"] = {k: v for k, v in times.items()}
    chk.cov["evaluations"] += len(lines)
    chk.cov["evaluations"] += len(others) + len(mal) + len(mtexts)
    chk.cov["distinct_nontrivial"] = len({t for t, _ in mal}) + len(set(texts))
    chk.cov["infeasible_kinds"] = kinds
    chk.cov["malformed_outcomes"] = classes
    chk.cov["rule"] = ("(i) grammatical but awkward projects (dependency cycles, self-dependencies, duplicate edges, starts / deadlines / gaps "
                       "beyond or before the horizon, resources that never work, zero, negative and huge efforts): must schedule or warn, never "
                       "crash or hang (20 s per case plus 0.5 ms per slot x scenario x resource of the case), outcome equal to the Lean model's where the model's domain covers the input; (ii) token-"
                       "level corruptions of valid texts (delete, duplicate, swap, character flip, brace, truncation, junk token): only 'parse "
                       "error' or a schedule are admissible; (iii) macro texts (self-reference with and without growth, doubling, cycles of length 2 and 3, "
                       "long legitimate chains, unknown macros): expansion must stay bounded — an answer within 40 s, parse error or schedule; "
                       "(iv) scaling families (nested scenarios 1-4 with container limits, dependency chains of 10-80 tasks, containers nested "
                       "2-8 deep, resolutions 60-5 min): CPU time at the largest size at most 4 x (size ratio) x the time at the smallest; "
                       "non-trivial = distinct texts")
    chk.assumptions += ["Lark's behaviour, Python exceptions in glue code, recursion limits and wall-clock are observed, not modelled (partial)"]
    return conclude(chk, dis, lambda: found)


def replay(chk, payload):
    """re-run the recorded input: a project of the comparable stream (AST: model tie + outcome), or a text of the infeasible /
    corrupted / macro / scaling streams (outcome class, time budget, start <= end, unscheduled => warning)"""
    from .common import replay_items
    found, dis = [], []
    for it in replay_items(chk):
        if isinstance(it.get("ast"), dict) and not (it.get("kind") or it.get("corruption") or it.get("macro_kind")):
            r = project_stream.run_projects(chk, [it["ast"]], want_oracles=())[0]
            if r["diffs"] and not r["skipped"]:
                dis.append({"stream": "project", "text": r["text"], "ast": r["ast"], "diffs": r["diffs"][:6]})
            o = r["obs"]
            if o is None or "error" in o:
                found.append((f"C11: scheduling a grammatical project failed with {str(o)[:160]}", {"text": r["text"], "ast": r["ast"], "impl": o}))
            chk.cov["evaluations"] += 1
            continue
        t = it.get("text")
        if not isinstance(t, str):
            continue
        q = it.get("case_ast") if isinstance(it.get("case_ast"), dict) else None
        kind = it.get("kind") or it.get("corruption") or it.get("macro_kind") or it.get("family") or "replay"
        budget = budget_of(q) if q else (300 if it.get("family") else 60)
        o = chk.impl.run(["J " + json.dumps({"op": "sched", "text": t, "budget": budget})])[0]
        chk.cov["evaluations"] += 1
        if not o.startswith("J "):
            found.append((f"C11: {kind}: {o[:200]}", {"text": t, "kind": kind, "impl": o[:2000]}))
            continue
        ob = json.loads(o[2:])
        if "error" in ob and ob["error"] != "ParseError":
            found.append((f"C11: {kind} raised an internal error: {ob}", {"text": t, "kind": kind, "impl": ob}))
            continue
        if "error" in ob or it.get("corruption") or it.get("macro_kind"):
            continue
        for sc in ob["scenarios"]:
            for fid, x in sc["tasks"].items():
                if x["leaf"] and x["scheduled"] and x["start"] is not None and x["end"] is not None and x["start"] > x["end"]:
                    nodes = {f2: t2 for f2, t2, _, _ in (A.flat_tasks(q) if q else [])}
                    t2 = nodes.get(fid)
                    pinned = t2 is not None and t2.get("start") is not None and (
                        t2.get("end") is not None or any(nodes[a].get("end") is not None for a in A.ancestors(fid) if a in nodes))
                    if not pinned and q is not None:
                        found.append((f"C11: {kind} project: task {fid} scheduled with start > end", {"text": t, "kind": kind}))
            unsched = [f for f, x in sc["tasks"].items() if x["leaf"] and not x["scheduled"]]
            if unsched and not ({"unscheduled_tasks", "deadlock"} & set(ob["warnings"])):
                found.append((f"C11: {kind} project: tasks {unsched[:3]} unscheduled without any warning", {"text": t, "kind": kind}))
    return conclude(chk, dis, lambda: found)
