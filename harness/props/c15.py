"""C15 — equivalent ways of writing a project give the same schedule.

(0) constants: the ASCII character classes hard-coded in Model/Macro.lean == what Python's str.isspace, `\\s`, `\\w` say.
(a) correspondence streams (Lean driver vs the implementation, same request lines):
      resolve  task tree + reference string -> resolved position | none
      deps     task tree + pending depends/precedes (through Lark + transformer + builder) -> every task's `depends` list
      strip / mdefs / macro   text -> stripped text / definitions + rest / expanded text | too-large
(b) the oracle = failing-input search on the real code: random abstract projects, each rendered in >= 8
    spellings (ids renamed, `!`-relative vs absolute references, `precedes` on the other task, shift by id vs
    hours inline, comments/whitespace, text moved into macros, mixtures); parse + schedule each with the real
    code; every task's (start, end, scheduled) must be identical across spellings (renamed ids mapped back).
    A mismatch is re-run in a fresh interpreter before it is reported.
"""
import json
import os

from .. import core
from .. import spell_gen as G
from .common import conclude, jline, junline

THEOREM_FILES = ["Properties/C15.lean"]
TODAY = "2026-09-25"
FINDINGS = os.path.join(core.ROOT, "findings")


# ------------------------------------------------------------------ (a) streams

def resolve_lines(rng, n):
    lines = []
    for _ in range(n):
        f = G.gen_forest(rng)
        for _ in range(3):
            src, ref = G.gen_ref(rng, f)
            lines.append("resolve " + G.jtok({"f": f, "src": src, "ref": ref}))
    return lines


def macro_lines(chk, texts, cap):
    envs = chk.impl.run([jline({"op": "spell_menv", "text": t}) for t in texts])
    lines, skipped = [], 0
    o = lambda v: "-" if v is None else G.hexs(v)
    for t, e in zip(texts, envs):
        e = junline(e)
        if "_raw" in e or e.get("invalid_date"):
            skipped += 1          # `datetime.strptime` rejects the date: a crash class of C11, outside this model
            continue
        lines.append("macro %d %s %s %s %s %s" % (cap, G.hexs(t), o(e["ps"]), o(e["pe"]), o(e["now"]), G.hexs(TODAY)))
    return lines, skipped


def corpus_lines():
    """pinned witnesses of F10 / F11 / F14 as stream requests (they run first, in every tier)"""
    out = {"resolve": [], "deps": [], "macro": []}
    for fid in ("F10", "F11", "F14"):
        p = os.path.join(FINDINGS, fid + ".json")
        if os.path.exists(p):
            for c in json.load(open(p)).get("stream_cases", []):
                out[c["stream"]].append(c["line"])
    return out


# ------------------------------------------------------------------ (b) metamorphic oracle

def sched_cases(rng, n):
    cases = []
    for _ in range(n):
        proj = G.gen_twin_project(rng) if rng.random() < 0.12 else G.gen_project(rng)
        sp = []
        for kind in G.KINDS:
            opt = G.spelling_options(rng, proj, kind)
            text, back = G.render_project(proj, opt)
            sp.append({"kind": kind, "opt": opt, "text": text, "back": back})
        cases.append({"project": proj, "spellings": sp})
    return cases


def open_findings():
    """ids of findings recorded as `open` for this property (known_findings.json, and — until the main
    agent has merged it — notes/findings-spell.json)"""
    out = {}
    for rel in ("known_findings.json", os.path.join("notes", "findings-spell.json")):
        p = os.path.join(core.ROOT, rel)
        if os.path.exists(p):
            for f in json.load(open(p)).get("findings", []):
                if f.get("property") == "C15" and f.get("status") == "open":
                    out.setdefault(f["id"], f)
    return out


def corpus_cases():
    """witnesses of every finding that has spelling cases; they run first, in every tier"""
    cases = []
    for fn in sorted(os.listdir(FINDINGS)):
        fid = fn[:-5]
        d = json.load(open(os.path.join(FINDINGS, fn)))
        for c in d.get("spelling_cases", []):
            cases.append({"project": {"corpus": fid}, "corpus": fid,
                          "spellings": [{"kind": s["kind"], "text": s["text"], "back": s.get("back")} for s in c["spellings"]]})
    return cases


def canon_result(res, back):
    """implementation answer of one spelling -> {abstract full id: [start, end, scheduled]} or an error class"""
    if "_raw" in res:
        return {"_error": res["_raw"].split(" ")[0]}
    if "err" in res:
        return {"_error": res["err"]}
    out = {}
    for fid, v in res["tasks"].items():
        out[(back or {}).get(fid, fid)] = v
    return out


def compare_case(case, results):
    """first spelling is the reference; returns list of (kind, task, reference value, value)"""
    ref = canon_result(results[0], case["spellings"][0]["back"])
    bad = []
    for sp, res in zip(case["spellings"][1:], results[1:]):
        got = canon_result(res, sp["back"])
        if got != ref:
            keys = sorted(set(ref) | set(got))
            k = next(k for k in keys if ref.get(k) != got.get(k))
            bad.append({"kind": sp["kind"], "task": k, "reference": ref.get(k), "got": got.get(k)})
    return bad


def run_sched(chk, cases, fresh=False):
    lines = [jline({"op": "spell_sched", "text": sp["text"]}) for c in cases for sp in c["spellings"]]
    outs = chk.impl.run(lines, jobs=None if not fresh else max(1, min(core.NPROC, len(lines) // 50 + 1)))
    res, k = [], 0
    for c in cases:
        n = len(c["spellings"])
        res.append([junline(o) for o in outs[k:k + n]])
        k += n
    return res, len(lines)


def classify(case, bad):
    kinds = sorted({b["kind"] for b in bad})
    return f"spellings {kinds} change the schedule: task {bad[0]['task']} {bad[0]['reference']} -> {bad[0]['got']} in spelling '{bad[0]['kind']}'"


# ------------------------------------------------------------------ run

def run(chk):
    tier = chk.tier
    rng = chk.rng
    quick = tier == "quick"
    chk.obligations(THEOREM_FILES)
    if not quick:
        chk.leanchecker(["Properties.C15", "Proofs.Resolve", "Proofs.Macro"])
    dis_all = []

    # (0) constants
    cc = junline(chk.impl.run([jline({"op": "spell_charclass"})])[0])
    want_space = G.ASCII_WS
    want_word = [c for c in range(128) if chr(c) in "abcdefghijklmnopqrstuvwxyzABCDEFGHIJKLMNOPQRSTUVWXYZ0123456789_"]
    if cc.get("space") != want_space or cc.get("re_space") != want_space or cc.get("re_word") != want_word:
        dis_all.append({"stream": "charclass", "input": "ascii", "model": {"space": want_space}, "impl": cc})
        chk.broken.append({"kind": "constants", "detail": "ASCII classes of isspace / \\s / \\w differ from Model/Macro.lean"})

    # (a) streams, corpus first
    corp = corpus_lines()
    n_res = 1500 if quick else 30000
    rl = corp["resolve"] + resolve_lines(rng, n_res)
    d, model, _ = chk.differential("resolve", rl)
    dis_all += d
    resolved_some = len({l for l, m in zip(rl, model) if m.startswith("some")})     # distinct requests that resolve
    d, model_d, _ = chk.differential("deps", corp["deps"] + ["deps " + G.jtok(G.gen_deps_case(rng)) for _ in range(400 if quick else 8000)])
    dis_all += d
    d, _, _ = chk.differential("strip", ["strip " + G.hexs(G.gen_strip_text(rng)) for _ in range(1500 if quick else 30000)])
    dis_all += d
    d, _, _ = chk.differential("blank", ["blank " + G.hexs(G.gen_blank_text(rng)) for _ in range(2500 if quick else 40000)])
    dis_all += d
    texts = [G.gen_macro_text(rng) for _ in range(1500 if quick else 30000)]
    d, _, _ = chk.differential("mdefs", ["mdefs " + G.hexs(t) for t in texts])
    dis_all += d
    mlines, skipped = macro_lines(chk, texts, 3000)
    d, model_m, _ = chk.differential("macro", corp["macro"] + mlines)
    dis_all += d
    # the size test at its boundary: bound = length of the result, and one less
    blines = []
    for l, m in zip(corp["macro"] + mlines, model_m):
        tok = l.split(" ")
        if m.startswith("ok x") and "247b" in tok[2] and len(blines) < (400 if quick else 6000):
            n = (len(m) - 4) // 2
            if n >= 1:
                blines.append(" ".join([tok[0], str(n)] + tok[2:]))
                blines.append(" ".join([tok[0], str(n - 1)] + tok[2:]))
    d, model_b, _ = chk.differential("macro_boundary", blines)
    dis_all += d
    chk.cov["streams"]["macro_boundary"]["too_large"] = sum(1 for m in model_b if m == "too-large")
    chk.cov["streams"]["macro"]["skipped_invalid_date"] = skipped
    chk.cov["streams"]["macro"]["too_large"] = sum(1 for m in model_m if m == "too-large")
    chk.cov["streams"]["resolve"]["resolved"] = resolved_some

    if not quick:
        # the F14 witness against the bound the code ships with (implementation only; guarded)
        w = junline(chk.impl.run([jline({"op": "spell_macro_default", "text": "macro a [${a} ${a}]\n${a}\n"})], jobs=1)[0])
        chk.cov["f14_default_bound"] = w
        chk.cov["evaluations"] += 1
        if w.get("outcome") != "MacroExpansionError":
            dis_all.append({"stream": "macro_default_bound", "input": "macro a [${a} ${a}] / ${a}", "model": "too-large", "impl": w})

    # (b) metamorphic oracle on the real code
    cases = corpus_cases() + sched_cases(rng, 120 if quick else 2500)
    results, nrun = run_sched(chk, cases)
    chk.cov["evaluations"] += nrun
    suspects = []
    errors = {}
    sched_tasks = 0
    distinct = set()
    for c, r in zip(cases, results):
        ref = canon_result(r[0], c["spellings"][0]["back"])
        if "_error" in ref:
            errors[ref["_error"]] = errors.get(ref["_error"], 0) + 1
        else:
            sched_tasks += sum(1 for v in ref.values() if v[2])
            if any(v[2] for v in ref.values()):
                distinct.add(json.dumps(c["project"], sort_keys=True))
        bad = compare_case(c, r)
        if bad:
            suspects.append(c)
    found = []
    known = open_findings()
    known_hit = {}
    for c in list(suspects):
        if c.get("corpus") in known:
            known_hit.setdefault(c["corpus"], []).append(c)
            suspects.remove(c)
    for fid, f in sorted(known.items()):
        if fid in known_hit:
            chk.known_finding(fid, f.get("short") or f.get("what_fails", "")[:200])
    if suspects:
        # confirm in fresh interpreters (process-global state must not be what differs)
        results2, nrun2 = run_sched(chk, suspects, fresh=True)
        chk.cov["evaluations"] += nrun2
        for c, r in zip(suspects, results2):
            bad = compare_case(c, r)
            if bad:
                kinds = {b["kind"] for b in bad}
                keep = [sp for sp in c["spellings"][:1]] + [sp for sp in c["spellings"][1:] if sp["kind"] in kinds][:2]
                found.append((classify(c, bad), {"stream": "spellings", "project": c["project"], "differences": bad[:4],
                                                 "spellings": [{"kind": sp["kind"], "text": sp["text"], "back": sp["back"]} for sp in keep]}))
    # smallest witnesses first
    found.sort(key=lambda f: len(json.dumps(f[1]["project"])))
    chk.cov["metamorphic"] = {"projects": len(cases), "spellings_per_project": len(G.KINDS), "runs": nrun,
                              "reference_errors": errors, "scheduled_tasks_in_references": sched_tasks,
                              "suspects": len(suspects), "confirmed": len(found),
                              "open_findings_reproduced": sorted(known_hit)}
    chk.cov["distinct_nontrivial"] = len(distinct) + resolved_some
    chk.cov["rule"] = ("metamorphic: random abstract projects (2-7 tasks nested <=3 deep, 1-3 resources, 0-1 shift, leaves, priorities, "
                       "DAG of dependencies with gapduration/onstart), each rendered in %d spellings %s and scheduled by the real code; "
                       "non-trivial = distinct abstract projects whose reference spelling schedules at least one task, plus distinct "
                       "resolve-stream requests that resolve to a task; streams: resolve/deps/strip/mdefs/macro compare the Lean driver with the "
                       "implementation on the same request lines" % (len(G.KINDS), G.KINDS))
    chk.cov["exhaustive"] = False
    chk.assumptions += [
        "Lark's lexer/parser is not modelled: keyword/identifier clashes are reachable only by the metamorphic search",
        "shift ids equal to a day name (mon..sun) are outside the envelope: `workinghours mon` is lexed as DAY_NAME",
        "${projectstart}/${projectend}/${now}/${today} are environment inputs of the macro model (taken from the implementation's own "
        "_extract_project_dates; the check fails if they differ from what the request states)",
        "macro texts are ASCII; dates that datetime.strptime rejects are skipped (crash class belongs to C11)",
        "text moved into macros never contains the project header, brackets, `$`, or block-comment delimiters (open finding F39 "
        "covers the header); generated comments contain macro definitions, macro calls and project headers (F38, repaired: comments are blanked first)",
        "one scenario; dependency lists are observed before attribute inheritance in the deps stream"]
    if found:
        chk.cov["samples"].append({"stream": "spellings", "what": found[0][0]})
    elif cases:
        chk.cov["samples"].append({"stream": "spellings", "kinds": [sp["kind"] for sp in cases[-1]["spellings"]],
                                   "text_of_last_spelling": cases[-1]["spellings"][-1]["text"][:600]})
    return conclude(chk, dis_all, lambda: found)


def replay(chk, rep):
    """re-run a replay file: the stored spellings (oracle) or the stored stream request"""
    chk.obligations(THEOREM_FILES)
    chk.cov["rule"] = "replay of one stored case"
    if rep.get("stream") == "spellings":
        case = {"project": rep.get("project"), "spellings": rep["spellings"]}
        results, n = run_sched(chk, [case], fresh=True)
        chk.cov["evaluations"] += n
        chk.cov["distinct_nontrivial"] = 1
        chk.cov["samples"].append({"stream": "spellings", "kinds": [sp["kind"] for sp in case["spellings"]]})
        bad = compare_case(case, results[0])
        if bad:
            chk.violation(classify(case, bad), {"stream": "spellings", "project": case["project"], "differences": bad,
                                                "spellings": case["spellings"]})
        return chk.finish()
    dis = []
    for d in rep.get("first_disagreements", []):
        dd, _, _ = chk.differential(d["stream"], [d["input"]])
        dis += dd
    return conclude(chk, dis, lambda: [])
