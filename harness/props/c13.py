"""C13 — compiled fast paths and pure-Python fallbacks are equivalent."""
import itertools
import json

from .. import gen, project_stream, render
from ..gen import Knobs
from . import c17
from .common import conclude


def strip_private(x):
    if isinstance(x, dict):
        return {k: strip_private(v) for k, v in x.items() if not str(k).startswith("_")}
    if isinstance(x, list):
        return [strip_private(v) for v in x]
    return x


def hours_sets(chk, n):
    rng = chk.rng
    out = []
    for _ in range(n):
        days = []
        for d in range(7):
            ivs = []
            for _ in range(rng.choice([0, 0, 1, 1, 2, 3])):
                s = rng.choice([0, 360, 420, 493, 540, 600, 787, 1020, 1260, 1320, 1380, 1439])
                e = rng.choice([0, 270, 360, 480, 719, 720, 1020, 1067, 1200, 1440])
                ivs.append(f"{s}-{e}")
            days.append(",".join(ivs))
        out.append("/".join(days))
    out.append("//////1320-270")      # finding F29: Sunday night shift, Monday morning
    out.append("1320-360//////")      # finding F4: Monday night shift
    return out


def run(chk):
    tier = chk.tier
    chk.obligations(["Properties/C13.lean"])
    if tier == "thorough":
        chk.leanchecker(["Properties.C13", "Proofs.Scan"])
    cfg = lambda l: "pure" if l.split()[1] == "py" else "native"
    # working hours: every minute of the week (quick: every 7th minute + boundaries) x interval sets, both implementations
    hs = hours_sets(chk, 12 if tier == "quick" else 200)
    step = 7 if tier == "quick" else 1
    lines = []
    for h in hs:
        for wd in range(7):
            ms = sorted(set(list(range(0, 1440, step)) + [0, 1, 269, 270, 359, 360, 719, 720, 1319, 1320, 1439]))
            for m in ms:
                lines.append(f"whon py {h} {wd} {m}")
                lines.append(f"whon cy {h} {wd} {m}")
    dis1, _, real = chk.differential("wh", lines, impl_of=cfg)
    found = []
    for a, b, la in zip(real[0::2], real[1::2], lines[0::2]):
        if a != b:
            found.append((f"C13: onShift differs between pure Python ({a}) and the compiled extension ({b})", {"input": la}))
    dl = [f"whdaily {h} {wd}" for h in hs for wd in range(7)]
    outs_n = chk.impl.run(dl, config="native")
    outs_p = chk.impl.run(dl, config="pure")
    dis_d, _, _ = chk.differential("wh-daily", dl, impl_of=lambda l: "native")
    for l, a, b in zip(dl, outs_n, outs_p):
        if a != b:
            found.append((f"C13: get_daily_hours differs: compiled {a} vs pure {b}", {"input": l}))
    # slot conversion and scan grids (shared with C17): py = pure, cy = native
    bds = c17.boards(chk, tier)
    sl = c17.slot_lines(bds, tier)
    dis2, _, real2 = chk.differential("slots", sl, impl_of=cfg)
    sc = c17.scan_cases(chk, "quick" if tier == "quick" else tier)
    if tier == "quick":
        sc = sc[::3]
    slines = [f"scan {impl} {p} {a} {b} {m}" for (p, a, b, m) in sc for impl in ("py", "cy")]
    dis3, _, real3 = chk.differential("scan", slines, impl_of=cfg)
    for a, b, la in zip(real3[0::2], real3[1::2], slines[0::2]):
        if a != b:
            found.append((f"C13: collectIntervals differs between pure Python and compiled: {a} vs {b}", {"input": la}))
    pairs = {}
    for l, o in zip(sl, real2):
        t = l.split()
        if t[0] in ("idx2t", "t2idx", "pidx2t", "pt2idx"):
            pairs.setdefault((t[0],) + tuple(t[2:]), {})[t[1]] = o
    for key, d in pairs.items():
        if len(d) == 2 and d["py"] != d["cy"]:
            found.append((f"C13: {key[0]} differs between pure Python ({d['py']}) and compiled ({d['cy']})", {"input": " ".join(key)}))
    # whole projects: native vs pure must be identical (and equal to the model)
    n = 120 if tier == "quick" else 3000
    k = Knobs(p_wh=0.7, p_shift=0.3, p_tz=0.3, p_leave=0.4)
    asts = [gen.gen_project(chk.rng, k) for _ in range(n)]
    rn = project_stream.run_projects(chk, asts, want_oracles=(), config="native")
    texts = [r["text"] for r in rn]
    outs = chk.impl.run(["J " + json.dumps({"op": "sched", "text": t}) for t in texts], config="pure")
    dis4 = [{"stream": "project", "text": r["text"], "ast": r["ast"], "diffs": r["diffs"][:6]} for r in rn if r["diffs"] and not r["skipped"]]
    nontriv = 0
    for r, o in zip(rn, outs):
        op = json.loads(o[2:]) if o.startswith("J ") else {"error": "Crash", "raw": o[:300]}
        if strip_private(r["obs"]) != strip_private(op):
            found.append(("C13: a project schedules differently with the extensions enabled and disabled", {"text": r["text"], "ast": r["ast"]}))
        elif r["obs"] and "scenarios" in r["obs"]:
            nontriv += 1
    chk.cov["evaluations"] += len(dl) * 2 + len(asts)
    chk.cov["distinct_nontrivial"] = nontriv + len(hs) + len(set(bds))
    chk.cov["rule"] = ("every accelerated function against its fallback: onShift on every (quick: every 7th + boundary) minute of the week x "
                       "random interval sets incl. cross-midnight and the F4/F29 witnesses; get_daily_hours; slot/time conversion on the C17 "
                       "grid; collectIntervals on all bit patterns of the tier; whole generated projects under the rebuilt extensions and "
                       "with the extensions removed (ImportError fallback) must give identical observations; every stream also against the "
                       "Lean model; non-trivial = distinct projects + interval sets + boards")
    return conclude(chk, dis1 + dis_d + dis2 + dis3 + dis4, lambda: found)


def replay(chk, payload):
    """re-run the recorded input: a line of the wh / daily / slot / scan streams in both configurations, or a whole project"""
    from .common import replay_items
    found, dis = [], []
    cfg = lambda l: "pure" if l.split()[1] == "py" else "native"
    for it in replay_items(chk):
        if isinstance(it.get("ast"), dict):
            rn = project_stream.run_projects(chk, [it["ast"]], want_oracles=(), config="native")
            o = chk.impl.run(["J " + json.dumps({"op": "sched", "text": rn[0]["text"]})], config="pure")[0]
            op = json.loads(o[2:]) if o.startswith("J ") else {"error": "Crash", "raw": o[:300]}
            if rn[0]["diffs"] and not rn[0]["skipped"]:
                dis.append({"stream": "project", "text": rn[0]["text"], "ast": it["ast"], "diffs": rn[0]["diffs"][:6]})
            if strip_private(rn[0]["obs"]) != strip_private(op):
                found.append(("C13: a project schedules differently with the extensions enabled and disabled", {"text": rn[0]["text"], "ast": it["ast"]}))
            continue
        l = it.get("input")
        if not isinstance(l, str):
            continue
        t = l.split()
        if len(t) > 1 and t[1] in ("py", "cy"):
            pair = [" ".join([t[0], "py"] + t[2:]), " ".join([t[0], "cy"] + t[2:])]
            d, _, real = chk.differential(it.get("stream", "replay"), pair, impl_of=cfg)
            dis += d
            if real[0] != real[1]:
                found.append((f"C13: {t[0]} differs between pure Python ({real[0]}) and compiled ({real[1]})", {"input": l}))
        elif t and t[0] in ("idx2t", "t2idx", "pidx2t", "pt2idx"):
            pair = [" ".join([t[0], "py"] + t[1:]), " ".join([t[0], "cy"] + t[1:])]
            d, _, real = chk.differential("slots", pair, impl_of=cfg)
            dis += d
            if real[0] != real[1]:
                found.append((f"C13: {t[0]} differs between pure Python ({real[0]}) and compiled ({real[1]})", {"input": l}))
        else:
            a = chk.impl.run([l], config="native")[0]
            b = chk.impl.run([l], config="pure")[0]
            if a != b:
                found.append((f"C13: {t[0] if t else l} differs: compiled {a} vs pure {b}", {"input": l}))
        chk.cov["evaluations"] += 1
    return conclude(chk, dis, lambda: found)
