from .metamorphic import run_c09 as run  # noqa: F401
