"""Metamorphic scheduler properties: C09 (added lowest-priority task), C14 (week shift),
C16 (scenarios vs single-scenario projects).  Each relates two runs of the REAL code; the model/impl
correspondence of the base projects is checked by the shared project stream."""
import copy
import json

from .. import astutil as A
from .. import gen, project_stream, render
from ..gen import Knobs
from . import sched_common as SC
from .common import conclude


def task_table(sc, skip=()):
    return {fid: (o["scheduled"], o["start"], o["end"]) for fid, o in sc["tasks"].items() if fid not in skip}


def run_texts(chk, texts):
    lines = ["J " + json.dumps({"op": "sched", "text": t}) for t in texts]
    outs = chk.impl.run(lines)
    return [json.loads(o[2:]) if o.startswith("J ") else {"error": "Crash", "raw": o[:400]} for o in outs]


# ------------------------------------------------------------------------------------------- C14

def shift_ast(p, d):
    q = copy.deepcopy(p)
    q["start"] += d
    q["vacations"] = [[a + d, None if b is None else b + d] for a, b in q.get("vacations") or []]
    q["leaves"] = [[ty, a + d, None if b is None else b + d] for ty, a, b in q.get("leaves") or []]
    for fid, r, par in A.flat_resources(q):
        r["leaves"] = [[ty, a + d, None if b is None else b + d] for ty, a, b in r.get("leaves") or []] or None
        r["vacations"] = [[a + d, None if b is None else b + d] for a, b in r.get("vacations") or []] or None
        r["bookings"] = [[a + d, dur] for a, dur in r.get("bookings") or []] or None
        for k in ("leaves", "vacations", "bookings"):
            if r[k] is None:
                del r[k]
    for fid, t, par, _ in A.flat_tasks(q):
        for k in ("start", "end"):
            if t.get(k) is not None:
                t[k] += d
        for sid, ov in (t.get("sc") or {}).items():
            for k in ("start", "end"):
                if k in ov:
                    ov[k] += d
    if not q["vacations"]:
        del q["vacations"]
    if not q["leaves"]:
        del q["leaves"]
    return q


def run_c14(chk):
    tier = chk.tier
    chk.obligations(["Properties/C14.lean"])
    if tier == "thorough":
        chk.leanchecker(["Properties.C14", "Proofs.Shift"])
    n = 120 if tier == "quick" else 2500
    # durations in weeks only: with `+Nm` the declared end would not move by the same number of weeks (outside the premise)
    knobs = [Knobs(p_tz=0.0, p_limits=0.6, p_tasklimits=0.2, big_effort=0.3, p_leave=0.5, p_gvac=0.4, p_month=0.0),
             Knobs(p_tz=0.0, envelope="alap", p_limits=0.5, p_leave=0.5, p_month=0.0),
             # year ends (ISO year != calendar year on some days), always with company holidays, work that has to skip them
             Knobs(p_tz=0.0, envelope="asap", p_gvac=1.0, p_leave=0.3, p_limits=0.2, big_effort=0.5, p_month=0.0, dur_weeks=[1, 2, 2],
                   max_res=2, starts=[1734912000, 1735516800, 1766361600, 1766966400, 1797811200, 1798416000, 1608508800,
                                      1609113600, 1829865600, 1546214400, 1577664000]),
             # leap days: projects that begin in the week of (or before) 29 February, with absences and pinned dates, so that
             # 29 February is written out in the text
             Knobs(p_tz=0.0, envelope="asap", p_gvac=0.8, p_leave=0.8, p_pin=0.5, p_limits=0.2, p_month=0.0, dur_weeks=[1, 2],
                   max_res=2, starts=[1708905600, 1708300800, 1835308800, 1834704000, 1961107200, 1582502400]),
             # long tasks under weekly limits in projects whose length is given in months (see below): where the weeks of a limit
             # begin must not depend on where the project ends
             Knobs(p_tz=0.0, envelope="asap", p_limits=0.9, p_tasklimits=0.4, big_effort=0.7, max_res=2, max_tasks=5, p_month=0.0,
                   dur_weeks=[3, 4])]
    asts = [w for _, w in SC.witness_asts("C14")]
    asts += [gen.gen_project(chk.rng, knobs[i % 5]) for i in range(n)]
    # absences measured in months: a blocking booking of `+1m` is thirty days wherever it starts, so the premise holds; a
    # calendar-month reading would make the schedule depend on the month the project happens to begin in
    for i, p in enumerate(asts):
        if i % 4 == 1 and p.get("dur", [0, "w"])[1] == "w":
            leaves = [r for _, r, _ in A.flat_resources(p) if A.is_leaf(r) and not r.get("children")]
            if leaves:
                r = chk.rng.choice(leaves)
                day = (p["start"] // 86400) * 86400 + chk.rng.randrange(0, 5) * 86400
                r["bookings"] = [[day + chk.rng.choice([0, 9, 13]) * 3600, chk.rng.choice(["1m", "1m", "2m"])]]
                p["dur"] = [max(p["dur"][0], 14), "w"]
    # project lengths that are not whole weeks (`+17d`): the declared end falls on another weekday than the start; nothing may
    # be anchored at it
    for i, p in enumerate(asts):
        if i % 5 == 2 and p.get("dur", [0, "w"])[1] == "w":
            p["dur"] = [p["dur"][0] * 7 + chk.rng.choice([1, 2, 3, 4, 5, 6]), "d"]
    # forward-only projects declared with a length in MONTHS: their end moves by another amount than the dates, but nothing in
    # a forward schedule that fits may depend on where the project ends
    month_len = set()
    for i, p in enumerate(asts):
        if (i % 7 == 3 or i % 5 == 4) and p.get("dur", [0, "w"])[1] == "w" and gen.envelope_of(p) == "asap" and p.get("sched") != "alap":
            p["dur"] = [chk.rng.choice([2, 3]), "m"]
            month_len.add(i)
    weeks = [1, 4, 52, 53, 104, 261]
    from .common import replay_asts, replay_items
    replay_weeks = None
    if replay_asts(chk) is not None:
        asts = replay_asts(chk)
        replay_weeks = [it.get("weeks") for it in replay_items(chk) if isinstance(it.get("ast"), dict)]
    base = project_stream.run_projects(chk, asts, want_oracles=())
    dis = [{"stream": "project", "text": r["text"], "ast": r["ast"], "diffs": r["diffs"][:6]} for r in base if r["diffs"] and not r["skipped"]]
    pairs = []
    for i, p in enumerate(asts):
        ks = [weeks[i % len(weeks)], chk.rng.randrange(1, 300)] + ([-weeks[(i + 2) % len(weeks)]] if i % 3 == 0 else [])
        if replay_weeks is not None:
            ks = [replay_weeks[i]] if replay_weeks[i] is not None else weeks + [-1, -52]
        for k in ks:
            pairs.append((i, k, shift_ast(p, k * 604800)))
    outs = run_texts(chk, [render.render(q) for _, _, q in pairs])
    found = []
    nontriv = 0
    seen = set()
    for (i, k, q), o2 in zip(pairs, outs):
        o1 = base[i]["obs"]
        if not o1 or "error" in o1 or "error" in o2:
            if (o1 and "error" in o1) != ("error" in o2):
                found.append((f"C14: shifting by {k} weeks changes the outcome class", {"ast": asts[i], "weeks": k, "base": str(o1)[:300], "shifted": str(o2)[:300]}))
            continue
        d = k * 604800
        if asts[i].get("dur", [0, "w"])[1] == "m" and any(
                not t["scheduled"] for o in (o1, o2) for s in o["scenarios"] for t in s["tasks"].values() if t["leaf"]):
            continue        # a length in months: only schedules in which everything fits are comparable
        for s1, s2 in zip(o1["scenarios"], o2["scenarios"]):
            t1, t2 = task_table(s1), task_table(s2)
            for fid in t1:
                a, b = t1[fid], t2.get(fid)
                exp = (a[0], None if a[1] is None else a[1] + d, None if a[2] is None else a[2] + d)
                if b != exp:
                    found.append((f"C14: task {fid} moved by {None if not (b and b[1] and a[1]) else b[1] - a[1]} s instead of {d} s when every date is shifted by {k} weeks",
                                  {"ast": asts[i], "text": base[i]["text"], "weeks": k, "task": fid, "base": a, "shifted": b}))
                    break
            l1 = {rid: r["ledger"] for rid, r in s1["resources"].items()}
            l2 = {rid: r["ledger"] for rid, r in s2["resources"].items()}
            if l1 != l2 and not any(f[1].get("weeks") == k and f[1].get("ast") is asts[i] for f in found):
                found.append((f"C14: bookings differ after a shift by {k} weeks", {"ast": asts[i], "text": base[i]["text"], "weeks": k}))
        key = json.dumps(asts[i], sort_keys=True)
        if key not in seen and any(o["scheduled"] for o in o1["scenarios"][0]["tasks"].values()):
            seen.add(key)
            nontriv += 1
    chk.cov["evaluations"] += len(pairs)
    chk.cov["distinct_nontrivial"] = nontriv
    chk.cov["rule"] = ("UTC projects (limits, leaves, holidays, ALAP and ASAP; a third of them starting in the last/first week of a year with company holidays) scheduled by the real code at their own dates and with every "
                       "date moved by k weeks, k in {1,4,52,53,104,261}, random 1..300 and negative; every start/end must move by exactly "
                       "604800*k s, flags and ledgers (per slot index) must be identical; base projects also compared with the Lean model; "
                       "non-trivial = distinct base projects with a scheduled task")
    chk.cov["samples"].append({"pair": {"weeks": pairs[0][1], "text": render.render(pairs[0][2])[:800]}} if pairs else {})
    return conclude(chk, dis, lambda: found)


# ------------------------------------------------------------------------------------------- C09

def min_effective_priority(p):
    """the lowest priority any task of the project has: its own, else the nearest enclosing container's, else 500"""
    nodes = {fid: t for fid, t, _, _ in A.flat_tasks(p)}
    lo = 1000
    for fid, t, par, _ in A.flat_tasks(p):
        x, v = fid, None
        while x is not None and v is None:
            v = nodes[x].get("prio")
            x = x.rsplit(".", 1)[0] if "." in x else None
        lo = min(lo, 500 if v is None else v)
    return lo


def outer_priorities_only(p, rng):
    """every task gets its priority from its outermost container (or has its own when it is a top-level task): 700..900"""
    q = copy.deepcopy(p)
    for fid, t, par, _ in A.flat_tasks(q):
        if par is None:
            t["prio"] = rng.choice([700, 800, 900])
        else:
            t.pop("prio", None)
    return q


def add_lowest(p, rng):
    q = copy.deepcopy(p)
    ids = [r["id"] for _, r, _ in A.flat_resources(q) if A.is_leaf(r) and not r.get("children")]
    ft = A.flat_tasks(q)
    # strictly below every other task's (own or inherited) priority: 1, or anything below the minimum
    lo = min_effective_priority(q)
    prio = 1 if (lo <= 2 or rng.random() < 0.4) else rng.randint(max(1, lo - 250), lo - 1)
    t = {"id": "zlow", "prio": prio, "effort": gen.gen_effort(rng, q.get("G", 3600), Knobs()), "alloc": [rng.choice(ids)]}
    if rng.random() < 0.3 and ft and q.get("sched") != "alap":
        tgt = rng.choice(ft)[0]
        t["deps"] = [{"target": tgt, "ref": tgt}]
    elif rng.random() < 0.4:
        # a pinned start does not change the rank of the task: it is still served last
        t["start"] = q["start"] + rng.choice([0, 9, 10, 33, 57]) * 3600
    if rng.random() < 0.25:
        # declared FIRST: where the added task stands in the file does not matter either (its priority is strictly lowest);
        # the two-run theorem speaks about a task appended to the list, so these pairs are judged by the oracle only
        q["tasks"].insert(0, t)
    else:
        q["tasks"].append(t)
    return q


def run_c09(chk):
    tier = chk.tier
    chk.obligations(["Properties/C09.lean"])
    if tier == "thorough":
        chk.leanchecker(["Properties.C09", "Proofs.Order"])
    n = 250 if tier == "quick" else 5000
    k = Knobs(envelope="asap", max_res=2, p_dep=0.6, p_container=0.45, p_limits=0.3, dur_weeks=[3, 4])
    asts = [gen.gen_project(chk.rng, k) for _ in range(n)]
    # a family with three nesting levels whose priorities all come from the outermost container (700..900): the added task's
    # priority then lies between the default 500 and those
    k2 = Knobs(envelope="asap", max_res=2, max_tasks=7, p_dep=0.4, p_container=0.9, p_inner=0.85, p_limits=0.1, dur_weeks=[3, 4])
    asts += [outer_priorities_only(gen.gen_project(chk.rng, k2), chk.rng) for _ in range(n // 5)]
    # a family with alternatives on few resources: which candidate a task takes must not depend on work queued by tasks
    # ranked below it (the added one least of all)
    k3 = Knobs(envelope="asap", max_res=3, max_tasks=6, p_alt=0.7, p_team=0.0, p_dep=0.3, p_container=0.2, p_limits=0.0,
               p_wh=0.15, p_leave=0.2, big_effort=0.5, dur_weeks=[3, 4])
    asts += [gen.gen_project(chk.rng, k3) for _ in range(n // 4)]
    # a family with several scenarios (effort overrides per scenario) and priorities on most tasks: the added task must be
    # harmless in EVERY scenario, not only in the first
    k4 = Knobs(envelope="asap", p_scen=1.0, max_res=2, max_tasks=6, p_dep=0.3, p_container=0.3, p_limits=0.1, dur_weeks=[3, 4])
    asts += [gen.gen_project(chk.rng, k4) for _ in range(n // 5)]
    from .common import replay_asts, replay_items
    replay_plus = None
    if replay_asts(chk) is not None:
        asts = replay_asts(chk)
        replay_plus = [it.get("with_added_ast") for it in replay_items(chk) if isinstance(it.get("ast"), dict)]
    base = project_stream.run_projects(chk, asts, want_oracles=())
    dis = [{"stream": "project", "text": r["text"], "ast": r["ast"], "diffs": r["diffs"][:6]} for r in base if r["diffs"] and not r["skipped"]]
    plus = [add_lowest(p, chk.rng) for p in asts]
    if replay_plus is not None:
        # the recorded pair: the extended project as it was (older replay files hold its text only: then a new lowest task is drawn)
        plus = [q if isinstance(q, dict) else add_lowest(p, chk.rng) for p, q in zip(asts, replay_plus)]
    # the extended projects go through the model as well (tie), and the pair through the two-run theorem
    plusres = project_stream.run_projects(chk, plus, want_oracles=())
    dis += [{"stream": "project-plus", "text": r["text"], "ast": r["ast"], "diffs": r["diffs"][:6]} for r in plusres if r["diffs"] and not r["skipped"]]
    outs = [r["obs"] or {"error": "NoAnswer"} for r in plusres]
    from .. import modelio
    from ..core import run_driver
    reqs, owners = [], []
    for i, (p, q) in enumerate(zip(asts, plus)):
        if p.get("scenarios"):
            continue
        try:
            reqs.append("J " + json.dumps({"op": "intruder", "base": modelio.build_request(p, None), "plus": modelio.build_request(q, None)}))
            owners.append(i)
        except modelio.FloatBoundary:
            pass
    acc = chk.cov.setdefault("theorem_instances", {})
    for i, mo in zip(owners, run_driver(reqs) if reqs else []):
        if not mo.startswith("J "):
            dis.append({"stream": "intruder", "ast": asts[i], "diffs": [f"model answered {mo[:100]}"]})
            continue
        a = json.loads(mo[2:])
        acc["intruder_pairs"] = acc.get("intruder_pairs", 0) + 1
        acc["intruder_is_ext"] = acc.get("intruder_is_ext", 0) + (1 if a["is_ext"] else 0)
        acc["intruder_theorem_applies"] = acc.get("intruder_theorem_applies", 0) + (1 if a["applies"] else 0)
        acc["intruder_added_scheduled"] = acc.get("intruder_added_scheduled", 0) + (1 if a["applies"] and a["added_scheduled"] else 0)
        if a["applies"] and not a["agree"]:
            acc["intruder_fail"] = acc.get("intruder_fail", 0) + 1
            dis.append({"stream": "intruder", "ast": asts[i], "with_added": render.render(plus[i]),
                        "diffs": ["model: the proved conclusion of C09.lowest_priority_intruder_harmless_checked evaluates to false"]})
    found = []
    nontriv = 0
    for p, q, r, o2 in zip(asts, plus, base, outs):
        o1 = r["obs"]
        if not o1 or "error" in o1 or "error" in o2:
            continue
        for si, (s1, s2) in enumerate(zip(o1["scenarios"], o2["scenarios"])):
            if any(not o["scheduled"] for o in s1["tasks"].values() if o["leaf"]) or any(not o["scheduled"] for o in s2["tasks"].values() if o["leaf"]):
                continue        # "as long as everything still fits the horizon"
            t1, t2 = task_table(s1), task_table(s2, skip=("zlow",))
            if t1 != t2:
                fid = next(f for f in t1 if t1[f] != t2.get(f))
                where = f" in scenario {s1.get('id', si)}" if len(o1["scenarios"]) > 1 else ""
                found.append((f"C09: adding the lowest-priority task zlow changed task {fid}{where}: {t1[fid]} -> {t2.get(fid)}",
                              {"ast": p, "text": r["text"], "with_added": render.render(q), "with_added_ast": q, "task": fid}))
                break
            # did the intruder actually compete for a resource?
            zl = s2["tasks"].get("zlow")
            if zl and zl["scheduled"] and si == 0:
                nontriv += 1
    chk.cov["evaluations"] += len(plus)
    chk.cov["distinct_nontrivial"] = nontriv
    chk.cov["rule"] = ("forward projects scheduled by the real code with and without an added top-level task of priority 1 (strictly lowest) on a "
                       "random resource, optionally depending on an existing task or pinned to a start date, nothing depending on it; every other task's flag/start/end must "
                       "be identical when everything fits, in every scenario of the project (one family declares 2-4 scenarios); base AND extended projects also compared with the Lean model; every pair is handed to the "
                       "driver, which checks the hypotheses of the two-run theorem (extended environment = ext e zd, intrCheck, treeCheck, wfCheck) and "
                       "evaluates its conclusion on the model's own two runs; non-trivial = pairs in which the added task was scheduled")
    return conclude(chk, dis, lambda: found)


# ------------------------------------------------------------------------------------------- C16

def single_scenario_ast(p, sid):
    q = copy.deepcopy(p)
    q.pop("scenarios", None)
    for fid, t, par, _ in A.flat_tasks(q):
        ov = A.effective_override(p, t, sid)
        for k, v in ov.items():
            t[k] = v
        t.pop("sc", None)
    return q


def run_c16(chk):
    tier = chk.tier
    chk.obligations(["Properties/C16.lean"])
    if tier == "thorough":
        chk.leanchecker(["Properties.C16"])
    n = 150 if tier == "quick" else 3000
    ks = [Knobs(p_scen=1.0, envelope="asap", p_limits=0.4, big_effort=0.25, dur_weeks=[1, 2]),
          Knobs(p_scen=1.0, envelope="alap", p_limits=0.3),
          # scenario-specific dates, also on containers without a date of their own
          Knobs(p_scen=1.0, p_scen_date=0.35, envelope="asap", p_container=0.7, p_limits=0.2, dur_weeks=[2, 3]),
          Knobs(p_scen=1.0, p_scen_date=0.3, envelope="alap", p_container=0.7, p_limits=0.2, dur_weeks=[2, 3])]
    asts = [w for _, w in SC.witness_asts("C16")]
    asts += [gen.gen_project(chk.rng, ks[i % 4]) for i in range(n)]
    from .common import replay_asts
    if replay_asts(chk) is not None:
        asts = replay_asts(chk)
    base = project_stream.run_projects(chk, asts, want_oracles=())
    dis = [{"stream": "project", "text": r["text"], "ast": r["ast"], "diffs": r["diffs"][:6]} for r in base if r["diffs"] and not r["skipped"]]
    singles = []
    for i, p in enumerate(asts):
        for sid, par in A.scenario_ids(p):
            singles.append((i, sid, single_scenario_ast(p, sid)))
    outs = run_texts(chk, [render.render(q) for _, _, q in singles])
    found = []
    nontriv = 0
    for (i, sid, q), o2 in zip(singles, outs):
        o1 = base[i]["obs"]
        if not o1 or "error" in o1 or "error" in o2:
            continue
        s1 = next(s for s in o1["scenarios"] if s["id"] == sid)
        s2 = o2["scenarios"][0]
        if task_table(s1) != task_table(s2):
            fid = next(f for f in s1["tasks"] if task_table(s1)[f] != task_table(s2).get(f))
            found.append((f"C16: scenario {sid} of a multi-scenario project differs from the same project written with that scenario alone (task {fid})",
                          {"ast": asts[i], "text": base[i]["text"], "scenario": sid, "single_text": render.render(q),
                           "multi": task_table(s1)[fid], "single": task_table(s2).get(fid)}))
        l1 = {rid: r["ledger"] for rid, r in s1["resources"].items()}
        l2 = {rid: r["ledger"] for rid, r in s2["resources"].items()}
        c1 = {rid: r["limits"] for rid, r in s1["resources"].items()}
        c2 = {rid: r["limits"] for rid, r in s2["resources"].items()}
        if (l1 != l2 or c1 != c2) and task_table(s1) == task_table(s2):
            found.append((f"C16: bookings or limit counters of scenario {sid} differ from the single-scenario run",
                          {"ast": asts[i], "text": base[i]["text"], "scenario": sid}))
        if any(t.get("sc") for _, t, _, _ in A.flat_tasks(asts[i])):
            nontriv += 1
    # the model's `projection` (Model/Scenarios: what the C16 theorems speak about) against the single-scenario project written
    # above for the real code: base project + the scenario's override list -> the same raw project, task by task
    from .. import modelio
    from ..core import run_driver
    preqs, pown = [], []
    for i, sid, q in singles:
        p = asts[i]
        try:
            basereq = modelio.build_request(p, None)
            want = modelio.build_request(q, None)
        except modelio.FloatBoundary:
            continue
        ovs = []
        for n, (fid, t, par, _) in enumerate(A.flat_tasks(p)):
            ov = A.effective_override(p, t, sid)
            if ov:
                eh = A.effort_hours(ov["effort"]) if ov.get("effort") else None
                ovs.append({"task": n, "effort": None if eh is None else [eh.numerator, eh.denominator],
                            "start": ov.get("start"), "stop": ov.get("end")})
        preqs.append("J " + json.dumps({"op": "proj", "base": basereq, "ovs": ovs, "want": want}))
        pown.append((i, sid, len(ovs)))
    acc = chk.cov.setdefault("theorem_instances", {})
    for (i, sid, nov), mo in zip(pown, run_driver(preqs) if preqs else []):
        a = json.loads(mo[2:]) if mo.startswith("J ") else None
        acc["projection_pairs"] = acc.get("projection_pairs", 0) + 1
        acc["projection_pairs_with_overrides"] = acc.get("projection_pairs_with_overrides", 0) + (1 if nov else 0)
        if a is None or not a["same"] or a["overrides"] != nov:
            acc["projection_fail"] = acc.get("projection_fail", 0) + 1
            dis.append({"stream": "projection", "ast": asts[i], "scenario": sid,
                        "diffs": [f"model: projection of the base project under the overrides of scenario {sid} is not the single-scenario project the real code was run on: {mo[:200]}"]})
    chk.cov["evaluations"] += len(singles) + len(preqs)
    chk.cov["distinct_nontrivial"] = nontriv
    chk.cov["rule"] = ("projects with 2-3 (nested) scenarios and scenario-specific effort / start / end overrides (dates also on containers without a date of their own) scheduled by the real code; each scenario's "
                       "dates, ledgers and limit counters must equal those of the single-scenario text with the overrides (own or inherited from the "
                       "parent scenario) applied; multi-scenario runs also compared scenario by scenario with the Lean model, and the model's `projection` of the base project "
                       "under each scenario's override list with that single-scenario project (driver op `proj`); non-trivial = "
                       "(project, scenario) pairs of projects that declare an override")
    return conclude(chk, dis, lambda: found)
