"""Configurations of the scheduler-level property checks (C01–C06, C08, C10)."""
from fractions import Fraction

from .. import astutil as A
from ..gen import Knobs
from . import sched_common as SC

INV = ["Properties/C01.lean", "Properties/C02.lean", "Properties/C05.lean", "Properties/C10.lean"]


def shared_slots(p, r):
    obs = r["obs"]
    for sc in obs.get("scenarios", []):
        for rid, rr in sc["resources"].items():
            for k, e in rr["ledger"].items():
                if len({t for t, _ in e["usage"]}) >= 2:
                    return True
    return False


def any_booking(p, r):
    return any(rr["ledger"] for sc in r["obs"].get("scenarios", []) for rr in sc["resources"].values())


def classify_c02(p, sc, key, msg):
    import re
    m = re.search(r"which has (\d+) s of declared working time", msg)
    G = p.get("G", 3600)
    if m and 0 < int(m.group(1)) < G:
        return "known", "F6"
    return "new", None


def classify_c03(p, sc, key, msg):
    return SC.classify_c03(p, sc, msg)


CFG = {
    "C01": dict(files=["Properties/C01.lean"], oracles=("C01",),
                knobs=[(3, Knobs(max_res=2, max_tasks=7, sub_slot=0.8, p_team=0.3, p_dep=0.4)),
                       (1, Knobs(envelope="alap", max_res=2, sub_slot=0.8)),
                       (1, Knobs(envelope="asap", max_res=1, max_tasks=6, sub_slot=0.9, p_wh=0.1, p_limits=0.1))],
                nontrivial=shared_slots,
                rule="random projects (mixed / ALAP / single-resource ASAP), sub-slot efforts favoured; model vs real scheduler on "
                     "every task date and every ledger entry; oracle: per resource and slot sum of bookings <= slot length, no group or "
                     "container in a ledger; non-trivial = distinct projects in which some slot is shared by >= 2 tasks"),
    "C02": dict(files=["Properties/C02.lean"], oracles=("C02",), classify=classify_c02,
                knobs=[(3, Knobs(p_wh=0.8, p_shift=0.3, p_leave=0.6, p_gvac=0.4, p_tz=0.5, p_dst=0.3, dur_weeks=[1, 2, 2, 3])),
                       (1, Knobs(envelope="alap", p_wh=0.8, p_leave=0.6, p_tz=0.5, p_dst=0.3)),
                       # calendars declared on a resource group (hours, shift, zone, leave) and inherited by its members
                       (2, Knobs(envelope="asap", p_group=0.9, p_group_cal=0.9, max_res=3, p_wh=0.3, p_shift=0.4, p_leave=0.8, p_tz=0.3,
                                 big_effort=0.4, dur_weeks=[2, 3])),
                       # three levels: a group that refers to a shift, a sub-group with hours of its own, members with none
                       (1, Knobs(envelope="asap", p_group=1.0, p_group_cal=1.0, p_subgroup=0.9, max_res=3, p_wh=0.15, p_shift=1.0,
                                 p_leave=0.3, p_tz=0.0, big_effort=0.4, dur_weeks=[2, 3])),
                       (2, Knobs(aligned_only=False, p_wh=0.9, p_leave=0.8, p_tz=0.3, forward_only=True, envelope="asap", big_effort=0.4))],
                nontrivial=any_booking,
                rule="random projects with own hours / shifts (several intervals, cross-midnight, 24:00), zones incl. DST weeks and "
                     ":30/:45 offsets (tables from zdump), leaves/vacations/bookings/global holidays; one stream with calendars NOT aligned "
                     "to the resolution (known finding F6 region); oracle: booked seconds per slot <= declared working seconds of an "
                     "independent calendar evaluation; non-trivial = distinct projects with at least one booking"),
    "C03": dict(files=["Properties/C03.lean"], oracles=("C03",),
                knobs=[(2, Knobs(envelope="asap", p_eff=0.6, sub_slot=0.8, p_team=0.35, p_alt=0.25)),
                       (1, Knobs(envelope="alap", p_eff=0.6, sub_slot=0.8, p_team=0.3, p_alt=0.2)),
                       (1, Knobs(envelope="asap", p_eff=1.0, eff=["0.7"], sub_slot=0.8, p_team=0.7, p_alt=0.0, p_leave=0.5, p_limits=0.3, p_tasklimits=0.5, max_res=3)),
                       (1, Knobs(envelope="alap", p_eff=0.0, sub_slot=0.8, p_team=0.7, p_alt=0.0, p_leave=0.5, p_tasklimits=0.5, max_res=3)),
                       # teams under task / container limits whose room is not a multiple of the team size (the team gate)
                       (1, Knobs(envelope="asap", p_eff=0.0, p_team=0.85, p_alt=0.0, p_tasklimits=0.8, p_container=0.6, p_limits=0.0,
                                 max_res=3, max_tasks=6, big_effort=0.4)),
                       # alternatives under contention, walks that cross nights and leaves: the one-time choice of a candidate
                       (1, Knobs(envelope="alap", p_alt=0.7, p_team=0.0, big_effort=0.5, p_leave=0.5, max_res=3, max_tasks=6)),
                       (1, Knobs(envelope="asap", p_alt=0.7, p_team=0.0, big_effort=0.5, p_leave=0.5, p_tasklimits=0.3, max_res=3, max_tasks=6))],
                nontrivial=any_booking,
                rule="ASAP and ALAP envelope projects with efficiencies, sub-slot efforts, teams (two streams with one common efficiency, "
                     "the hypothesis of C03.team_effort_exact), alternatives; oracle: booked x efficiency "
                     "= effort (uniform-efficiency teams), no further slot, team members booked for the same instants, one candidate set"),
    "C04": dict(files=["Properties/C04.lean"], oracles=("C04",),
                knobs=[(2, Knobs(envelope="asap", p_dep=0.85, p_gap=0.6, p_glen=0.6, p_onstart=0.25, p_container=0.5, p_prec=0.25, p_pin=0.25, aligned_only=False)),
                       (1, Knobs(envelope="alap", p_dep=0.85, p_gap=0.6, p_onstart=0.15, p_container=0.5, p_prec=0.25)),
                       (1, Knobs(envelope="alap", max_tasks=6, p_twin=0.7, p_container=0.85, p_dep=0.85, p_gap=0.5, dur_weeks=[3, 4])),
                       # three nesting levels, dependencies mostly on the containers: inherited edges of outer containers
                       (1, Knobs(envelope="asap", max_tasks=7, p_container=0.9, p_inner=0.85, p_dep=0.6, p_gap=0.6, p_glen=0.5, dur_weeks=[3, 4]))],
                nontrivial=lambda p, r: any(t.get("deps") or t.get("prec") for _, t, _, _ in A.flat_tasks(p)),
                rule="ASAP and ALAP envelope projects with dense DAGs over nested trees, gaps (incl. days, sub-slot), on-start edges, "
                     "relative/absolute references, precedes, dated containers; oracle: start >= predecessor (start|end) + gap for own, "
                     "inherited and inverted edges; non-trivial = distinct projects with at least one edge"),
    "C05": dict(files=["Properties/C05.lean"], oracles=("C05",),
                knobs=[(3, Knobs(p_limits=0.8, p_tasklimits=0.4, p_group=0.5, big_effort=0.35, dur_weeks=[1, 1, 2], p_team=0.1)),
                       (1, Knobs(envelope="alap", p_limits=0.8, p_tasklimits=0.3, big_effort=0.3, p_team=0.1)),
                       # projects that start in the middle of the day (noon, 13:00, 15:00): a day of a daily limit is a calendar
                       # day of the project's time zone whatever the time of day the project starts at
                       (1, Knobs(p_limits=0.9, p_tasklimits=0.2, p_wh=0.5, big_effort=0.4, dur_weeks=[1, 2], p_team=0.0, resolutions=[3600, 1800], p_offstart=0.8, offstart_aligned=True,
                                 start_offsets=[12 * 3600, 13 * 3600, 12 * 3600, 15 * 3600]))],
                nontrivial=lambda p, r: any(rr.get("limits") for _, rr, _ in A.flat_resources(p)) or any(t.get("limits") for _, t, _, _ in A.flat_tasks(p)),
                rule="projects with daily/weekly limits on resources, groups, tasks and containers, efforts that overrun the declared end, "
                     "starts in ISO weeks 52/53/1; oracle: booked time per calendar day / ISO week of each limited set <= limit; "
                     "non-trivial = distinct projects that declare a limit"),
    "C06": dict(files=["Properties/C06.lean"], oracles=("C06",),
                knobs=[(2, Knobs(envelope="asap", sub_slot=0.9, max_res=2, p_dep=0.7, p_gap=0.5, p_glen=0.5, aligned_only=False, p_milestone=0.3)),
                       (1, Knobs(envelope="alap", sub_slot=0.9, max_res=2, p_milestone=0.2)),
                       # teams of one common efficiency (the hypothesis of C06.team_framed), sub-slot bounds and efforts
                       (1, Knobs(envelope="asap", sub_slot=0.9, max_res=3, p_team=0.7, p_eff=0.0, p_alt=0.0, p_dep=0.6, p_gap=0.5,
                                 p_leave=0.4, aligned_only=False)),
                       (1, Knobs(envelope="alap", sub_slot=0.9, max_res=3, p_team=0.7, p_eff=0.0, p_alt=0.0, p_leave=0.4))],
                nontrivial=shared_slots,
                rule="ASAP and ALAP envelope projects with sub-slot efforts and gaps (two streams with teams of one common efficiency); oracle: bookings inside [start, end], first/last booked "
                     "slot contain start/end, interval long enough for the work of those slots, milestones at their bound"),
    "C08": dict(files=["Properties/C08.lean"], oracles=("C08",),
                knobs=[(2, Knobs(envelope="asap", p_limits=0.05, p_tasklimits=0.0, p_wh=0.5, p_leave=0.5, p_tz=0.3, p_gvac=0.5, p_glen=0.5)),
                       (1, Knobs(envelope="alap", p_limits=0.05, p_tasklimits=0.0, p_wh=0.5, p_leave=0.5, p_tz=0.3, p_gvac=0.5)),
                       # working-time gaps (gaplength) in front of resources whose hours differ from the project calendar: a bound
                       # moved to the next project working slot shows as idle time of the resource
                       (1, Knobs(envelope="asap", max_res=3, max_tasks=6, p_dep=0.85, p_gap=0.1, p_glen=0.9, p_wh=0.85, p_tz=0.3,
                                 p_limits=0.0, p_tasklimits=0.0, p_leave=0.2, big_effort=0.5)),
                       # directions declared on containers and single tasks (`scheduling alap` inherited by the children): outside the
                       # oracle's envelopes, compared with the model
                       (1, Knobs(envelope="mixed", p_taskmode=0.5, p_container=0.75, max_res=2, max_tasks=6, p_limits=0.0,
                                 p_tasklimits=0.0, p_dep=0.4, dur_weeks=[3, 4])),
                       # sparse backward projects with nested containers and equal local ids: wrong deadlines show as idle time
                       (1, Knobs(envelope="alap", max_res=2, max_tasks=6, p_twin=0.7, p_container=0.85, p_dep=0.8, p_gap=0.3,
                                 p_limits=0.0, p_tasklimits=0.0, big_effort=0.0, dur_weeks=[3, 4])),
                       # contention: holders with holes in their bookings (teams with a member on leave, task limits)
                       (1, Knobs(envelope="asap", max_res=2, max_tasks=6, p_team=0.45, p_leave=0.6, p_tasklimits=0.35, p_limits=0.0, p_wh=0.3)),
                       (1, Knobs(envelope="alap", max_res=2, max_tasks=6, p_team=0.45, p_leave=0.6, p_tasklimits=0.35, p_limits=0.0, p_wh=0.3))],
                nontrivial=any_booking,
                rule="ASAP and ALAP envelope projects, mostly unlimited resources (one stream with contention against team / limited holders), calendars with leaves/zones/cross-midnight shifts; oracle: "
                     "no working, unbooked slot of the task's resource between bound and end (ASAP) / end and deadline (ALAP)"),
    "C10": dict(files=["Properties/C10.lean"], oracles=("C10",),
                knobs=[(3, Knobs(p_container=0.8, big_effort=0.3, dur_weeks=[1, 1, 2], p_pin=0.35, p_milestone=0.3)),
                       (1, Knobs(envelope="alap", p_container=0.8, p_pin=0.3)),
                       # several scenarios: the roll-up of one scenario must not live on state left by another
                       (1, Knobs(p_container=0.85, p_scen=1.0, p_pin=0.3, p_milestone=0.2, max_tasks=7, dur_weeks=[1, 2]))],
                nontrivial=lambda p, r: any(not A.is_leaf(t) for _, t, _, _ in A.flat_tasks(p)),
                rule="projects with nested containers (dated at every level), pinned milestones and unschedulable leaves; oracle: container "
                     "scheduled iff all children are, start/end = min/max over children, no container or group in any ledger; non-trivial = "
                     "distinct projects with a container"),
}


def dep_chain_family():
    """C04: three nesting levels (outer container > inner container > leaf); every subset of the three levels carries a
    dependency of its own on a different predecessor (efforts 1 d / 2 d / 3 d, so the three bounds differ), with and
    without gaps and on-start edges, ASAP and ALAP: the leaf must honour the own and ALL inherited edges"""
    out = []
    start = 1736121600
    for mode in ("asap", "alap"):
        for mask in range(1, 8):
            for var in range(3):
                def dep(q, gap=None, onstart=False):
                    d = {"target": q, "ref": q}
                    if gap:
                        d["gap"] = gap
                    if onstart:
                        d["onstart"] = True
                    return d
                preds = [{"id": n, "effort": [e, "h"], "alloc": ["r0"]} for n, e in (("a", "8"), ("b", "16"), ("c", "24"))]
                leaf = {"id": "x", "effort": ["4", "h"], "alloc": ["r1"]}
                inner = {"id": "in", "children": [leaf]}
                outer = {"id": "o", "children": [inner, {"id": "y", "effort": ["2", "h"], "alloc": ["r1"]}]}
                if mask & 1:
                    outer["deps"] = [dep("c", "1d" if var == 1 else None)]
                if mask & 2:
                    inner["deps"] = [dep("b", None, var == 2)]
                if mask & 4:
                    leaf["deps"] = [dep("a", "2h" if var == 1 else None)]
                pr = {"start": start, "dur": [4, "w"], "G": 3600, "resources": [{"id": "r0"}, {"id": "r1"}],
                      "tasks": preds + [outer]}
                if mode == "alap":
                    pr["sched"] = "alap"
                    for t in (outer, inner, leaf):
                        for d in t.get("deps", []):
                            d.pop("onstart", None)
                    # and the mirror image: single tasks that follow the levels of the nest
                    if var == 2:
                        for t in (outer, inner, leaf):
                            t.pop("deps", None)
                        for bit, (task, tgt) in zip((1, 2, 4), ((preds[2], "o"), (preds[1], "o.in"), (preds[0], "o.in.x"))):
                            if mask & bit:
                                task["deps"] = [dep(tgt, "1d" if mask & 1 else None)]
                        pr["tasks"] = [outer] + preds
                out.append((f"depchain-{mode}-{mask}-{var}", pr))
    return out


def same_text_family():
    """C04: the same duration text on a working-time gap (`gaplength 1d` = 8 h of project working time) and on a calendar
    gap (`gapduration 1d` = 24 h) of one project, in both orders of declaration and on both kinds of edge.  Each project
    runs in a worker process of its own (tag `fresh-`): whatever the implementation remembers about a text it has read
    before must not decide how the next one is read."""
    out = []
    start = 1736121600
    for text in ("1d", "2d", "1w"):
        for order in (0, 1):
            for onstart in (False, True):
                a = {"id": "a", "effort": ["3", "h"], "alloc": ["r0"]}
                kinds = ("glen", "gap") if order == 0 else ("gap", "glen")
                b = {"id": "b", "effort": ["2", "h"], "alloc": ["r1"], "deps": [{"target": "a", "ref": "a", kinds[0]: text}]}
                c = {"id": "c", "effort": ["2", "h"], "alloc": ["r2"], "deps": [{"target": "b", "ref": "b", kinds[1]: text}]}
                if onstart:
                    c["deps"][0]["onstart"] = True
                pr = {"start": start, "dur": [6, "w"], "G": 3600, "resources": [{"id": "r0"}, {"id": "r1"}, {"id": "r2"}],
                      "tasks": [a, b, c]}
                out.append((f"fresh-sametext-{text}-{order}-{int(onstart)}", pr))
    return out


def run(chk):
    c = CFG[chk.prop]
    extra = (dep_chain_family() + same_text_family()) if chk.prop == "C04" else ()
    return SC.run(chk, chk.prop, sorted(set(c["files"])), c["knobs"], c.get("n_quick", 300), c.get("n_thorough", 6000),
                  c["oracles"], c["nontrivial"], c["rule"], classify=c.get("classify"),
                  leanchecker_modules=["Properties." + chk.prop, "Proofs.SchedInv"], extra_asts=extra)
