"""Shared by c19.py / c20.py: the `cli` stream (generator, parallel runner, comparison, attribution)."""
import concurrent.futures as cf
import json

from .. import core

FAULTS = ["stdinMkstemp", "stdinWrite", "readInput", "mkdtemp", "copyRead", "mkstempAuto", "copyWrite",
          "engineRaise", "engineNoOutput", "readReport", "echo"]
FILE_CLASSES = ["valid", "unsched", "missing", "dir", "empty", "blank", "syntax"]
STDIN_CLASSES = ["valid", "unsched", "empty", "blank", "syntax"]
REPAIRED = "1111"
# finding id -> model variant (f17 f18 f26 f43) in which that defect is present; F17 shows only when the engine
# also generates the project's own reports, i.e. with the F18 repair absent as well
VARIANT_WITHOUT = {"F17": "0011", "F18": "1011", "F26": "1101", "F43": "1110"}
WHAT = {
    "F17": "plan report prints glob('*.<ext>')[0] of the output directory: a project that defines its own report in the "
           "requested format gets an arbitrary one instead of the id/start/end report",
    "F18": "a report name with '..' or an absolute path makes the engine write outside the temp output directory; "
           "the file is left behind",
    "F26": "unreadable input (OSError while hashing the file) exits 2, not 1",
    "F43": "a failure while copying the input into plan_auto_*.tjp leaves that temp file behind "
           "(e.g. a non-UTF-8 input file)",
}


def line(cls, channel, fmt, fault="none", out="-", ureports="-", k=0, variant=REPAIRED):
    return f"cli {variant} {cls} {channel} {fmt} {fault} {out} {ureports} {k}"


def fields(ans):
    """'exit 0 out auto id hash left - ofile -' -> dict (None if the answer has another shape)"""
    t = ans.split(" ## ")[0].split()
    if len(t) == 10 and t[0::2] == ["exit", "out", "id", "left", "ofile"]:
        return dict(zip(t[0::2], t[1::2]))
    return None


def detail(ans):
    if " ## " in ans:
        try:
            return json.loads(ans.split(" ## ", 1)[1])
        except ValueError:
            return {}
    return {}


def canon_for(keys):
    def canon(ans):
        f = fields(ans)
        if f is None:
            return ans.split(" ## ")[0]
        return " ".join(f"{k} {f[k]}" for k in keys)
    return canon


def run_impl_parallel(chk, lines, jobs=None, timeout=1500, extra_env=None):
    """answers of the implementation for `lines`, computed by `jobs` worker interpreters at once
    (each worker runs its cases one after the other; a case = CLI subprocess + direct-schedule subprocess)"""
    if not lines:
        return []
    impl = chk.impl                                  # build the scratch copy before starting threads
    jobs = max(1, min(jobs or core.NPROC, len(lines)))
    chunks = [lines[i::jobs] for i in range(jobs)]
    env = {"VERIF_CASE_TIMEOUT": "300"}
    env.update(extra_env or {})
    with cf.ThreadPoolExecutor(jobs) as ex:
        outs = list(ex.map(lambda c: impl.run(c, config="native", jobs=1, timeout=timeout, extra_env=env), chunks))
    res = [None] * len(lines)
    for k, o in enumerate(outs):
        res[k::jobs] = o
    return res


def differential_cli(chk, stream, lines, canon, samples=4):
    """like Check.differential, with the parallel runner; returns (disagreements, model, impl)"""
    model = core.run_driver(lines)
    real = run_impl_parallel(chk, lines)
    dis = []
    for l, m, r in zip(lines, model, real):
        if canon(m) != canon(r):
            dis.append({"stream": stream, "input": l, "model": m, "impl": r[:1500]})
    st = chk.cov["streams"].setdefault(stream, {"cases": 0, "disagreements": 0})
    st["cases"] += len(lines)
    st["disagreements"] += len(dis)
    chk.cov["evaluations"] += len(lines)
    chk.cov["disagreements"] += len(dis)
    for k in range(min(samples, len(lines))):
        i = (k * 7919) % len(lines)
        chk.cov["samples"].append({"stream": stream, "input": lines[i], "model": model[i],
                                   "impl": real[i].split(" ## ")[0]})
    return dis, model, real


def attribute(chk, dis, keys, candidates=("F17", "F18", "F26", "F43")):
    """for every disagreement ask the model which single missing repair explains the implementation's
    answer (the Lean model carries the pinned program text per finding): adds 'explained_by'"""
    if not dis:
        return
    canon = canon_for(keys)
    qs, idx = [], []
    for n, d in enumerate(dis):
        t = d["input"].split()
        for fid, var in VARIANT_WITHOUT.items():
            if fid not in candidates:
                continue
            qs.append(" ".join([t[0], var] + t[2:]))
            idx.append((n, fid))
    ans = core.run_driver(qs)
    for (n, fid), a in zip(idx, ans):
        fa, fi = fields(a), fields(dis[n]["impl"])
        if fa is None or fi is None:
            continue
        ok = all(fa[k] == fi[k] or fa[k] == "any" for k in keys)
        if ok:
            dis[n].setdefault("explained_by", []).append(fid)


def collect_violations(lines, real, kinds):
    """oracle verdicts (computed next to the subprocess run) of the wanted kinds -> [(what, payload)]"""
    found = []
    for l, r in zip(lines, real):
        d = detail(r)
        for kind, msg in d.get("viol", []):
            if kind in kinds:
                fid = kind if kind.startswith("F") else None
                what = (f"{fid}: {msg}" if fid else msg)
                found.append((what, {"stream": "cli", "input": l, "impl": r[:1500], "finding": fid, "kind": kind}))
    # one representative per finding / kind first, so that the replay names each defect once
    seen, first, rest = set(), [], []
    for w, p in found:
        key = p["finding"] or p["kind"]
        (rest if key in seen else first).append((w, p))
        seen.add(key)
    return first + rest


def crashed(lines, real):
    out = []
    for l, r in zip(lines, real):
        if fields(r) is None and not r.startswith("FileNotFoundError="):
            out.append((l, r[:600]))
    return out
