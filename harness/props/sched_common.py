"""Shared driver for the scheduler-level properties (C01–C10, C14, C16): Lean obligations,
`project` correspondence stream (real scheduler vs Lean model), property oracles, known-finding
classification, evidence."""
import collections
import json
import os

from .. import astutil as A
from .. import gen, project_stream
from ..core import ROOT
from .common import conclude


def load_known(prop):
    kf = json.load(open(os.path.join(ROOT, "known_findings.json")))
    return [f for f in kf["findings"] if f["property"] == prop or prop in f.get("also", [])]


def witness_asts(prop):
    """corpus: witnesses of every recorded finding for this property (fixed ones must pass)"""
    out = []
    for f in load_known(prop):
        p = os.path.join(ROOT, f.get("witness", ""))
        if os.path.exists(p):
            w = json.load(open(p))
            if w.get("ast"):
                out.append((f["id"], w["ast"]))
    return out


def corpus_asts():
    d = os.path.join(ROOT, "corpus", "project")
    out = []
    if os.path.isdir(d):
        for fn in sorted(os.listdir(d)):
            if fn.endswith(".json"):
                out.append((fn[:-5], json.load(open(os.path.join(d, fn)))["ast"]))
    return out


# ---- triggers of the open findings (decidable on the AST / on the observed ledger) ------------

def trigger_F31(p, fid):
    """team whose members share a limit counter (group limit above >= 2 members, or a task limit)"""
    nodes = {f: t for f, t, _, _ in A.flat_tasks(p)}
    t = nodes[fid]
    alloc = t.get("alloc")
    x = fid
    while not alloc and "." in x:
        x = x.rsplit(".", 1)[0]
        alloc = nodes[x].get("alloc")
    if not alloc or len(alloc) < 2:
        return False
    if any(nodes[a].get("limits") for a in [fid] + A.ancestors(fid)):
        return True
    res = {r["id"]: (f, par) for f, r, par in A.flat_resources(p)}
    rn = {f: r for f, r, par in A.flat_resources(p)}
    chains = []
    for a in alloc:
        f = res[a][0] if a in res else None
        ch = set()
        while f is not None:
            if rn[f].get("limits"):
                ch.add(f)
            f = {ff: par for ff, r, par in A.flat_resources(p)}[f]
        chains.append(ch)
    return any(chains[i] & chains[j] for i in range(len(chains)) for j in range(i + 1, len(chains)))


def trigger_F32(sc, fid, slots):
    """some member's slot (among the mismatching ones) is partly used by something other than `fid`"""
    from fractions import Fraction
    for rid, r in sc["resources"].items():
        for k in slots:
            e = r["ledger"].get(str(k))
            if not e:
                continue
            own = sum((Fraction(*s) for t, s in e["usage"] if t == fid), Fraction(0))
            if Fraction(*e["used"]) - own > Fraction(1, 1000):
                return True
    return False


def classify_c03(p, sc, msg):
    """('known', Fid) for a failure inside an open finding's trigger, else ('new', None)"""
    import re
    m = re.match(r"\[\w+\] team task (\S+): members .* not booked for the same instants: \{(.*)\}", msg)
    if m:
        fid = m.group(1)
        slots = [int(x) for x in re.findall(r"(-?\d+): \(", m.group(2))]
        if trigger_F31(p, fid):
            return "known", "F31"
        if trigger_F32(sc, fid, slots):
            return "known", "F32"
    m = re.match(r"\[\w+\] task (\S+): (effort .* requested|a further slot)", msg)
    if m:
        fid = m.group(1)
        booked = {}
        for rid, r in sc["resources"].items():
            for k, e in r["ledger"].items():
                if any(t == fid for t, _ in e["usage"]):
                    booked.setdefault(rid, []).append(int(k))
        if len(booked) >= 2:      # a team: the effort clause inherits the team findings
            slots = sorted(set().union(*[set(v) for v in booked.values()]))
            if trigger_F31(p, fid):
                return "known", "F31"
            if trigger_F32(sc, fid, slots):
                return "known", "F32"
    return "new", None


def run(chk, prop, theorem_files, knob_sets, n_quick, n_thorough, oracle_keys, nontrivial, rule,
        classify=None, extra_asts=(), leanchecker_modules=None, post=None, again=0):
    """generic scheduler-property check.
    knob_sets: list of (weight, gen.Knobs); nontrivial(ast, result) -> bool; classify(p, sc, key, msg) -> (kind, fid)"""
    tier = chk.tier
    chk.obligations(theorem_files)
    if tier == "thorough" and leanchecker_modules:
        chk.leanchecker(leanchecker_modules)
    n = n_quick if tier == "quick" else n_thorough
    asts = []
    tags = []
    for fid, a in witness_asts(prop) + corpus_asts() + list(extra_asts):
        asts.append(a); tags.append(fid)
    total_w = sum(w for w, _ in knob_sets)
    for w, k in knob_sets:
        for _ in range(int(n * w / total_w)):
            asts.append(gen.gen_project(chk.rng, k)); tags.append("gen")
    from .common import replay_asts
    if replay_asts(chk) is not None:
        asts = replay_asts(chk)
        tags = ["replay"] * len(asts)
    # projects tagged `fresh-` run in a worker process of their own (nothing was parsed or scheduled before them)
    shared = [i for i, t in enumerate(tags) if not t.startswith("fresh-")]
    results = [None] * len(asts)
    for i, r in zip(shared, project_stream.run_projects(chk, [asts[i] for i in shared], want_oracles=oracle_keys, again=again)):
        results[i] = r
    for i, t in enumerate(tags):
        if t.startswith("fresh-"):
            results[i] = project_stream.run_projects(chk, [asts[i]], want_oracles=oracle_keys, again=again)[0]
    feat = collections.Counter()
    dis = []
    found = []
    known_hits = collections.Counter()
    seen = set()
    nontriv = 0
    errors = collections.Counter()
    skipped = 0
    for tag, r in zip(tags, results):
        p = r["ast"]
        feat.update(gen.features(p))
        obs = r["obs"]
        if obs is None or "error" in obs:
            kind = (obs or {}).get("error", "NoAnswer")
            errors[kind] += 1
            if kind not in ("ParseError",):
                found.append((f"scheduling a generated project crashed: {str(obs)[:200]}", {"stream": "project", "ast": p, "text": r["text"], "impl": obs}))
            continue
        if r["skipped"]:
            skipped += 1
            continue
        if r["diffs"]:
            dis.append({"stream": "project", "tag": tag, "text": r["text"], "ast": p, "diffs": r["diffs"][:8]})
        for key, msgs in r["oracle"].items():
            if key not in oracle_keys:
                continue
            for msg in msgs:
                kind, fid = ("new", None)
                if classify:
                    scid = msg[1:msg.index("]")]
                    sc = next(s for s in obs["scenarios"] if s["id"] == scid)
                    kind, fid = classify(p, sc, key, msg)
                if kind == "known" and r["diffs"]:
                    # a recorded finding explains a failure only where the code still behaves as the model of the
                    # unchanged tree says; where it deviates from the model, the failure is a new one
                    kind, fid = "new", None
                if kind == "known":
                    known_hits[fid] += 1
                else:
                    found.append((f"{key}: {msg}", {"stream": "project", "ast": p, "text": r["text"], "oracle": msg}))
        canon = json.dumps(p, sort_keys=True)
        if canon not in seen:
            seen.add(canon)
            if nontrivial(p, r):
                nontriv += 1
    st = chk.cov["streams"].setdefault("project", {"cases": 0, "disagreements": 0})
    st["cases"] += len(asts)
    st["disagreements"] += len(dis)
    chk.cov["evaluations"] += len(asts)
    chk.cov["disagreements"] += len(dis)
    chk.cov["distinct_nontrivial"] = nontriv
    chk.cov["rule"] = rule
    chk.cov["generator_distribution"] = dict(feat)
    chk.cov["float_boundary_skipped"] = skipped
    chk.cov["errors"] = dict(errors)
    chk.cov["known_region_hits"] = dict(known_hits)
    for r in results[:3] + results[-2:]:
        chk.cov["samples"].append({"stream": "project", "text": r["text"][:1500],
                                   "tasks": (r["obs"] or {}).get("scenarios", [{}])[0].get("tasks") if r["obs"] and "scenarios" in r["obs"] else None})
    for f in load_known(prop):
        if f["status"] == "open" and known_hits.get(f["id"]):
            # printed only while the finding's witness (first in the corpus) or another case still fails inside its trigger
            chk.known_finding(f["id"], f["line"] if "line" in f else f["what_fails"])
    if post:
        found += post(chk, results) or []
    if (dis or chk.broken) and not found and chk.replay_payload is None:
        # failing-input search: a fresh, contention-heavy stream in the envelopes of the property, oracle only
        from ..gen import Knobs
        extra = []
        for env in ("asap", "alap"):
            kk = Knobs(envelope=env, max_res=2, max_tasks=7, p_team=0.45, p_leave=0.6, p_tasklimits=0.3, p_limits=0.2,
                       p_dep=0.6, p_gap=0.5, p_container=0.5, sub_slot=0.6, p_alt=0.2, p_wh=0.5, dur_weeks=[2, 3])
            extra += [gen.gen_project(chk.rng, kk) for _ in range(600 if tier == "quick" else 4000)]
            # sparse projects with nested containers, equal local ids and long horizons: room for idle time and wrong bounds
            ks = Knobs(envelope=env, max_res=2, max_tasks=6, p_twin=0.7, p_container=0.85, p_dep=0.8, p_gap=0.4, p_limits=0.05,
                       p_tasklimits=0.0, big_effort=0.0, dur_weeks=[3, 4])
            extra += [gen.gen_project(chk.rng, ks) for _ in range(400 if tier == "quick" else 3000)]
        res2 = project_stream.run_projects(chk, extra, want_oracles=oracle_keys)
        chk.cov["search_stream_cases"] = len(extra)
        for r in res2:
            obs = r["obs"]
            if obs is None or "error" in obs:
                continue
            for key, msgs in r["oracle"].items():
                for msg in msgs:
                    kind, fid = ("new", None)
                    if classify:
                        scid = msg[1:msg.index("]")]
                        sc = next(s for s in obs["scenarios"] if s["id"] == scid)
                        kind, fid = classify(r["ast"], sc, key, msg)
                    if kind == "known" and r["diffs"]:
                        kind, fid = "new", None
                    if kind != "known":
                        found.append((f"{key}: {msg}", {"stream": "project-search", "ast": r["ast"], "text": r["text"], "oracle": msg}))
    return conclude(chk, dis, lambda: found)
