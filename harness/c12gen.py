"""Generators for the C12 streams: project texts (valid, unschedulable, malformed) and histories.

Wall-clock inputs are deliberately never generated: no `${now}` / `${today}` macro, no project attribute
`now` (they are environment inputs, see notes/design-hidden.md).
"""
import re

ZONES = ["Etc/UTC", "Europe/Berlin", "America/New_York", "Asia/Kolkata", "Australia/Adelaide", "Pacific/Auckland"]
STARTS = ["2025-01-06", "2025-03-03", "2025-06-02", "2025-10-20", "2025-12-15", "2026-02-02", "2026-03-23"]
DAYS = ["mon", "tue", "wed", "thu", "fri", "sat", "sun"]


def _date_add(d, days):
    from datetime import date, timedelta
    y, m, dd = map(int, d.split("-"))
    return (date(y, m, dd) + timedelta(days=days)).isoformat()


def gen_order_sensitive(rng, pid="q"):
    """-> text of a project in which the WRITTEN ORDER of list-valued attributes decides the schedule: several alternatives
    (the first one is the one whose completion is estimated, and all of them are booked in list order), team members in
    allocation order, several dependencies; the resources differ in hours, efficiency and absences, so that any reordering
    (e.g. by a detour through a set) moves dates"""
    start = rng.choice(STARTS)
    out = [f'project {pid} "P {pid}" {start} +14w {{ timezone "Etc/UTC" }}']
    hours = ["workinghours mon - fri 7:00 - 15:00", "workinghours mon - thu 10:00 - 18:00", "workinghours tue - sat 9:00 - 17:00", ""]
    effs = ["efficiency 0.5", "efficiency 1.5", "", "efficiency 2.0"]
    rng.shuffle(hours)
    rng.shuffle(effs)
    for i in range(4):
        a = [hours[i], effs[i]]
        if rng.random() < 0.6:
            d = _date_add(start, rng.randrange(0, 12))
            a.append(f"leaves annual {d} - {_date_add(d, rng.randrange(2, 6))}")
        out.append(f'resource r{i} "R{i}" {{ ' + " ".join(x for x in a if x) + " }")
    out.append(f'task blk "Blocker" {{ effort {rng.choice([15, 20, 25])}d allocate r0 priority 900 }}')
    for j in range(rng.choice([2, 3])):
        alts = rng.sample(["r1", "r2", "r3"], rng.choice([2, 3]))
        dep = " depends !blk { gapduration 2h }" if rng.random() < 0.3 else ""
        out.append(f'task a{j} "A{j}" {{ effort {rng.choice([2, 3, 5])}d allocate r0 {{ alternative {", ".join(alts)} }} priority {rng.choice([300, 500, 700])}{dep} }}')
    team = rng.sample(["r1", "r2", "r3"], 2)
    out.append(f'task tm "Team" {{ effort {rng.choice([10, 20, 30])}h allocate {", ".join(team)} priority 400 }}')
    out.append('taskreport rep "rep" { formats csv columns id, start, end, effort }')
    return "\n".join(out) + "\n"


def gen_project(rng, kind="ok", pid="p"):
    """-> text.  kind: ok | limits | shared | lowefficiency | deadlock | tiny"""
    start = rng.choice(STARTS)
    weeks = rng.choice([2, 3, 4, 6, 8])
    if kind in ("limits", "shared"):
        weeks = rng.choice([6, 8, 10])
    scen = rng.choice(["none", "none", "one", "two", "three"])
    if kind == "tiny":
        scen = "none"
    hdr = []
    if rng.random() < 0.8:
        hdr.append(f'timezone "{rng.choice(ZONES)}"')
    res_min = rng.choice([60, 60, 60, 30, 15])
    if res_min != 60 and kind not in ("limits", "shared"):
        hdr.append(f"timingresolution {res_min}min")
    if rng.random() < 0.3:
        hdr.append('timeformat "%Y-%m-%d %H:%M"')
    # project-wide settings: they must stay with the project that declares them
    if rng.random() < 0.35:
        hdr.append(f"dailyworkinghours {rng.choice([6, 7, 7.5, 10])}")
    if rng.random() < 0.2:
        hdr.append(f"yearlyworkingdays {rng.choice([200, 230, 260])}")
    if rng.random() < 0.2:
        hdr.append(f'currency "{rng.choice(["EUR", "USD", "CHF"])}"')
    if rng.random() < 0.15:
        hdr.append("scheduling alap" if kind == "ok" and rng.random() < 0.3 else "scheduling asap")
    scen_ids = ["plan"]
    if scen == "one":
        hdr.append('scenario plan "Plan"')
    elif scen == "two":
        hdr.append('scenario plan "Plan" { scenario alt "Alt" }')
        scen_ids = ["plan", "alt"]
    elif scen == "three":
        hdr.append('scenario base "Base" { scenario alt "Alt" scenario big "Big" }')
        scen_ids = ["base", "alt", "big"]
    out = [f'project {pid} "P {pid}" {start} +{weeks}w {{ ' + " ".join(hdr) + " }"]
    if rng.random() < 0.3:
        out.append(f'vacation "Hol" {_date_add(start, rng.randrange(1, 9))}')
    if rng.random() < 0.3:
        out.append(f'leaves holiday "H" {_date_add(start, rng.randrange(1, 12))}')
    nres = 1 if kind == "tiny" else rng.randrange(1, 5)
    rids = []
    for i in range(nres):
        rid = f"r{i}"
        rids.append(rid)
        a = []
        if rng.random() < 0.6:
            a.append(f"rate {rng.choice([50, 80, 100, 125.5])}")
        if kind == "lowefficiency" and i == 0:
            a.append("efficiency 0.1")
        elif rng.random() < 0.35:
            a.append(f"efficiency {rng.choice([0.5, 0.8, 1.5, 2.0])}")
        has_tz = rng.random() < 0.45
        if has_tz:
            a.append(f'timezone "{rng.choice(ZONES)}"')
        if rng.random() < (0.8 if has_tz else 0.3):      # own hours in an own zone: the local-time conversion is exercised
            d0 = rng.randrange(0, 5)
            d1 = rng.randrange(d0, 5)
            s = rng.choice(["8:00", "9:00", "10:00"])
            e = rng.choice(["16:00", "17:00", "18:00"])
            a.append(f"workinghours {DAYS[d0]} - {DAYS[d1]} {s} - {e}")
        if rng.random() < 0.3:
            d = _date_add(start, rng.randrange(0, 10))
            a.append(f"leaves annual {d} - {_date_add(d, rng.randrange(1, 4))}")
        if rng.random() < 0.2:
            a.append(f"vacation {_date_add(start, rng.randrange(0, 10))}")
        if rng.random() < 0.25 and kind == "ok":
            a.append(f"limits {{ dailymax {rng.choice([4, 6])}h }}")
        out.append(f'resource {rid} "R{i}" {{ ' + " ".join(a) + " }")
    ntasks = 1 if kind == "tiny" else rng.randrange(2, 8)
    tids = []       # (path relative ids for depends) - top-level and nested
    lines = []

    def leaf(tid, depth, siblings, inherit_alloc=False):
        a = []
        eff = rng.choice([2, 4, 6, 8, 12, 20, 30])
        unit = "h"
        if kind == "ok" and rng.random() < 0.3:
            eff, unit = rng.choice([(1, "d"), (2, "d"), (3, "d"), (1, "w"), (90, "min")])
        if kind == "lowefficiency":
            eff = rng.choice([40, 80])
        r = rng.choice(rids)
        if rng.random() < 0.12 and kind == "ok":
            a.append("milestone")
            if rng.random() < 0.5:
                a.append(f"start {_date_add(start, rng.randrange(0, 8))}")
        else:
            a.append(f"effort {eff}{unit}")
            alloc = r
            if len(rids) > 1 and rng.random() < 0.25:
                others = [x for x in rids if x != r]
                r2 = rng.choice(others)
                alloc = f"{r} {{ alternative {r2} }}" if rng.random() < 0.5 else f"{r}, {r2}"
                if len(others) >= 2 and rng.random() < 0.5:
                    # several alternatives: their written order decides the routing (the first one is estimated)
                    alts = rng.sample(others, rng.choice([2, min(3, len(others))]))
                    alloc = f"{r} {{ alternative {', '.join(alts)} }}"
            if not inherit_alloc:
                a.append(f"allocate {alloc}")
            if len(scen_ids) > 1 and rng.random() < 0.4:
                sid = rng.choice(scen_ids[1:])
                a.append(f"{sid}:effort {rng.choice([3, 9, 16, 40])}h")
        if rng.random() < 0.4:
            a.append(f"priority {rng.choice([100, 300, 500, 700, 900])}")
        if siblings and rng.random() < 0.5:
            dep = rng.choice(siblings)
            opt = ""
            if rng.random() < 0.3:
                # calendar gaps and working-time gaps, also with the same text (`1d` = 24 h for one, 8 working hours for the other):
                # how a text is read must not depend on which project or edge was read before
                opt = f" {{ {rng.choice(['gapduration', 'gapduration', 'gaplength'])} {rng.choice(['1h', '2h', '24h', '1d', '1d', '2d'])} }}"
            a.append(f"depends !{dep}{opt}")
        elif rng.random() < 0.1 and kind == "ok":
            a.append(f"start {_date_add(start, rng.randrange(0, 6))}")
        if rng.random() < 0.08 and kind == "ok":
            a.append("scheduling alap")
            a.append(f"end {_date_add(start, rng.randrange(6, 13))}")
        if rng.random() < 0.15 and kind == "ok":
            a.append(f"limits {{ dailymax {rng.choice([2, 4])}h }}")
        return f'task {tid} "T {tid}" {{ ' + " ".join(a) + " }"

    i = 0
    top = []
    while i < ntasks:
        if rng.random() < 0.3 and ntasks - i >= 2 and kind != "tiny":
            cid = f"c{i}"
            k = rng.randrange(2, min(4, ntasks - i + 1) + 0)
            kids = []
            body = []
            extra = ""
            # attributes children inherit from the container (PropertyTreeNode.inheritAttributes reads the
            # provided/inherited flags that AttributeBase.set derives from the mode variable)
            c_alloc = rng.random() < 0.5
            if c_alloc:
                extra += f" allocate {rng.choice(rids)}"
            if rng.random() < 0.5:
                extra += f" priority {rng.choice([150, 450, 850])}"
            if rng.random() < 0.2 and kind == "ok":
                extra += f" start {_date_add(start, rng.randrange(1, 5))}"
            for j in range(k):
                kid = f"t{i + j}"
                body.append("  " + leaf(kid, 1, kids, inherit_alloc=c_alloc and rng.random() < 0.6))
                kids.append(kid)
            if rng.random() < 0.25 and top:
                extra += f" depends !{rng.choice(top)}"
            lines.append(f'task {cid} "C {cid}" {{{extra}\n' + "\n".join(body) + "\n}")
            top.append(cid)
            i += k
        else:
            tid = f"t{i}"
            lines.append(leaf(tid, 0, top))
            top.append(tid)
            i += 1
    if kind == "deadlock":
        lines.append('task dx "DX" { effort 4h allocate %s depends !dy }' % rids[0])
        lines.append('task dy "DY" { effort 4h allocate %s depends !dx }' % rids[0])
    if kind == "limits":
        cap = rng.choice([1, 2])
        eff = weeks * 5 * cap + rng.choice([10, 40, 100])
        lines.append(f'task lim "LIM" {{ effort {eff}h allocate {rids[0]} limits {{ dailymax {cap}h }} priority 1000 }}')
    if kind == "shared":
        cap = rng.choice([1, 2])
        full = weeks * 5 * cap
        effa = full - rng.choice([0, 0, cap, 3 * cap])
        lines.append(f'task sh "SH" {{ limits {{ dailymax {cap}h }}\n'
                     f'  task a "A" {{ effort {effa}h allocate {rids[0]} priority 1000 }}\n'
                     f'  task b "B" {{ effort {rng.choice([4, 10])}h allocate {rids[-1]} priority 1 }}\n}}')
    out += lines
    # reports
    nrep = rng.randrange(0, 4) if kind != "tiny" else 1
    cols_t = ["id", "name", "start", "end", "effort", "cost", "priority", "scheduled", "duration"]
    for k in range(nrep):
        typ = rng.choice(["taskreport", "taskreport", "resourcereport", "textreport"])
        rid = f"rep{k}"
        if typ == "taskreport":
            cols = rng.sample(cols_t, rng.randrange(2, 6))
            a = ["columns " + ", ".join(cols)]
            a.append("formats " + rng.choice(["csv", "json", "csv, json"]))
            if rng.random() < 0.5:
                a.append('timeformat "%Y-%m-%d-%H:%M"')
            if len(scen_ids) > 1 and rng.random() < 0.5:
                a.append("scenarios " + rng.choice(scen_ids))
            if rng.random() < 0.3:
                a.append("sorttasks " + rng.choice(["id.up", "start.down", "priority.up", "tree"]))
            if rng.random() < 0.2:
                a.append("leaftasksonly true")
            out.append(f'taskreport {rid} "{rid}" {{ ' + " ".join(a) + " }")
        elif typ == "resourcereport":
            cols = rng.sample(["id", "name", "rate", "efficiency", "effort"], rng.randrange(2, 4))
            out.append(f'resourcereport {rid} "{rid}" {{ columns ' + ", ".join(cols) + " }")
        else:
            out.append(f'textreport {rid} "{rid}" {{ formats json header "H {k}" footer "F" }}')
    return "\n".join(out) + "\n"


def sort_fix(text):
    """`sorttasks tree` is not a SORT_KEY of the grammar; keep generated texts valid"""
    return text.replace("sorttasks tree", "sorttasks id.down")


def malform(rng, text):
    """a syntax / structure error at a random point"""
    toks = re.findall(r"\S+|\s+", text)
    idx = [i for i, t in enumerate(toks) if not t.isspace()]
    how = rng.choice(["delete", "dup", "swap", "truncate", "brace", "garbage", "noproject"])
    if how == "noproject":
        # statements without a project header: transformer succeeds, ModelBuilder raises before Project()
        return "\n".join(l for l in text.split("\n") if not l.startswith("project ")) or 'resource r "R" { }\n'
    i = rng.choice(idx)
    if how == "delete":
        toks[i] = ""
    elif how == "dup":
        toks[i] = toks[i] + " " + toks[i]
    elif how == "swap":
        j = rng.choice(idx)
        toks[i], toks[j] = toks[j], toks[i]
    elif how == "truncate":
        toks = toks[:i]
    elif how == "brace":
        toks[i] = toks[i] + rng.choice([" {", " }", " }}"])
    else:
        toks[i] = rng.choice(["@@", "effort", "12:99", "\"", "task"])
    return "".join(toks)


INJECT = ["new-done", "build-done", "schedule", "prepare", "prepare-done", "scheduleScenario",
          "scheduleScenario-done", "finish", "finish-done"]


def gen_history(rng, pool, n_ops):
    """ops over a pool of texts: {"ok": [...], "bad": [...], "unsched": [...]}"""
    ops = []
    kept = []
    for _ in range(n_ops):
        r = rng.random()
        if r < 0.30:
            op = {"k": "run", "text": rng.choice(pool["ok"] + pool["unsched"]), "newparser": rng.random() < 0.2}
            if rng.random() < 0.6:
                op["keep"] = rng.randrange(0, 4)
                kept.append(op["keep"])
        elif r < 0.42:
            op = {"k": "run", "text": rng.choice(pool["bad"])}
        elif r < 0.54:
            op = {"k": "run", "text": rng.choice(pool["ok"] + pool["unsched"]), "inject": rng.choice(INJECT),
                  "injectN": rng.randrange(0, 2)}
        elif r < 0.64:
            op = {"k": "parse", "text": rng.choice(pool["ok"] + pool["unsched"]), "keep": rng.randrange(0, 4)}
            kept.append(op["keep"])
        elif r < 0.70:
            op = {"k": "api", "keep": rng.randrange(0, 4)}
            kept.append(op["keep"])
        elif r < 0.86 and kept:
            op = {"k": "sched", "slot": rng.choice(kept)}
            if rng.random() < 0.2:
                op["inject"] = rng.choice(["prepare", "scheduleScenario", "finish", "finish-done"])
                op["injectN"] = rng.randrange(0, 2)
        elif kept:
            op = {"k": "report", "slot": rng.choice(kept)}
        else:
            op = {"k": "run", "text": rng.choice(pool["ok"])}
        ops.append(op)
    return ops
