"""The `project` correspondence stream: whole projects through the real scheduler and the Lean model."""
import json

from . import astutil as A
from . import modelio, render, oracles as O
from .calspec import Cal
from .core import run_driver


def alt_float_sensitive(p):
    """`_estimateCompletionTime` subtracts the per-slot effort repeatedly in doubles; when the effort is an
    exact multiple of the per-slot effort the loop condition `remaining > 0` is decided by rounding noise,
    which can flip the choice between primary and alternative (not a property violation; not compared)"""
    from fractions import Fraction
    from .oracles import res_eff, local_to_full
    eff = res_eff(p)
    l2f = local_to_full(p)
    G = p.get("G", 3600)
    for fid, t, par, _ in A.flat_tasks(p):
        if t.get("alt") and t.get("alloc"):
            efforts = [t.get("effort")] + [ov.get("effort") for ov in (t.get("sc") or {}).values()]
            for e in efforts:
                if not e:
                    continue
                eh = A.effort_hours(e)
                for rid in (t["alloc"][0], t["alt"][0]):
                    f = l2f.get(rid)
                    if f is None:
                        continue
                    per = Fraction(G, 3600) * eff[f]
                    if per > 0 and (eh / per).denominator == 1:
                        return True
    return False


def run_projects(chk, asts, again=0, config="native", want_oracles=("C01", "C02", "C03", "C04", "C05", "C06", "C08", "C10")):
    """returns list of dict(ast, text, obs, per-scenario model answers, diffs, oracle failures)"""
    texts = [render.render(p) for p in asts]
    lines = ["J " + json.dumps({"op": "sched", "text": t, "again": again}) for t in texts]
    outs = chk.impl.run(lines, config=config)
    reqs = []
    owner = []
    results = []
    for n, (p, text, o) in enumerate(zip(asts, texts, outs)):
        r = {"ast": p, "text": text, "diffs": [], "oracle": {}, "skipped": None, "obs": None}
        results.append(r)
        if not o.startswith("J "):
            r["obs"] = {"error": "Crash", "raw": o[:600]}
            continue
        obs = json.loads(o[2:])
        r["obs"] = obs
        if "error" in obs:
            continue
        scs = A.scenario_ids(p)
        if alt_float_sensitive(p):
            r["skipped"] = "float-boundary: alternative estimate hits zero exactly"
        for si, (sid, parent) in enumerate(scs):
            try:
                req = modelio.build_request(p, sid if p.get("scenarios") else None)
            except modelio.FloatBoundary as e:
                r["skipped"] = f"float-boundary: {e}"
                break
            reqs.append("J " + json.dumps(req))
            owner.append((n, si))
    model_out = run_driver(reqs) if reqs else []
    for (n, si), mo in zip(owner, model_out):
        r = results[n]
        p = r["ast"]
        obs = r["obs"]
        sc = obs["scenarios"][si]
        sc["_warnings"] = obs["warnings"]
        sc["_end"] = obs["end"]
        if not mo.startswith("J "):
            r["diffs"].append(f"model answered {mo[:100]}")
            continue
        model = json.loads(mo[2:])
        if "rounding-tie" in model["warnings"]:
            # a finishing date rounded from an exact .5: Python rounds the double, which may sit on either side
            model["warnings"] = [w for w in model["warnings"] if w != "rounding-tie"]
            r["skipped"] = r["skipped"] or "float-boundary: rounding tie"
        r.setdefault("model", []).append(model)
        # envelope accounting: the global theorems need `wfCheck`; their instances are counted per run
        if not model.get("wf", True):
            r["diffs"].append("model: wfCheck / treeCheck is false for this project (the scheduler theorems do not apply)")
        th = model.get("thm") or {}
        acc = chk.cov.setdefault("theorem_instances", {})
        for k2, v in th.items():
            acc[k2] = acc.get(k2, 0) + v
        acc["projects_wf"] = acc.get("projects_wf", 0) + (1 if model.get("wf") else 0)
        if any(v for k2, v in th.items() if k2.endswith("_fail")):
            r["diffs"].append(f"model: a proved conclusion evaluates to false on the model's own run: {th}")
        # with several scenarios the implementation's final project end is the last scenario's
        obs_end = obs["end"] if si == len(obs["scenarios"]) - 1 else model["end"]
        ds = modelio.compare(p, model, sc, obs_end)
        # the project calendar (Project.initScoreboards / isWorkingTime): the implementation keeps the last scenario's table
        if si == len(obs["scenarios"]) - 1 and "projwork" in model and "projwork" in obs:
            if [list(x) for x in model["projwork"]] != [list(x) for x in obs["projwork"]]:
                a, b = model["projwork"], obs["projwork"]
                k = next((j for j in range(min(len(a), len(b))) if list(a[j]) != list(b[j])), min(len(a), len(b)))
                ds.append(f"project calendar: working runs differ at run {k}: model {a[k:k + 2]} impl {b[k:k + 2]} (table sizes {model.get('size')} / {obs.get('projsize')})")
        if len(obs["scenarios"]) > 1:
            # the implementation's warning list is per run, not per scenario: compare the union below
            ds = [d for d in ds if not d.startswith("warnings:")]
        r["diffs"] += [f"[{sc['id']}] " + d for d in ds]
    for r in results:
        obs = r["obs"]
        if obs and "error" not in obs and len(obs["scenarios"]) > 1 and len(r.get("model", [])) == len(obs["scenarios"]):
            wm = set().union(*[set(m["warnings"]) for m in r["model"]])
            wo = {w for w in obs["warnings"] if w in ("deadlock", "unscheduled_tasks")}
            if wm != wo:
                r["diffs"].append(f"warnings (all scenarios): model {sorted(wm)} impl {sorted(wo)}")
    for r in results:
        obs = r["obs"]
        if not obs or "error" in obs:
            continue
        p = r["ast"]
        cal = Cal(p)
        for si, sc in enumerate(obs["scenarios"]):
            sc.setdefault("_end", obs["end"])
            view = O.scenario_view(p, sc)
            fs = {"C01": lambda: O.c01(p, sc), "C02": lambda: O.c02(p, sc, cal), "C03": lambda: O.c03(p, sc, view),
                  "C04": lambda: O.c04(p, sc, view, cal), "C05": lambda: O.c05(p, sc), "C06": lambda: O.c06(p, sc, view, cal),
                  "C08": lambda: O.c08(p, sc, view, cal), "C10": lambda: O.c10(p, sc)}
            from . import gen as _gen
            envl = _gen.envelope_of(p)
            for k in want_oracles:
                if k in ("C03", "C04", "C06", "C08") and envl is None:
                    continue        # outside the claimed envelopes of these properties
                bad = fs[k]()
                if bad:
                    r["oracle"].setdefault(k, []).extend(f"[{sc['id']}] " + b for b in bad[:3])
    return results
