"""`sched`: parse + schedule a .tjp text with the real code and dump every observable the
project-level properties talk about (runs inside the implementation's interpreter)."""
from datetime import datetime, timedelta
from fractions import Fraction

EPOCH = datetime(1970, 1, 1)
_PARSER = []


def ts(d):
    if d is None:
        return None
    if getattr(d, "tzinfo", None) is not None:
        d = d.replace(tzinfo=None)
    delta = d - EPOCH
    return delta.days * 86400 + delta.seconds


def parser():
    if not _PARSER:
        from scriptplan.parser.tjp_parser import ProjectFileParser
        _PARSER.append(ProjectFileParser())
    return _PARSER[0]


def frac(x):
    """booked seconds as an exact decimal string of the double (canonicalised by the harness)"""
    f = Fraction(x).limit_denominator(10 ** 9)
    return [f.numerator, f.denominator]


def observe(project):
    from scriptplan.utils.message_handler import MessageHandlerInstance
    G = project.attributes.get("scheduleGranularity", 3600)
    out = {"G": G, "start": ts(project["start"]), "end": ts(project["end"]), "scenarios": []}
    sc_list = list(project.scenarios)
    for sc in sc_list:
        scIdx = sc.sequenceNo - 1
        tasks = {}
        order = []
        for t in project.tasks:
            order.append(t.fullId)
            td = t.data[scIdx] if t.data else None
            tasks[t.fullId] = {
                "leaf": t.leaf(), "scheduled": bool(t.get("scheduled", scIdx)),
                "start": ts(t.get("start", scIdx)), "end": ts(t.get("end", scIdx)),
                "forward": t.get("forward", scIdx), "runaway": bool(getattr(td, "isRunAway", False)),
                "effort": t.get("effort", scIdx), "priority": t.get("priority", scIdx),
                "milestone": bool(t.get("milestone", scIdx)),
            }
        res = {}
        for r in project.resources:
            rs = r.data[scIdx] if r.data else None
            led = {}
            if rs is not None:
                keys = set(rs.slotTaskUsage) | set(rs.slotSecondsUsed)
                for k in sorted(keys):
                    led[str(k)] = {"used": frac(rs.slotSecondsUsed.get(k, 0.0)),
                                   "usage": [[getattr(t, "fullId", str(t)), frac(s)] for (t, s) in rs.slotTaskUsage.get(k, [])]}
            lim = r.get("limits", scIdx)
            res[r.fullId] = {"leaf": r.leaf(), "ledger": led,
                             "limits": dump_limits(lim),
                             "efficiency": r.get("efficiency", scIdx), "has_sb": rs is not None and rs.scoreboard is not None}
        tlim = {}
        for t in project.tasks:
            lim = t.get("limits", scIdx)
            if lim:
                tlim[t.fullId] = dump_limits(lim)
        out["scenarios"].append({"id": sc.id, "idx": scIdx, "tasks": tasks, "order": order, "resources": res, "tasklimits": tlim})
    # the project calendar (Project.initScoreboards / isWorkingTime) as maximal runs [lo, hi) of working slots
    runs = []
    sb = getattr(project, "scoreboard", None)
    if sb is not None:
        lo = None
        n = sb.size
        for i in range(n):
            w = bool(project.isWorkingTime(i))
            if w and lo is None:
                lo = i
            elif not w and lo is not None:
                runs.append([lo, i])
                lo = None
        if lo is not None:
            runs.append([lo, n])
        out["projwork"] = runs
        out["projsize"] = n
    msgs = MessageHandlerInstance().messages
    out["warnings"] = sorted({getattr(m, "id", None) or getattr(m, "msg_id", None) or str(m)[:40] for m in msgs})
    return out


def dump_limits(lim):
    if not lim:
        return []
    return [{"name": l.name, "value": l.value, "resource": l.resource, "counters": list(l._scoreboard)} for l in lim._limits]


def sched(req):
    from scriptplan.utils.message_handler import MessageHandlerInstance
    MessageHandlerInstance().clear()
    text = req["text"]
    try:
        project = parser().parse(text, schedule=False)
    except Exception as e:  # noqa: BLE001
        name = type(e).__name__
        mod = type(e).__module__
        kind = "ParseError" if mod.startswith("lark") or name == "ValueError" or name.startswith("Macro") else "BuildCrash"
        return {"error": kind, "type": name, "msg": str(e)[:200]}
    n = 1 + int(req.get("again", 0))
    obs = None
    # the order in which the loop hands the tasks to `schedule()` (first call per task and scenario); recorded from outside
    from scriptplan.core import task as _task_mod
    picks = {}
    orig_schedule = _task_mod.Task.schedule

    def recording_schedule(self, scenarioIdx):
        lst = picks.setdefault(scenarioIdx, [])
        if self.fullId not in lst:
            lst.append(self.fullId)
        return orig_schedule(self, scenarioIdx)
    for k in range(n):
        if k == 0:
            _task_mod.Task.schedule = recording_schedule
        try:
            project.schedule()
        finally:
            _task_mod.Task.schedule = orig_schedule
        o = observe(project)
        for sc in o["scenarios"]:
            sc["pick_order"] = picks.get(sc["idx"], [])
        if obs is not None and o != obs and "again_diff" not in o:
            o["again_diff"] = True
        obs = o
    return obs


def timed(req):
    """parse + schedule of a text; only the outcome class and the CPU seconds (process time) are returned"""
    import time
    t0 = time.process_time()
    try:
        project = parser().parse(req["text"], schedule=False)
        project.schedule()
        out = "Scheduled"
    except Exception as e:  # noqa: BLE001
        name = type(e).__name__
        mod = type(e).__module__
        out = "ParseError" if mod.startswith("lark") or name == "ValueError" or name.startswith("Macro") else "Crash:" + name
    return {"outcome": out, "cpu": round(time.process_time() - t0, 3)}


JOPS = {"sched": sched, "timed": timed}
