import argparse
import importlib
import json
import os
import sys

from . import core

PROPS = {f[:-3].upper(): f[:-3] for f in os.listdir(os.path.join(os.path.dirname(__file__), "props"))
         if f[0] == "c" and f[1:3].isdigit() and f.endswith(".py")}


def main():
    ap = argparse.ArgumentParser()
    ap.add_argument("prop")
    ap.add_argument("--tier", default=os.environ.get("VERIF_TIER", "quick"))
    ap.add_argument("--replay")
    a = ap.parse_args()
    seed = int(os.environ.get("VERIF_SEED", "0"))
    tier = a.tier if a.tier in ("quick", "thorough") else "quick"
    if a.prop not in PROPS:
        print(f"unknown property {a.prop}", file=sys.stderr)
        return 2
    mod = importlib.import_module("harness.props." + PROPS[a.prop])
    chk = core.Check(a.prop, tier, seed)
    try:
        if a.replay:
            payload = json.load(open(a.replay))
            if isinstance(payload, dict):
                payload.setdefault("_path", a.replay)
            chk.replay_payload = payload
            # a module with a replay of its own uses it; the others run their check on the recorded input only
            return mod.replay(chk, payload) if hasattr(mod, "replay") else mod.run(chk)
        return mod.run(chk)
    except core.HarnessFault as e:
        print(f"HARNESS-FAULT {a.prop}: {e}", file=sys.stderr)
        return 2
    finally:
        if chk._impl:
            chk._impl.close()


if __name__ == "__main__":
    sys.exit(main())
