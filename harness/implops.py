"""JSON ops executed inside the implementation's interpreter (see implserver.py)."""
from datetime import datetime, timedelta

EPOCH = datetime(1970, 1, 1)


def dt(t):
    return EPOCH + timedelta(seconds=t)


def ts(d):
    delta = d.replace(tzinfo=None) - EPOCH
    return delta.days * 86400 + delta.seconds


# ------------------------------------------------------------------ C17 oracles (real Scoreboard)

def c17_board(req):
    """check the slot/time algebra of C17 directly on the real Scoreboard and Project"""
    from scriptplan.scheduler.scoreboard import Scoreboard
    from scriptplan.core.project import Project
    s, e, g = req["s"], req["e"], req["g"]
    sb = Scoreboard(dt(s), dt(e), g, None)
    n = sb.size
    bad = []

    def note(msg):
        if len(bad) < 5:
            bad.append(msg)
    times = [ts(sb.idxToDate(i)) for i in range(n)]
    for i in range(n - 1):
        if not times[i] < times[i + 1]:
            note(f"time({i}) >= time({i + 1})")
    for i in range(n):
        if sb.dateToIdx(dt(times[i]), False) != i:
            note(f"index(time({i})) = {sb.dateToIdx(dt(times[i]), False)}")
    if times[0] != s:
        note("time(0) != start")
    if not times[n - 1] >= e:
        note(f"table does not cover end: time(size-1)={times[n - 1]} < {e}")
    if n >= 2 and not times[n - 2] < e and e > s:
        note("table has a superfluous slot before the sentinel")
    probes = set()
    step = max(1, (e - s) // 97)
    t = s
    while t <= e:
        probes.update((t, t + 1, t - 1, t + g - 1))
        t += step
    probes.update((s, e, e - 1))
    for t in sorted(p for p in probes if s <= p <= e):
        try:
            i = sb.dateToIdx(dt(t), False)
        except IndexError:
            note(f"instant {t} of the window rejected")
            continue
        lo = ts(sb.idxToDate(i))
        if not (lo <= t < lo + g):
            note(f"time(index({t}))={lo} does not frame it")
        ic = sb.dateToIdx(dt(t), True)
        if ic != i:
            note(f"index({t}) with clamping requested = {ic}, without = {i} (an instant of the window needs no clamping)")
        if i + 1 < n and not t < ts(sb.idxToDate(i + 1)):
            note(f"t >= time(index(t)+1) at {t}")
    for i in list(range(-3, 0)) + list(range(n, n + 3)):
        try:
            sb.idxToDate(i, False)
            note(f"index {i} outside the table accepted")
        except IndexError:
            pass
        want = s if i < 0 else e
        got = ts(sb.idxToDate(i, True))
        if got != want:
            note(f"clamped time({i}) = {got}, nearest bound {want}")
    # instants just outside the table (the slot after the last one, the slot before the first): an index is an index of the table
    for t in (s + n * g, s + n * g + g // 2, s + (n + 1) * g - 1, s - 1, s - g):
        try:
            i = sb.dateToIdx(dt(t), False)
            if not (0 <= i < n):
                note(f"instant {t} outside the table: index {i} returned without clamping (table has {n} slots)")
        except IndexError:
            pass
    far = e + 5 * g + 1
    try:
        sb.dateToIdx(dt(far), False)
        note("instant far beyond the table accepted without clamping")
    except IndexError:
        pass
    if sb.dateToIdx(dt(far), True) != n - 1:
        note("clamped index beyond end != size-1")
    if sb.dateToIdx(dt(s - 5 * g), True) != 0:
        note("clamped index before start != 0")
    # the answer to a request does not depend on what was asked before on the same table: an instant / index outside the
    # table that was just converted WITH clamping is still rejected without it, and clamped again afterwards
    for t, want in ((far, n - 1), (s - 5 * g, 0), (e + 7 * g + 3, n - 1), (s - 2 * g - 1, 0)):
        if sb.dateToIdx(dt(t), True) != want:
            note(f"clamped index({t}) != {want}")
        try:
            i = sb.dateToIdx(dt(t), False)
            note(f"instant {t} outside the table accepted (index {i}) after a clamped request for the same instant")
        except IndexError:
            pass
        if sb.dateToIdx(dt(t), True) != want:
            note(f"clamped index({t}) != {want} after a rejected request for the same instant")
    for i in (-2, n + 1):
        sb.idxToDate(i, True)
        try:
            sb.idxToDate(i, False)
            note(f"index {i} outside the table accepted after a clamped request for the same index")
        except IndexError:
            pass
    for t in sorted(q for q in probes if s <= q <= e)[:40]:
        a = sb.dateToIdx(dt(t), True)
        b = sb.dateToIdx(dt(t), False)
        c = sb.dateToIdx(dt(t), True)
        if not (a == b == c) or not (ts(sb.idxToDate(a)) <= t < ts(sb.idxToDate(a)) + g):
            note(f"index({t}) asked three times on one table: {a}, {b}, {c}")
    # Project-level conversions (no range checks by design): same algebra on the window
    p = Project("p", "P", "1")
    p["start"] = dt(s)
    p["end"] = dt(e)
    p["timingresolution"] = g
    for i in range(0, n, max(1, n // 50)):
        if p.dateToIdx(p.idxToDate(i)) != i:
            note(f"project index(time({i})) != {i}")
        if ts(p.idxToDate(i)) != times[i]:
            note(f"project time({i}) differs from table time")
    for t in sorted(q for q in probes if s <= q <= e):
        i = p.dateToIdx(dt(t))
        lo = ts(p.idxToDate(i))
        if not (lo <= t < lo + g):
            note(f"project time(index({t}))={lo} does not frame it (slot length {g})")
    # the same Project object after its resolution was changed (the parser sets the attributes one after the other): the
    # conversions follow the CURRENT resolution, whatever was asked before
    for g2 in [x for x in (300, 900, 1800, 3600, 7200) if x != g][:2]:
        p["timingresolution"] = g2
        n2 = max(1, (e - s) // g2)
        for i in sorted({0, 1, 2, min(5, n2), n2 // 2, n2 - 1}):
            if ts(p.idxToDate(i)) != s + i * g2:
                note(f"project time({i}) = {ts(p.idxToDate(i))} after the resolution was changed from {g} to {g2}: want {s + i * g2}")
            elif p.dateToIdx(p.idxToDate(i)) != i:
                note(f"project index(time({i})) != {i} after the resolution was changed from {g} to {g2}")
    return {"size": n, "bad": bad}


def c17_scan(req):
    """maximal runs of length >= m among the slots of the window, clipped to [sIdx, eIdx] — computed
    independently of the loop under test — versus what collectIntervals returns"""
    from scriptplan.scheduler.scoreboard import Scoreboard
    from scriptplan.utils.time import TimeInterval
    pat, sI, eI, m = req["pat"], req["s"], req["e"], req["m"]
    so, eo = req.get("so", 0), req.get("eo", 0)         # the window's ends may lie inside slots sI and eI
    n = len(pat)
    G = 3600
    sb = Scoreboard(dt(0), dt((n - 1) * G), G, None)
    for i, c in enumerate(pat):
        sb[i] = c == "1"
    got = sb.collectIntervals(TimeInterval(dt(sI * G + so), dt(eI * G + eo)), m * G, lambda v: bool(v))
    if any(ts(x.start) % G or ts(x.end) % G for x in got):
        return {"got": [(ts(x.start), ts(x.end)) for x in got], "want": "slot-aligned runs", "ok": False}
    got = [(ts(x.start) // G, ts(x.end) // G) for x in got]
    eff = pat[: n - 1]                    # the last table slot is the sentinel after `end`
    runs = []
    i = 0
    while i < len(eff):
        if eff[i] == "1":
            j = i
            while j < len(eff) and eff[j] == "1":
                j += 1
            runs.append((i, j))
            i = j
        else:
            i += 1
    want = []
    for a, b in runs:
        if b - a >= m:
            ca, cb = max(a, sI), min(b, eI)
            if ca < cb:
                want.append((ca, cb))
    got_ne = [x for x in got if x[0] < x[1]]
    inverted = [x for x in got if x[0] > x[1]]
    return {"got": got, "want": want, "ok": got_ne == want and not inverted}


JOPS = {"c17_board": c17_board, "c17_scan": c17_scan}
