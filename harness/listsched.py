"""Independent reference implementation of the list-scheduling rule the documentation promises (C07).

Written from the property text, not from the code: tasks are placed in order of priority (ties in
declaration order) as soon as all predecessors are placed; each task takes the earliest slots at or after
its dependency bound in which its resource(s) are working, unbooked and within limits.
Core dialect only: forward mode, slot-aligned calendars / starts / gaps, efforts that are whole slots at
the resource's efficiency, no alternatives.  Returns None when the project is outside the dialect.
"""
from fractions import Fraction

from . import astutil as A
from .calspec import Cal
from .oracles import iso_week, local_to_full, res_eff


def in_core_dialect(p):
    G = p.get("G", 3600)
    if p.get("sched") == "alap" or p.get("scenarios"):
        return False
    if (p["start"] % G) != 0 or (p["start"] % 86400) % G != 0:
        return False
    eff = res_eff(p)
    l2f = local_to_full(p)
    for fid, t, par, _ in A.flat_tasks(p):
        if t.get("mode") or t.get("end") is not None or t.get("alt") or t.get("sc"):
            return False
        if t.get("start") is not None and (t["start"] - p["start"]) % G != 0:
            return False
        for d in (t.get("deps") or []) + (t.get("prec") or []):
            if A.gap_seconds(d.get("gap")) % G != 0:
                return False
    for fid, r, par in A.flat_resources(p):
        if r.get("tz"):
            # zone offsets must keep the grid aligned: only whole-hour zones at resolutions dividing an hour
            return False
        for sp in (r.get("wh") or []):
            for a, b in sp["ranges"]:
                if (a * 60) % G or (b * 60) % G:
                    return False
        for (a, d) in r.get("bookings") or []:
            if (a - p["start"]) % G or A.gap_seconds(d) % G:
                return False
    for sh in p.get("shifts") or []:
        for sp in sh["wh"]:
            for a, b in sp["ranges"]:
                if (a * 60) % G or (b * 60) % G:
                    return False
    return True


def effective(p):
    """attributes after inheritance from enclosing containers: allocation, priority, start (lower bound)"""
    nodes = {fid: (t, par) for fid, t, par, _ in A.flat_tasks(p)}
    out = {}
    for fid, (t, par) in nodes.items():
        alloc, prio, lb = t.get("alloc"), t.get("prio"), None
        x = par
        while x is not None:
            tx, px = nodes[x]
            if alloc is None and tx.get("alloc"):
                alloc = tx["alloc"]
            if prio is None and tx.get("prio") is not None:
                prio = tx["prio"]
            if lb is None and tx.get("start") is not None:
                lb = tx["start"]
            x = px
        out[fid] = {"alloc": alloc or [], "prio": prio if prio else 500, "inherited_start": lb,
                    "effort": A.effort_hours(t.get("effort")) if t.get("effort") else _inh_effort(nodes, fid)}
    return out


def _inh_effort(nodes, fid):
    return Fraction(0)


def reference_schedule(p, horizon_end):
    """{task: (start, end)} for leaf tasks, or None when some task does not fit / is outside the dialect"""
    if not in_core_dialect(p):
        return None
    G = p.get("G", 3600)
    cal = Cal(p)
    eff = res_eff(p)
    l2f = local_to_full(p)
    E = effective(p)
    own, alle = A.all_edges(p)
    ft = A.flat_tasks(p)
    leaves = [fid for fid, t, par, _ in ft if A.is_leaf(t)]
    nodes = {fid: t for fid, t, par, _ in ft}
    kids = {}
    for fid, t, par, _ in ft:
        if par is not None:
            kids.setdefault(par, []).append(fid)
    res_nodes = {fid: (r, par) for fid, r, par in A.flat_resources(p)}
    order = sorted(leaves, key=lambda f: (-E[f]["prio"], [x for x, *_ in ft].index(f)))
    booked = {}                     # (res, slot) -> task
    counters = {}                   # (owner kind, owner id, limit kind, period) -> count
    placed = {}

    def container_dates(c):
        ds = [placed.get(x) if x in leaves else container_dates(x) for x in kids.get(c, [])]
        if any(d is None for d in ds) or not ds:
            return None
        return (min(d[0] for d in ds), max(d[1] for d in ds))

    def dates(q):
        return placed.get(q) if q in leaves else container_dates(q)

    def limit_sets(task, rid):
        out = []
        x = rid
        while x is not None:
            lim = res_nodes[x][0].get("limits")
            if lim:
                out.append((("res", x), lim, None))
            x = res_nodes[x][1]
        for a in [task] + A.ancestors(task):
            lim = nodes[a].get("limits")
            if lim:
                only = {l2f.get(z) for z in lim.get("resources") or []} or None
                if only is None or rid in only:
                    out.append((("task", a, tuple(sorted(only)) if only else None), lim, only))
        return out

    def period(kind, k):
        t = p["start"] + k * G
        return t // 86400 if kind == "dailymax" else iso_week(t)

    def within_limits(task, rid, k, extra):
        for owner, lim, only in limit_sets(task, rid):
            for kind in ("dailymax", "weeklymax"):
                if lim.get(kind):
                    cap = (A.limit_hours(lim[kind]) * 3600 / G).__floor__()
                    key = (owner, kind, period(kind, k))
                    if counters.get(key, 0) + extra.get(key, 0) >= cap:
                        return False
        return True

    def commit(task, rid, k):
        for owner, lim, only in limit_sets(task, rid):
            for kind in ("dailymax", "weeklymax"):
                if lim.get(kind):
                    key = (owner, kind, period(kind, k))
                    counters[key] = counters.get(key, 0) + 1

    last_slot = (horizon_end - p["start"]) // G
    remaining = list(order)
    # a milestone with an explicit start has its dates before anything is scheduled: it is placed up
    # front (its predecessors cannot move it), so that its successors do not wait for them either
    for f in list(remaining):
        t = nodes[f]
        if t.get("start") is not None and not t.get("effort"):
            placed[f] = (t["start"], t["start"])
            remaining.remove(f)
    while remaining:
        pick = None
        for f in remaining:
            if all(dates(q) is not None for (q, _, _) in alle[f]):
                pick = f
                break
        if pick is None:
            return None             # dead-lock: outside what the reference claims
        remaining.remove(pick)
        t = nodes[pick]
        effort = A.effort_hours(t.get("effort")) if t.get("effort") else Fraction(0)
        bound = p["start"]
        if t.get("start") is not None:
            bound = t["start"]
        else:
            if E[pick]["inherited_start"] is not None:
                bound = max(bound, E[pick]["inherited_start"])
            for (q, gap, onstart) in alle[pick]:
                d = dates(q)
                bound = max(bound, (d[0] if onstart else d[1]) + gap)
        if t.get("milestone") or effort == 0:
            placed[pick] = (bound, bound)
            continue
        rids = [l2f[x] for x in E[pick]["alloc"] if x in l2f]
        if not rids:
            return None
        if len({eff[r] for r in rids}) > 1:
            return None             # mixed-efficiency team: outside the dialect
        per_slot = Fraction(G, 3600) * eff[rids[0]]
        if (effort / per_slot).denominator != 1:
            return None             # not whole slots at this efficiency
        need = int(effort / per_slot)
        if bound % G != p["start"] % G:
            return None
        k = (bound - p["start"]) // G
        got = []
        while len(got) < need:
            if k > last_slot:
                return None         # does not fit the horizon: not claimed
            ok = True
            extra = {}
            for r in rids:
                t0 = p["start"] + k * G
                if (r, k) in booked or cal.work_seconds(r, t0, t0 + G) != G:
                    ok = False
                    break
                if not within_limits(pick, r, k, extra):
                    ok = False
                    break
                # a team consumes one unit of every shared counter per member
                for owner, lim, only in limit_sets(pick, r):
                    for kind in ("dailymax", "weeklymax"):
                        if lim.get(kind):
                            key = (owner, kind, period(kind, k))
                            extra[key] = extra.get(key, 0) + 1
            if ok:
                for r in rids:
                    booked[(r, k)] = pick
                    commit(pick, r, k)
                got.append(k)
            k += 1
        placed[pick] = (p["start"] + got[0] * G, p["start"] + (got[-1] + 1) * G)
    return placed
