"""Random project ASTs (plain dicts; see render.py for the concrete syntax they map to).

Every choice comes from the `random.Random` passed in.  `Knobs` steer the generator towards the
region a property cares about; the distribution actually drawn is measured by `features()`.
"""
from fractions import Fraction

from . import astutil as A

MON = 1736121600          # 2025-01-06 00:00 UTC, a Monday
H = 3600
D = 86400
DAYS = ["mon", "tue", "wed", "thu", "fri", "sat", "sun"]
ZONES = ["Etc/UTC", "Europe/Berlin", "America/New_York", "Asia/Tokyo", "Asia/Kolkata", "Australia/Adelaide",
         "Pacific/Auckland", "America/Los_Angeles", "Asia/Kathmandu", "Pacific/Kiritimati", "Pacific/Pago_Pago", "Europe/London"]
# starts near DST changes, year ends, leap day, 53-week year
STARTS = [MON, MON + 2 * D, 1741392000 - 3 * D,  # week of US DST start 2025-03-09
          1743292800 - 4 * D,                    # EU DST start 2025-03-30
          1761436800 - 2 * D,                    # EU DST end 2025-10-26
          1766966400,                            # 2025-12-29
          1709078400,                            # 2024-02-28
          1798416000,                            # 2026-12-28 (ISO week 53)
          1609113600]                            # 2020-12-28 (ISO week 53)


# (zone, an instant a few days before one of its DST transitions)
DST_CASES = [("America/New_York", 1741392000 - 3 * D), ("America/Los_Angeles", 1741392000 - 2 * D),
             ("Europe/Berlin", 1743292800 - 4 * D), ("Europe/London", 1743292800 - 2 * D),
             ("Europe/Berlin", 1761436800 - 2 * D), ("America/New_York", 1762041600 - 3 * D),   # US DST end 2025-11-02
             ("Australia/Adelaide", 1743811200 - 3 * D), ("Pacific/Auckland", 1743811200 - 4 * D),  # southern DST end 2025-04-06
             ("Australia/Adelaide", 1759622400 - 2 * D)]                                       # southern DST start 2025-10-05


class Knobs:
    def __init__(self, **kw):
        self.max_tasks = 6
        self.max_res = 3
        self.resolutions = [3600, 3600, 3600, 1800, 900, 300]
        self.sub_slot = 0.5           # probability that an effort is not a whole number of slots
        self.eff = ["0.5", "1.5", "2", "0.25", "0.7", "1.3", "0.8", "3"]
        self.p_eff = 0.3
        self.p_team = 0.2
        self.p_inner = 0.3            # probability that a container holds an inner container (three nesting levels)
        self.p_alt = 0.15
        self.p_dep = 0.5
        self.p_gap = 0.4
        self.p_onstart = 0.15
        self.p_container = 0.35
        self.p_limits = 0.25
        self.p_tasklimits = 0.1
        self.p_leave = 0.3
        self.p_wh = 0.35
        self.p_shift = 0.15
        self.p_tz = 0.0
        self.p_alap = 0.25            # project-level alap
        self.p_taskmode = 0.1
        self.p_pin = 0.15
        self.p_milestone = 0.15
        self.p_scen = 0.0
        self.p_offstart = 0.3
        self.offstart_aligned = False    # the offsets are multiples of every resolution of the knob set: also for aligned projects
        self.start_offsets = [9 * 3600 + 20 * 60, 13 * 60, 30 * 60]   # time of day of an unaligned project start
        self.p_glen = 0.0            # a dependency without gapduration carries a gaplength (working-time gap)
        self.p_scen_date = 0.0      # scenario-specific start (ASAP) / end (ALAP) overrides, also on containers
        self.p_prec = 0.0
        self.p_nested_abs = 0.5      # a global holiday inside a resource's multi-day leave
        self.p_long_leave = 0.0      # extra weight for leaves of several days
        self.p_group = 0.25
        self.p_subgroup = 0.35       # a sub-group between the group and (one of) its members
        self.p_group_cal = 0.5       # a group carries hours / shift / zone / leave that its members inherit
        self.p_group_alloc = 0.08
        self.p_twin = 0.2
        self.p_month = 0.07
        self.p_dst = 0.0              # project placed across a DST transition of a resource's zone
        self.p_gvac = 0.2
        self.aligned_only = True      # calendars / starts / gaps multiples of the resolution
        self.forward_only = False
        self.envelope = "mixed"      # asap | alap | mixed (see envelope_of)
        self.dur_weeks = [1, 2, 2, 3, 4]
        self.starts = [MON, MON, MON] + STARTS
        self.big_effort = 0.1
        self.__dict__.update(kw)


def pick(rng, p):
    return rng.random() < p


def gen_hours(rng, G, aligned):
    """one or two workinghours specs: several intervals a day, cross-midnight, 24:00, day ranges"""
    step = max(G // 60, 1) if aligned else 1
    specs = []
    for _ in range(rng.choice([1, 1, 2])):
        k = rng.randrange(7)
        n = rng.choice([1, 3, 5, 5, 6, 7])
        days = [DAYS[(k + j) % 7] for j in range(n)]
        ranges = []
        kind = rng.random()
        def q(m):
            return (m // step) * step
        if kind < 0.2:       # night shift
            s = q(rng.choice([20, 21, 22, 23]) * 60 + rng.choice([0, 0, 30, 15]))
            e = q(rng.choice([4, 5, 6, 7]) * 60 + rng.choice([0, 0, 30, 45]))
            ranges.append([s, e])
        elif kind < 0.3:     # until midnight
            ranges.append([q(rng.choice([14, 16, 18]) * 60), 24 * 60])
        else:
            s = q(rng.choice([6, 7, 8, 9, 10]) * 60 + rng.choice([0, 0, 15, 30, 13]))
            mid = q(s + rng.choice([2, 3, 4]) * 60 + rng.choice([0, 0, 30, 47]))
            if pick(rng, 0.6):
                s2 = q(mid + rng.choice([30, 60, 68, 90]))
                e2 = q(s2 + rng.choice([2, 3, 4, 5]) * 60 + rng.choice([0, 0, 30, 40]))
                ranges += [[s, mid], [s2, min(e2, 24 * 60)]]
            else:
                ranges.append([s, q(s + rng.choice([6, 8, 9]) * 60)])
        ranges = [r for r in ranges if r[0] != r[1]]
        if ranges:
            specs.append({"days": days, "ranges": ranges})
    return specs or None


def gen_effort(rng, G, k, eff=None):
    """[decimal string, unit]; whole slots at efficiency 1 unless the sub-slot knob fires"""
    slots_per_h = 3600 // G if G <= 3600 else 1
    if pick(rng, k.big_effort):
        return [str(rng.choice([16, 24, 40, 60])), "h"]
    if pick(rng, k.sub_slot):
        c = rng.random()
        if c < 0.5:
            return [str(rng.choice([5, 7, 10, 20, 25, 30, 40, 50, 70, 90, 100, 135, 150])), "min"]
        if c < 0.8:
            return [rng.choice(["0.5", "1.5", "2.5", "2.1", "0.7", "3.3", "1.25", "0.1"]), "h"]
        return [str(rng.choice([1, 2])), "d"]
    n = rng.choice([1, 1, 2, 2, 3, 4, 6, 8, 12])
    if G == 3600 or pick(rng, 0.5):
        return [str(n), "h"]
    return [str(n * (G // 60)), "min"]


def gen_project(rng, k=None):
    k = k or Knobs()
    G = rng.choice(k.resolutions)
    start = rng.choice(k.starts)
    dst_zone = None
    if pick(rng, k.p_dst):
        dst_zone, start = rng.choice(DST_CASES)
        start = (start // D) * D
    if (not k.aligned_only or k.offstart_aligned) and pick(rng, k.p_offstart):
        start += rng.choice(k.start_offsets)
    p = {"start": start, "dur": [rng.choice(k.dur_weeks), "w"], "G": G}
    if pick(rng, k.p_month):
        p["dur"] = [rng.choice([1, 1, 2]), "m"]       # `+1m`: the declared end depends on the calendar month
    if not k.forward_only and pick(rng, k.p_alap):
        p["sched"] = "alap"
    end = A.end_of(p)
    ndays = (end - start) // D

    def day(n=None):
        return (start // D) * D + (rng.randrange(ndays) if n is None else n) * D
    if pick(rng, k.p_gvac):
        a = day()
        p["vacations"] = [[a, None if pick(rng, 0.5) else a + rng.choice([1, 2, 3]) * D]]
        while pick(rng, 0.45) and len(p["vacations"]) < 3:
            # further company holidays, declared in any order (not chronologically); a whole-year holiday list also names days
            # before the project starts and after it ends
            b = day()
            if pick(rng, 0.25):
                b = day(rng.choice([-400, -60, -3, ndays + 2, ndays + 40, ndays + 300]))
            p["vacations"].insert(rng.randrange(len(p["vacations"]) + 1), [b, None if pick(rng, 0.6) else b + rng.choice([1, 2]) * D])
    if pick(rng, k.p_gvac):
        a = day()
        p["leaves"] = [["holiday", a, None if pick(rng, 0.6) else a + rng.choice([1, 2]) * D]]
        if pick(rng, 0.35):
            # a company event that ends during the working day: the slot that begins at its end is working time again
            p["leaves"] = [["holiday", a, a + rng.choice([0, 1]) * D + rng.choice([10, 12, 13, 15]) * H]]
    if pick(rng, k.p_shift):
        wh = gen_hours(rng, G, k.aligned_only)
        if wh:
            p["shifts"] = [{"id": "sh1", "wh": wh}]
    # resources
    nres = rng.randrange(1, k.max_res + 1)
    res = []
    ids = []
    group = None
    if nres >= 2 and pick(rng, k.p_group):
        group = {"id": "grp", "children": []}
        if pick(rng, k.p_limits):
            group["limits"] = gen_limits(rng, G, group=True)
        if pick(rng, k.p_group_cal):
            # a calendar declared on the group: members without one of their own inherit it
            if p.get("shifts") and pick(rng, 0.5):
                group["shift"] = "sh1"
            else:
                wh = gen_hours(rng, G, k.aligned_only)
                if wh:
                    group["wh"] = wh
            if pick(rng, k.p_tz):
                group["tz"] = rng.choice(ZONES)
            if pick(rng, k.p_leave):
                a = day()
                group["leaves"] = [["annual", a, None if pick(rng, 0.5) else a + rng.choice([1, 2]) * D]]
            if pick(rng, k.p_eff):
                group["eff"] = rng.choice(k.eff)            # members without an efficiency of their own inherit it
        res.append(group)
    for i in range(nres):
        r = {"id": f"r{i}"}
        if pick(rng, k.p_eff):
            r["eff"] = rng.choice(k.eff)
        if pick(rng, k.p_tz):
            r["tz"] = rng.choice(ZONES)
        if dst_zone is not None and i == 0:
            r["tz"] = dst_zone
        if p.get("shifts") and pick(rng, 0.6):
            r["shift"] = "sh1"
        elif pick(rng, k.p_wh) or (group is not None and group.get("shift") and pick(rng, 0.5)):
            # (inside a group that refers to a shift: hours of the member's own, which must win over the inherited shift, F55)
            wh = gen_hours(rng, G, k.aligned_only)
            if wh:
                r["wh"] = wh
        if pick(rng, k.p_leave):
            a = day()
            c = rng.random()
            if not k.aligned_only and c < 0.35:
                c = 0.9                     # unaligned calendars: more bookings (the only absences with a time of day)
            if pick(rng, k.p_long_leave):
                c = 0.5                     # a leave of several days (room for another absence nested inside it)
            if c < 0.4:
                r["leaves"] = [[rng.choice(["annual", "sick", "special"]), a, None]]
            elif c < 0.6:
                if pick(rng, 0.2):          # a leave that begins before the project start (finding F45)
                    a = (start // D) * D - rng.choice([1, 2, 3]) * D
                r["leaves"] = [["annual", a, a + rng.choice([1, 2, 5]) * D]]
            elif c < 0.8:
                if pick(rng, 0.2):
                    a = (start // D) * D - rng.choice([1, 2]) * D
                    r["vacations"] = [[a, a + rng.choice([2, 4]) * D]]
                else:
                    r["vacations"] = [[a, None if pick(rng, 0.5) else a + 2 * D]]
            else:
                hh = rng.choice([9, 10, 13]) * H
                if not k.aligned_only and pick(rng, 0.6):
                    hh += max(60, (G // 2) // 60 * 60 - rng.choice([0, 60]))   # an absence that begins inside a slot, at any resolution
                # durations in every calendar unit a booking takes: hours and minutes, days (24 h), weeks (F53)
                r["bookings"] = [[a + hh, rng.choice(["2h", "3h", "90min", "1d"] if not k.aligned_only else ["2h", "3h", "4h", "1d", "2d", "1w"])]]
        if pick(rng, k.p_limits):
            r["limits"] = gen_limits(rng, G)
        ids.append(r["id"])
        if group is not None and (i < 2 or pick(rng, 0.5)):
            group["children"].append(r)
        else:
            res.append(r)
    if group is not None and len(group["children"]) >= 1 and pick(rng, k.p_subgroup):
        # three levels: what the outer group declares has to reach the members through the sub-group
        group["children"] = [{"id": "sub", "children": group["children"][:1]}] + group["children"][1:]
        if group.get("shift") and pick(rng, 0.8):
            # the outer group refers to a shift, the sub-group declares hours of its own: the member below it, which declares
            # none, works the sub-group's hours - the nearest declaration, at every level
            wh = gen_hours(rng, G, k.aligned_only)
            if wh:
                group["children"][0]["wh"] = wh
                for m in group["children"][0]["children"]:
                    m.pop("shift", None)
                    m.pop("wh", None)
    p["resources"] = res
    # an absence nested inside another one: a company holiday in the middle of a resource's multi-day leave
    for _fid, r, _par in A.flat_resources(p):
        if r.get("children"):
            continue
        for lv in r.get("leaves") or []:
            if lv[2] is not None and lv[2] - lv[1] >= 2 * D and pick(rng, k.p_nested_abs):
                p.setdefault("leaves", []).append(["holiday", lv[1] + D, None])
                break
    # tasks
    ntask = rng.randrange(1, k.max_tasks + 1)
    tasks = []
    flat = []          # (fullId, node, depth, container?)
    containers = []

    def new_leaf(name, parent_fid):
        t = {"id": name}
        fid = name if parent_fid is None else parent_fid + "." + name
        if pick(rng, k.p_milestone):
            if pick(rng, 0.5):
                t["milestone"] = True
        else:
            t["effort"] = gen_effort(rng, G, k)
            if pick(rng, 0.93):
                t["alloc"] = [rng.choice(ids)]
                if len(ids) >= 2 and pick(rng, k.p_team):
                    t["alloc"] = rng.sample(ids, 2)
                elif len(ids) >= 2 and pick(rng, k.p_alt):
                    others = [x for x in ids if x not in t["alloc"]]
                    t["alt"] = [rng.choice(others)]
                    if len(others) >= 2 and pick(rng, 0.35):
                        # several alternatives, in the written order (the first one decides the routing)
                        t["alt"] = rng.sample(others, 2)
                elif group is not None and pick(rng, k.p_group_alloc):
                    # a resource group allocated directly: groups have no time of their own, the task cannot be placed
                    t["alloc"] = ["grp"] if pick(rng, 0.7) else ["grp", rng.choice(ids)]
        if pick(rng, 0.5):
            t["prio"] = rng.choice([100, 300, 500, 700, 900, 1000])
        return fid, t
    i = 0
    while i < ntask:
        if pick(rng, k.p_container) and ntask - i >= 2:
            c = {"id": f"c{i}", "children": []}
            cfid = c["id"]
            if pick(rng, 0.25):
                c["prio"] = rng.choice([200, 800])
            if pick(rng, 0.15):
                c["alloc"] = [rng.choice(ids)]
            tasks.append(c)
            flat.append((cfid, c, True))
            n = rng.choice([1, 2, 2, 3])
            inner = None
            if pick(rng, k.p_inner):
                inner = {"id": "in", "children": []}
                c["children"].append(inner)
                flat.append((cfid + ".in", inner, True))
            for j in range(min(n, ntask - i)):
                par = inner if (inner is not None and pick(rng, 0.6)) else c
                pfid = cfid + ".in" if par is inner else cfid
                nm = f"t{i}"
                if pick(rng, k.p_twin):
                    # the same local id in different containers (full ids stay unique)
                    cand = rng.choice(["w", "x"])
                    if all(ch["id"] != cand for ch in par["children"]):
                        nm = cand
                fid, t = new_leaf(nm, pfid)
                par["children"].append(t)
                flat.append((fid, t, False))
                i += 1
            if inner is not None and not inner["children"]:
                c["children"].remove(inner)
                flat[:] = [x for x in flat if x[1] is not inner]
            if not c["children"]:
                tasks.remove(c)
                flat[:] = [x for x in flat if x[1] is not c]
        else:
            fid, t = new_leaf(f"t{i}", None)
            tasks.append(t)
            flat.append((fid, t, False))
            i += 1
    p["tasks"] = tasks
    order = [fid for fid, *_ in A.flat_tasks(p)]
    pos = {fid: n for n, fid in enumerate(order)}
    nodes = {fid: t for fid, t, par, _ in A.flat_tasks(p)}
    # dependencies: edges only towards earlier-declared tasks that are not ancestors/descendants  => DAG
    for fid in order:
        t = nodes[fid]
        if not pick(rng, k.p_dep):
            continue
        cands = [q for q in order if pos[q] < pos[fid] and not fid.startswith(q + ".") and not q.startswith(fid + ".")]
        if not cands:
            continue
        for q in rng.sample(cands, min(len(cands), rng.choice([1, 1, 2]))):
            d = {"target": q, "ref": ref_for(rng, fid, q)}
            if pick(rng, k.p_gap):
                d["gap"] = rng.choice(gap_choices(G, k.aligned_only))
            elif pick(rng, k.p_glen):
                # a gap in working time of the project calendar (forward scheduling only reads it)
                d["glen"] = rng.choice(["1h", "2h", "30min", "90min", "1d", "20min", "3h"])
            if pick(rng, k.p_onstart):
                d["onstart"] = True
            key = "prec" if pick(rng, k.p_prec) else "deps"
            if key == "prec":
                # written on the predecessor: `q precedes fid`
                nodes[q].setdefault("prec", []).append({"target": fid, "ref": ref_for(rng, q, fid), "gap": d.get("gap"), "glen": d.get("glen"), "onstart": d.get("onstart", False)})
            else:
                t.setdefault("deps", []).append(d)
    for fid in order:
        t = nodes[fid]
        if (len(t.get("deps") or []) > 1 or len(t.get("prec") or []) > 1) and pick(rng, 0.4):
            t["split_deps"] = True           # written as one `depends` / `precedes` statement per edge
    # pins, modes, limits
    own, alle = A.all_edges(p)
    has_succ = set()
    for fid2, edges in alle.items():
        for (q, _g, _o) in edges:
            has_succ.add(q)
            has_succ.update(x for x in order if x.startswith(q + "."))
    env = k.envelope
    if env == "alap":
        p["sched"] = "alap"
    elif env == "asap":
        p.pop("sched", None)
    for fid in order:
        t = nodes[fid]
        leaf = A.is_leaf(t)
        if pick(rng, k.p_pin):
            hh = rng.choice([0, 9, 10, 13]) * H + (0 if k.aligned_only else rng.choice([0, 20 * 60]))
            dt = day(rng.randrange(min(ndays, 10))) + hh
            if env == "asap":
                t["start"] = dt
            elif env == "alap":
                # deadlines only on tasks without successors and on containers
                if not leaf or (fid not in has_succ):
                    t["end"] = dt + rng.choice([8 * H, 17 * H, 24 * H])
            else:
                if p.get("sched") == "alap" or (pick(rng, 0.3) and not k.forward_only):
                    t["end"] = dt + rng.choice([0, 8 * H])
                else:
                    t["start"] = dt
        if env == "mixed" and (leaf or pick(rng, 0.5)) and not k.forward_only and pick(rng, k.p_taskmode):
            # (also on containers: their children inherit the direction)
            t["mode"] = rng.choice(["asap", "alap"])
            if t["mode"] == "alap" and "end" not in t and pick(rng, 0.7):
                t["end"] = day(rng.randrange(2, max(3, min(ndays, 12)))) + 17 * H
        if pick(rng, k.p_tasklimits):
            t["limits"] = gen_limits(rng, G)
            if len(ids) >= 2 and pick(rng, 0.3):
                t["limits"]["resources"] = [rng.choice(ids)]
    if env == "alap":
        for fid in order:
            for d in nodes[fid].get("deps") or []:
                d["onstart"] = False
            for d in nodes[fid].get("prec") or []:
                d["onstart"] = False
    if pick(rng, k.p_scen):
        p["scenarios"] = [{"id": "plan", "children": [{"id": "s2", "children": [{"id": "s3"}] if pick(rng, 0.3) else []}]}]
        if pick(rng, 0.35):
            # a sibling of s2 (declared after it): what the parent scenario says reaches every child that says nothing itself
            p["scenarios"][0]["children"].append({"id": "s4"})
        for fid in order:
            t = nodes[fid]
            if A.is_leaf(t) and t.get("effort") and pick(rng, 0.5):
                sid = rng.choice(["s2", "s3"] if p["scenarios"][0]["children"][0].get("children") else ["s2"])
                if pick(rng, 0.25):
                    sid = "plan"        # an override addressed to the FIRST scenario (index 0): nested scenarios inherit it
                t.setdefault("sc", {})[sid] = {"effort": gen_effort(rng, G, k)}
                if sid != "plan" and pick(rng, 0.35):
                    # ... and one for the parent scenario, written AFTER the child's: the other children inherit it
                    t["sc"]["plan"] = {"effort": gen_effort(rng, G, k)}
        # scenario-specific dates, also on containers that have no plain date of their own (their children inherit them
        # in that scenario only)
        for fid in order:
            t = nodes[fid]
            if pick(rng, k.p_scen_date) and t.get("start") is None and t.get("end") is None and not t.get("milestone"):
                sid = rng.choice(["s2", "s3"] if p["scenarios"][0]["children"][0].get("children") else ["s2"])
                when = (start // D) * D + rng.randrange(1, max(2, min(ndays, 10))) * D + 9 * H
                key = "end" if env == "alap" else "start"
                if key == "end":
                    when += 8 * H
                t.setdefault("sc", {}).setdefault(sid, {})[key] = when
    return p


def gap_choices(G, aligned):
    base = ["1h", "2h", "3h", "24h", "1d", "2d", "48h"]
    if G <= 1800:
        base += ["30min", "90min"]
    if not aligned:
        base += ["20min", "45min", "100min", "29min"]
    return base


def gen_limits(rng, G, group=False):
    lim = {}
    if pick(rng, 0.7):
        lim["dailymax"] = rng.choice(["2h", "3h", "4h", "6h", "1h", "5h"]) if not group else rng.choice(["3h", "5h", "8h"])
        if pick(rng, 0.3):
            # values that are not a whole number of slots: the limit is the number of WHOLE slots that fit
            lim["dailymax"] = rng.choice(["3.5h", "2.5h", "150min", "100min", "2.75h", "4.5h", "1.5h"])
    if pick(rng, 0.06):
        # a limit shorter than one slot: no whole slot fits, nothing can be booked under it
        lim["dailymax"] = {3600: "30min", 1800: "20min", 900: "10min"}.get(G, "30min" if G > 1800 else "4min")
    if not lim or pick(rng, 0.4):
        lim["weeklymax"] = rng.choice(["10h", "12h", "20h", "8h"]) if not group else rng.choice(["15h", "25h"])
        if pick(rng, 0.25):
            lim["weeklymax"] = rng.choice(["10.5h", "7.5h", "12.75h", "500min"])
    return lim


def ref_for(rng, from_fid, to_fid):
    """a reference string from task `from_fid` to `to_fid`: absolute dotted path, or !-relative"""
    fp = from_fid.split(".")
    tp = to_fid.split(".")
    # common ancestor depth
    c = 0
    while c < len(fp) - 1 and c < len(tp) - 1 and fp[c] == tp[c]:
        c += 1
    ups = len(fp) - 1 - c          # levels above from's parent ... '!' = parent's children
    rel = "!" * (ups + 1) + ".".join(tp[c:])
    if len(fp) == 1:
        # top-level task: '!' has no parent to refer to; use the absolute form
        return to_fid
    return rel if rng.random() < 0.6 else to_fid


def features(p):
    """what the drawn project exercises (for the measured distribution in the evidence)"""
    f = set()
    ft = A.flat_tasks(p)
    G = p.get("G", 3600)
    f.add(f"G={G}")
    if p.get("sched") == "alap":
        f.add("proj-alap")
    for fid, t, par, depth in ft:
        if not A.is_leaf(t):
            f.add("container")
            if depth >= 1:
                f.add("nested-container")
            if t.get("start") is not None or t.get("end") is not None:
                f.add("dated-container")
        if t.get("effort"):
            e = A.effort_hours(t["effort"])
            if (e * 3600) % G != 0:
                f.add("sub-slot-effort")
        if t.get("alloc") and len(t["alloc"]) > 1:
            f.add("team")
        if t.get("alt"):
            f.add("alternative")
        if t.get("deps"):
            f.add("depends")
            if any(d.get("gap") for d in t["deps"]):
                f.add("gap")
            if any(d.get("glen") for d in t["deps"]):
                f.add("gaplength")
            if any(d.get("onstart") for d in t["deps"]):
                f.add("onstart")
        if t.get("prec"):
            f.add("precedes")
        if t.get("milestone") or (A.is_leaf(t) and not t.get("effort")):
            f.add("milestone")
        if t.get("limits"):
            f.add("task-limits")
        if t.get("mode"):
            f.add("task-mode")
        if t.get("start") is not None:
            f.add("pinned-start")
        if t.get("end") is not None:
            f.add("pinned-end")
        if t.get("sc"):
            f.add("scenario-override")
    for fid, r, par in A.flat_resources(p):
        if r.get("limits"):
            f.add("res-limits")
        if r.get("eff"):
            f.add("efficiency")
        if r.get("wh"):
            f.add("own-hours")
            if any(b <= a for sp in r["wh"] for a, b in sp["ranges"]):
                f.add("cross-midnight")
        if r.get("shift"):
            f.add("shift")
        if r.get("tz"):
            f.add("timezone")
        if r.get("leaves") or r.get("vacations") or r.get("bookings"):
            f.add("res-leave")
        if r.get("children"):
            f.add("res-group")
    if p.get("vacations") or p.get("leaves"):
        f.add("global-holiday")
    return f


def envelope_of(p):
    """which claimed envelope of C04/C06/C08 a project lies in: 'asap', 'alap' or None"""
    ft = A.flat_tasks(p)
    if any(t.get("mode") for _, t, _, _ in ft):
        return None
    own, alle = A.all_edges(p)
    if p.get("sched") == "alap":
        has_succ = set()
        for fid, edges in alle.items():
            for (q, _g, onstart) in edges:
                if onstart:
                    return None
                has_succ.add(q)
                has_succ.update(x for x, *_ in ft if x.startswith(q + "."))
        for fid, t, par, _ in ft:
            if t.get("start") is not None:
                return None
            if t.get("end") is not None and A.is_leaf(t) and fid in has_succ:
                return None
        return "alap"
    for fid, t, par, _ in ft:
        if t.get("end") is not None:
            return None
    return "asap"
