"""`cli` correspondence stream (C19/C20): runs the REAL `plan` entry point as subprocesses.

Executed inside the implementation's interpreter (see implserver.py), so `sys.executable` and
PYTHONPATH are the scratch copy of the implementation under test.  Every run gets a private
sandbox  <root>/{in,cwd,tmp,abs}:  `in` holds the input file, `cwd` is the working directory,
`tmp` is TMPDIR, `abs` is where absolute report names point.  Before/after listings of the whole
sandbox give the leftover set.

Token op (same line goes to the Lean driver, `Driver/Cli.lean`):
    cli <v4> <class> <channel> <fmt> <fault> <out> <ureports> <textid>
answer:  exit <n> out <none|auto|user|other> id <hash|none|wrong> left <-|classes> ofile <-|written>
         ## <json: python oracle verdicts + details>
JSON op `cli_conc`: N concurrent runs in ONE shared cwd and ONE shared TMPDIR.
"""
import csv
import hashlib
import io
import json
import os
import random
import shutil
import subprocess
import sys
import tempfile
import time

HERE = os.path.dirname(os.path.abspath(__file__))
INJECT = os.path.join(HERE, "cli_inject")
DIRECT = os.path.join(HERE, "cli_direct.py")
ENTRY = "import sys; from scriptplan.cli.plan import main; sys.argv[0] = 'plan'; sys.exit(main())"
FAULTS = ["none", "stdinMkstemp", "stdinWrite", "readInput", "mkdtemp", "copyRead", "mkstempAuto", "copyWrite",
          "engineRaise", "engineNoOutput", "readReport", "echo"]
CLASSES = ["valid", "unsched", "missing", "dir", "empty", "blank", "syntax"]
RUN_TIMEOUT = 120
SCRATCH = os.environ.get("VERIF_SCRATCH_BASE") or os.environ.get("XDG_RUNTIME_DIR") or "/var/tmp"


# ------------------------------------------------------------------ input texts (deterministic in the text id)

def base_project(k):
    """a small valid project, deterministic in k; k % 8 picks the shape"""
    rng = random.Random(1000 + k)
    shape = k % 8
    nres = 1 + rng.randrange(3)
    lines = []
    res_min = rng.choice([60, 30, 15])
    hdr = 'project p%d "P%d" 2025-01-06 +%dw {\n  timezone "Etc/UTC"\n' % (k, k, 2 + rng.randrange(6))
    if shape == 3:
        hdr += "  timingresolution %dmin\n" % res_min
    hdr += "}\n"
    lines.append(hdr)
    for r in range(nres):
        lines.append('resource r%d "R%d" {}\n' % (r, r))
    ntask = 1 + rng.randrange(6)
    name = "Täsk" if shape == 5 else "T"          # non-ASCII text: UTF-8 round trip through stdin
    if shape == 4:
        lines.append('task box "Box" {\n')
    for t in range(ntask):
        eff = rng.choice(["1h", "2h", "4h", "6h", "1d", "3h", "30min", "90min"])
        dep = ""
        if t > 0 and rng.random() < 0.6:
            dep = " depends !t%d" % rng.randrange(t)
        prio = " priority %d" % rng.choice([100, 500, 900]) if rng.random() < 0.3 else ""
        ind = "  " if shape == 4 else ""
        lines.append('%stask t%d "%s%d" { effort %s allocate r%d%s%s }\n' % (ind, t, name, t, eff, rng.randrange(nres), dep, prio))
    if shape == 4:
        lines.append("}\n")
        # a second container whose children carry the SAME local ids as those of the first (box.t0 / box2.t0): anything keyed
        # by the local id instead of the full id mixes them up
        lines.append('task box2 "Box 2" {\n')
        for t in range(min(ntask, 1 + rng.randrange(3))):
            lines.append('  task t%d "%s%d again" { effort %s allocate r%d }\n' % (t, name, t, rng.choice(["1h", "2h", "3h"]), rng.randrange(nres)))
        lines.append("}\n")
        lines.append('task done "Done" { milestone depends box }\n')
    if shape == 6:
        lines.append("# trailing comment without newline")
    text = "".join(lines)
    if shape == 7:
        text = text.replace("\n", "\r\n")                  # CRLF file: hash is over the bytes as they are
    return text


def report_defs(ureports, absdir):
    """user report definitions for the `ureports` token (kinds p s e a, formats j c b)"""
    if ureports == "-":
        return ""
    out = []
    for i, item in enumerate(ureports.split(",")):
        kind, f = item[0], item[1]
        fmts = {"j": "json", "c": "csv", "b": "json, csv"}[f]
        name = {"p": "r%d" % i, "s": "sub/r%d" % i, "e": "../esc%d" % i,
                "a": os.path.join(absdir, "out%d" % i)}[kind]
        out.append('taskreport u%d "%s" {\n  formats %s\n  columns name, effort\n}\n' % (i, name, fmts))
    return "\n" + "".join(out)


def make_input(cls, k, ureports, absdir):
    """bytes of the input for an input class (None: there is no file)"""
    if cls == "valid":
        return (base_project(k) + report_defs(ureports, absdir)).encode("utf-8")
    if cls == "unsched":
        # a dependency cycle: nothing can be scheduled (observed: the engine still reports success)
        t = ('project p%d "P" 2025-01-06 +2w { timezone "Etc/UTC" }\nresource r "R" {}\n'
             'task a "A" { effort 4h allocate r depends !b }\ntask b "B" { effort 4h allocate r depends !a }\n' % k)
        return (t + report_defs(ureports, absdir)).encode("utf-8")
    if cls == "syntax":
        # the last two are grammatical: the engine rejects them while building the project, through
        # MessageHandler.error() -> sys.exit() (a report file name with a forbidden character) - finding F51
        # (shape 6 ends in a comment without a newline, which would swallow what is appended: use shape 0 of the same family)
        plain = base_project(k if k % 8 != 6 else k - 6)
        bad = [plain[:-3] + " {", 'project p "P" 2025-01-06 +2w {', "this is not a project\n",
               plain + "task { }\n",
               plain + 'taskreport rq "what?" {\n  formats csv\n  columns id, start\n}\n',
               plain + 'taskreport rs "a|b" {\n  formats html\n  columns id\n}\n'][k % 6]
        return (bad + report_defs(ureports, absdir)).encode("utf-8")
    if cls == "blank":
        return [b"   \n\n", b"\n", b" \t \r\n  \n", b"\x0c\n "][k % 4]
    if cls == "empty":
        return b""
    return None


# ------------------------------------------------------------------ running one invocation

def listing(root):
    out = []
    for dp, dn, fn in os.walk(root):
        for n in dn + fn:
            out.append(os.path.relpath(os.path.join(dp, n), root))
    return sorted(out)


def leftover_classes(before, after):
    new = [p for p in after if p not in set(before)]
    cl = set()
    for p in new:
        parts = p.split(os.sep)
        if parts[0] == "tmp" and len(parts) >= 2:
            n = parts[1]
            if n.startswith("plan_output_"):
                cl.add("D")
            elif n.startswith("plan_auto_") and n.endswith(".tjp") and len(parts) == 2:
                cl.add("F_auto")
            elif n.startswith("plan_stdin_") and n.endswith(".tjp") and len(parts) == 2:
                cl.add("F_in")
            else:
                cl.add("ESC")
        elif parts[0] == "cwd":
            cl.add("USER" if parts[1:] == ["out.file"] else "CWD")
        elif parts[0] == "abs":
            cl.add("ESC")
        else:
            cl.add("ESC")
    return sorted(cl), new


def child_env(tmpdir, fault="none", jitter=None):
    env = dict(os.environ)
    env["PYTHONPATH"] = INJECT + os.pathsep + env.get("PYTHONPATH", "")
    env["TMPDIR"] = tmpdir
    env["LANG"] = "C.UTF-8"
    env["LC_ALL"] = "C.UTF-8"
    env["PYTHONDONTWRITEBYTECODE"] = "1"
    env.pop("SPVERIF_FAULT", None)
    env.pop("SPVERIF_JITTER", None)
    for v in ("TEMP", "TMP", "PLAN_VERBOSE", "PLAN_OUTPUT_DIR"):
        env.pop(v, None)
    if fault != "none":
        env["SPVERIF_FAULT"] = fault
    if jitter is not None:
        env["SPVERIF_JITTER"] = str(jitter)
    return env


GLOBAL_OPTS = [[], ["--verbose"], ["--quiet"], ["--verbose", "--quiet"]]


def argv_for(channel, fmt, out, in_path, stdin_dash, gopt=0):
    """`gopt` selects the global options in front of the command: they change what goes to stderr, never the exit status,
    stdout or the files"""
    a = [sys.executable, "-c", ENTRY] + GLOBAL_OPTS[gopt % 4] + ["report"]
    if fmt == "csv":
        a.append("--csv")
    if out in ("new", "exists"):
        a += ["--output", "out.file"]
    elif out in ("force", "newforce"):
        a += ["--output", "out.file", "--force"]
    if channel == "file":
        a.append(in_path)
    elif stdin_dash:
        a.append("-")
    return a


def direct_rows(data):
    """id/start/end rows of a direct schedule of the same text, computed in a fresh interpreter"""
    r = subprocess.run([sys.executable, DIRECT], input=data, capture_output=True, timeout=RUN_TIMEOUT,
                       env={k: v for k, v in os.environ.items() if not k.startswith("SPVERIF_")})
    try:
        return json.loads(r.stdout.decode("utf-8"))
    except Exception:                                            # noqa: BLE001
        return {"error": (r.stderr.decode("utf-8", "replace")[-300:] or "no output")}


def classify_stdout(stdout, fmt, data):
    """(class, id-class, rows, problems) of the bytes on stdout"""
    if not stdout:
        return "none", "none", None, []
    probs = []
    try:
        text = stdout.decode("utf-8")
    except UnicodeDecodeError:
        return "other", "none", None, ["stdout is not UTF-8"]
    if fmt == "json":
        try:
            doc = json.loads(text)
        except ValueError:
            return "other", "none", None, ["stdout is not well-formed JSON"]
        if not isinstance(doc, dict) or not all(k in doc for k in ("data", "columns", "report_id")):
            return "other", "none", None, ["JSON lacks data/columns/report_id"]
        want = hashlib.sha256(data).hexdigest() if data is not None else None
        idc = "hash" if doc["report_id"] == want else "wrong"
        if doc["columns"] != ["id", "start", "end"]:
            return "user", idc, None, probs
        rows = [[str(r.get("id", "")), str(r.get("start", "")), str(r.get("end", ""))] for r in doc["data"]]
        extra = [k for r in doc["data"] for k in r if k not in ("id", "start", "end")]
        if extra:
            probs.append("records carry extra keys %s" % sorted(set(extra)))
        return "auto", idc, rows, probs
    rows = list(csv.reader(io.StringIO(text)))
    while rows and rows[-1] == []:
        rows.pop()                                               # click.echo adds a newline after the last CRLF-less line
    if not rows:
        return "other", "none", None, ["CSV output has no header"]
    if [c.lower() for c in rows[0]] != ["id", "start", "end"]:
        return "user", "none", None, probs
    return "auto", "none", [list(r) for r in rows[1:]], probs


NAME_SHAPES = ["project%d.tjp", "my project %d v2.1.tjp", "projet_\u00e9t\u00e9_%d.tjp", "\u8ba1\u5212%d.tjp", "2025-plan-%d.tjp", "%d.tjp",
               "Pl\u00e4ne & Co (%d).tjp", "plan%d.tjp.txt", "schedule-%d"]      # the last two: another extension, none at all


def input_name(k):
    """file names of every shape a user may choose: blanks, dots, dashes, digits first, non-ASCII letters"""
    return NAME_SHAPES[k % len(NAME_SHAPES)] % k


def run_case(cls, channel, fmt, fault, out, ureports, k, keep_root=None):
    """one solitary invocation in a private sandbox; returns the observation dict"""
    root = keep_root or tempfile.mkdtemp(prefix="spverif-cli-", dir=SCRATCH)
    try:
        for d in ("in", "cwd", "tmp", "abs"):
            os.makedirs(os.path.join(root, d), exist_ok=True)
        absdir = os.path.join(root, "abs")
        data = make_input(cls, k, ureports, absdir)
        in_path = os.path.join(root, "in", input_name(k))
        if channel == "file":
            if cls == "dir":
                os.makedirs(in_path)
            elif cls != "missing":
                with open(in_path, "wb") as f:
                    f.write(data)
        if out in ("exists", "force"):
            with open(os.path.join(root, "cwd", "out.file"), "w") as f:
                f.write("previous content\n")
        before = listing(root)
        argv = argv_for(channel, fmt, out, in_path, stdin_dash=(k % 2 == 0), gopt=(k // 2 + (fmt == "csv")) % 4)
        env = child_env(os.path.join(root, "tmp"), fault)
        need_rows = cls in ("valid", "unsched") and data is not None
        dproc = None
        if need_rows:
            dproc = subprocess.Popen([sys.executable, DIRECT], stdin=subprocess.PIPE, stdout=subprocess.PIPE,
                                     stderr=subprocess.PIPE,
                                     env={kk: v for kk, v in os.environ.items() if not kk.startswith("SPVERIF_")})
        r = subprocess.run(argv, input=(data if channel == "stdin" else b""), capture_output=True,
                           cwd=os.path.join(root, "cwd"), env=env, timeout=RUN_TIMEOUT)
        expected = None
        if dproc is not None:
            o, e = dproc.communicate(data, timeout=RUN_TIMEOUT)
            try:
                expected = json.loads(o.decode("utf-8"))
            except Exception:                                    # noqa: BLE001
                expected = {"error": e.decode("utf-8", "replace")[-300:]}
        after = listing(root)
        left, new = leftover_classes(before, after)
        ofile = "-"
        out_content = None
        if out != "-":
            p = os.path.join(root, "cwd", "out.file")
            if os.path.exists(p):
                out_content = open(p, "rb").read()
                if out_content != b"previous content\n":
                    ofile = "written"
            left = [c for c in left if c != "USER"]
        input_intact = True
        if channel == "file" and cls not in ("missing", "dir"):
            input_intact = os.path.isfile(in_path) and open(in_path, "rb").read() == data
        return {"exit": r.returncode, "stdout": r.stdout, "stderr": r.stderr, "left": left, "new": new,
                "ofile": ofile, "out_content": out_content, "data": data, "expected": expected,
                "input_intact": input_intact}
    finally:
        if keep_root is None:
            shutil.rmtree(root, ignore_errors=True)


def oracle(cls, channel, fmt, fault, out, ureports, ob):
    """C19/C20 stated directly on the observed behaviour; returns [(finding-kind, message)]"""
    v = []
    code = ob["exit"]
    payload = ob["out_content"] if (out != "-" and ob["ofile"] == "written") else ob["stdout"]
    oc, idc, rows, probs = classify_stdout(payload or b"", fmt, ob["data"])
    # ---- exit code (C19)
    fault_fires = fault != "none" and not (channel == "file" and fault in ("stdinMkstemp", "stdinWrite")) \
        and not (out != "-" and fault == "echo")
    if code not in (0, 1, 2):
        v.append(("exit", "exit code %d is none of 0/1/2" % code))
    if cls in ("missing", "dir", "empty") or (cls == "blank" and channel == "stdin"):
        if code != 1:
            v.append(("exit", "bad input (%s via %s) exits %d, not 1" % (cls, channel, code)))
    elif fault == "readInput":
        if code != 1:
            v.append(("F26", "unreadable input exits %d, not 1" % code))
    elif cls == "syntax" or fault_fires or (cls == "blank" and channel == "file"):
        if code != 2:
            v.append(("exit", "failing report generation (%s, fault %s) exits %d, not 2" % (cls, fault, code)))
    elif out == "exists":
        if code == 0:
            v.append(("exit", "existing output file overwritten without --force"))
    elif code != 0:
        v.append(("exit", "valid input exits %d: %s" % (code, ob["stderr"][-200:].decode("utf-8", "replace"))))
    # ---- stdout (C19)
    if out != "-" and ob["stdout"]:
        v.append(("stdout", "-o given but %d bytes on stdout" % len(ob["stdout"])))
    if code != 0 and ob["stdout"]:
        v.append(("stdout", "exit %d but %d bytes on stdout" % (code, len(ob["stdout"]))))
    if code != 0 and not ob["stderr"]:
        v.append(("stderr", "exit %d without any diagnostic on stderr" % code))
    if code == 0:
        for p in probs:
            v.append(("stdout", p))
        if oc == "user":
            fch = {"json": "jb", "csv": "cb"}[fmt]
            own = ureports != "-" and any(it[0] in "ps" and it[1] in fch for it in ureports.split(","))
            if own:
                v.append(("F17", "the emitted report is not the id/start/end report (a report defined by the project was printed)"))
            else:
                v.append(("columns", "the emitted report does not have the columns id, start, end"))
        elif oc != "auto":
            v.append(("stdout", "exit 0 but stdout is not a report (%s)" % oc))
        else:
            if fmt == "json" and idc != "hash":
                v.append(("id", "report_id differs from the SHA-256 of the input bytes"))
            exp = ob["expected"]
            if isinstance(exp, dict):
                v.append(("rows", "direct schedule of the same text failed: %s" % exp.get("error")))
            elif exp is not None and rows != exp:
                v.append(("rows", "rows differ from a direct schedule of the same text: %r vs %r" % (rows[:3], exp[:3])))
    # ---- no trace (C20)
    if not ob["input_intact"]:
        v.append(("trace", "the input file was modified or removed"))
    for c in ob["left"]:
        if c == "ESC":
            v.append(("F18", "report output escaped the temp output directory and was left behind: %s" % ob["new"][:3]))
        elif c == "F_auto" and fault in ("copyRead", "copyWrite"):
            v.append(("F43", "plan_auto_*.tjp left in TMPDIR after a failure while copying the input"))
        else:
            v.append(("trace", "left behind: %s %s" % (c, ob["new"][:3])))
    return v, oc, idc


def op_cli(tok):
    if len(tok) < 8:
        return "bad-op"
    _v, cls, channel, fmt, fault, out, ureports, k = tok[:8]
    if cls not in CLASSES or channel not in ("file", "stdin") or fmt not in ("json", "csv") or fault not in FAULTS \
            or out not in ("-", "new", "exists", "force", "newforce") or (channel == "stdin" and cls in ("missing", "dir")):
        return "bad-op"
    ob = run_case(cls, channel, fmt, fault, out, ureports, int(k))
    viol, oc, idc = oracle(cls, channel, fmt, fault, out, ureports, ob)
    if out != "-":
        oc_stdout, idc_stdout = ("none", "none") if not ob["stdout"] else classify_stdout(ob["stdout"], fmt, ob["data"])[:2]
    else:
        oc_stdout, idc_stdout = oc, idc
    line = "exit %d out %s id %s left %s ofile %s" % (ob["exit"], oc_stdout, idc_stdout,
                                                       ",".join(ob["left"]) or "-", ob["ofile"])
    detail = {"viol": viol, "stdout_sha": hashlib.sha256(ob["stdout"]).hexdigest(),
              "stderr": ob["stderr"][-300:].decode("utf-8", "replace"), "new": ob["new"][:6],
              "nrows": (len(ob["expected"]) if isinstance(ob["expected"], list) else None),
              "input_sha": hashlib.sha256(ob["data"]).hexdigest() if ob["data"] is not None else None}
    return line + " ## " + json.dumps(detail, sort_keys=True)


def op_cliexits(tok):
    """the except-clause → exit-code map, read off the source text of plan.report with `ast`.  A handler that exits through a
    helper of the module (`_fail(..., 2)` whose body calls `sys.exit(code)`) is followed one level; what cannot be read
    statically is reported as `?` (not comparable — the exit codes are then tied by the subprocess runs alone)"""
    import ast
    import inspect
    import textwrap
    import scriptplan.cli.plan as plan
    fn = plan.report.callback if hasattr(plan.report, "callback") else plan.report
    tree = ast.parse(textwrap.dedent(inspect.getsource(fn)))
    try:
        mod = ast.parse(inspect.getsource(plan))
    except (OSError, SyntaxError):
        mod = ast.Module(body=[], type_ignores=[])
    helpers = {n.name: n for n in mod.body if isinstance(n, ast.FunctionDef)}
    res = {}

    def is_sys_exit(c):
        return isinstance(c, ast.Call) and isinstance(c.func, ast.Attribute) and c.func.attr == "exit" \
            and isinstance(c.func.value, ast.Name) and c.func.value.id == "sys" and c.args

    def exits(nodes, depth=0):
        out = []
        for n in nodes:
            for c in ast.walk(n):
                if is_sys_exit(c):
                    out.append(c.args[0].value if isinstance(c.args[0], ast.Constant) else None)
                elif depth == 0 and isinstance(c, ast.Call) and isinstance(c.func, ast.Name) and c.func.id in helpers:
                    h = helpers[c.func.id]
                    params = [a.arg for a in h.args.args]
                    defaults = dict(zip(params[len(params) - len(h.args.defaults):], h.args.defaults))
                    for hc in ast.walk(h):
                        if is_sys_exit(hc):
                            a = hc.args[0]
                            if isinstance(a, ast.Constant):
                                out.append(a.value)
                            elif isinstance(a, ast.Name) and a.id in params:
                                k = params.index(a.id)
                                v = c.args[k] if k < len(c.args) else next((kw.value for kw in c.keywords if kw.arg == a.id), defaults.get(a.id))
                                out.append(v.value if isinstance(v, ast.Constant) else None)
                            else:
                                out.append(None)
        return out
    for node in ast.walk(tree):
        if isinstance(node, ast.Try) and node.handlers and len(node.handlers) >= 3:
            ok = exits(node.body)
            res["success"] = ok[-1] if ok else None
            for h in node.handlers:
                name = h.type.id if isinstance(h.type, ast.Name) else ast.dump(h.type)
                e = exits(h.body)
                res[name] = e[-1] if e else None
            break
    order = ["FileNotFoundError", "ReportGenerationError", "Exception", "success"]
    return " ".join("%s=%s" % (k, "?" if res.get(k) is None else res[k]) for k in order)


# ------------------------------------------------------------------ concurrent runs (C20)

def cli_conc(req):
    """N invocations at once in ONE shared cwd and ONE shared TMPDIR.
    req: {n, specs: [[cls, channel, fmt, ureports, k], ...] (cycled over the N processes), jitter}
    Every process's stdout/exit is compared with the solitary run of the same spec."""
    n = req["n"]
    specs = [tuple(s) for s in req["specs"]]
    root = tempfile.mkdtemp(prefix="spverif-conc-", dir=SCRATCH)
    try:
        for d in ("in", "cwd", "tmp", "abs"):
            os.makedirs(os.path.join(root, d))
        absdir = os.path.join(root, "abs")
        inputs = {}
        for s in set(specs):
            cls, channel, fmt, ureports, k = s
            data = make_input(cls, k, ureports, absdir)
            p = os.path.join(root, "in", "%s_%s_" % (cls, abs(hash(ureports)) % 9973) + input_name(k))
            if channel == "file":
                if cls == "dir":
                    os.makedirs(p, exist_ok=True)
                elif cls != "missing":
                    with open(p, "wb") as f:
                        f.write(data)
            inputs[s] = (data, p)
        before = listing(root)
        # solitary reference runs, one after the other, in the same directories
        solo = {}
        for s in sorted(set(specs)):
            cls, channel, fmt, ureports, k = s
            data, p = inputs[s]
            r = subprocess.run(argv_for(channel, fmt, "-", p, True), input=(data if channel == "stdin" else b""),
                               capture_output=True, cwd=os.path.join(root, "cwd"),
                               env=child_env(os.path.join(root, "tmp")), timeout=RUN_TIMEOUT)
            solo[s] = (r.returncode, r.stdout)
        procs = []
        for i in range(n):
            s = specs[i % len(specs)]
            cls, channel, fmt, ureports, k = s
            data, p = inputs[s]
            pr = subprocess.Popen(argv_for(channel, fmt, "-", p, True), stdin=subprocess.PIPE, stdout=subprocess.PIPE,
                                  stderr=subprocess.PIPE, cwd=os.path.join(root, "cwd"),
                                  env=child_env(os.path.join(root, "tmp"), jitter=(req.get("jitter", 0) * 1000 + i)))
            procs.append((s, pr, data if channel == "stdin" else b""))
        # feed stdin / collect without serialising the processes
        import threading
        results = [None] * n

        stagger = req.get("stagger_ms", 0) / 1000.0
        chained = bool(req.get("chained"))
        done = [threading.Event() for _ in range(n)]

        def collect(i):
            s, pr, inp = procs[i]
            try:
                if chained and i > 0:
                    # the processes are all running and wait for their input; each gets it only when the one before it has
                    # finished (and cleaned up): deterministic, whatever the load of the machine
                    done[i - 1].wait(RUN_TIMEOUT)
                elif stagger:
                    time.sleep(i * stagger)
                o, e = pr.communicate(inp, timeout=RUN_TIMEOUT)
                results[i] = (pr.returncode, o, e)
            except subprocess.TimeoutExpired:
                pr.kill()
                results[i] = (-9, b"", b"timeout")
            finally:
                done[i].set()
        th = [threading.Thread(target=collect, args=(i,)) for i in range(n)]
        for t in th:
            t.start()
        for t in th:
            t.join()
        after = listing(root)
        left, new = leftover_classes(before, after)
        mism = []
        obs = []
        for i in range(n):
            s = specs[i % len(specs)]
            code, o, e = results[i]
            data = inputs[s][0]
            oc, idc, _rows, _p = classify_stdout(o, s[2], data)
            obs.append("exit %d out %s id %s" % (code, oc, idc))
            if (code, o) != solo[s]:
                mism.append({"proc": i, "spec": list(s), "exit": code, "solo_exit": solo[s][0],
                             "stdout_sha": hashlib.sha256(o).hexdigest(),
                             "solo_sha": hashlib.sha256(solo[s][1]).hexdigest(),
                             "stderr": e[-200:].decode("utf-8", "replace")})
        return {"n": n, "obs": obs, "mismatch": mism[:5], "nmismatch": len(mism), "left": left, "new": new[:6],
                "solo": {"|".join(map(str, s)): "exit %d sha %s" % (c, hashlib.sha256(o).hexdigest()[:12])
                         for s, (c, o) in solo.items()}}
    finally:
        shutil.rmtree(root, ignore_errors=True)


def cli_natural(req):
    """faults that need no injection: a project file that is not valid UTF-8 (Latin-1 comment), and a report nobody reads.
    file channel: the text-mode read in create_auto_report_file fails (= fault point copyRead);
    stdin channel: sys.stdin decodes with surrogateescape, writing the temp copy fails (= stdinWrite)."""
    k = req["k"]
    res = {}
    for channel in ("file", "stdin", "gone", "gone-stdin"):
        root = tempfile.mkdtemp(prefix="spverif-nat-", dir=SCRATCH)
        try:
            for d in ("in", "cwd", "tmp", "abs"):
                os.makedirs(os.path.join(root, d))
            if channel.startswith("gone"):
                # a valid project whose report nobody reads: stdout is a pipe whose read end is closed before the run
                # (= fault point echo: the write of the report fails)
                chan = "stdin" if channel == "gone-stdin" else "file"
                data = base_project(k).encode("utf-8")
                in_path = os.path.join(root, "in", "gone%d.tjp" % k)
                if chan == "file":
                    with open(in_path, "wb") as f:
                        f.write(data)
                before = listing(root)
                rd, wr = os.pipe()
                os.close(rd)
                try:
                    r = subprocess.run(argv_for(chan, req.get("fmt", "json"), "-", in_path, True),
                                       input=(data if chan == "stdin" else b""), stdout=wr, stderr=subprocess.PIPE,
                                       cwd=os.path.join(root, "cwd"), env=child_env(os.path.join(root, "tmp")), timeout=RUN_TIMEOUT)
                finally:
                    os.close(wr)
                left, new = leftover_classes(before, listing(root))
                res[channel] = {"line": "exit %d left %s" % (r.returncode, ",".join(left) or "-"), "new": new[:4],
                                "stdout_bytes": 0, "stderr": r.stderr[-200:].decode("utf-8", "replace")}
                continue
            data = base_project(k).encode("utf-8") + b"# caf\xe9 au lait\n"
            in_path = os.path.join(root, "in", "latin%d.tjp" % k)
            if channel == "file":
                with open(in_path, "wb") as f:
                    f.write(data)
            before = listing(root)
            r = subprocess.run(argv_for(channel, req.get("fmt", "json"), "-", in_path, True),
                               input=(data if channel == "stdin" else b""), capture_output=True,
                               cwd=os.path.join(root, "cwd"), env=child_env(os.path.join(root, "tmp")), timeout=RUN_TIMEOUT)
            left, new = leftover_classes(before, listing(root))
            res[channel] = {"line": "exit %d left %s" % (r.returncode, ",".join(left) or "-"), "new": new[:4],
                            "stdout_bytes": len(r.stdout), "stderr": r.stderr[-200:].decode("utf-8", "replace")}
        finally:
            shutil.rmtree(root, ignore_errors=True)
    return res


OPS = {"cli": op_cli, "cliexits": op_cliexits}
JOPS = {"cli_conc": cli_conc, "cli_natural": cli_natural}
