"""AST -> request for the Lean scheduler model (one scenario projection), and comparison of the
model's answer with the observation of the real code."""
import json
import re
import subprocess
from fractions import Fraction

from . import astutil as A

DAYS = ["mon", "tue", "wed", "thu", "fri", "sat", "sun"]
_TZ = {}


def tz_table(zone, lo=2019, hi=2036):
    """[(utc instant, offset seconds)] from glibc's zdump (independent of Python's zoneinfo);
    first entry = offset in force at the beginning of the range"""
    if zone in _TZ:
        return _TZ[zone]
    import calendar
    import datetime as _dt
    t0 = calendar.timegm((lo, 1, 1, 0, 0, 0))
    first = subprocess.run(["date", "-u", "-d", f"@{t0}", "+%s"], capture_output=True, text=True)
    off0 = subprocess.run(["date", "-d", f"@{t0}", "+%z"], capture_output=True, text=True, env={"TZ": zone, "PATH": "/usr/bin:/bin"}).stdout.strip()
    sign = -1 if off0.startswith("-") else 1
    o0 = sign * (int(off0[1:3]) * 3600 + int(off0[3:5]) * 60)
    tbl = [(t0 - 10 ** 9, o0)]
    out = subprocess.run(["zdump", "-V", "-c", f"{lo},{hi}", zone], capture_output=True, text=True).stdout
    mon = {m: i + 1 for i, m in enumerate(["Jan", "Feb", "Mar", "Apr", "May", "Jun", "Jul", "Aug", "Sep", "Oct", "Nov", "Dec"])}
    for line in out.splitlines():
        m = re.match(r"\S+\s+\w+\s+(\w+)\s+(\d+)\s+(\d+):(\d+):(\d+)\s+(\d+)\s+UT\s+=.*gmtoff=(-?\d+)", line)
        if not m:
            continue
        t = calendar.timegm((int(m.group(6)), mon[m.group(1)], int(m.group(2)), int(m.group(3)), int(m.group(4)), int(m.group(5))))
        off = int(m.group(7))
        if off != tbl[-1][1]:
            tbl.append((t, off))
    _TZ[zone] = tbl
    return tbl


def hours7(specs):
    per = [[] for _ in range(7)]
    for sp in specs:
        for d in sp["days"]:
            per[DAYS.index(d)].extend([list(r) for r in sp["ranges"]])
    return per


def day_iv(a, b):
    return [a, b if (b is not None and b != a) else a + 86400]


def limit_value(hours, G):
    """`int(value / slot_duration_hours)` as the code computes it (double) and exactly"""
    fl = int(float(hours) / (G / 3600.0))
    ex = (Fraction(hours) * 3600 / G).__floor__()
    return fl, ex


class FloatBoundary(Exception):
    pass


def build_request(p, sc_id=None):
    G = p.get("G", 3600)
    res = A.flat_resources(p)
    ridx = {fid: i for i, (fid, r, par) in enumerate(res)}
    local = {}
    for fid, r, par in res:
        local.setdefault(r["id"], ridx[fid])
    shifts = {s["id"]: s for s in p.get("shifts") or []}
    R = []
    for fid, r, par in res:
        lv = []
        provided = False
        for (_ty, a, b) in r.get("leaves") or []:
            lv.append(day_iv(a, b)); provided = True
        for (a, b) in r.get("vacations") or []:
            lv.append(day_iv(a, b)); provided = True
        for (a, d) in r.get("bookings") or []:
            lv.append([a, a + A.gap_seconds(d)]); provided = True
        lims = []
        for kind in ("dailymax", "weeklymax"):
            if (r.get("limits") or {}).get(kind):
                fl, ex = limit_value(A.limit_hours(r["limits"][kind]), G)
                if fl != ex:
                    raise FloatBoundary("limit value")
                lims.append({"weekly": kind == "weeklymax", "value": ex, "res": None})
        e = r.get("eff")
        R.append({"parent": ridx[par] if par is not None else None,
                  "eff": None if e is None else [Fraction(e).numerator, Fraction(e).denominator],
                  "zone": [list(x) for x in tz_table(r["tz"])] if r.get("tz") else None,
                  "hours": hours7(r["wh"]) if r.get("wh") else None,
                  "shift": hours7(shifts[r["shift"]]["wh"]) if r.get("shift") and r["shift"] in shifts else None,
                  "leaves": lv if provided else None, "limits": lims})
    tasks = A.flat_tasks(p)
    tidx = {fid: i for i, (fid, *_r) in enumerate(tasks)}
    # own deps, then inverted precedes appended to the target (declaration order of the sources)
    deps = {fid: [] for fid, *_ in tasks}
    for fid, t, par, _ in tasks:
        for d in t.get("deps") or []:
            if d["target"] in tidx:
                deps[fid].append({"t": tidx[d["target"]], "gap": A.gap_seconds(d.get("gap")), "onstart": bool(d.get("onstart")),
                                  "opts": bool(d.get("gap") or d.get("onstart") or d.get("glen")), "glen": A.glen_seconds(d)})
    for fid, t, par, _ in tasks:
        for d in t.get("prec") or []:
            tg = d["target"]
            if tg in tidx and not any(x["t"] == tidx[fid] for x in deps[tg]):
                deps[tg].append({"t": tidx[fid], "gap": A.gap_seconds(d.get("gap")), "onstart": bool(d.get("onstart")),
                                 "opts": bool(d.get("gap") or d.get("onstart") or d.get("glen")), "glen": A.glen_seconds(d)})
    T = []
    for fid, t, par, _ in tasks:
        ov = A.effective_override(p, t, sc_id) if sc_id else {}
        eff = ov.get("effort", t.get("effort"))
        eh = A.effort_hours(eff) if eff else None
        lims = []
        lim = t.get("limits") or {}
        for kind in ("dailymax", "weeklymax"):
            if lim.get(kind):
                fl, ex = limit_value(A.limit_hours(lim[kind]), G)
                if fl != ex:
                    raise FloatBoundary("limit value")
                for rr in (lim.get("resources") or [None]):
                    lims.append({"weekly": kind == "weeklymax", "value": ex, "res": local.get(rr) if rr else None})
        T.append({"parent": tidx[par] if par is not None else None,
                  "effort": None if eh is None else [eh.numerator, eh.denominator],
                  "alloc": [local[x] for x in t["alloc"] if x in local] if t.get("alloc") else None,
                  "alt": [local[x] for x in (t.get("alt") or []) if x in local],
                  "deps": deps[fid], "prio": t.get("prio"), "start": ov.get("start", t.get("start")),
                  "stop": ov.get("end", t.get("end")), "milestone": bool(t.get("milestone")),
                  "mode": None if not t.get("mode") else (t["mode"] == "asap"), "limits": lims})
    # horizon extension: the code evaluates `int((effort_s / 21600 + gap_s / 86400) * 1.5) + 7` in doubles;
    # where that differs from exact arithmetic the case is a float boundary (not compared)
    eff_eff, eff_deps = {}, {}
    for i, (fid, t, par, _) in enumerate(tasks):
        own_e = T[i]["effort"]
        eff_eff[fid] = own_e if own_e is not None else (eff_eff.get(par) if par is not None else None)
        eff_deps[fid] = deps[fid] if deps[fid] else (eff_deps.get(par, []) if par is not None else [])
    leaves_ = [fid for fid, t, par, _ in tasks if A.is_leaf(t)]
    tot_e_f, tot_g_f = 0.0, 0.0
    tot_e_x, tot_g_x = Fraction(0), Fraction(0)
    for fid in leaves_:
        e_ = eff_eff[fid]
        if e_ is not None and e_[0] != 0:
            ex = Fraction(e_[0], e_[1])
            tot_e_x += ex * 3600
            node = dict((f, t) for f, t, _, _ in tasks)[fid]
            # the float the parser produced: float(num) * multiplier of the effective effort
            src = None
            x = fid
            nodes_ = dict((f, t) for f, t, _, _ in tasks)
            while src is None and x is not None:
                ov = A.effective_override(p, nodes_[x], sc_id) if sc_id else {}
                src = ov.get("effort", nodes_[x].get("effort"))
                x = x.rsplit(".", 1)[0] if "." in x else None
            mult = {"d": 8, "w": 40, "h": 1, "m": 1 / 60, "y": 2080, "min": 1 / 60}[src[1]]
            tot_e_f += (float(src[0]) * mult) * 3600
        for d in eff_deps[fid]:
            if d["opts"] and d["gap"]:
                tot_g_f += d["gap"]
                tot_g_x += d["gap"]
    days_f = int((tot_e_f / (6 * 3600) + tot_g_f / 86400) * 1.5) + 7
    days_x = ((tot_e_x / 21600 + tot_g_x / 86400) * Fraction(3, 2)).__floor__() + 7
    if days_f != days_x and leaves_:
        raise FloatBoundary("horizon days")
    gv = [day_iv(a, b) for (a, b) in p.get("vacations") or []]
    gl = [[a, b if b is not None else a + 86400] for (_ty, a, b) in p.get("leaves") or []]
    return {"op": "sched", "G": G, "start": p["start"], "end": A.end_of(p), "projAlap": p.get("sched") == "alap",
            "gvac": gv, "gleaves": gl, "res": R, "tasks": T}


def compare(p, model, sc_obs, obs_end):
    """list of differences between the model's answer and the observed scenario (canonicalised)"""
    diffs = []
    tasks = A.flat_tasks(p)
    res = A.flat_resources(p)
    if model["end"] != obs_end:
        diffs.append(f"project end: model {model['end']} impl {obs_end}")
    for i, (fid, t, par, _) in enumerate(tasks):
        m = model["tasks"][i]
        o = sc_obs["tasks"].get(fid)
        if o is None:
            diffs.append(f"task {fid} missing in implementation")
            continue
        for k in ("scheduled", "start", "end", "runaway"):
            if m[k] != o[k]:
                diffs.append(f"task {fid}.{k}: model {m[k]} impl {o[k]}")
        if m["forward"] != (o["forward"] is not False):
            diffs.append(f"task {fid}.forward: model {m['forward']} impl {o['forward']}")
    led_m = {}
    for e in model["ledger"]:
        led_m[(e["r"], e["i"])] = e
    led_o = {}
    for ri, (fid, r, par) in enumerate(res):
        for k, e in sc_obs["resources"][fid]["ledger"].items():
            led_o[(ri, int(k))] = e
    tix = {fid: i for i, (fid, *_r) in enumerate(tasks)}
    tol = Fraction(1, 10 ** 6)
    for key in sorted(set(led_m) | set(led_o)):
        a, b = led_m.get(key), led_o.get(key)
        au = Fraction(*a["used"]) if a else Fraction(0)
        bu = Fraction(*b["used"]) if b else Fraction(0)
        if abs(au - bu) > tol:
            diffs.append(f"ledger {key} used: model {float(au)} impl {float(bu)}")
        ua = [(x[0], Fraction(*x[1])) for x in a["usage"]] if a else []
        ub = [(tix.get(x[0], -1), Fraction(*x[1])) for x in b["usage"]] if b else []
        if len(ua) != len(ub) or any(x[0] != y[0] or abs(x[1] - y[1]) > tol for x, y in zip(ua, ub)):
            diffs.append(f"ledger {key} usage: model {[(x, float(y)) for x, y in ua]} impl {[(x, float(y)) for x, y in ub]}")
    # the order in which the loop placed the tasks (ghost order of the C07 theorems)
    if "order" in model and "pick_order" in sc_obs:
        om = [tasks[i][0] if i < len(tasks) else f"#{i}" for i in model["order"]]
        if om != sc_obs["pick_order"]:
            diffs.append(f"placement order: model {om} impl {sc_obs['pick_order']}")
    w_m = set(model["warnings"])
    w_o = {w for w in sc_obs.get("_warnings", []) if w in ("deadlock", "unscheduled_tasks")}
    if w_m != w_o:
        diffs.append(f"warnings: model {sorted(w_m)} impl {sorted(w_o)}")
    return diffs
