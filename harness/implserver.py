"""Runs INSIDE the implementation's interpreter (PYTHONPATH = scratch copy).

Reads one request per line on stdin, writes one answer per line on stdout.  Low-level streams use
the same token lines as the Lean driver and answer in the same canonical format; structured
streams use `J <json>` lines and answer `J <json>`.
"""
import json
import os
import signal
import sys
import traceback
from datetime import datetime, timedelta, date

EPOCH = datetime(1970, 1, 1)


def dt(t):
    return EPOCH + timedelta(seconds=t)


def ts(d):
    delta = d.replace(tzinfo=None) - EPOCH
    return delta.days * 86400 + delta.seconds


class CaseTimeout(Exception):
    pass


def _alarm(signum, frame):
    raise CaseTimeout()


def op_civil(tok):
    d = int(tok[0])
    dd = date(1970, 1, 1) + timedelta(days=d)
    iy, iw, _ = dd.isocalendar()
    return f"{dd.year} {dd.month} {dd.day} {dd.weekday()} {iy} {iw} {(dd - date(1970, 1, 1)).days}"


def _board(s, e, g):
    from scriptplan.scheduler.scoreboard import Scoreboard
    return Scoreboard(dt(s), dt(e), g, None)


def _res(f):
    try:
        return f()
    except IndexError:
        return "IndexError"
    except OverflowError:
        return "Overflow"


def op_idx2t(tok):
    _impl, s, e, g, i, f = tok
    sb = _board(int(s), int(e), int(g))
    return _res(lambda: "ok %d" % ts(sb.idxToDate(int(i), f == "1")))


def op_t2idx(tok):
    _impl, s, e, g, t, f = tok
    sb = _board(int(s), int(e), int(g))
    return _res(lambda: "ok %d" % sb.dateToIdx(dt(int(t)), f == "1"))


def op_size(tok):
    s, e, g = map(int, tok)
    return str(_board(s, e, g).size)


def _proj(s, g):
    from scriptplan.core.project import Project
    p = Project("p", "P", "1")
    p["start"] = dt(s)
    p["timingresolution"] = g
    return p


def op_pidx2t(tok):
    _impl, s, g, i = tok
    p = _proj(int(s), int(g))
    return _res(lambda: "ok %d" % ts(p.idxToDate(int(i))))


def op_pt2idx(tok):
    _impl, s, g, t = tok
    p = _proj(int(s), int(g))
    return _res(lambda: "ok %d" % p.dateToIdx(dt(int(t))))


def op_scan(tok):
    from scriptplan.utils.time import TimeInterval
    _impl, pat, s, e, m = tok
    n = len(pat)
    G = 3600
    # a table of exactly n slots: size = ceil((end-start)/G)+1 = n  <=>  end = start + (n-1)*G
    sb = _board(0, (n - 1) * G, G)
    assert sb.size == n, (sb.size, n)
    for i, c in enumerate(pat):
        sb[i] = c == "1"
    iv = TimeInterval(dt(int(s) * G), dt(int(e) * G))
    r = sb.collectIntervals(iv, int(m) * G, lambda v: bool(v))
    return "iv " + " ".join("%d,%d" % (ts(x.start) // G, ts(x.end) // G) for x in r)


def op_scanw(tok):
    """the same scan for a window whose ends lie inside slots: [s*G + so, e*G + eo)"""
    from scriptplan.utils.time import TimeInterval
    _impl, pat, s, so, e, eo, m = tok
    n = len(pat)
    G = 3600
    sb = _board(0, (n - 1) * G, G)
    assert sb.size == n, (sb.size, n)
    for i, c in enumerate(pat):
        sb[i] = c == "1"
    iv = TimeInterval(dt(int(s) * G + int(so)), dt(int(e) * G + int(eo)))
    r = sb.collectIntervals(iv, int(m) * G, lambda v: bool(v))
    if any(ts(x.start) % G or ts(x.end) % G for x in r):
        return "iv offgrid " + " ".join("%d,%d" % (ts(x.start), ts(x.end)) for x in r)
    return "iv " + " ".join("%d,%d" % (ts(x.start) // G, ts(x.end) // G) for x in r)


OPS = {"civil": op_civil, "idx2t": op_idx2t, "t2idx": op_t2idx, "size": op_size,
       "pidx2t": op_pidx2t, "pt2idx": op_pt2idx, "scan": op_scan, "scanw": op_scanw}
JOPS = {}


def register_json_ops():
    """every harness/implops*.py contributes JOPS (json ops) and OPS (token ops)"""
    import importlib
    here = os.path.dirname(os.path.abspath(__file__))
    sys.path.insert(0, os.path.dirname(here))
    for f in sorted(os.listdir(here)):
        if f.startswith("implops") and f.endswith(".py"):
            mod = importlib.import_module("harness." + f[:-3])
            JOPS.update(getattr(mod, "JOPS", {}))
            OPS.update(getattr(mod, "OPS", {}))


def main():
    register_json_ops()
    # the budget of a case is CPU time of this process (ITIMER_PROF), so that a loaded machine does not turn a slow run
    # into a timeout; wall-clock time is only a backstop (a case that sleeps or waits), eight times as long
    signal.signal(signal.SIGALRM, _alarm)
    signal.signal(signal.SIGPROF, _alarm)
    per_case = float(os.environ.get("VERIF_CASE_TIMEOUT", "20"))
    out = sys.stdout

    def arm(seconds):
        signal.setitimer(signal.ITIMER_PROF, seconds)
        signal.setitimer(signal.ITIMER_REAL, 8 * seconds)

    for line in sys.stdin:
        line = line.rstrip("\n")
        try:
            arm(per_case)
            if line.startswith("J "):
                req = json.loads(line[2:])
                if req.get("budget"):
                    # a bound proportional to the size of the case, computed by the caller
                    arm(max(per_case, float(req["budget"])))
                ans = "J " + json.dumps(JOPS[req["op"]](req), sort_keys=True)
            else:
                tok = line.split()
                ans = OPS[tok[0]](tok[1:]) if tok and tok[0] in OPS else "bad-op"
        except CaseTimeout:
            ans = "Timeout"
        except Exception as e:  # noqa: BLE001 - the crash class is the observable
            ans = "Crash " + json.dumps({"type": type(e).__name__, "msg": str(e)[:300],
                                          "tb": traceback.format_exc()[-1500:]})
        finally:
            signal.setitimer(signal.ITIMER_PROF, 0)
            signal.setitimer(signal.ITIMER_REAL, 0)
        out.write(ans + "\n")
    out.flush()


if __name__ == "__main__":
    main()
