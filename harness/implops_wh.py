"""working-hours ops run inside the implementation (native config = Cython fast path, pure = Python loop)"""
from datetime import datetime, timedelta

MONDAY = datetime(1970, 1, 5)


class _Proj:
    def idxToDate(self, idx):
        return MONDAY + timedelta(minutes=idx)

    def isWorkingTime(self, idx):
        return False


def _wh(hs):
    from scriptplan.core.working_hours import WorkingHours
    wh = WorkingHours(_Proj())
    wh._custom_hours_set = True
    days = hs.split("/")
    for d, field in enumerate(days):
        if field:
            wh._hours[d] = [((int(a) // 60, int(a) % 60), (int(b) // 60, int(b) % 60)) for a, b in (iv.split("-") for iv in field.split(","))]
    return wh


def op_whon(tok):
    _impl, hs, wd, m = tok
    return "1" if _wh(hs).onShift(int(wd) * 1440 + int(m)) else "0"


def op_whdaily(tok):
    hs, wd = tok
    v = _wh(hs).get_daily_hours(int(wd))
    # minutes, exactly, if the float is what minutes/60 gives in double precision
    mins = round(v * 60)
    return str(mins) if mins / 60.0 == v else f"inexact {v!r}"


OPS = {"whon": op_whon, "whdaily": op_whdaily}
