import Properties
/-! The audited list is generated on every run by `harness/core.py:audit()` from the `theorem`
    declarations found under `Properties/` (written to `.lake/AuditGen.lean`).  This file only
    checks that the property library loads. -/
