import Properties
#print axioms SP.C17.placeholder
