import Driver.Common
import Driver.Slots
