import Driver.Common
import Driver.Slots
import Driver.Sched
import Driver.Report
import Driver.Spell
import Driver.Hidden
import Driver.Wh
import Driver.Cli
