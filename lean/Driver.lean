import Driver.Common
import Driver.Slots
import Driver.Cli
