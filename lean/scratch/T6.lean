import Model.Cli
import Proofs.CliClean
namespace SP.Cli
variable {B R : Type}

def accepted (env : Env B R) (c : Config B) (fs0 : FS B R) : Option B :=
  match c.channel with
  | .stdin => if env.blank c.stdin then none else some (env.stdinCopy c.stdin)
  | .file =>
    match fs0 c.inPath with
    | some (.file (.raw b)) => if env.empty b then none else some b
    | _ => none

def expectedExit (env : Env B R) (c : Config B) (fs0 : FS B R) : Nat :=
  match accepted env c fs0 with
  | none => 1
  | some b =>
    if c.channel = .stdin ∧ (c.fault = .stdinMkstemp ∨ c.fault = .stdinWrite) then 2
    else if c.fault = .readInput then 1
    else if c.fault ∈ [Fault.mkdtemp, .copyRead, .mkstempAuto, .copyWrite, .engineRaise, .engineNoOutput] then 2
    else if env.engineOk b = false then 2
    else if c.fault = .readReport then 2
    else
      match c.out with
      | none => if c.fault = .echo then 2 else 0
      | some (p, force) => if (fs0 p).isSome ∧ force = false then 2 else 0

def expectedStdout (env : Env B R) (c : Config B) (fs0 : FS B R) : List (Emitted R) :=
  match accepted env c fs0 with
  | none => []
  | some b =>
    if expectedExit env c fs0 = 0 ∧ c.out = none then
      [⟨c.fmt, (match c.fmt with | .json => some (env.H b) | .csv => none), env.autoBody b c.fmt⟩]
    else []

structure WellFormed (c : Config B) (fs0 : FS B R) : Prop where
  inp : ∃ n, c.inPath = .user n
  raw : ∀ x, fs0 c.inPath = some (.file x) → ∃ b, x = .raw b
  out : ∀ p f, c.out = some (p, f) → ∃ m, p = .user m
  fresh : Fresh c.pid fs0

macro "cli_eval" : tactic => `(tactic|
  simp [run, fuel, iter, step, stepCore, raise, goto, viewOf, tjpNode, tp, Variant.repaired, isFile,
        engine_auto, Exc.code, expectedExit, expectedStdout, accepted, *])

set_option maxHeartbeats 4000000 in
theorem run_contract_stdin (env : Env B R) (c : Config B) (fs0 : FS B R) (hwf : WellFormed c fs0)
    (hch : c.channel = .stdin) :
    (run env .repaired c fs0).1.exit = some (expectedExit env c fs0) ∧
    (run env .repaired c fs0).1.stdout = expectedStdout env c fs0 := by
  have hf1 : ∀ k, fs0 (.tmp c.pid k) = none := fun k => hwf.fresh _ (by simp [owns])
  have hf2 : ∀ f, fs0 (.inDir c.pid f) = none := fun f => hwf.fresh _ (by simp [owns])
  have hwo := hwf.out
  clear hwf
  cases hbl : env.blank c.stdin
  · cases hf : c.fault
    case none =>
      cases hok : env.engineOk (env.stdinCopy c.stdin)
      · sorry
      · cases hout : c.out with
        | none => sorry
        | some o =>
          obtain ⟨p, force⟩ := o
          obtain ⟨m, rfl⟩ := hwo p force hout
          clear hwo
          cases force
          · cases hex : fs0 (.user m)
            · cli_eval
              sorry
            · sorry
          · sorry
    all_goals sorry
  · sorry
end SP.Cli
