import Proofs.CliContract
namespace SP.Cli
variable {B R : Type}

/-- what `accepted = some b` and well-formedness say, in the form the step lemmas use -/
structure Acc (env : Env B R) (c : Config B) (fs0 : FS B R) (b : B) (n : Nat) : Prop where
  hn : c.inPath = .user n
  hout : c.out = none
  hf1 : ∀ k, fs0 (.tmp c.pid k) = none
  hf2 : ∀ f, fs0 (.inDir c.pid f) = none
  hS : c.channel = .stdin → env.blank c.stdin = false ∧ env.stdinCopy c.stdin = b
  hFi : c.channel = .file → fs0 (.user n) = some (.file (.raw b)) ∧ env.empty b = false
  hacc : accepted env c fs0 = some b

set_option maxHeartbeats 2000000 in
theorem good_step_validate (env : Env B R) (c : Config B) (fs0 : FS B R) (b : B) {n : Nat} (a : Acc env c fs0 b n)
    (fs : FS B R) (finSet fautoSet dirSet : Bool) (orig : Option B) (hash : Option String) (sel : Option Name)
    (content : Option (Emitted R)) (stdout : List (Emitted R)) (exit : Option Nat) (trace : List (Op B R))
    (h : Good env c fs0 b (⟨.validate, finSet, fautoSet, dirSet, orig, hash, sel, content, stdout, exit, trace⟩, fs)) :
    Good env c fs0 b (step env .repaired c (⟨.validate, finSet, fautoSet, dirSet, orig, hash, sel, content, stdout, exit, trace⟩, fs)) := by
  obtain ⟨hn, hout, hf1, hf2, hS, hFi, hacc⟩ := a
  simp only [Good] at h
  obtain ⟨hch, hst, rfl⟩ := h
  obtain ⟨hnode, hemp⟩ := hFi hch
  simp [step, stepCore, goto, viewOf, hn, hnode, hemp, Good, Passed, tjpNode, hch, hst, hf2]

set_option maxHeartbeats 2000000 in
theorem good_step_hash (env : Env B R) (c : Config B) (fs0 : FS B R) (b : B) {n : Nat} (a : Acc env c fs0 b n)
    (fs : FS B R) (finSet fautoSet dirSet : Bool) (orig : Option B) (hash : Option String) (sel : Option Name)
    (content : Option (Emitted R)) (stdout : List (Emitted R)) (exit : Option Nat) (trace : List (Op B R))
    (h : Good env c fs0 b (⟨.hash, finSet, fautoSet, dirSet, orig, hash, sel, content, stdout, exit, trace⟩, fs)) :
    Good env c fs0 b (step env .repaired c (⟨.hash, finSet, fautoSet, dirSet, orig, hash, sel, content, stdout, exit, trace⟩, fs)) := by
  obtain ⟨hn, hout, hf1, hf2, hS, hFi, hacc⟩ := a
  simp only [Good] at h
  obtain ⟨hp, hst, hnd, htj⟩ := h
  simp only [Passed] at hp
  by_cases hfl : c.fault = .readInput
  · simp [step, stepCore, raise, hfl, Variant.repaired, Good, Exc.code, expectedExit, expectedStdout, hacc, hst, hp]
  · simp [step, stepCore, hfl, htj, Good, Passed, hst, hp]
    exact hnd

set_option maxHeartbeats 2000000 in
theorem good_step_autoA (env : Env B R) (c : Config B) (fs0 : FS B R) (b : B) {n : Nat} (a : Acc env c fs0 b n)
    (fs : FS B R) (finSet fautoSet dirSet : Bool) (orig : Option B) (hash : Option String) (sel : Option Name)
    (content : Option (Emitted R)) (stdout : List (Emitted R)) (exit : Option Nat) (trace : List (Op B R))
    (h : Good env c fs0 b (⟨.autoA, finSet, fautoSet, dirSet, orig, hash, sel, content, stdout, exit, trace⟩, fs)) :
    Good env c fs0 b (step env .repaired c (⟨.autoA, finSet, fautoSet, dirSet, orig, hash, sel, content, stdout, exit, trace⟩, fs)) := by
  obtain ⟨hn, hout, hf1, hf2, hS, hFi, hacc⟩ := a
  simp only [Good] at h
  obtain ⟨hp, hst, hnd, htj, hh⟩ := h
  simp only [Passed] at hp
  by_cases hfl : c.fault = .copyRead
  · simp [step, stepCore, raise, hfl, Variant.repaired, Good, Exc.code, expectedExit, expectedStdout, hacc, hst, hp, midFaults]
  · simp [step, stepCore, hfl, htj, Variant.repaired, Good, Passed, hst, hp, hh]
    exact hnd

set_option maxHeartbeats 2000000 in
theorem good_step_engine (env : Env B R) (c : Config B) (fs0 : FS B R) (b : B) {n : Nat} (a : Acc env c fs0 b n)
    (fs : FS B R) (finSet fautoSet dirSet : Bool) (orig : Option B) (hash : Option String) (sel : Option Name)
    (content : Option (Emitted R)) (stdout : List (Emitted R)) (exit : Option Nat) (trace : List (Op B R))
    (h : Good env c fs0 b (⟨.engine, finSet, fautoSet, dirSet, orig, hash, sel, content, stdout, exit, trace⟩, fs)) :
    Good env c fs0 b (step env .repaired c (⟨.engine, finSet, fautoSet, dirSet, orig, hash, sel, content, stdout, exit, trace⟩, fs)) := by
  obtain ⟨hn, hout, hf1, hf2, hS, hFi, hacc⟩ := a
  simp only [Good] at h
  obtain ⟨hp, hst, hnd, hh, hfa⟩ := h
  simp only [Passed] at hp
  by_cases h1 : c.fault = .engineRaise
  · simp [step, stepCore, raise, h1, Good, Exc.code, expectedExit, expectedStdout, hacc, hst, hp, midFaults]
  · by_cases h2 : c.fault = .engineNoOutput
    · simp [step, stepCore, goto, h1, h2, Good, Passed, hst, hp, hh]
      exact hnd
    · cases hok : env.engineOk b
      · simp [step, stepCore, raise, viewOf, h1, h2, hfa, hok, Good, Exc.code, expectedExit, expectedStdout, hacc, hst, hp, midFaults]
      · simp [step, stepCore, viewOf, h1, h2, hfa, hok, Good, Passed, hst, hp, hh, engine_auto, autoNode]

set_option maxHeartbeats 2000000 in
theorem good_step_select (env : Env B R) (c : Config B) (fs0 : FS B R) (b : B) {n : Nat} (a : Acc env c fs0 b n)
    (fs : FS B R) (finSet fautoSet dirSet : Bool) (orig : Option B) (hash : Option String) (sel : Option Name)
    (content : Option (Emitted R)) (stdout : List (Emitted R)) (exit : Option Nat) (trace : List (Op B R))
    (h : Good env c fs0 b (⟨.select, finSet, fautoSet, dirSet, orig, hash, sel, content, stdout, exit, trace⟩, fs)) :
    Good env c fs0 b (step env .repaired c (⟨.select, finSet, fautoSet, dirSet, orig, hash, sel, content, stdout, exit, trace⟩, fs)) := by
  obtain ⟨hn, hout, hf1, hf2, hS, hFi, hacc⟩ := a
  simp only [Good] at h
  obtain ⟨hp, hst, hh, hd⟩ := h
  simp only [Passed] at hp
  rcases hd with ⟨h2, hnd⟩ | ⟨h2, hok, hau⟩
  · simp [step, stepCore, raise, viewOf, Variant.repaired, hnd, isFile, h2, Good, Exc.code, expectedExit, expectedStdout, hacc, hst, hp, midFaults]
  · simp [step, stepCore, viewOf, Variant.repaired, hau, autoNode, isFile, h2, hok, Good, Passed, hst, hp, hh]

end SP.Cli
