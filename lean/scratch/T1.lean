import Model.Cli
open SP.Cli
variable {B R : Type}

theorem t1 (env : Env B R) (c : Config B) (fs : FS B R) (hc : c.channel = .stdin) (hb : env.blank c.stdin = true) :
    (run env .repaired c fs).1.exit = some 1 := by
  simp [run, fuel, iter, step, stepCore, hc, hb, raise, goto, applyOps, Exc.code]

theorem t2 (env : Env B R) (c : Config B) (fs : FS B R) (hc : c.channel = .stdin) (hb : env.blank c.stdin = false)
    (hf : c.fault = .none) (hok : env.engineOk (env.stdinCopy c.stdin) = true) (ho : c.out = none) :
    (run env .repaired c fs).1.exit = some 0 := by
  simp [run, fuel, iter, step, stepCore, hc, hb, hf, ho, hok, raise, goto, applyOps, Exc.code, Variant.repaired, viewOf, tjpNode, tp, Op.apply]
