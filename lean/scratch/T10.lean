import Proofs.CliContract
set_option linter.unusedSimpArgs false
namespace SP.Cli
variable {B R : Type}
/-- **The contract.**  For every environment, every input and every fault point: the exit code and
    the bytes on stdout of a solitary `plan report` run (stdout target) are the ones in the table. -/
theorem run_contract (env : Env B R) (c : Config B) (fs0 : FS B R) (hwf : WellFormed c fs0) :
    (run env .repaired c fs0).1.exit = some (expectedExit env c fs0) ∧
    (run env .repaired c fs0).1.stdout = expectedStdout env c fs0 := by
  cases hacc : accepted env c fs0 with
  | none =>
    have := run_rejected env c fs0 hwf hacc
    simp [expectedExit, expectedStdout, hacc, this]
  | some b =>
    obtain ⟨n, a⟩ := acc_of_accepted env c fs0 b hwf hacc
    have hg : Good env c fs0 b (run env .repaired c fs0) := good_run env c fs0 b a
    have hx : (run env .repaired c fs0).1.pc = .exited := run_exited env .repaired c fs0
    generalize run env .repaired c fs0 = s at hg hx
    obtain ⟨l, fs⟩ := s
    simp only at hx
    simp only [Good, hx] at hg
    exact hg

end SP.Cli
