import Model.Cli
open SP.Cli
variable {B R : Type}

@[simp] theorem applyOps_nil (fs : FS B R) : applyOps fs [] = fs := rfl
@[simp] theorem applyOps_cons (fs : FS B R) (o : Op B R) (os : List (Op B R)) :
    applyOps fs (o :: os) = applyOps (o.apply fs) os := rfl
@[simp] theorem apply_set (fs : FS B R) (p q : Path) (n : Node B R) :
    (Op.set p n).apply fs q = if q = p then some n else fs q := rfl
@[simp] theorem apply_del (fs : FS B R) (p q : Path) :
    (Op.del p : Op B R).apply fs q = if q = p then none else fs q := rfl
@[simp] theorem apply_rmtree (fs : FS B R) (pid : Nat) (q : Path) :
    (Op.rmtree pid : Op B R).apply fs q = if inTree pid q then none else fs q := rfl

theorem engine_auto (env : Env B R) (v : Variant) (pid : Nat) (b : B) (rid : Name) (f : Fmt) (fs : FS B R)
    (h : kindOf rid ≠ .escaping) :
    applyOps fs (engineOps env v pid b rid f) (.inDir pid (fileName rid f)) = some (.file (.report rid (env.autoBody b f))) := by
  unfold engineOps applyOps
  simp only [List.foldl_append, List.foldl_cons, List.foldl_nil]
  have : outPath pid rid f = .inDir pid (fileName rid f) := by
    unfold outPath; split <;> simp_all
  simp [Op.apply, this]

theorem t2 (env : Env B R) (c : Config B) (fs : FS B R) (hc : c.channel = .stdin) (hb : env.blank c.stdin = false)
    (hf : c.fault = .none) (hok : env.engineOk (env.stdinCopy c.stdin) = true) (ho : c.out = none) (hfmt : c.fmt = .json)
    (hk : kindOf c.rid ≠ .escaping) :
    (run env .repaired c fs).1.exit = some 0 := by
  simp [run, fuel, iter, step, stepCore, hc, hb, hf, ho, hok, hfmt, raise, goto, Exc.code, Variant.repaired, viewOf, tjpNode, tp, engine_auto, hk, isFile]
