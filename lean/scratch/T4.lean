import Model.Cli
import Proofs.Cli
namespace SP.Cli
variable {B R : Type}

def Fresh (pid : Nat) (fs0 : FS B R) : Prop := ∀ p, owns pid p = true → fs0 p = none

def beforeRmIn : Pc → Bool
  | .h3 _ | .exited => false
  | _ => true
def beforeRmAuto : Pc → Bool
  | .rmIn | .exited | .h2 _ | .h3 _ => false
  | _ => true
def beforeRmDir : Pc → Bool
  | .rmAuto | .rmIn | .exited => false
  | _ => true
def afterMkDir : Pc → Bool
  | .autoA | .autoB | .autoC | .engine => true
  | _ => false

structure Clean (c : Config B) (fs0 : FS B R) (s : Local B R × FS B R) : Prop where
  frame : ∀ p, owns c.pid p = false → s.2 p = fs0 p
  fin : s.2 (tp c .stdinCopy) ≠ none → s.1.finSet = true ∧ beforeRmIn s.1.pc = true
  fauto : s.2 (tp c .autoCopy) ≠ none → (s.1.fautoSet = true ∧ beforeRmAuto s.1.pc = true) ∨ s.1.pc = .autoC
  dir : ∀ p, inTree c.pid p = true → s.2 p ≠ none → s.1.dirSet = true ∧ beforeRmDir s.1.pc = true
  flag : afterMkDir s.1.pc = true → s.1.dirSet = true
  flagIn : s.1.pc = .stdinWrite → s.1.finSet = true

set_option maxHeartbeats 1000000 in
theorem clean_step_fin (env : Env B R) (v : Variant) (c : Config B) (fs0 : FS B R) (s : Local B R × FS B R)
    (hv : v.f28 = true) (hout : c.out = none) (hfp : ∀ b, Footprint env v c.pid b c.rid c.fmt)
    (h : Clean c fs0 s) : (step env v c s).2 (tp c .stdinCopy) ≠ none → (step env v c s).1.finSet = true ∧ beforeRmIn (step env v c s).1.pc = true := by
  obtain ⟨l, fs⟩ := s
  obtain ⟨hF, hA, hB, hC, hD, hE⟩ := h
  have het : ∀ b k fs, applyOps fs (engineOps env v c.pid b c.rid c.fmt) (.tmp c.pid k) = fs (.tmp c.pid k) :=
    fun b k fs => engine_tmp env v c b fs (hfp b) k
  obtain ⟨pc, finSet, fautoSet, dirSet, orig, hash, sel, content, stdout, exit, trace⟩ := l
  simp only at hA hB hC hD hE
  cases pc <;> simp only [step, stepCore, raise, goto, hv, hout]
  all_goals (repeat' split)
  all_goals (try (simp_all [tp, beforeRmIn, beforeRmAuto, beforeRmDir, afterMkDir, inTree, het]; done))
  all_goals trace_state
  all_goals sorry

set_option maxHeartbeats 1000000 in
theorem clean_step_fauto (env : Env B R) (v : Variant) (c : Config B) (fs0 : FS B R) (s : Local B R × FS B R)
    (hv : v.f28 = true) (hout : c.out = none) (hfp : ∀ b, Footprint env v c.pid b c.rid c.fmt)
    (h : Clean c fs0 s) : (step env v c s).2 (tp c .autoCopy) ≠ none → ((step env v c s).1.fautoSet = true ∧ beforeRmAuto (step env v c s).1.pc = true) ∨ (step env v c s).1.pc = .autoC := by
  obtain ⟨l, fs⟩ := s
  obtain ⟨hF, hA, hB, hC, hD, hE⟩ := h
  have het : ∀ b k fs, applyOps fs (engineOps env v c.pid b c.rid c.fmt) (.tmp c.pid k) = fs (.tmp c.pid k) :=
    fun b k fs => engine_tmp env v c b fs (hfp b) k
  obtain ⟨pc, finSet, fautoSet, dirSet, orig, hash, sel, content, stdout, exit, trace⟩ := l
  simp only at hA hB hC hD hE
  cases pc <;> simp only [step, stepCore, raise, goto, hv, hout]
  all_goals (repeat' split)
  all_goals (try (simp_all [tp, beforeRmIn, beforeRmAuto, beforeRmDir, afterMkDir, inTree, het]; done))
  all_goals trace_state
  all_goals sorry

set_option maxHeartbeats 1000000 in
theorem clean_step_dir (env : Env B R) (v : Variant) (c : Config B) (fs0 : FS B R) (s : Local B R × FS B R)
    (hv : v.f28 = true) (hout : c.out = none) (hfp : ∀ b, Footprint env v c.pid b c.rid c.fmt)
    (h : Clean c fs0 s) : ∀ p, inTree c.pid p = true → (step env v c s).2 p ≠ none → (step env v c s).1.dirSet = true ∧ beforeRmDir (step env v c s).1.pc = true := by
  obtain ⟨l, fs⟩ := s
  obtain ⟨hF, hA, hB, hC, hD, hE⟩ := h
  have het : ∀ b k fs, applyOps fs (engineOps env v c.pid b c.rid c.fmt) (.tmp c.pid k) = fs (.tmp c.pid k) :=
    fun b k fs => engine_tmp env v c b fs (hfp b) k
  obtain ⟨pc, finSet, fautoSet, dirSet, orig, hash, sel, content, stdout, exit, trace⟩ := l
  simp only at hA hB hC hD hE
  cases pc <;> simp only [step, stepCore, raise, goto, hv, hout]
  all_goals (repeat' split)
  all_goals (
    intro p hp
    have h1 : p ≠ Path.tmp c.pid .stdinCopy := by intro e; rw [e] at hp; simp [inTree] at hp
    have h2 : p ≠ Path.tmp c.pid .autoCopy := by intro e; rw [e] at hp; simp [inTree] at hp
    have h3 := hC p hp
    clear hC)
  all_goals (try (simp_all [tp, beforeRmIn, beforeRmAuto, beforeRmDir, afterMkDir]; done))
  all_goals trace_state
  all_goals sorry

set_option maxHeartbeats 1000000 in
theorem clean_step_flag (env : Env B R) (v : Variant) (c : Config B) (fs0 : FS B R) (s : Local B R × FS B R)
    (hv : v.f28 = true) (hout : c.out = none) (hfp : ∀ b, Footprint env v c.pid b c.rid c.fmt)
    (h : Clean c fs0 s) : afterMkDir (step env v c s).1.pc = true → (step env v c s).1.dirSet = true := by
  obtain ⟨l, fs⟩ := s
  obtain ⟨hF, hA, hB, hC, hD, hE⟩ := h
  have het : ∀ b k fs, applyOps fs (engineOps env v c.pid b c.rid c.fmt) (.tmp c.pid k) = fs (.tmp c.pid k) :=
    fun b k fs => engine_tmp env v c b fs (hfp b) k
  obtain ⟨pc, finSet, fautoSet, dirSet, orig, hash, sel, content, stdout, exit, trace⟩ := l
  simp only at hA hB hC hD hE
  cases pc <;> simp only [step, stepCore, raise, goto, hv, hout]
  all_goals (repeat' split)
  all_goals (try (simp_all [tp, beforeRmIn, beforeRmAuto, beforeRmDir, afterMkDir, inTree, het]; done))
  all_goals trace_state
  all_goals sorry

set_option maxHeartbeats 1000000 in
theorem clean_step_flagIn (env : Env B R) (v : Variant) (c : Config B) (fs0 : FS B R) (s : Local B R × FS B R)
    (hv : v.f28 = true) (hout : c.out = none) (hfp : ∀ b, Footprint env v c.pid b c.rid c.fmt)
    (h : Clean c fs0 s) : (step env v c s).1.pc = .stdinWrite → (step env v c s).1.finSet = true := by
  obtain ⟨l, fs⟩ := s
  obtain ⟨hF, hA, hB, hC, hD, hE⟩ := h
  have het : ∀ b k fs, applyOps fs (engineOps env v c.pid b c.rid c.fmt) (.tmp c.pid k) = fs (.tmp c.pid k) :=
    fun b k fs => engine_tmp env v c b fs (hfp b) k
  obtain ⟨pc, finSet, fautoSet, dirSet, orig, hash, sel, content, stdout, exit, trace⟩ := l
  simp only at hA hB hC hD hE
  cases pc <;> simp only [step, stepCore, raise, goto, hv, hout]
  all_goals (repeat' split)
  all_goals (try (simp_all [tp, beforeRmIn, beforeRmAuto, beforeRmDir, afterMkDir, inTree, het]; done))
  all_goals trace_state
  all_goals sorry

end SP.Cli
