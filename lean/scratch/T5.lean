import Model.Cli
import Proofs.CliClean
open SP.Cli

def wEnv : Env Nat String :=
  { H := fun _ => "h", blank := fun _ => false, empty := fun _ => false, stdinCopy := id,
    engineOk := fun _ => true,
    reports := fun b => if b = 1 then [⟨['z', 'z'], ['.', '.', '/', 'e'], [.json]⟩] else [],
    autoBody := fun _ _ => "auto", userBody := fun _ _ _ => "user" }

def wFs : FS Nat String := fun p => if p = .user 0 then some (.file (.raw 1)) else none

def wCfg (fault : Fault) : Config Nat :=
  { pid := 0, channel := .file, inPath := .user 0, stdin := 0, fmt := .json, out := none,
    tok := [1, 2], fault := fault, dirOrder := [] }

theorem t1 : (run wEnv .pinned (wCfg .none) wFs).2 (.outside ['.', '.', '/', 'e', '.', 'j', 's', 'o', 'n']) ≠ none := by
  decide
theorem t2 : (run wEnv .pinned (wCfg .copyRead) wFs).2 (.tmp 0 .autoCopy) ≠ none := by
  decide
