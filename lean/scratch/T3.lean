import Model.Cli
open SP.Cli

theorem hexDigit_ne_slash (d : Fin 16) : hexDigit d ≠ '/' := by revert d; decide
theorem hexDigit_ne_dot (d : Fin 16) : hexDigit d ≠ '.' := by revert d; decide

theorem comps_noslash (n : Name) (h : '/' ∉ n) : comps n = [n] := by
  induction n with
  | nil => rfl
  | cons c cs ih =>
    have hc : c ≠ '/' := by intro e; apply h; simp [e]
    have hcs : '/' ∉ cs := by intro e; apply h; simp [e]
    simp [comps, ih hcs, hc]

theorem slash_notin_rid {B : Type} (c : Config B) : '/' ∉ c.rid := by
  intro h
  simp only [Config.rid, List.mem_append, List.mem_map] at h
  rcases h with h | ⟨d, _, hd⟩
  · revert h; decide
  · exact hexDigit_ne_slash d hd

theorem kindOf_rid {B : Type} (c : Config B) : kindOf c.rid = .plain := by
  have hs := slash_notin_rid c
  have hh : c.rid.head? = some 'p' := by simp [Config.rid, ridPrefix]
  have hd : c.rid ≠ ['.', '.'] := by
    intro e; rw [e] at hh; simp at hh
  unfold kindOf
  rw [comps_noslash _ hs, hh]
  simp [hs, hd]
