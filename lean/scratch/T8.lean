import Proofs.CliContract
namespace SP.Cli
variable {B R : Type}

/-- what `accepted = some b` and well-formedness say, in the form the step lemmas use -/
structure Acc (env : Env B R) (c : Config B) (fs0 : FS B R) (b : B) (n : Nat) : Prop where
  hn : c.inPath = .user n
  hout : c.out = none
  hf1 : ∀ k, fs0 (.tmp c.pid k) = none
  hf2 : ∀ f, fs0 (.inDir c.pid f) = none
  hS : c.channel = .stdin → env.blank c.stdin = false ∧ env.stdinCopy c.stdin = b
  hFi : c.channel = .file → fs0 (.user n) = some (.file (.raw b)) ∧ env.empty b = false
  hacc : accepted env c fs0 = some b

set_option maxHeartbeats 2000000 in
theorem good_step_validate (env : Env B R) (c : Config B) (fs0 : FS B R) (b : B) {n : Nat} (a : Acc env c fs0 b n)
    (fs : FS B R) (finSet fautoSet dirSet : Bool) (orig : Option B) (hash : Option String) (sel : Option Name)
    (content : Option (Emitted R)) (stdout : List (Emitted R)) (exit : Option Nat) (trace : List (Op B R))
    (h : Good env c fs0 b (⟨.validate, finSet, fautoSet, dirSet, orig, hash, sel, content, stdout, exit, trace⟩, fs)) :
    Good env c fs0 b (step env .repaired c (⟨.validate, finSet, fautoSet, dirSet, orig, hash, sel, content, stdout, exit, trace⟩, fs)) := by
  obtain ⟨hn, hout, hf1, hf2, hS, hFi, hacc⟩ := a
  simp only [Good] at h
  simp only [step, stepCore, raise, goto, hout, Variant.repaired]
  repeat' split
  all_goals (try (simp_all [Good, Passed, tjpNode, viewOf, tp, expectedExit, expectedStdout, midFaults, Exc.code,
      engine_auto, autoNode, emitted, isFile]; done))
  all_goals trace_state
  all_goals sorry

set_option maxHeartbeats 2000000 in
theorem good_step_engine (env : Env B R) (c : Config B) (fs0 : FS B R) (b : B) {n : Nat} (a : Acc env c fs0 b n)
    (fs : FS B R) (finSet fautoSet dirSet : Bool) (orig : Option B) (hash : Option String) (sel : Option Name)
    (content : Option (Emitted R)) (stdout : List (Emitted R)) (exit : Option Nat) (trace : List (Op B R))
    (h : Good env c fs0 b (⟨.engine, finSet, fautoSet, dirSet, orig, hash, sel, content, stdout, exit, trace⟩, fs)) :
    Good env c fs0 b (step env .repaired c (⟨.engine, finSet, fautoSet, dirSet, orig, hash, sel, content, stdout, exit, trace⟩, fs)) := by
  obtain ⟨hn, hout, hf1, hf2, hS, hFi, hacc⟩ := a
  simp only [Good] at h
  simp only [step, stepCore, raise, goto, hout, Variant.repaired]
  repeat' split
  all_goals (try (simp_all [Good, Passed, tjpNode, viewOf, tp, expectedExit, expectedStdout, midFaults, Exc.code,
      engine_auto, autoNode, emitted, isFile]; done))
  all_goals trace_state
  all_goals sorry

set_option maxHeartbeats 2000000 in
theorem good_step_select (env : Env B R) (c : Config B) (fs0 : FS B R) (b : B) {n : Nat} (a : Acc env c fs0 b n)
    (fs : FS B R) (finSet fautoSet dirSet : Bool) (orig : Option B) (hash : Option String) (sel : Option Name)
    (content : Option (Emitted R)) (stdout : List (Emitted R)) (exit : Option Nat) (trace : List (Op B R))
    (h : Good env c fs0 b (⟨.select, finSet, fautoSet, dirSet, orig, hash, sel, content, stdout, exit, trace⟩, fs)) :
    Good env c fs0 b (step env .repaired c (⟨.select, finSet, fautoSet, dirSet, orig, hash, sel, content, stdout, exit, trace⟩, fs)) := by
  obtain ⟨hn, hout, hf1, hf2, hS, hFi, hacc⟩ := a
  simp only [Good] at h
  simp only [step, stepCore, raise, goto, hout, Variant.repaired]
  repeat' split
  all_goals (try (simp_all [Good, Passed, tjpNode, viewOf, tp, expectedExit, expectedStdout, midFaults, Exc.code,
      engine_auto, autoNode, emitted, isFile]; done))
  all_goals trace_state
  all_goals sorry

end SP.Cli
