import Proofs.CliContract
namespace SP.Cli
variable {B R : Type}
set_option diagnostics true in
set_option maxHeartbeats 20000 in
theorem x2 (env : Env B R) (c : Config B) (fs0 : FS B R) (b : B) (n : Nat) (a : Acc env c fs0 b n) : True := by
  have hg := good_run env c fs0 b a
  trivial
end SP.Cli
