import Proofs.CliContract
namespace SP.Cli
variable {B R : Type}

/-- what `accepted = some b` and well-formedness say, in the form the step lemmas use -/
structure Acc (env : Env B R) (c : Config B) (fs0 : FS B R) (b : B) (n : Nat) : Prop where
  hn : c.inPath = .user n
  hout : c.out = none
  hf1 : ∀ k, fs0 (.tmp c.pid k) = none
  hf2 : ∀ f, fs0 (.inDir c.pid f) = none
  hS : c.channel = .stdin → env.blank c.stdin = false ∧ env.stdinCopy c.stdin = b
  hFi : c.channel = .file → fs0 (.user n) = some (.file (.raw b)) ∧ env.empty b = false
  hacc : accepted env c fs0 = some b

set_option maxHeartbeats 2000000 in
theorem good_step_start (env : Env B R) (c : Config B) (fs0 : FS B R) (b : B) {n : Nat} (a : Acc env c fs0 b n)
    (fs : FS B R) (finSet fautoSet dirSet : Bool) (orig : Option B) (hash : Option String) (sel : Option Name)
    (content : Option (Emitted R)) (stdout : List (Emitted R)) (exit : Option Nat) (trace : List (Op B R))
    (h : Good env c fs0 b (⟨.start, finSet, fautoSet, dirSet, orig, hash, sel, content, stdout, exit, trace⟩, fs)) :
    Good env c fs0 b (step env .repaired c (⟨.start, finSet, fautoSet, dirSet, orig, hash, sel, content, stdout, exit, trace⟩, fs)) := by
  obtain ⟨hn, hout, hf1, hf2, hS, hFi, hacc⟩ := a
  simp only [Good] at h
  simp only [step, stepCore, raise, goto, hout, Variant.repaired]
  repeat' split
  all_goals (try (simp_all [Good, Passed, tjpNode, viewOf, tp, expectedExit, expectedStdout, midFaults, Exc.code,
      engine_auto, autoNode, emitted, isFile]; done))
  all_goals trace_state
  all_goals sorry

set_option maxHeartbeats 2000000 in
theorem good_step_stdinMk (env : Env B R) (c : Config B) (fs0 : FS B R) (b : B) {n : Nat} (a : Acc env c fs0 b n)
    (fs : FS B R) (finSet fautoSet dirSet : Bool) (orig : Option B) (hash : Option String) (sel : Option Name)
    (content : Option (Emitted R)) (stdout : List (Emitted R)) (exit : Option Nat) (trace : List (Op B R))
    (h : Good env c fs0 b (⟨.stdinMk, finSet, fautoSet, dirSet, orig, hash, sel, content, stdout, exit, trace⟩, fs)) :
    Good env c fs0 b (step env .repaired c (⟨.stdinMk, finSet, fautoSet, dirSet, orig, hash, sel, content, stdout, exit, trace⟩, fs)) := by
  obtain ⟨hn, hout, hf1, hf2, hS, hFi, hacc⟩ := a
  simp only [Good] at h
  simp only [step, stepCore, raise, goto, hout, Variant.repaired]
  repeat' split
  all_goals (try (simp_all [Good, Passed, tjpNode, viewOf, tp, expectedExit, expectedStdout, midFaults, Exc.code,
      engine_auto, autoNode, emitted, isFile]; done))
  all_goals trace_state
  all_goals sorry

set_option maxHeartbeats 2000000 in
theorem good_step_stdinWrite (env : Env B R) (c : Config B) (fs0 : FS B R) (b : B) {n : Nat} (a : Acc env c fs0 b n)
    (fs : FS B R) (finSet fautoSet dirSet : Bool) (orig : Option B) (hash : Option String) (sel : Option Name)
    (content : Option (Emitted R)) (stdout : List (Emitted R)) (exit : Option Nat) (trace : List (Op B R))
    (h : Good env c fs0 b (⟨.stdinWrite, finSet, fautoSet, dirSet, orig, hash, sel, content, stdout, exit, trace⟩, fs)) :
    Good env c fs0 b (step env .repaired c (⟨.stdinWrite, finSet, fautoSet, dirSet, orig, hash, sel, content, stdout, exit, trace⟩, fs)) := by
  obtain ⟨hn, hout, hf1, hf2, hS, hFi, hacc⟩ := a
  simp only [Good] at h
  simp only [step, stepCore, raise, goto, hout, Variant.repaired]
  repeat' split
  all_goals (try (simp_all [Good, Passed, tjpNode, viewOf, tp, expectedExit, expectedStdout, midFaults, Exc.code,
      engine_auto, autoNode, emitted, isFile]; done))
  all_goals trace_state
  all_goals sorry

set_option maxHeartbeats 2000000 in
theorem good_step_validate (env : Env B R) (c : Config B) (fs0 : FS B R) (b : B) {n : Nat} (a : Acc env c fs0 b n)
    (fs : FS B R) (finSet fautoSet dirSet : Bool) (orig : Option B) (hash : Option String) (sel : Option Name)
    (content : Option (Emitted R)) (stdout : List (Emitted R)) (exit : Option Nat) (trace : List (Op B R))
    (h : Good env c fs0 b (⟨.validate, finSet, fautoSet, dirSet, orig, hash, sel, content, stdout, exit, trace⟩, fs)) :
    Good env c fs0 b (step env .repaired c (⟨.validate, finSet, fautoSet, dirSet, orig, hash, sel, content, stdout, exit, trace⟩, fs)) := by
  obtain ⟨hn, hout, hf1, hf2, hS, hFi, hacc⟩ := a
  simp only [Good] at h
  simp only [step, stepCore, raise, goto, hout, Variant.repaired]
  repeat' split
  all_goals (try (simp_all [Good, Passed, tjpNode, viewOf, tp, expectedExit, expectedStdout, midFaults, Exc.code,
      engine_auto, autoNode, emitted, isFile]; done))
  all_goals trace_state
  all_goals sorry

set_option maxHeartbeats 2000000 in
theorem good_step_hash (env : Env B R) (c : Config B) (fs0 : FS B R) (b : B) {n : Nat} (a : Acc env c fs0 b n)
    (fs : FS B R) (finSet fautoSet dirSet : Bool) (orig : Option B) (hash : Option String) (sel : Option Name)
    (content : Option (Emitted R)) (stdout : List (Emitted R)) (exit : Option Nat) (trace : List (Op B R))
    (h : Good env c fs0 b (⟨.hash, finSet, fautoSet, dirSet, orig, hash, sel, content, stdout, exit, trace⟩, fs)) :
    Good env c fs0 b (step env .repaired c (⟨.hash, finSet, fautoSet, dirSet, orig, hash, sel, content, stdout, exit, trace⟩, fs)) := by
  obtain ⟨hn, hout, hf1, hf2, hS, hFi, hacc⟩ := a
  simp only [Good] at h
  simp only [step, stepCore, raise, goto, hout, Variant.repaired]
  repeat' split
  all_goals (try (simp_all [Good, Passed, tjpNode, viewOf, tp, expectedExit, expectedStdout, midFaults, Exc.code,
      engine_auto, autoNode, emitted, isFile]; done))
  all_goals trace_state
  all_goals sorry

set_option maxHeartbeats 2000000 in
theorem good_step_mkOutDir (env : Env B R) (c : Config B) (fs0 : FS B R) (b : B) {n : Nat} (a : Acc env c fs0 b n)
    (fs : FS B R) (finSet fautoSet dirSet : Bool) (orig : Option B) (hash : Option String) (sel : Option Name)
    (content : Option (Emitted R)) (stdout : List (Emitted R)) (exit : Option Nat) (trace : List (Op B R))
    (h : Good env c fs0 b (⟨.mkOutDir, finSet, fautoSet, dirSet, orig, hash, sel, content, stdout, exit, trace⟩, fs)) :
    Good env c fs0 b (step env .repaired c (⟨.mkOutDir, finSet, fautoSet, dirSet, orig, hash, sel, content, stdout, exit, trace⟩, fs)) := by
  obtain ⟨hn, hout, hf1, hf2, hS, hFi, hacc⟩ := a
  simp only [Good] at h
  simp only [step, stepCore, raise, goto, hout, Variant.repaired]
  repeat' split
  all_goals (try (simp_all [Good, Passed, tjpNode, viewOf, tp, expectedExit, expectedStdout, midFaults, Exc.code,
      engine_auto, autoNode, emitted, isFile]; done))
  all_goals trace_state
  all_goals sorry

set_option maxHeartbeats 2000000 in
theorem good_step_autoA (env : Env B R) (c : Config B) (fs0 : FS B R) (b : B) {n : Nat} (a : Acc env c fs0 b n)
    (fs : FS B R) (finSet fautoSet dirSet : Bool) (orig : Option B) (hash : Option String) (sel : Option Name)
    (content : Option (Emitted R)) (stdout : List (Emitted R)) (exit : Option Nat) (trace : List (Op B R))
    (h : Good env c fs0 b (⟨.autoA, finSet, fautoSet, dirSet, orig, hash, sel, content, stdout, exit, trace⟩, fs)) :
    Good env c fs0 b (step env .repaired c (⟨.autoA, finSet, fautoSet, dirSet, orig, hash, sel, content, stdout, exit, trace⟩, fs)) := by
  obtain ⟨hn, hout, hf1, hf2, hS, hFi, hacc⟩ := a
  simp only [Good] at h
  simp only [step, stepCore, raise, goto, hout, Variant.repaired]
  repeat' split
  all_goals (try (simp_all [Good, Passed, tjpNode, viewOf, tp, expectedExit, expectedStdout, midFaults, Exc.code,
      engine_auto, autoNode, emitted, isFile]; done))
  all_goals trace_state
  all_goals sorry

set_option maxHeartbeats 2000000 in
theorem good_step_autoB (env : Env B R) (c : Config B) (fs0 : FS B R) (b : B) {n : Nat} (a : Acc env c fs0 b n)
    (fs : FS B R) (finSet fautoSet dirSet : Bool) (orig : Option B) (hash : Option String) (sel : Option Name)
    (content : Option (Emitted R)) (stdout : List (Emitted R)) (exit : Option Nat) (trace : List (Op B R))
    (h : Good env c fs0 b (⟨.autoB, finSet, fautoSet, dirSet, orig, hash, sel, content, stdout, exit, trace⟩, fs)) :
    Good env c fs0 b (step env .repaired c (⟨.autoB, finSet, fautoSet, dirSet, orig, hash, sel, content, stdout, exit, trace⟩, fs)) := by
  obtain ⟨hn, hout, hf1, hf2, hS, hFi, hacc⟩ := a
  simp only [Good] at h
  simp only [step, stepCore, raise, goto, hout, Variant.repaired]
  repeat' split
  all_goals (try (simp_all [Good, Passed, tjpNode, viewOf, tp, expectedExit, expectedStdout, midFaults, Exc.code,
      engine_auto, autoNode, emitted, isFile]; done))
  all_goals trace_state
  all_goals sorry

set_option maxHeartbeats 2000000 in
theorem good_step_autoC (env : Env B R) (c : Config B) (fs0 : FS B R) (b : B) {n : Nat} (a : Acc env c fs0 b n)
    (fs : FS B R) (finSet fautoSet dirSet : Bool) (orig : Option B) (hash : Option String) (sel : Option Name)
    (content : Option (Emitted R)) (stdout : List (Emitted R)) (exit : Option Nat) (trace : List (Op B R))
    (h : Good env c fs0 b (⟨.autoC, finSet, fautoSet, dirSet, orig, hash, sel, content, stdout, exit, trace⟩, fs)) :
    Good env c fs0 b (step env .repaired c (⟨.autoC, finSet, fautoSet, dirSet, orig, hash, sel, content, stdout, exit, trace⟩, fs)) := by
  obtain ⟨hn, hout, hf1, hf2, hS, hFi, hacc⟩ := a
  simp only [Good] at h
  simp only [step, stepCore, raise, goto, hout, Variant.repaired]
  repeat' split
  all_goals (try (simp_all [Good, Passed, tjpNode, viewOf, tp, expectedExit, expectedStdout, midFaults, Exc.code,
      engine_auto, autoNode, emitted, isFile]; done))
  all_goals trace_state
  all_goals sorry

set_option maxHeartbeats 2000000 in
theorem good_step_engine (env : Env B R) (c : Config B) (fs0 : FS B R) (b : B) {n : Nat} (a : Acc env c fs0 b n)
    (fs : FS B R) (finSet fautoSet dirSet : Bool) (orig : Option B) (hash : Option String) (sel : Option Name)
    (content : Option (Emitted R)) (stdout : List (Emitted R)) (exit : Option Nat) (trace : List (Op B R))
    (h : Good env c fs0 b (⟨.engine, finSet, fautoSet, dirSet, orig, hash, sel, content, stdout, exit, trace⟩, fs)) :
    Good env c fs0 b (step env .repaired c (⟨.engine, finSet, fautoSet, dirSet, orig, hash, sel, content, stdout, exit, trace⟩, fs)) := by
  obtain ⟨hn, hout, hf1, hf2, hS, hFi, hacc⟩ := a
  simp only [Good] at h
  simp only [step, stepCore, raise, goto, hout, Variant.repaired]
  repeat' split
  all_goals (try (simp_all [Good, Passed, tjpNode, viewOf, tp, expectedExit, expectedStdout, midFaults, Exc.code,
      engine_auto, autoNode, emitted, isFile]; done))
  all_goals trace_state
  all_goals sorry

set_option maxHeartbeats 2000000 in
theorem good_step_select (env : Env B R) (c : Config B) (fs0 : FS B R) (b : B) {n : Nat} (a : Acc env c fs0 b n)
    (fs : FS B R) (finSet fautoSet dirSet : Bool) (orig : Option B) (hash : Option String) (sel : Option Name)
    (content : Option (Emitted R)) (stdout : List (Emitted R)) (exit : Option Nat) (trace : List (Op B R))
    (h : Good env c fs0 b (⟨.select, finSet, fautoSet, dirSet, orig, hash, sel, content, stdout, exit, trace⟩, fs)) :
    Good env c fs0 b (step env .repaired c (⟨.select, finSet, fautoSet, dirSet, orig, hash, sel, content, stdout, exit, trace⟩, fs)) := by
  obtain ⟨hn, hout, hf1, hf2, hS, hFi, hacc⟩ := a
  simp only [Good] at h
  simp only [step, stepCore, raise, goto, hout, Variant.repaired]
  repeat' split
  all_goals (try (simp_all [Good, Passed, tjpNode, viewOf, tp, expectedExit, expectedStdout, midFaults, Exc.code,
      engine_auto, autoNode, emitted, isFile]; done))
  all_goals trace_state
  all_goals sorry

set_option maxHeartbeats 2000000 in
theorem good_step_readRep (env : Env B R) (c : Config B) (fs0 : FS B R) (b : B) {n : Nat} (a : Acc env c fs0 b n)
    (fs : FS B R) (finSet fautoSet dirSet : Bool) (orig : Option B) (hash : Option String) (sel : Option Name)
    (content : Option (Emitted R)) (stdout : List (Emitted R)) (exit : Option Nat) (trace : List (Op B R))
    (h : Good env c fs0 b (⟨.readRep, finSet, fautoSet, dirSet, orig, hash, sel, content, stdout, exit, trace⟩, fs)) :
    Good env c fs0 b (step env .repaired c (⟨.readRep, finSet, fautoSet, dirSet, orig, hash, sel, content, stdout, exit, trace⟩, fs)) := by
  obtain ⟨hn, hout, hf1, hf2, hS, hFi, hacc⟩ := a
  simp only [Good] at h
  simp only [step, stepCore, raise, goto, hout, Variant.repaired]
  repeat' split
  all_goals (try (simp_all [Good, Passed, tjpNode, viewOf, tp, expectedExit, expectedStdout, midFaults, Exc.code,
      engine_auto, autoNode, emitted, isFile]; done))
  all_goals trace_state
  all_goals sorry

set_option maxHeartbeats 2000000 in
theorem good_step_emit (env : Env B R) (c : Config B) (fs0 : FS B R) (b : B) {n : Nat} (a : Acc env c fs0 b n)
    (fs : FS B R) (finSet fautoSet dirSet : Bool) (orig : Option B) (hash : Option String) (sel : Option Name)
    (content : Option (Emitted R)) (stdout : List (Emitted R)) (exit : Option Nat) (trace : List (Op B R))
    (h : Good env c fs0 b (⟨.emit, finSet, fautoSet, dirSet, orig, hash, sel, content, stdout, exit, trace⟩, fs)) :
    Good env c fs0 b (step env .repaired c (⟨.emit, finSet, fautoSet, dirSet, orig, hash, sel, content, stdout, exit, trace⟩, fs)) := by
  obtain ⟨hn, hout, hf1, hf2, hS, hFi, hacc⟩ := a
  simp only [Good] at h
  simp only [step, stepCore, raise, goto, hout, Variant.repaired]
  repeat' split
  all_goals (try (simp_all [Good, Passed, tjpNode, viewOf, tp, expectedExit, expectedStdout, midFaults, Exc.code,
      engine_auto, autoNode, emitted, isFile]; done))
  all_goals trace_state
  all_goals sorry

set_option maxHeartbeats 2000000 in
theorem good_step_rmOut (env : Env B R) (c : Config B) (fs0 : FS B R) (b : B) {n : Nat} (a : Acc env c fs0 b n)
    (fs : FS B R) (finSet fautoSet dirSet : Bool) (orig : Option B) (hash : Option String) (sel : Option Name)
    (content : Option (Emitted R)) (stdout : List (Emitted R)) (exit : Option Nat) (trace : List (Op B R))
    (h : Good env c fs0 b (⟨.rmOut, finSet, fautoSet, dirSet, orig, hash, sel, content, stdout, exit, trace⟩, fs)) :
    Good env c fs0 b (step env .repaired c (⟨.rmOut, finSet, fautoSet, dirSet, orig, hash, sel, content, stdout, exit, trace⟩, fs)) := by
  obtain ⟨hn, hout, hf1, hf2, hS, hFi, hacc⟩ := a
  simp only [Good] at h
  simp only [step, stepCore, raise, goto, hout, Variant.repaired]
  repeat' split
  all_goals (try (simp_all [Good, Passed, tjpNode, viewOf, tp, expectedExit, expectedStdout, midFaults, Exc.code,
      engine_auto, autoNode, emitted, isFile]; done))
  all_goals trace_state
  all_goals sorry

set_option maxHeartbeats 2000000 in
theorem good_step_rmAuto (env : Env B R) (c : Config B) (fs0 : FS B R) (b : B) {n : Nat} (a : Acc env c fs0 b n)
    (fs : FS B R) (finSet fautoSet dirSet : Bool) (orig : Option B) (hash : Option String) (sel : Option Name)
    (content : Option (Emitted R)) (stdout : List (Emitted R)) (exit : Option Nat) (trace : List (Op B R))
    (h : Good env c fs0 b (⟨.rmAuto, finSet, fautoSet, dirSet, orig, hash, sel, content, stdout, exit, trace⟩, fs)) :
    Good env c fs0 b (step env .repaired c (⟨.rmAuto, finSet, fautoSet, dirSet, orig, hash, sel, content, stdout, exit, trace⟩, fs)) := by
  obtain ⟨hn, hout, hf1, hf2, hS, hFi, hacc⟩ := a
  simp only [Good] at h
  simp only [step, stepCore, raise, goto, hout, Variant.repaired]
  repeat' split
  all_goals (try (simp_all [Good, Passed, tjpNode, viewOf, tp, expectedExit, expectedStdout, midFaults, Exc.code,
      engine_auto, autoNode, emitted, isFile]; done))
  all_goals trace_state
  all_goals sorry

set_option maxHeartbeats 2000000 in
theorem good_step_rmIn (env : Env B R) (c : Config B) (fs0 : FS B R) (b : B) {n : Nat} (a : Acc env c fs0 b n)
    (fs : FS B R) (finSet fautoSet dirSet : Bool) (orig : Option B) (hash : Option String) (sel : Option Name)
    (content : Option (Emitted R)) (stdout : List (Emitted R)) (exit : Option Nat) (trace : List (Op B R))
    (h : Good env c fs0 b (⟨.rmIn, finSet, fautoSet, dirSet, orig, hash, sel, content, stdout, exit, trace⟩, fs)) :
    Good env c fs0 b (step env .repaired c (⟨.rmIn, finSet, fautoSet, dirSet, orig, hash, sel, content, stdout, exit, trace⟩, fs)) := by
  obtain ⟨hn, hout, hf1, hf2, hS, hFi, hacc⟩ := a
  simp only [Good] at h
  simp only [step, stepCore, raise, goto, hout, Variant.repaired]
  repeat' split
  all_goals (try (simp_all [Good, Passed, tjpNode, viewOf, tp, expectedExit, expectedStdout, midFaults, Exc.code,
      engine_auto, autoNode, emitted, isFile]; done))
  all_goals trace_state
  all_goals sorry

set_option maxHeartbeats 2000000 in
theorem good_step_h1 (env : Env B R) (c : Config B) (fs0 : FS B R) (b : B) {n : Nat} (a : Acc env c fs0 b n) (e : Exc)
    (fs : FS B R) (finSet fautoSet dirSet : Bool) (orig : Option B) (hash : Option String) (sel : Option Name)
    (content : Option (Emitted R)) (stdout : List (Emitted R)) (exit : Option Nat) (trace : List (Op B R))
    (h : Good env c fs0 b (⟨.h1 e, finSet, fautoSet, dirSet, orig, hash, sel, content, stdout, exit, trace⟩, fs)) :
    Good env c fs0 b (step env .repaired c (⟨.h1 e, finSet, fautoSet, dirSet, orig, hash, sel, content, stdout, exit, trace⟩, fs)) := by
  obtain ⟨hn, hout, hf1, hf2, hS, hFi, hacc⟩ := a
  simp only [Good] at h
  simp only [step, stepCore, raise, goto, hout, Variant.repaired]
  repeat' split
  all_goals (try (simp_all [Good, Passed, tjpNode, viewOf, tp, expectedExit, expectedStdout, midFaults, Exc.code,
      engine_auto, autoNode, emitted, isFile]; done))
  all_goals trace_state
  all_goals sorry

set_option maxHeartbeats 2000000 in
theorem good_step_h2 (env : Env B R) (c : Config B) (fs0 : FS B R) (b : B) {n : Nat} (a : Acc env c fs0 b n) (e : Exc)
    (fs : FS B R) (finSet fautoSet dirSet : Bool) (orig : Option B) (hash : Option String) (sel : Option Name)
    (content : Option (Emitted R)) (stdout : List (Emitted R)) (exit : Option Nat) (trace : List (Op B R))
    (h : Good env c fs0 b (⟨.h2 e, finSet, fautoSet, dirSet, orig, hash, sel, content, stdout, exit, trace⟩, fs)) :
    Good env c fs0 b (step env .repaired c (⟨.h2 e, finSet, fautoSet, dirSet, orig, hash, sel, content, stdout, exit, trace⟩, fs)) := by
  obtain ⟨hn, hout, hf1, hf2, hS, hFi, hacc⟩ := a
  simp only [Good] at h
  simp only [step, stepCore, raise, goto, hout, Variant.repaired]
  repeat' split
  all_goals (try (simp_all [Good, Passed, tjpNode, viewOf, tp, expectedExit, expectedStdout, midFaults, Exc.code,
      engine_auto, autoNode, emitted, isFile]; done))
  all_goals trace_state
  all_goals sorry

set_option maxHeartbeats 2000000 in
theorem good_step_h3 (env : Env B R) (c : Config B) (fs0 : FS B R) (b : B) {n : Nat} (a : Acc env c fs0 b n) (e : Exc)
    (fs : FS B R) (finSet fautoSet dirSet : Bool) (orig : Option B) (hash : Option String) (sel : Option Name)
    (content : Option (Emitted R)) (stdout : List (Emitted R)) (exit : Option Nat) (trace : List (Op B R))
    (h : Good env c fs0 b (⟨.h3 e, finSet, fautoSet, dirSet, orig, hash, sel, content, stdout, exit, trace⟩, fs)) :
    Good env c fs0 b (step env .repaired c (⟨.h3 e, finSet, fautoSet, dirSet, orig, hash, sel, content, stdout, exit, trace⟩, fs)) := by
  obtain ⟨hn, hout, hf1, hf2, hS, hFi, hacc⟩ := a
  simp only [Good] at h
  simp only [step, stepCore, raise, goto, hout, Variant.repaired]
  repeat' split
  all_goals (try (simp_all [Good, Passed, tjpNode, viewOf, tp, expectedExit, expectedStdout, midFaults, Exc.code,
      engine_auto, autoNode, emitted, isFile]; done))
  all_goals trace_state
  all_goals sorry

set_option maxHeartbeats 2000000 in
theorem good_step_exited (env : Env B R) (c : Config B) (fs0 : FS B R) (b : B) {n : Nat} (a : Acc env c fs0 b n)
    (fs : FS B R) (finSet fautoSet dirSet : Bool) (orig : Option B) (hash : Option String) (sel : Option Name)
    (content : Option (Emitted R)) (stdout : List (Emitted R)) (exit : Option Nat) (trace : List (Op B R))
    (h : Good env c fs0 b (⟨.exited, finSet, fautoSet, dirSet, orig, hash, sel, content, stdout, exit, trace⟩, fs)) :
    Good env c fs0 b (step env .repaired c (⟨.exited, finSet, fautoSet, dirSet, orig, hash, sel, content, stdout, exit, trace⟩, fs)) := by
  obtain ⟨hn, hout, hf1, hf2, hS, hFi, hacc⟩ := a
  simp only [Good] at h
  simp only [step, stepCore, raise, goto, hout, Variant.repaired]
  repeat' split
  all_goals (try (simp_all [Good, Passed, tjpNode, viewOf, tp, expectedExit, expectedStdout, midFaults, Exc.code,
      engine_auto, autoNode, emitted, isFile]; done))
  all_goals trace_state
  all_goals sorry

end SP.Cli
