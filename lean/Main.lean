import Driver.Slots
import Driver.Wh
import Driver.Sched
import Driver.Report
import Driver.Spell
import Driver.Hidden
import Driver.Cli
/-!
Line-protocol driver: one request per stdin line, one answer per stdout line.
Unknown or ill-formed requests are answered `bad-op` (never defaulted).
Each `Driver/X.lean` contributes `(commands, handler)`; `dispatch` picks by the first token.
-/
open SPD

def handlers : List (List String × (List String → String)) := [
  (slotsCmds, handleSlots),
  (whCmds, handleWh),
  (reportCmds, handleReports),
  (spellCmds, handleSpell),
  (hiddenCmds, handleHidden),
  (cliCmds, handleCli)
]

def dispatch (toks : List String) : String :=
  match toks with
  | [] => "bad-op"
  | c :: _ =>
    match handlers.find? (fun h => h.1.contains c) with
    | some h => h.2 toks
    | none => "bad-op"

partial def loop (h : IO.FS.Stream) (out : IO.FS.Stream) : IO Unit := do
  let line ← h.getLine
  if line.isEmpty then return ()
  if line.startsWith "J " then
    out.putStrLn (handleJson jsonOps (line.drop 2).toString)
  else
    let toks := (line.trimAscii.toString.splitOn " ").filter (· ≠ "")
    out.putStrLn (dispatch toks)
  loop h out

def main : IO Unit := do
  let stdin ← IO.getStdin
  let stdout ← IO.getStdout
  loop stdin stdout
  stdout.flush
