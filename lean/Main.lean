import Model
/-!
Line-protocol driver: one request per stdin line, one answer per stdout line.
Unknown or ill-formed requests are answered `bad-op` (never defaulted).
-/
open SP

def parseInt? (s : String) : Option Int := s.toInt?
def parseNat? (s : String) : Option Nat := s.toNat?

def showRes (r : Res Int) : String :=
  match r with
  | .ok v => s!"ok {v}"
  | .indexError => "IndexError"
  | .overflow => "Overflow"

def parseBool? (s : String) : Option Bool :=
  if s == "1" then some true else if s == "0" then some false else none

def parsePat (s : String) : Option (List Bool) :=
  s.toList.mapM (fun c => if c == '1' then some true else if c == '0' then some false else none)

def showPairs (l : List (Int × Int)) : String :=
  " ".intercalate (l.map (fun p => s!"{p.1},{p.2}"))

def ints? (l : List String) : Option (List Int) := l.mapM parseInt?

def handle (toks : List String) : String :=
  match toks with
  | ["civil", d] =>
    match parseInt? d with
    | some d =>
      let (y, m, dd) := civilFromDays d
      let (iy, iw) := isoYearWeek d
      s!"{y} {m} {dd} {weekdayOfDay d} {iy} {iw} {daysFromCivil y m dd}"
    | none => "bad-op"
  | ["idx2t", impl, s, e, g, i, f] =>
    match ints? [s, e, g, i], parseBool? f with
    | some [s, e, g, i], some f =>
      if g ≤ 0 then "bad-op" else
      let b : Board := ⟨s, e, g⟩
      if impl == "py" then showRes (pyIdxToDate b i f)
      else if impl == "cy" then showRes (cyIdxToDate b i f) else "bad-op"
    | _, _ => "bad-op"
  | ["t2idx", impl, s, e, g, t, f] =>
    match ints? [s, e, g, t], parseBool? f with
    | some [s, e, g, t], some f =>
      if g ≤ 0 then "bad-op" else
      let b : Board := ⟨s, e, g⟩
      if impl == "py" then showRes (pyDateToIdx b t f)
      else if impl == "cy" then showRes (cyDateToIdx b t f) else "bad-op"
    | _, _ => "bad-op"
  | ["size", s, e, g] =>
    match ints? [s, e, g] with
    | some [s, e, g] => if g ≤ 0 then "bad-op" else s!"{(Board.mk s e g).size}"
    | _ => "bad-op"
  | ["pidx2t", impl, s, g, i] =>
    match ints? [s, g, i] with
    | some [s, g, i] =>
      if g ≤ 0 then "bad-op" else
      if impl == "py" then s!"ok {(Grid.mk s g).time i}"
      else if impl == "cy" then showRes (cyProjIdxToDate ⟨s, g⟩ i) else "bad-op"
    | _ => "bad-op"
  | ["pt2idx", impl, s, g, t] =>
    match ints? [s, g, t] with
    | some [s, g, t] =>
      if g ≤ 0 then "bad-op" else
      if impl == "py" then s!"ok {(Grid.mk s g).idx t}"
      else if impl == "cy" then showRes (cyProjDateToIdx ⟨s, g⟩ t) else "bad-op"
    | _ => "bad-op"
  | ["scan", impl, pat, s, e, m] =>
    match parsePat pat, ints? [s, e], parseNat? m with
    | some pat, some [s, e], some m =>
      if m == 0 || s < 0 || e < 0 || s ≥ pat.length || e ≥ pat.length then "bad-op" else
      if impl == "py" then "iv " ++ showPairs (pyScan pat s e m)
      else if impl == "cy" then "iv " ++ showPairs (cyScan pat s e m) else "bad-op"
    | _, _, _ => "bad-op"
  | _ => "bad-op"

partial def loop (h : IO.FS.Stream) (out : IO.FS.Stream) : IO Unit := do
  let line ← h.getLine
  if line.isEmpty then return ()
  let toks := (line.trimAscii.toString.splitOn " ").filter (· ≠ "")
  out.putStrLn (handle toks)
  loop h out

def main : IO Unit := do
  let stdin ← IO.getStdin
  let stdout ← IO.getStdout
  loop stdin stdout
  stdout.flush
