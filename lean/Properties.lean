import Properties.C17
import Properties.C13
import Properties.C18
import Properties.C01
import Properties.C02
import Properties.C05
import Properties.C10
import Properties.C15
