import Properties.C17
import Properties.C13
