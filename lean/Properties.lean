import Properties.C17
import Properties.C13
import Properties.C20
import Properties.C19
