import Properties.C17
