import Model.Time
import Model.Slots
import Model.Scan
import Model.Ledger
import Model.Calendar
import Model.Sched
import Model.Report
