import Model.Time
import Model.Slots
import Model.Scan
import Model.Cli
