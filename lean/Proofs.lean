import Proofs.Slots
import Proofs.Scan
import Proofs.Resolve
import Proofs.Macro
