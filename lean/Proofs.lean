import Proofs.Slots
import Proofs.Scan
import Proofs.Report
import Proofs.Ledger
import Proofs.SchedInv
import Proofs.WFCheck
import Proofs.Resolve
import Proofs.Macro
