import Proofs.Slots
import Proofs.Scan
