import Proofs.Slots
import Proofs.Scan
import Proofs.Report
import Proofs.Ledger
import Proofs.SchedInv
import Proofs.WFCheck
