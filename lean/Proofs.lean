import Proofs.Slots
import Proofs.Scan
import Proofs.Cli
import Proofs.CliClean
import Proofs.CliContract
import Proofs.CliConc
