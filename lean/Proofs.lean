import Proofs.Slots
import Proofs.Scan
import Proofs.Hidden
