import Model
import Proofs.Order
import Proofs.Walk
import Proofs.Visits
import Proofs.EarliestFit
import Proofs.TeamFit
import Proofs.AltFit
import Proofs.EffortGlobal
import Proofs.WFCheck
/-!
C07 — ASAP schedules equal the priority-ordered earliest-fit schedule.

The two halves of the list-scheduling rule, as theorems about the model:
 * order: tasks are considered in (priority descending, declaration order) and the first one whose
   predecessors are all scheduled is placed next;
 * earliest fit: the placed task starts at its dependency bound's slot and, slot by slot, books exactly
   where its resource is available (on shift, time left, within limits).
The equality with an independent reference implementation of the rule on the core dialect (and
exhaustively on a small bounded universe) is the correspondence part of the check.
-/
namespace SP.C07
open SP

theorem order_by_priority (e : Env) (l : List Nat) :
    (l.mergeSort (prioLe e)).Pairwise (fun a b => prioLe e a b = true) := todo_sorted e l

/-- ties are broken by declaration order -/
theorem tie_by_declaration (e : Env) (a b : Nat) (hp : (e.taskD a).prio = (e.taskD b).prio) :
    prioLe e a b = decide (a ≤ b) := by
  unfold prioLe
  simp [hp]

theorem next_is_first_ready (e : Env) (σ : St) (tasks : List Nat) (t : Nat)
    (h : tasks.find? (fun t => ready e σ t) = some t) :
    ready e σ t = true ∧ ∃ pre post, tasks = pre ++ t :: post ∧ ∀ x ∈ pre, ready e σ x = false :=
  picks_first_ready e σ tasks t h

/-- ready (forward) = all predecessors — own, inherited, via precedes — are scheduled -/
theorem ready_iff (e : Env) (σ : St) (t : Nat) (hf : (σ.tst t).forward = true) :
    ready e σ t = true ↔ ∀ dp ∈ (e.taskD t).allDeps, (σ.tst dp.target).scheduled = true := by
  unfold ready asapReady
  simp [hf, List.all_eq_true]

/-- earliest fit, start: the walk starts in the slot of the dependency bound -/
theorem starts_at_bound (e : Env) (wf : WF e) (x : Int) (hx : e.start ≤ x) :
    ((e.time (cursorOf e x).1 : Int) : Rat) + (cursorOf e x).2 = (x : Rat) := cursorOf_exact e wf x hx

/-- earliest fit, step: one slot at a time, none skipped -/
theorem one_slot_at_a_time (w w1 : Walk) : (advance true w w1).cur = w1.cur + 1 := rfl

/-- earliest fit, booking rule: at a visited slot the resource is booked iff it is available and the
    task's limits allow it -/
theorem books_iff_feasible (e : Env) (σ : St) (t : Nat) (w : Walk) (r : Nat) :
    (bookResource e σ t w r) =
      if available e (reserveStep σ w r) r w.cur && taskLimitsOk e (reserveStep σ w r) t w.cur r
      then bookSlot e (reserveStep σ w r) r w.cur t else (reserveStep σ w r, 0) := rfl

/-- in the core dialect (whole-slot efforts) a booking takes the whole free slot -/
theorem whole_slot (G : Int) (hG : (1 : Rat) / 1000000 ≤ (G : Rat)) : availSecs G {} = (G : Rat) := by
  unfold availSecs
  simp only [Slot.used]
  grind

/-! ### one task, end to end: the earliest-fit rule -/

/-- **the second clause of C07 for one task** (`TaskScenario.schedule()`, forward mode, single selected resource `r`, no
    start of its own), started in any state `σ` that satisfies the scheduler invariant and holds nothing of the task on `r`:
    if it succeeds then
    (1) the walk starts in the slot of the task's dependency bound (`boundOf`: the latest of the project / inherited start
        and every predecessor's (start | end) + gap);
    (2) it visits the slots after it one by one, none skipped;
    (3) a visited slot is booked for the task **iff** the resource was available there and the limits allowed it at that
        moment — so the task takes exactly the earliest eligible slots at or after its bound;
    (4) the seconds it holds, weighted by the efficiency, add up to exactly its effort (so it stops as soon as it can);
    (5) its reported start is at or after the bound. -/
theorem task_takes_earliest_slots (e : Env) (wf : WF e) (σ : St) (t r : Nat)
    (hinv : Inv e σ) (hel : Elig e t r) (hnp : (e.taskD t).startProvided = false)
    (hb : t < σ.ts.size) (hf : (σ.tst t).forward = true) (hnd : (σ.tst t).done = false)
    (hclean : ∀ i, usageOf (σ.led.get r i).usage t = none) (hok : (scheduleTask e σ t).2 = true) :
    let visits := walkVisits e t (e.size.toNat + 3) (σ.setT t (σ.tst t))
      { cur := (initCursor e σ t).1, offset := (initCursor e σ t).2 }
    (initCursor e σ t).1 = (cursorOf e (boundOf e σ t)).1 ∧
    (∀ k (hk : k < visits.length), (visits[k]).2.cur = (initCursor e σ t).1 + k) ∧
    (∀ p ∈ visits, (usageOf ((scheduleTask e σ t).1.led.get r p.2.cur).usage t ≠ none ↔ gate e p.1 t p.2 r = true)) ∧
    (∃ vis : List Int, vis.Nodup ∧ (∀ i, i ∉ vis → usageOf ((scheduleTask e σ t).1.led.get r i).usage t = none) ∧
      sumOver (scheduleTask e σ t).1.led r t vis / 3600 * (e.resD r).eff = (e.taskD t).effort) ∧
    (∃ v, ((scheduleTask e σ t).1.tst t).start = some v ∧ boundOf e σ t ≤ v) := by
  intro visits
  refine ⟨by rw [initCursor_forward e σ t hf hnp], ?_, ?_, ?_, ?_⟩
  · intro k hk
    exact walkVisits_consecutive e t _ _ _ k hk
  · exact scheduleTask_no_idle e wf σ t r hinv hel hb hf hnd hclean hok
  · exact scheduleTask_exact e wf σ t r hinv hel.leaf hel.alloc hel.nomile hel.effort hel.sel hnd hclean hok
  · exact scheduleTask_start_ge e wf σ t hb hf hnp hel.alloc hel.nomile hel.effort hnd hok

/-! ### whole projects: a list schedule -/

/-- **C07, the earliest-fit clause, for whole projects** (`Proofs/EarliestFit`): after scheduling ANY well-formed project there
    is a linear order of the tasks — the order in which the loop placed them, latest first — such that every forward effort
    task `t` reported as scheduled, without a start of its own, with the single selected leaf resource `r`, occurs in it
    (`order = post ++ t :: pre`, `pre` being the tasks placed before `t`), and between the slot of `t`'s dependency bound
    (from the FINAL dates of its predecessors) and any slot in which `t` is booked, every slot in which `r` is on shift and
    not on leave carries `t` itself, or a task placed BEFORE `t`, or is refused by a limit of the resource / a group / the
    task / a container (counter at the limit in the final state).  So `t` took the earliest slots at or after its bound in
    which its resource is working, unbooked by earlier tasks and within limits — no such slot is empty, and none went to a
    task placed later: the schedule is the list schedule of that order.  (Which order it is — priority, ties in declaration order, first ready — is the step-level
    `order_by_priority`, `next_is_first_ready`, and for the lowest priority the two-run theorem of C09.) -/
theorem earliest_fit_in_placement_order (e : Env) (wf : WF e) (tr : Tree e) :
    ∃ order : List Nat, ∀ t r, EligU e t r → ((runScenario e).tst t).scheduled = true → ((runScenario e).tst t).forward = true →
      ∃ post pre, order = post ++ t :: pre ∧
        ∀ L, usageOf ((runScenario e).led.get r L).usage t ≠ none →
          ∀ i, boundSlot e (runScenario e) t ≤ i → i ≤ L → e.onShift r i = true → e.leaveMark r i = false →
            usageOf ((runScenario e).led.get r i).usage t ≠ none ∨
            (∃ t' ∈ pre, usageOf ((runScenario e).led.get r i).usage t' ≠ none) ∨
            Exhausted e (runScenario e) t r i := by
  obtain ⟨order, h⟩ := runScenario_doneFit e wf tr
  exact ⟨order, fun t r hel hs hf =>
    h t r hel (runScenario_scheduled_done e t ⟨hel.el.leaf, hel.el.effort, hel.el.nomile⟩ hs) hf⟩

/-- the same for the environment elaborated from a project description, under the decidable checks -/
theorem earliest_fit_in_placement_order_elab (p : RawProj) (h : wfCheck (elaborate p).env = true)
    (htr : treeCheck (elaborate p).env = true) :
    ∃ order : List Nat, ∀ t r, EligU (elaborate p).env t r →
      ((runScenario (elaborate p).env).tst t).scheduled = true → ((runScenario (elaborate p).env).tst t).forward = true →
      ∃ post pre, order = post ++ t :: pre ∧ FitAt (elaborate p).env (runScenario (elaborate p).env) t r pre := by
  obtain ⟨order, h1⟩ := runScenario_doneFit _ (wfCheck_sound _ h) (treeCheck_sound _ htr)
  exact ⟨order, fun t r hel hs hf =>
    h1 t r hel (runScenario_scheduled_done _ t ⟨hel.el.leaf, hel.el.effort, hel.el.nomile⟩ hs) hf⟩

/-- **C07 for whole projects: a list schedule in priority order** (`Proofs/EarliestFit`, `runScenario_placement`).  After
    scheduling ANY well-formed project there are the order of placement `order` (latest first) and the tasks `rest` never
    placed, such that the earliest-fit clause holds for `order` (as in `earliest_fit_in_placement_order`) AND the order is the
    priority order among the tasks that could be placed: whenever `t0` was placed and `t` was placed later (`t ∈ post`) or
    never (`t ∈ rest`), then `t0` ranks at or before `t` (priority descending, ties in declaration order), or `t` is not in
    forward mode, or one of `t`'s predecessors is a container, or had not yet been placed when `t0` was picked, or had been
    placed and could not be scheduled.  A task is overtaken by a lower-ranked one only while it waits for a predecessor. -/
theorem list_schedule_in_priority_order (e : Env) (wf : WF e) (tr : Tree e) :
    ∃ order rest : List Nat,
      DoneFit e (runScenario e) order ∧
      (∀ post pre t0, order = post ++ t0 :: pre → ∀ t, (t ∈ rest ∨ t ∈ post) →
        prioLe e t0 t = true ∨ ((runScenario e).tst t).forward = false ∨
        ∃ dp ∈ (e.taskD t).allDeps, (e.taskD dp.target).leaf = false ∨ dp.target ∉ pre ∨
          (dp.target ∈ pre ∧ ((runScenario e).tst dp.target).scheduled = false)) := by
  obtain ⟨order, rest, h1, h2, _, _⟩ := runScenario_placement e wf tr
  exact ⟨order, rest, h1, h2⟩

/-- **C07 for whole projects, teams** (`Proofs/TeamFit`, `Proofs/TeamLimits`): with the SAME placement order as
    `list_schedule_in_priority_order`, every forward team task reported as scheduled — several pairwise different leaf
    resources, no start of its own; the members, their groups, the task and its containers may all carry limits — occurs in the
    order, and between the slot of its dependency bound and any slot in which it is booked, every slot in which ALL its members
    are on shift and not on leave carries the task on every member, or some member carries there a task placed BEFORE it, or
    some limit of a member or of the task has no room left in the period of that slot for the whole team (`TeamTight`: its
    counter plus the other `|team| − 1` members reaches the limit): the team takes the earliest slots in which all its resources
    are working, unbooked and within their limits. -/
theorem team_earliest_fit (e : Env) (wf : WF e) (tr : Tree e) :
    ∃ order rest : List Nat, Placement e (runScenario e) order rest ∧
      ∀ t sel, TeamU e t sel → ((runScenario e).tst t).scheduled = true → ((runScenario e).tst t).forward = true →
        ∃ post pre, order = post ++ t :: pre ∧
          ∀ L m0, m0 ∈ sel → usageOf ((runScenario e).led.get m0 L).usage t ≠ none →
            ∀ i, boundSlot e (runScenario e) t ≤ i → i ≤ L → (∀ m ∈ sel, e.onShift m i = true ∧ e.leaveMark m i = false) →
              (∀ m ∈ sel, usageOf ((runScenario e).led.get m i).usage t ≠ none) ∨
              (∃ m ∈ sel, ∃ t' ∈ pre, usageOf ((runScenario e).led.get m i).usage t' ≠ none) ∨
              TeamTight e (runScenario e) t sel i := by
  obtain ⟨order, rest, hp, hT⟩ := runScenario_placementT e wf tr
  exact ⟨order, rest, hp, fun t sel hel hs hf =>
    hT t sel hel (runScenario_scheduled_done e t ⟨hel.el.leaf, hel.el.effort, hel.el.nomile⟩ hs) hf⟩

/-- what `TeamTight` says, spelled out: a member `m` of the team and a limit — one of `m`'s (own or inherited from a group), or one
    of the task's (own or of a container) that applies to `m` — whose counter for the period of slot `i`, plus one booking for
    each OTHER member of the team, reaches the limit's value -/
theorem teamTight_iff (e : Env) (σ : St) (t : Nat) (sel : List Nat) (i : Int) :
    TeamTight e σ t sel i ↔
      ∃ m ∈ sel,
        (∃ lid ∈ resLimitIds e m, ¬ ((e.limitD lid).res.isSome && (e.limitD lid).res != none) = true ∧
          0 ≤ e.period (e.limitD lid) i ∧
          (e.limitD lid).value ≤ σ.cnt.get lid (e.period (e.limitD lid) i) + ((sel.length : Int) - 1)) ∨
        (∃ lid ∈ taskLimitIds e t, ¬ ((e.limitD lid).res.isSome && (e.limitD lid).res != some m) = true ∧
          0 ≤ e.period (e.limitD lid) i ∧
          (e.limitD lid).value ≤ σ.cnt.get lid (e.period (e.limitD lid) i) + ((sel.length : Int) - 1)) := Iff.rfl

/-- **unlimited teams** (corollary): when neither the members (nor their groups) nor the task (nor its containers) carry limits,
    the third case cannot occur -/
theorem team_earliest_fit_unlimited (e : Env) (wf : WF e) (tr : Tree e) :
    ∃ order rest : List Nat, Placement e (runScenario e) order rest ∧
      ∀ t sel, TeamU e t sel → (∀ m ∈ sel, resLimitIds e m = []) → taskLimitIds e t = [] →
        ((runScenario e).tst t).scheduled = true → ((runScenario e).tst t).forward = true →
        ∃ post pre, order = post ++ t :: pre ∧
          ∀ L m0, m0 ∈ sel → usageOf ((runScenario e).led.get m0 L).usage t ≠ none →
            ∀ i, boundSlot e (runScenario e) t ≤ i → i ≤ L → (∀ m ∈ sel, e.onShift m i = true ∧ e.leaveMark m i = false) →
              (∀ m ∈ sel, usageOf ((runScenario e).led.get m i).usage t ≠ none) ∨
              ∃ m ∈ sel, ∃ t' ∈ pre, usageOf ((runScenario e).led.get m i).usage t' ≠ none := by
  obtain ⟨order, rest, hp, hT⟩ := team_earliest_fit e wf tr
  refine ⟨order, rest, hp, fun t sel hel hrl htl hs hf => ?_⟩
  obtain ⟨post, pre, hsplit, hfit⟩ := hT t sel hel hs hf
  refine ⟨post, pre, hsplit, fun L m0 hm0 hL i hb hi hall => ?_⟩
  rcases hfit L m0 hm0 hL i hb hi hall with h1 | h1 | h1
  · exact Or.inl h1
  · exact Or.inr h1
  · exact (teamTight_unlimited hrl htl h1).elim

/-- every entry of the final ledger belongs to a task the loop placed (ghost order of `earliest_fit_in_placement_order`): at the
    level of one round, the ledger after scheduling `t0` holds entries of `t0` and of the tasks it held before, nothing else -/
theorem round_adds_only_own_entries (e : Env) (wf : WF e) (σ : St) (t0 : Nat) (S : List Nat) (hinv : Inv e σ)
    (hlf : (e.taskD t0).leaf = true) (h : Owned S σ) : Owned (t0 :: S) (scheduleTask e σ t0).1 :=
  closed_scheduleTask (owned_closed e (t0 :: S)) wf σ t0 hinv hlf List.mem_cons_self
    (h.mono (fun x hx => List.mem_cons_of_mem _ hx))

/-- **C07 for whole projects, tasks with an alternative** (`Proofs/AltFit`): with the SAME placement order as
    `list_schedule_in_priority_order` and `team_earliest_fit` (one order for all three statements), every forward effort task
    reported as scheduled with one primary and one alternative resource (both leaves), without a start of its own, occurs in the
    order, is booked on ONE of its two candidates — the one `_selectBestResources` chose at its first slot — and on that one,
    between the slot of its dependency bound and any slot in which it is booked, every slot in which the resource is on shift
    and not on leave carries the task itself, or a task placed BEFORE it, or is refused by a limit. -/
theorem alternative_earliest_fit (e : Env) (wf : WF e) (tr : Tree e) :
    ∃ order rest : List Nat, Placement e (runScenario e) order rest ∧ DoneFitT e (runScenario e) order ∧
      ∀ t r1 r2, EligAltU e t r1 r2 → ((runScenario e).tst t).scheduled = true → ((runScenario e).tst t).forward = true →
        ∃ post pre, order = post ++ t :: pre ∧
          ∃ r, (r = r1 ∨ r = r2) ∧ (∃ L, usageOf ((runScenario e).led.get r L).usage t ≠ none) ∧
            ∀ L, usageOf ((runScenario e).led.get r L).usage t ≠ none →
              ∀ i, boundSlot e (runScenario e) t ≤ i → i ≤ L → e.onShift r i = true → e.leaveMark r i = false →
                usageOf ((runScenario e).led.get r i).usage t ≠ none ∨
                (∃ t' ∈ pre, usageOf ((runScenario e).led.get r i).usage t' ≠ none) ∨ Exhausted e (runScenario e) t r i := by
  obtain ⟨order, rest, hp, hT, hA⟩ := runScenario_placementA e wf tr
  exact ⟨order, rest, hp, hT, fun t r1 r2 hel hs hf =>
    hA t r1 r2 hel (runScenario_scheduled_done e t ⟨hel.el.leaf, hel.el.effort, hel.el.nomile⟩ hs) hf⟩

end SP.C07
