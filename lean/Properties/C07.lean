import Model
import Proofs.Order
import Proofs.Walk
/-!
C07 — ASAP schedules equal the priority-ordered earliest-fit schedule.

The two halves of the list-scheduling rule, as theorems about the model:
 * order: tasks are considered in (priority descending, declaration order) and the first one whose
   predecessors are all scheduled is placed next;
 * earliest fit: the placed task starts at its dependency bound's slot and, slot by slot, books exactly
   where its resource is available (on shift, time left, within limits).
The equality with an independent reference implementation of the rule on the core dialect (and
exhaustively on a small bounded universe) is the correspondence part of the check.
-/
namespace SP.C07
open SP

theorem order_by_priority (e : Env) (l : List Nat) :
    (l.mergeSort (prioLe e)).Pairwise (fun a b => prioLe e a b = true) := todo_sorted e l

/-- ties are broken by declaration order -/
theorem tie_by_declaration (e : Env) (a b : Nat) (hp : (e.taskD a).prio = (e.taskD b).prio) :
    prioLe e a b = decide (a ≤ b) := by
  unfold prioLe
  simp [hp]

theorem next_is_first_ready (e : Env) (σ : St) (tasks : List Nat) (t : Nat)
    (h : tasks.find? (fun t => ready e σ t) = some t) :
    ready e σ t = true ∧ ∃ pre post, tasks = pre ++ t :: post ∧ ∀ x ∈ pre, ready e σ x = false :=
  picks_first_ready e σ tasks t h

/-- ready (forward) = all predecessors — own, inherited, via precedes — are scheduled -/
theorem ready_iff (e : Env) (σ : St) (t : Nat) (hf : (σ.tst t).forward = true) :
    ready e σ t = true ↔ ∀ dp ∈ (e.taskD t).allDeps, (σ.tst dp.target).scheduled = true := by
  unfold ready asapReady
  simp [hf, List.all_eq_true]

/-- earliest fit, start: the walk starts in the slot of the dependency bound -/
theorem starts_at_bound (e : Env) (wf : WF e) (x : Int) (hx : e.start ≤ x) :
    ((e.time (cursorOf e x).1 : Int) : Rat) + (cursorOf e x).2 = (x : Rat) := cursorOf_exact e wf x hx

/-- earliest fit, step: one slot at a time, none skipped -/
theorem one_slot_at_a_time (w w1 : Walk) : (advance true w w1).cur = w1.cur + 1 := rfl

/-- earliest fit, booking rule: at a visited slot the resource is booked iff it is available and the
    task's limits allow it -/
theorem books_iff_feasible (e : Env) (σ : St) (t : Nat) (w : Walk) (r : Nat) :
    (bookResource e σ t w r) =
      if available e (reserveStep σ w r) r w.cur && taskLimitsOk e (reserveStep σ w r) t w.cur r
      then bookSlot e (reserveStep σ w r) r w.cur t else (reserveStep σ w r, 0) := rfl

/-- in the core dialect (whole-slot efforts) a booking takes the whole free slot -/
theorem whole_slot (G : Int) (hG : (1 : Rat) / 1000000 ≤ (G : Rat)) : availSecs G {} = (G : Rat) := by
  unfold availSecs
  simp only [Slot.used]
  grind

end SP.C07
