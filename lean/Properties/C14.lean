import Model
import Proofs.Shift
/-!
C14 — shifting the calendar by whole weeks shifts the schedule by the same amount.

The scheduler model works in times relative to the project start; only the calendar view looks at
absolute instants.  For a UTC project, moving *every* date (project start and end, pinned starts and
ends, leaves, vacations, bookings, holidays) by `k` whole weeks leaves the whole elaborated environment
unchanged — weekday and minute of day, day and Monday-based week differences to the project start,
leave membership — for every `k ∈ ℤ`, across month and year ends, leap days and 53-week ISO years.
Hence the scheduler's state is identical and every reported date (`start + relative date`) moves by
exactly `604800·k` seconds.
-/
namespace SP.C14
open SP

/-- the environment the scheduler sees is invariant -/
theorem env_invariant (k : Int) (p : RawProj) (h : UTCProject p) :
    (elaborate (shiftProj (604800 * k) p)).env = (elaborate p).env := elaborate_shift k p h

/-- … so the scheduler's final state is identical … -/
theorem state_invariant (k : Int) (p : RawProj) (h : UTCProject p) (t : Nat) :
    (runScenario (elaborate (shiftProj (604800 * k) p)).env).tst t = (runScenario (elaborate p).env).tst t := by
  rw [env_invariant k p h]

/-- … and every reported date moves by exactly `604800·k` seconds -/
theorem dates_shift (k : Int) (p : RawProj) (h : UTCProject p) (t : Nat) :
    ((runScenario (elaborate (shiftProj (604800 * k) p)).env).tst t).start.map (Elab.abs (shiftProj (604800 * k) p)) =
      (((runScenario (elaborate p).env).tst t).start.map (Elab.abs p)).map (· + 604800 * k) ∧
    ((runScenario (elaborate (shiftProj (604800 * k) p)).env).tst t).stop.map (Elab.abs (shiftProj (604800 * k) p)) =
      (((runScenario (elaborate p).env).tst t).stop.map (Elab.abs p)).map (· + 604800 * k) := by
  rw [state_invariant k p h t]
  constructor
  · cases ((runScenario (elaborate p).env).tst t).start <;> simp [Elab.abs, shiftProj]; omega
  · cases ((runScenario (elaborate p).env).tst t).stop <;> simp [Elab.abs, shiftProj]; omega

/-- the per-slot ingredients, for arbitrary `k` -/
theorem weekday_invariant (t k : Int) : weekday (t + 604800 * k) = weekday t := weekday_shift t k
theorem week_index_invariant (k : Int) (c : CalEnv) (i : Int) :
    weekIdxAt (shiftCal (604800 * k) c) i = weekIdxAt c i := weekIdxAt_shift k c i
theorem day_index_invariant (k : Int) (c : CalEnv) (i : Int) :
    dayIdxAt (shiftCal (604800 * k) c) i = dayIdxAt c i := dayIdxAt_shift k c i

/-- non-vacuity: the F8 witness (start 2026-12-04, weekly limit, 12 weeks) is a UTC project -/
example : UTCProject { G := 3600, start := 1796342400, stop := 1803600000, res := [{ limits := [{ weekly := true, value := 10 }] }],
                       tasks := [{ effort := some 60, alloc := some ([0], []) }] } := by
  intro r hr; simp at hr; subst hr; rfl

end SP.C14
