import Model
import Model.Elab
import Proofs.Walk
import Proofs.Team
import Proofs.TeamAll
import Proofs.EffortGlobal
import Proofs.TeamEffort
import Proofs.OneSet
import Proofs.TeamSame
import Proofs.EffortAlt
import Proofs.WFCheck
/-!
C03 — a scheduled task receives exactly its effort.

Exactness of the credit and of the tail release (for every effort, efficiency, resolution and
prior usage of the slot); one candidate set; and the team clause: the members of a team are levelled to
the busiest member before they are booked, so they are booked for the same seconds of every slot, and a
limit counter the members share is checked for the whole team (findings F31/F32, repaired in /repo).
-/
namespace SP.C03
open SP

/-- every booking credits `seconds x efficiency / 3600` hours, and those seconds are what the ledger records -/
theorem credit (e : Env) (σ : St) (r : Nat) (i : Int) (t : Nat) :
    (bookSlot e σ r i t).2 = availSecs e.G (σ.led.get r i) / 3600 * (e.resD r).eff ∧
    ((bookSlot e σ r i t).1.led.get r i).usage = (σ.led.get r i).usage ++ [(t, availSecs e.G (σ.led.get r i))] :=
  ⟨bookSlot_gain e σ r i t, bookSlot_entry e σ r i t⟩

/-- the finishing slot: the seconds kept give exactly the missing effort, never more than was booked —
    so the effort received is exact, and no further slot is needed -/
theorem finish_exact (effort before a eff : Rat) (heff : 0 < eff) (hlt : before < effort)
    (hge : effort ≤ before + a / 3600 * eff) :
    0 < (effort - before) / (eff / 3600) ∧ (effort - before) / (eff / 3600) ≤ a ∧
    before + (effort - before) / (eff / 3600) / 3600 * eff = effort :=
  SP.finish_exact effort before a eff heff hlt hge

/-- the model's release amount is that exact value -/
theorem release_amount (e : Env) (σ : St) (t : Nat) (w : Walk) (before : Rat) (r : Nat) (a : Rat)
    (wf : WF e) (hlt : before < (e.taskD t).effort)
    (hge : (e.taskD t).effort ≤ before + a / 3600 * (e.resD r).eff)
    (ha : a ≤ (e.G : Rat)) (hu : usageOf (σ.led.get r w.cur).usage t = some a) :
    needSecs e σ t w before r = ((e.taskD t).effort - before) / ((e.resD r).eff / 3600) :=
  needSecs_eq e σ t w before r a (wf.eff_pos r) hlt hge ha hu

/-- never a further slot: the walk stops in the first slot in which `done ≥ effort` -/
theorem stops_when_done (e : Env) (σ : St) (t : Nat) (w : Walk)
    (hms : ((e.taskD t).milestone || (e.taskD t).effort == 0) = false)
    (hd : (bookResources e σ t w).2.done ≥ (e.taskD t).effort) : (scheduleSlot e σ t w).2.2 = false := by
  unfold scheduleSlot
  simp only [hms, Bool.false_eq_true, if_false]
  simp [hd]

/-- an allocation with alternatives uses exactly one of the two candidate lists, chosen once -/
theorem one_candidate_set (e : Env) (σ : St) (prim alt : List Nat) (effort : Rat) (cur : Int) :
    selectBest e σ prim alt effort cur = prim ∨ selectBest e σ prim alt effort cur = alt ∨
    selectBest e σ prim alt effort cur = [] := by
  unfold selectBest
  split
  · exact Or.inr (Or.inr rfl)
  · split
    · exact Or.inl rfl
    · split
      · exact Or.inr (Or.inl rfl)
      · split
        · exact Or.inr (Or.inl rfl)
        · split
          · exact Or.inr (Or.inl rfl)
          · exact Or.inl rfl
        · exact Or.inl rfl

theorem selection_sticks (e : Env) (σ : St) (t : Nat) (w : Walk) (s : List Nat) (h : w.selected = some s) :
    selectedOf e σ t w = s := by
  unfold selectedOf; rw [h]

/-! ### end to end -/

/-- a task whose only allocation is the resource `r` (no alternatives) selects `[r]` in every state -/
theorem elig_of_single (e : Env) (t r : Nat) (hlf : (e.taskD t).leaf = true) (ha : (e.taskD t).hasAlloc = true)
    (hm : (e.taskD t).milestone = false) (hpos : 0 < (e.taskD t).effort)
    (hal : (e.taskD t).alloc = [r]) (halt : (e.taskD t).alt = []) : Elig e t r :=
  ⟨hlf, ha, hm, hpos, fun σ c => by rw [hal, halt]; exact selectBest_single e σ r _ c⟩

/-- **one task, end to end** (`TaskScenario.schedule()`): started in any state that satisfies the scheduler
    invariant and holds nothing of the task on `r`, a successful run leaves entries of the task on `r` in a set of
    distinct slots `vis` and nowhere else on `r`, and (Σ seconds over `vis`) x efficiency / 3600 = effort, exactly -/
theorem task_effort_exact (e : Env) (wf : WF e) (σ : St) (t r : Nat) (hinv : Inv e σ) (hel : Elig e t r)
    (hnd : (σ.tst t).done = false) (hclean : ∀ i, usageOf (σ.led.get r i).usage t = none)
    (hok : (scheduleTask e σ t).2 = true) :
    ∃ vis : List Int, vis.Nodup ∧ (∀ i, i ∉ vis → usageOf ((scheduleTask e σ t).1.led.get r i).usage t = none) ∧
      sumOver (scheduleTask e σ t).1.led r t vis / 3600 * (e.resD r).eff = (e.taskD t).effort :=
  scheduleTask_exact e wf σ t r hinv hel.leaf hel.alloc hel.nomile hel.effort hel.sel hnd hclean hok

/-- **C03 for whole projects**: after scheduling ANY well-formed project, every effort task with a single selected
    resource `r` that is reported as scheduled holds, in the final ledger, entries on `r` in distinct slots `vis` and
    nowhere else on `r`, whose seconds weighted by the efficiency of `r` add up to exactly the requested effort —
    never less, and no further slot.  (All efforts, efficiencies, resolutions, calendars, limits, priorities,
    dependencies, ASAP and ALAP, whatever else is booked.) -/
theorem effort_exact (e : Env) (wf : WF e) (t r : Nat) (hel : Elig e t r)
    (hs : ((runScenario e).tst t).scheduled = true) :
    ∃ vis : List Int, vis.Nodup ∧ (∀ i, i ∉ vis → usageOf ((runScenario e).led.get r i).usage t = none) ∧
      sumOver (runScenario e).led r t vis / 3600 * (e.resD r).eff = (e.taskD t).effort :=
  runScenario_effort_exact e wf t r hel
    (runScenario_scheduled_done e t ⟨hel.leaf, hel.effort, hel.nomile⟩ hs)

/-- the same for the environment elaborated from a project description, under the decidable check -/
theorem effort_exact_elab (p : RawProj) (h : wfCheck (elaborate p).env = true) (t r : Nat)
    (hel : Elig (elaborate p).env t r) (hs : ((runScenario (elaborate p).env).tst t).scheduled = true) :
    ∃ vis : List Int, vis.Nodup ∧
      (∀ i, i ∉ vis → usageOf ((runScenario (elaborate p).env).led.get r i).usage t = none) ∧
      sumOver (runScenario (elaborate p).env).led r t vis / 3600 * ((elaborate p).env.resD r).eff
        = ((elaborate p).env.taskD t).effort :=
  effort_exact _ (wfCheck_sound _ h) t r hel hs

/-- non-vacuity: the witness of finding F13 (efficiency 0.7, effort 2.1 h — three slots of a double sum to
    2.0999999999999996) is a well-formed project whose task is eligible -/
def f13 : RawProj :=
  { G := 3600, start := 1736121600, stop := 1737331200,
    res := [{ eff := some (7/10) }],
    tasks := [{ effort := some (21/10), alloc := some ([0], []) }] }

example : wfCheck (elaborate f13).env = true := by decide +kernel
example : Elig (elaborate f13).env 0 0 :=
  elig_of_single _ 0 0 (by decide +kernel) (by decide +kernel) (by decide +kernel) (by decide +kernel)
    (by decide +kernel) (by decide +kernel)

/-! ### the team clause -/

/-- the team clause of C03 at the level of one slot, for members booked one by one without levelling:
    when a team task books the same slot on two members (each satisfying the slot invariant), both
    receive the same seconds -/
def TeamSameSeconds : Prop :=
  ∀ (G : Int) (s0 s1 : Slot) (t : Nat), 0 < G → SlotInv G s0 → SlotInv G s1 →
    availSecs G s0 > 0 → availSecs G s1 > 0 →
    usageOf (s0.book G t).usage t = usageOf (s1.book G t).usage t

/-- **refuted** — this was finding F32 on the pinned code, which booked the members as they were: member r0
    already carries 1200 s of another task in the slot, member r1 is free; both pass the availability gate,
    r0 is booked for 2400 s and r1 for 3600 s.  The repaired code levels the team first (next theorems). -/
theorem unlevelled_team_fails : ¬ TeamSameSeconds := by
  intro h
  have hs0 : SlotInv 3600 { used := 1200, usage := [(0, 1200)] } :=
    ⟨by decide +kernel, by decide +kernel, by decide +kernel, by intro e he; simp at he; subst he; decide +kernel⟩
  have hs1 : SlotInv 3600 {} := slotInv_empty 3600 (by decide)
  have := h 3600 { used := 1200, usage := [(0, 1200)] } {} 1 (by decide) hs0 hs1 (by decide +kernel) (by decide +kernel)
  revert this
  decide +kernel

/-- members whose slots are equally used receive the same seconds -/
theorem team_partial (G : Int) (s0 s1 : Slot) (t : Nat) (hu : s0.used = s1.used)
    (h0 : usageOf s0.usage t = none) (h1 : usageOf s1.usage t = none) :
    usageOf (s0.book G t).usage t = usageOf (s1.book G t).usage t := by
  have key : ∀ (u : List (Nat × Rat)) (a : Rat), usageOf u t = none → usageOf (u ++ [(t, a)]) t = some a := by
    intro u a hnone
    induction u with
    | nil => simp [usageOf]
    | cons x xs ih =>
      unfold usageOf at hnone ⊢
      simp only [List.cons_append, List.find?_cons] at hnone ⊢
      by_cases hx : x.1 == t
      · simp [hx] at hnone
      · simp only [hx] at hnone ⊢
        exact ih (by unfold usageOf; simpa using hnone)
  simp only [Slot.book]
  rw [key _ _ h0, key _ _ h1]
  simp [availSecs, hu]

/-- **levelling** (`bookResources` after the repair of F32): in the state the members are booked in, every
    member's slot is used up to the same instant — that of the busiest member — whatever was there before -/
theorem team_levelled (σ : St) (cur : Int) (sel : List Nat) (r0 r1 : Nat) (h0 : r0 ∈ sel) (h1 : r1 ∈ sel) :
    ((levelTeam σ cur sel).led.get r0 cur).used = ((levelTeam σ cur sel).led.get r1 cur).used := by
  rw [levelTeam_used σ cur sel r0 h0, levelTeam_used σ cur sel r1 h1]

/-- **same instants**: any two members of a levelled team are booked for the same seconds of the slot,
    `[common, G)` — for every state, every team, every slot -/
theorem team_same_seconds (G : Int) (σ : St) (t : Nat) (cur : Int) (sel : List Nat) (r0 r1 : Nat)
    (h0 : r0 ∈ sel) (h1 : r1 ∈ sel)
    (hn0 : usageOf (σ.led.get r0 cur).usage t = none) (hn1 : usageOf (σ.led.get r1 cur).usage t = none) :
    usageOf (((levelTeam σ cur sel).led.get r0 cur).book G t).usage t =
      usageOf (((levelTeam σ cur sel).led.get r1 cur).book G t).usage t := by
  apply team_partial G _ _ t (team_levelled σ cur sel r0 r1 h0 h1)
  · rw [levelTeam_usage]; exact hn0
  · rw [levelTeam_usage]; exact hn1

/-- the state a team is booked in is the levelled one -/
theorem team_is_levelled (e : Env) (σ : St) (t : Nat) (cur : Int) (sel : List Nat) (h : isTeam e t sel = true) :
    leveled e σ t cur sel = levelTeam σ cur sel := by
  unfold leveled; simp [h]

/-- **shared resource limit** (finding F31, repaired): a limit counter that both members of a team increment
    (a limit on a group above both) must have room for both — with room for one only, the gate rejects the
    team and nobody is booked -/
theorem shared_limit_counts_whole_team (e : Env) (wf : WF e) (σ : St) (t : Nat) (i : Int) (r0 r1 lid : Nat)
    (h0 : lid ∈ resLimitIds e r0) (h1 : lid ∈ resLimitIds e r1)
    (hnof : (e.limitD lid).res = none) (hk : 0 ≤ e.period (e.limitD lid) i)
    (hleft : (e.limitD lid).value ≤ σ.cnt.get lid (e.period (e.limitD lid) i) + 1) :
    teamGateOk e t i σ [r0, r1] = false := by
  cases hg : teamGateOk e t i σ [r0, r1] with
  | false => rfl
  | true =>
    exfalso
    simp only [teamGateOk, Bool.and_true, Bool.and_eq_true] at hg
    obtain ⟨_, ⟨ha1, _⟩⟩ := hg
    have hok := (available_true ha1).2.2 lid h1
    unfold limitOk at hok
    simp only [hnof, Option.isSome_none, Bool.false_and, Bool.false_eq_true, if_false] at hok
    have hk' : ¬ e.period (e.limitD lid) i < 0 := by omega
    simp only [hk', if_false, decide_eq_true_eq] at hok
    have hcnt := incAll_cnt_mem e σ (bookPairs e r0 t) i lid none
      (by
        have : (bookPairs e r0 t).map (·.1) = resLimitIds e r0 ++ taskLimitIds e t := by
          simp [bookPairs, List.map_append, List.map_map, Function.comp_def]
        rw [this]; exact wf.lim_nodup r0 t)
      (by simp only [bookPairs, List.mem_append, List.mem_map]; exact Or.inl ⟨lid, h0, rfl⟩)
      (by simp [hnof]) hk
    rw [countMember_eq] at hok
    omega

/-- **a team books all of its members for the same instants, or nobody** (`bookResources`, one slot, after the
    repairs of F31 and F32): for a team task with pairwise different selected members, in any state satisfying the
    scheduler invariant in which the task has no entry in the slot yet — whatever the members' prior usage of the slot,
    their limits and shared limits, the start offset — after `bookResources` either no member holds an entry of the
    task in that slot, or every member holds one, all of them for the same `a > 0` seconds (the instants
    `[G − a, G)` of the slot, as every member's slot was levelled to the same `used` before) -/
theorem team_all_or_nobody_same_seconds (e : Env) (wf : WF e) (σ : St) (t : Nat) (w : Walk)
    (hinv : Inv e σ) (ha : (e.taskD t).hasAlloc = true)
    (hteam : isTeam e t (selectedOf e σ t w) = true) (hnd : (selectedOf e σ t w).Nodup)
    (hclean : ∀ r ∈ selectedOf e σ t w, usageOf (σ.led.get r w.cur).usage t = none) :
    (∀ r ∈ selectedOf e σ t w, usageOf ((bookResources e σ t w).1.led.get r w.cur).usage t = none) ∨
    (∃ a, 0 < a ∧ ∀ r ∈ selectedOf e σ t w, usageOf ((bookResources e σ t w).1.led.get r w.cur).usage t = some a) :=
  bookResources_team e wf σ t w hinv ha hteam hnd hclean

example : usageOf ({ used := 1200, usage := [(0, 1200)] } : Slot).usage 1 = none := by decide +kernel

/-! ### teams, end to end -/

/-- a task whose allocation is the list `sel` of several pairwise different resources with one common positive efficiency
    (no alternatives) is a team task in every state -/
theorem teamElig_of_alloc (e : Env) (t : Nat) (sel : List Nat) (η : Rat) (hlf : (e.taskD t).leaf = true)
    (ha : (e.taskD t).hasAlloc = true) (hm : (e.taskD t).milestone = false) (hpos : 0 < (e.taskD t).effort)
    (hal : (e.taskD t).alloc = sel) (halt : (e.taskD t).alt = []) (hmany : 1 < sel.length) (hnd : sel.Nodup)
    (heff : ∀ r ∈ sel, (e.resD r).eff = η) (hη : 0 < η) : TeamElig e t sel η :=
  ⟨hlf, ha, hm, hpos, fun σ c => by
      rw [hal, halt]
      unfold selectBest
      have : sel.isEmpty = false := by cases sel with
        | nil => simp at hmany
        | cons _ _ => rfl
      simp [this], hmany, hnd, heff, hη⟩

/-- **C03 for teams, whole projects**: after scheduling ANY well-formed project, every team task (its allocation always
    selects the same several members `sel`, pairwise different, of one common efficiency `η`) that is reported as scheduled
    holds, in the final ledger, for EVERY member entries in one common list of distinct slots `vis` and nowhere else; in every
    slot all members hold the same seconds (the same instants); and each member's seconds weighted by `η` add up to exactly
    the requested effort — never less, and no further slot.  (Whatever else is booked on the members, all calendars, limits
    shared or not, ASAP and ALAP.) -/
theorem team_effort_exact (e : Env) (wf : WF e) (t : Nat) (sel : List Nat) (η : Rat) (hel : TeamElig e t sel η)
    (hs : ((runScenario e).tst t).scheduled = true) :
    ∃ vis : List Int, vis.Nodup ∧
      (∀ r ∈ sel, ∀ i, i ∉ vis → usageOf ((runScenario e).led.get r i).usage t = none) ∧
      (∀ r ∈ sel, sumOver (runScenario e).led r t vis / 3600 * η = (e.taskD t).effort) ∧
      (∀ r ∈ sel, ∀ r' ∈ sel, ∀ i,
        usageOf ((runScenario e).led.get r i).usage t = usageOf ((runScenario e).led.get r' i).usage t) :=
  runScenario_team_effort_exact e wf t sel η hel
    (runScenario_scheduled_done e t ⟨hel.leaf, hel.effort, hel.nomile⟩ hs)

/-- the same for the environment elaborated from a project description, under the decidable check -/
theorem team_effort_exact_elab (p : RawProj) (h : wfCheck (elaborate p).env = true) (t : Nat) (sel : List Nat) (η : Rat)
    (hel : TeamElig (elaborate p).env t sel η) (hs : ((runScenario (elaborate p).env).tst t).scheduled = true) :
    ∃ vis : List Int, vis.Nodup ∧
      (∀ r ∈ sel, ∀ i, i ∉ vis → usageOf ((runScenario (elaborate p).env).led.get r i).usage t = none) ∧
      (∀ r ∈ sel, sumOver (runScenario (elaborate p).env).led r t vis / 3600 * η = ((elaborate p).env.taskD t).effort) ∧
      (∀ r ∈ sel, ∀ r' ∈ sel, ∀ i,
        usageOf ((runScenario (elaborate p).env).led.get r i).usage t
          = usageOf ((runScenario (elaborate p).env).led.get r' i).usage t) :=
  team_effort_exact _ (wfCheck_sound _ h) t sel η hel hs

/-- non-vacuity: the witness of finding F32 (two members, one partly used by another task) is a well-formed project whose
    second task is a team task -/
def f32 : RawProj :=
  { G := 3600, start := 1736121600, stop := 1737331200,
    res := [{ }, { }],
    tasks := [{ effort := some (1/3), alloc := some ([0], []), prio := some 900 },
              { effort := some 3, alloc := some ([0, 1], []) }] }

example : wfCheck (elaborate f32).env = true := by decide +kernel
example : TeamElig (elaborate f32).env 1 [0, 1] 1 :=
  teamElig_of_alloc _ 1 [0, 1] 1 (by decide +kernel) (by decide +kernel) (by decide +kernel) (by decide +kernel)
    (by decide +kernel) (by decide +kernel) (by decide +kernel) (by decide +kernel)
    (by intro r hr; simp at hr; rcases hr with h | h <;> subst h <;> decide +kernel) (by decide +kernel)

/-! ### alternatives, end to end -/

/-- **C03, third clause, for whole projects** (`Proofs/OneSet`): after scheduling ANY project — no hypothesis at all — all the
    bookings of any task lie on the members of ONE candidate set: its primary allocation or its alternative allocation
    (whichever `_selectBestResources` chose at the task's first slot), never a mixture of the two and never a resource outside
    both. -/
theorem bookings_on_one_candidate_set (e : Env) (t : Nat) :
    ∃ S : List Nat, (S = [] ∨ S = (e.taskD t).alloc ∨ S = (e.taskD t).alt) ∧
      ∀ r i, usageOf ((runScenario e).led.get r i).usage t ≠ none → r ∈ S :=
  runScenario_oneSet e t

/-! ### teams of any efficiencies, end to end -/

/-- a task whose allocation is a list of several pairwise different resources (no alternatives) is a team task in every state -/
theorem teamAny_of_alloc (e : Env) (t : Nat) (sel : List Nat) (hlf : (e.taskD t).leaf = true)
    (ha : (e.taskD t).hasAlloc = true) (hm : (e.taskD t).milestone = false) (hpos : 0 < (e.taskD t).effort)
    (hal : (e.taskD t).alloc = sel) (halt : (e.taskD t).alt = []) (hmany : 1 < sel.length) (hnd : sel.Nodup) :
    TeamAny e t sel :=
  ⟨hlf, ha, hm, hpos, fun σ c => by
      rw [hal, halt]
      unfold selectBest
      have : sel.isEmpty = false := by cases sel with
        | nil => simp at hmany
        | cons _ _ => rfl
      simp [this], hmany, hnd⟩

/-- **C03, second clause, for whole projects and ANY team** (`Proofs/TeamSame`): after scheduling ANY well-formed project, all
    members of a team allocation — several pairwise different resources, whatever their efficiencies, calendars, limits and
    other bookings — hold entries of the task in exactly the same slots for exactly the same seconds: the team works the same
    instants. -/
theorem team_same_instants (e : Env) (wf : WF e) (t : Nat) (sel : List Nat) (hel : TeamAny e t sel) :
    ∀ r ∈ sel, ∀ r' ∈ sel, ∀ i,
      usageOf ((runScenario e).led.get r i).usage t = usageOf ((runScenario e).led.get r' i).usage t :=
  runScenario_teamsSame e wf t sel hel

/-! ### effort with an alternative, end to end -/

/-- **C03, effort clause, tasks with an alternative** (`Proofs/EffortAlt`): after scheduling ANY well-formed project, every
    effort task with one primary and one alternative resource that is reported as scheduled holds, on ONE of the two — the one
    `_selectBestResources` chose at its first slot — entries in distinct slots and nowhere else on it, whose seconds weighted by
    THAT resource's efficiency add up to exactly the requested effort (and by `bookings_on_one_candidate_set` nothing on the
    other). -/
theorem effort_exact_with_alternative (e : Env) (wf : WF e) (t r1 r2 : Nat) (hel : EligAlt e t r1 r2)
    (hs : ((runScenario e).tst t).scheduled = true) :
    ∃ r, (r = r1 ∨ r = r2) ∧ ∃ vis : List Int, vis.Nodup ∧
      (∀ i, i ∉ vis → usageOf ((runScenario e).led.get r i).usage t = none) ∧
      sumOver (runScenario e).led r t vis / 3600 * (e.resD r).eff = (e.taskD t).effort := by
  obtain ⟨r, vis, hr, hv⟩ := runScenario_effort_exact_alt e wf t r1 r2 hel
    (runScenario_scheduled_done e t ⟨hel.leaf, hel.effort, hel.nomile⟩ hs)
  exact ⟨r, hr, vis, hv⟩

end SP.C03
