import Model
import Proofs.Walk
import Proofs.GapLen
import Proofs.DepGlobal
import Proofs.DepAll
import Proofs.DepMile
import Proofs.Deadline
import Proofs.BackGlobal
import Proofs.WFCheck
/-!
C04 — dependencies and gaps are respected (forward mode end to end; backward mode via the deadline formula).

For a forward task without a start of its own, the bound `earliestStart` dominates every dependency's
(start | end) + gap — own, inherited from every enclosing container and created by `precedes` (all are
in `allDeps`) — and an inherited container start; the cursor and the in-slot offset reconstruct the
bound exactly, so a start reported as `time(cur) + offset` for any slot at or after the cursor is at or
after every dependency bound.
-/
namespace SP.C04
open SP

/-- the bound dominates every edge: (start | end of the predecessor) + gapduration -/
theorem bound_ge_every_dep (e : Env) (wf : WF e) (σ : St) (deps : List Dep) (base : Int) (dp : Dep) (hd : dp ∈ deps) (dt : Int)
    (hdt : (if dp.onstart then (σ.tst dp.target).start else (σ.tst dp.target).stop) = some dt) :
    dt + dp.gap ≤ earliestStart e σ deps base := earliestStart_ge_dep e wf.G_pos σ deps base dp hd dt hdt

/-- … and, for an edge with a `gaplength`, the instant at which that much working time of the project calendar has passed
    since the predecessor's date (`depDate`) -/
theorem bound_ge_every_depDate (e : Env) (σ : St) (deps : List Dep) (base : Int) (dp : Dep) (hd : dp ∈ deps) (dt : Int)
    (hdt : (if dp.onstart then (σ.tst dp.target).start else (σ.tst dp.target).stop) = some dt) :
    depDate e dp dt ≤ earliestStart e σ deps base := earliestStart_ge_depDate e σ deps base dp hd dt hdt

/-- a `gaplength` only moves the date on: never before the predecessor's date plus the gap duration (finding F54: the pinned
    code counted whole slots from the START of the slot the predecessor ended in, so the successor could start before it ended) -/
theorem gaplength_never_earlier (e : Env) (wf : WF e) (dp : Dep) (dt : Int) : dt + dp.gap ≤ depDate e dp dt :=
  depDate_ge e wf.G_pos dp dt

/-- … and the project start / an inherited container start -/
theorem bound_ge_base (e : Env) (σ : St) (deps : List Dep) (base : Int) : base ≤ earliestStart e σ deps base :=
  earliestStart_ge e σ deps base

/-- cursor + offset = bound, exactly -/
theorem cursor_reconstructs_bound (e : Env) (wf : WF e) (x : Int) (hx : e.start ≤ x) :
    ((e.time (cursorOf e x).1 : Int) : Rat) + (cursorOf e x).2 = (x : Rat) := cursorOf_exact e wf x hx

/-- the start written at the first booking (`markStart`: `time(cur) + offset`) is at or after the bound,
    in whichever slot at or after the cursor the first booking happens -/
theorem start_ge_bound (e : Env) (wf : WF e) (x : Int) (hx : e.start ≤ x) (cur : Int)
    (hc : (cursorOf e x).1 ≤ cur) : (x : Rat) ≤ ((e.time cur : Int) : Rat) + (cursorOf e x).2 :=
  slot_ge_bound e wf x hx cur hc

/-- combined: for every dependency of a forward task without own start, whichever slot `cur ≥ cursor` the
    first booking lands in, `time(cur) + offset ≥ (start | end of the predecessor) + gap` -/
theorem forward_start_respects_dep (e : Env) (wf : WF e) (σ : St) (t : Nat) (dp : Dep)
    (hd : dp ∈ (e.taskD t).allDeps) (dt : Int)
    (hdt : (if dp.onstart then (σ.tst dp.target).start else (σ.tst dp.target).stop) = some dt)
    (cur : Int) (hc : (cursorOf e (earliestStart e σ (e.taskD t).allDeps e.start)).1 ≤ cur) :
    ((dt + dp.gap : Int) : Rat) ≤
      ((e.time cur : Int) : Rat) + (cursorOf e (earliestStart e σ (e.taskD t).allDeps e.start)).2 := by
  have h1 := earliestStart_ge_dep e wf.G_pos σ (e.taskD t).allDeps e.start dp hd dt hdt
  have h2 := slot_ge_bound e wf _ (earliestStart_ge e σ (e.taskD t).allDeps e.start) cur hc
  have : ((dt + dp.gap : Int) : Rat) ≤ ((earliestStart e σ (e.taskD t).allDeps e.start : Int) : Rat) := by exact_mod_cast h1
  grind

/-- readiness: a forward task is picked only when every task in `allDeps` is scheduled -/
theorem ready_means_deps_scheduled (e : Env) (σ : St) (t : Nat) (hf : (σ.tst t).forward = true)
    (hr : ready e σ t = true) : ∀ dp ∈ (e.taskD t).allDeps, (σ.tst dp.target).scheduled = true := by
  unfold ready at hr
  simp only [hf, if_true] at hr
  unfold asapReady at hr
  simpa [List.all_eq_true] using hr

/-! ### end to end (forward mode, leaf predecessors) -/

/-- **one task**: a successful `schedule()` of a forward effort task without a start of its own, started in any
    state, leaves it with a start at or after every predecessor's (start | end) + gap as they stand in that state -/
theorem task_start_respects_deps (e : Env) (wf : WF e) (σ : St) (t : Nat) (hel : FwdEff e t)
    (hb : t < σ.ts.size) (hf : (σ.tst t).forward = true) (hnd : (σ.tst t).done = false)
    (hok : (scheduleTask e σ t).2 = true) (dp : Dep) (hd : dp ∈ (e.taskD t).allDeps) (dt : Int)
    (hdt : dateOf σ dp = some dt) :
    ∃ v, ((scheduleTask e σ t).1.tst t).start = some v ∧ dt + dp.gap ≤ v := by
  obtain ⟨v, hv, hle⟩ := scheduleTask_start_ge e wf σ t hb hf hel.nostart hel.alloc hel.nomile hel.effort hnd hok
  exact ⟨v, hv, Int.le_trans (boundOf_ge_dep e wf σ t dp hd dt hdt) hle⟩

/-- **C04 for whole projects (forward mode)**: after scheduling ANY well-formed project, every forward effort task
    without a start of its own that is reported as scheduled starts at or after `(start | end) + gap` of every leaf
    predecessor — edges of its own, inherited from every enclosing container, and created by `precedes` on the other
    side (all are in `allDeps`) — and every such predecessor is itself scheduled.  The dates compared are those of
    the final schedule. -/
theorem forward_deps_respected (e : Env) (wf : WF e) (t : Nat) (hel : FwdEff e t)
    (hs : ((runScenario e).tst t).scheduled = true) (hf : ((runScenario e).tst t).forward = true)
    (dp : Dep) (hd : dp ∈ (e.taskD t).allDeps) (hx : (e.taskD dp.target).leaf = true) :
    ((runScenario e).tst dp.target).scheduled = true ∧
    ∀ dt v, dateOf (runScenario e) dp = some dt → ((runScenario e).tst t).start = some v → dt + dp.gap ≤ v := by
  obtain ⟨h1, h2⟩ := runScenario_depsOK e wf t hel
    (runScenario_scheduled_done e t ⟨hel.leaf, hel.effort, hel.nomile⟩ hs) hf dp hd hx
  exact ⟨h1, fun dt v hdt hv => Int.le_trans (depDate_ge e wf.G_pos dp dt) (h2 dt v hdt hv)⟩

/-- the same for the environment elaborated from a project description, under the decidable check -/
theorem forward_deps_respected_elab (p : RawProj) (h : wfCheck (elaborate p).env = true) (t : Nat)
    (hel : FwdEff (elaborate p).env t)
    (hs : ((runScenario (elaborate p).env).tst t).scheduled = true)
    (hf : ((runScenario (elaborate p).env).tst t).forward = true)
    (dp : Dep) (hd : dp ∈ ((elaborate p).env.taskD t).allDeps) (hx : ((elaborate p).env.taskD dp.target).leaf = true) :
    ((runScenario (elaborate p).env).tst dp.target).scheduled = true ∧
    ∀ dt v, dateOf (runScenario (elaborate p).env) dp = some dt →
      ((runScenario (elaborate p).env).tst t).start = some v → dt + dp.gap ≤ v :=
  forward_deps_respected _ (wfCheck_sound _ h) t hel hs hf dp hd hx

/-- **C04 for whole projects (forward mode), every kind of predecessor** (`Proofs/DepAll`): the same for predecessors that
    are containers — `depends !c0`, an edge inherited from an enclosing container onto a container, `precedes` from a
    container: the successor starts at or after the container's end (its start, for an on-start edge) plus the gap, the
    container's dates being those of the final schedule (a container marked scheduled keeps its dates: the roll-up skips
    it and `finishScenario` recomputes the same minimum and maximum).  Needs the task tree to be well-formed (`Tree`:
    children are declared after their parents — what the parser produces, checked by `treeCheck`). -/
theorem forward_deps_respected_all (e : Env) (wf : WF e) (tr : Tree e) (t : Nat) (hel : FwdEff e t)
    (hs : ((runScenario e).tst t).scheduled = true) (hf : ((runScenario e).tst t).forward = true)
    (dp : Dep) (hd : dp ∈ (e.taskD t).allDeps) :
    ((runScenario e).tst dp.target).scheduled = true ∧
    ∀ dt v, dateOf (runScenario e) dp = some dt → ((runScenario e).tst t).start = some v → dt + dp.gap ≤ v := by
  obtain ⟨h1, h2⟩ := runScenario_depsOKAll e wf tr t hel
    (runScenario_scheduled_done e t ⟨hel.leaf, hel.effort, hel.nomile⟩ hs) hf dp hd
  exact ⟨h1, fun dt v hdt hv => Int.le_trans (depDate_ge e wf.G_pos dp dt) (h2 dt v hdt hv)⟩

/-- **… and working-time gaps** (`gaplength`): the same with the full date the edge contributes — for an edge with a
    `gaplength` (and no gap duration) the instant at which that much working time of the project calendar has passed since
    the predecessor's end (start, for an on-start edge), `depDate`; for every other edge `(start | end) + gap` as above.
    `gaplength_never_earlier` relates the two: a working-time gap never lets the task start before the predecessor's date. -/
theorem forward_deps_respected_gaplength (e : Env) (wf : WF e) (tr : Tree e) (t : Nat) (hel : FwdEff e t)
    (hs : ((runScenario e).tst t).scheduled = true) (hf : ((runScenario e).tst t).forward = true)
    (dp : Dep) (hd : dp ∈ (e.taskD t).allDeps) :
    ((runScenario e).tst dp.target).scheduled = true ∧
    ∀ dt v, dateOf (runScenario e) dp = some dt → ((runScenario e).tst t).start = some v → depDate e dp dt ≤ v :=
  runScenario_depsOKAll e wf tr t hel
    (runScenario_scheduled_done e t ⟨hel.leaf, hel.effort, hel.nomile⟩ hs) hf dp hd

/-- what `depDate` is for an edge with a working-time gap of `n > 0` seconds and no gap duration: the walk over the project
    calendar from the slot the predecessor's date lies in -/
theorem depDate_gaplength (e : Env) (dp : Dep) (dt : Int) (hn : dp.glen > 0) (hg : dp.gap = 0) :
    depDate e dp dt = lenWalk e (e.size.toNat + 3) dp.glen (e.idx dt) dt := by
  unfold depDate; simp [hn, hg]

/-- **a working-time gap is measured exactly** (`Proofs/GapLen`): for an edge with `gaplength n` (and no gap duration), a
    predecessor date `dt` at or after the project start, and a scoreboard that covers the horizon (`C11.horizon_covered`: true of
    every elaborated project), the date the edge contributes, `out = depDate e dp dt`, is such that for some number `k` of slots
    from the slot `dt` lies in: either the project working time in `[dt, out)` within those slots is EXACTLY `n` seconds and
    `out` lies at or before the end of the last of them — no working slot skipped, none counted twice — or the horizon was
    reached with less than `n` seconds of working time left in the project -/
theorem gaplength_exact (e : Env) (wf : WF e) (dp : Dep) (dt : Int) (hn : dp.glen > 0) (hg : dp.gap = 0)
    (hdt : e.start ≤ dt) (hsz : e.upper ≤ e.size + 1) :
    ∃ k : Nat,
      (worked e dt (depDate e dp dt) k (e.idx dt) = dp.glen ∧ depDate e dp dt ≤ e.time (e.idx dt + k)) ∨
      (worked e dt (depDate e dp dt) k (e.idx dt) < dp.glen ∧ e.upper < e.idx dt + k) := by
  rw [depDate_gaplength e dp dt hn hg]
  have hfl := (Board.mk e.start e.stop e.G).rawIdx_floor wf.G_pos (t := dt) hdt
  have hnn := (Board.mk e.start e.stop e.G).rawIdx_nonneg wf.G_pos (t := dt) hdt
  simp only [Board.time, Board.rawIdx] at hfl hnn
  apply lenWalk_exact e wf.G_pos _ dp.glen (e.idx dt) dt
  · unfold Env.time Env.idx; exact hfl.1
  · unfold Env.time Env.idx; exact Int.le_of_lt hfl.2
  · exact hn
  · have : 0 ≤ e.idx dt := by unfold Env.idx; exact hnn
    have h2 : ((e.size.toNat + 3 : Nat) : Int) = (e.size.toNat : Int) + 3 := by push_cast; rfl
    rw [h2]
    have := Int.self_le_toNat e.size
    omega

/-- what `worked` measures: the overlap of `[a, b)` with each working slot of the project calendar among the `n` slots from `i` on -/
theorem worked_step (e : Env) (a b : Int) (n : Nat) (i : Int) :
    worked e a b (n + 1) i =
      (if e.projWork i then max 0 (min b (e.time (i + 1)) - max a (e.time i)) else 0) + worked e a b n (i + 1) := rfl

/-- one step of that walk, spelled out: in a working slot of the project calendar the time from the date to the end of the slot
    counts; if it covers what is left of the gap, the bound is the date plus what is left; otherwise the walk goes on from
    the start of the next slot with the rest; a non-working slot is passed over; at the horizon the walk stops -/
theorem lenWalk_step (e : Env) (f : Nat) (rem i dt : Int) :
    lenWalk e (f + 1) rem i dt =
      if rem > 0 && i ≤ e.upper then
        if e.projWork i then
          if e.G - (dt - e.time i) ≥ rem then dt + rem
          else lenWalk e f (rem - (e.G - (dt - e.time i))) (i + 1) (e.time (i + 1))
        else lenWalk e f rem (i + 1) (e.time (i + 1))
      else dt := rfl

theorem forward_deps_respected_all_elab (p : RawProj) (h : wfCheck (elaborate p).env = true)
    (htr : treeCheck (elaborate p).env = true) (t : Nat) (hel : FwdEff (elaborate p).env t)
    (hs : ((runScenario (elaborate p).env).tst t).scheduled = true)
    (hf : ((runScenario (elaborate p).env).tst t).forward = true)
    (dp : Dep) (hd : dp ∈ ((elaborate p).env.taskD t).allDeps) :
    ((runScenario (elaborate p).env).tst dp.target).scheduled = true ∧
    ∀ dt v, dateOf (runScenario (elaborate p).env) dp = some dt →
      ((runScenario (elaborate p).env).tst t).start = some v → dt + dp.gap ≤ v :=
  forward_deps_respected_all _ (wfCheck_sound _ h) (treeCheck_sound _ htr) t hel hs hf dp hd

/-- **C04 for whole projects (forward mode), milestones as dependents** (`Proofs/DepMile`): a forward milestone — or a leaf
    without effort — without a start of its own that the scheduling loop placed (`done`; a milestone the pre-pass dated from a
    user-given end is pinned, outside the property) lies at or after `(start | end) + gap` of every predecessor, leaf or
    container, in the final schedule; effort tasks as in `forward_deps_respected_all`. -/
theorem forward_deps_respected_milestones (e : Env) (wf : WF e) (tr : Tree e) (t : Nat) (hel : FwdMile e t)
    (hd : ((runScenario e).tst t).done = true) (hf : ((runScenario e).tst t).forward = true)
    (dp : Dep) (hdp : dp ∈ (e.taskD t).allDeps) :
    ((runScenario e).tst dp.target).scheduled = true ∧
    ∀ dt v, dateOf (runScenario e) dp = some dt → ((runScenario e).tst t).start = some v → depDate e dp dt ≤ v ∧ dt + dp.gap ≤ v := by
  obtain ⟨h1, h2⟩ := runScenario_depsOKAny e wf tr t (Or.inr hel) hd hf dp hdp
  exact ⟨h1, fun dt v hdt hv => ⟨h2 dt v hdt hv, Int.le_trans (depDate_ge e wf.G_pos dp dt) (h2 dt v hdt hv)⟩⟩

/-- a milestone the loop placed is dated exactly at its dependency bound (start = end) -/
theorem milestone_placed_at_bound (e : Env) (wf : WF e) (σ : St) (t : Nat) (hb : t < σ.ts.size)
    (hf : (σ.tst t).forward = true) (hel : FwdMile e t) (hnd : (σ.tst t).done = false)
    (hok : (scheduleTask e σ t).2 = true) :
    ∃ v, ((scheduleTask e σ t).1.tst t).start = some v ∧ boundOf e σ t ≤ v :=
  scheduleTask_start_ge_mile e wf σ t hb hf hel hnd hok

/-- non-vacuity: b (1 h) depends on a (20 min) with a gap of 90 min, one resource: a well-formed project in which
    b is a forward effort task with one edge to a leaf -/
def gapProj : RawProj :=
  { G := 3600, start := 1736121600, stop := 1737331200,
    res := [{}],
    tasks := [{ effort := some (1/3), alloc := some ([0], []) },
              { effort := some 1, alloc := some ([0], []), deps := [{ target := 0, gap := 5400 }] }] }

example : wfCheck (elaborate gapProj).env = true := by decide +kernel
example : FwdEff (elaborate gapProj).env 1 :=
  ⟨by decide +kernel, by decide +kernel, by decide +kernel, by decide +kernel, by decide +kernel⟩
example : ((elaborate gapProj).env.taskD 1).allDeps.length = 1 ∧
    ∀ dp ∈ ((elaborate gapProj).env.taskD 1).allDeps, ((elaborate gapProj).env.taskD dp.target).leaf = true := by
  decide +kernel

/-- non-vacuity and the witness of finding F54: a (80 min, resource 0) ends at 10:20 on Monday 2025-01-06 (the driver's run of this project: start of b = 10:50); b (2 h, resource 1)
    depends on it with `gaplength 30min`; the bound of b is 10:50 — thirty minutes of project working time after 10:20 —
    not 10:00, where the pinned code put it -/
def lenProj : RawProj :=
  { G := 3600, start := 1736121600, stop := 1737331200,
    res := [{}, {}],
    tasks := [{ effort := some (4/3), alloc := some ([0], []) },
              { effort := some 2, alloc := some ([1], []), deps := [{ target := 0, glen := 1800, hasOpts := true }] }] }

example : wfCheck (elaborate lenProj).env = true := by decide +kernel

/-- (dates in the elaborated environment are relative to the project start) the bound of b: 10:20 + 30 min of working time -/
example : depDate (elaborate lenProj).env { target := 0, glen := 1800, hasOpts := true } (10 * 3600 + 1200) = 10 * 3600 + 3000 := by
  decide +kernel
/-- … across the end of the working day: `gaplength 2h` after 16:20 is 10:20 the next morning -/
example : depDate (elaborate lenProj).env { target := 0, glen := 7200, hasOpts := true } (16 * 3600 + 1200) = 34 * 3600 + 1200 := by
  decide +kernel
/-- … and a gap that ends exactly with the working day gives 17:00, not the next morning -/
example : depDate (elaborate lenProj).env { target := 0, glen := 3600, hasOpts := true } (16 * 3600) = 17 * 3600 := by
  decide +kernel

/-! ### backward mode, one task end to end -/

/-- **one backward task**: a successful `schedule()` of an effort task in backward mode (ALAP), started in any state,
    leaves it with an end at or before its deadline — its own `end`, or else the deadline computed from its successors -/
theorem task_end_respects_deadline (e : Env) (wf : WF e) (σ : St) (t : Nat) (hb : t < σ.ts.size)
    (hf : (σ.tst t).forward = false) (hpos : 0 < (e.taskD t).effort) (hnd : (σ.tst t).done = false)
    (hok : (scheduleTask e σ t).2 = true) :
    ∃ v, ((scheduleTask e σ t).1.tst t).stop = some v ∧ v ≤ deadlineOf e σ t :=
  scheduleTask_stop_le e wf σ t hb hf hpos hnd hok

/-- … and that computed deadline is at or before the start of every scheduled successor minus the largest gap the
    successor asks towards the task or one of its enclosing containers, and at or before the project end -/
theorem deadline_respects_successors (e : Env) (σ : St) (t s : Nat) (hs : s ∈ successors e t) (ss : Int)
    (hss : (σ.tst s).start = some ss) : latestEnd e σ t ≤ ss - succGap e t s ∧ latestEnd e σ t ≤ e.stop :=
  ⟨latestEnd_le_succ e σ t s hs ss hss, latestEnd_le_stop e σ t⟩

/-- combined: a backward effort task without an end of its own ends at or before `start(s) − gap` of every successor
    `s` that is scheduled when the task is placed -/
theorem backward_end_respects_successor (e : Env) (wf : WF e) (σ : St) (t s : Nat) (hb : t < σ.ts.size)
    (hf : (σ.tst t).forward = false) (hpos : 0 < (e.taskD t).effort) (hnd : (σ.tst t).done = false)
    (hns : (σ.tst t).stop = none) (hok : (scheduleTask e σ t).2 = true)
    (hs : s ∈ successors e t) (ss : Int) (hss : (σ.tst s).start = some ss) :
    ∃ v, ((scheduleTask e σ t).1.tst t).stop = some v ∧ v + succGap e t s ≤ ss := by
  obtain ⟨v, hv, hle⟩ := scheduleTask_stop_le e wf σ t hb hf hpos hnd hok
  have hd : deadlineOf e σ t = latestEnd e σ t := by unfold deadlineOf; rw [hns]
  have := latestEnd_le_succ e σ t s hs ss hss
  exact ⟨v, hv, by omega⟩

/-- **C04 for whole projects (backward mode)**: after scheduling ANY well-formed project, every backward (ALAP) effort
    task that is reported as scheduled and whose deadline comes from its successors (no end of its own, none inherited
    from a container: `prepare` left it without an end) ends at or before `start(s) − gap` of every successor `s` — the
    leaves whose own or inherited finish-to-start edges name the task or one of its enclosing containers, `gap` being the
    largest gap such an edge asks for — in the FINAL schedule; and every such successor is scheduled. -/
theorem backward_deps_respected (e : Env) (wf : WF e) (t : Nat) (hel : EffLeaf e t)
    (hns : ((prepare e (initState e)).tst t).stop = none)
    (hs : ((runScenario e).tst t).scheduled = true) (hfw : ((runScenario e).tst t).forward = false)
    (s : Nat) (hsucc : s ∈ successors e t) :
    ((runScenario e).tst s).scheduled = true ∧
    ∀ ss v, ((runScenario e).tst s).start = some ss → ((runScenario e).tst t).stop = some v → v + succGap e t s ≤ ss :=
  runScenario_backOK e wf t hel hns (runScenario_scheduled_done e t hel hs) hfw s hsucc

/-- backward mode: the deadline of a predecessor is at most (successor start − the largest gap the
    successor asks towards it or an enclosing container), for every scheduled successor -/
theorem latestEnd_le_project_end (e : Env) (σ : St) (t : Nat) : latestEnd e σ t ≤ e.stop := by
  unfold latestEnd
  simp only []
  have hmin : ∀ {α : Type} (f : Int → α → Int) (l : List α) (init : Int), (∀ acc x, f acc x ≤ acc) → l.foldl f init ≤ init := by
    intro α f l
    induction l with
    | nil => intro init _; exact Int.le_refl _
    | cons x xs ih => intro init hf; exact Int.le_trans (ih (f init x) hf) (hf init x)
  refine Int.le_trans (hmin _ _ _ ?_) (hmin _ _ _ ?_)
  · intro acc s; split
    · exact Int.le_refl _
    · exact Int.min_le_left _ _
  · intro acc dp; split
    · split
      · exact Int.min_le_left _ _
      · exact Int.le_refl _
    · exact Int.le_refl _

end SP.C04
