import Model
import Proofs.SchedInv
import Proofs.WFCheck
import Proofs.Aligned
import Proofs.Inherit
import Proofs.WFCheck
/-!
C02 — work is booked only inside the resource's working time.

(a) scheduler level: a slot that carries any booking is on shift for that (leaf) resource in the
    calendar view (which already excludes leaves, vacations, bookings and global holidays);
(b) calendar view: `onShiftAt` excludes every leave interval and applies the weekly hours in the
    resource's zone (cross-midnight shifts: the part after midnight belongs to the next day).
-/
namespace SP.C02
open SP

/-- (a) booked ⇒ on shift, for every well-formed project -/
theorem booked_onShift (e : Env) (wf : WF e) (r : Nat) (i : Int)
    (h : ((runScenario e).led.get r i).usage ≠ []) : e.onShift r i = true ∧ (e.resD r).leaf = true :=
  (runScenario_inv e wf).shift r i h

/-- (b1) a slot whose first instant lies in a global vacation, a global leave or a leave / vacation /
    booking of the resource is never on shift -/
theorem leave_excluded (c : CalEnv) (rc : ResCal) (i : Int)
    (h : inAny c.gvac (c.time i) = true ∨ inAny c.gleaves (c.time i) = true ∨ inAny rc.leaves (c.time i) = true) :
    onShiftAt c rc i = false := by
  unfold onShiftAt
  simp only []
  rcases h with h | h | h
  · simp [h]
  · split
    · rfl
    · simp [h]
  · split
    · rfl
    · split
      · rfl
      · simp [h]

/-- (b2) with custom hours the decision is the weekly pattern evaluated at the local wall-clock time -/
theorem hours_applied (c : CalEnv) (rc : ResCal) (h : Hours) (i : Int) (hh : rc.hours = some h)
    (h1 : inAny c.gvac (c.time i) = false) (h2 : inAny c.gleaves (c.time i) = false)
    (h3 : inAny rc.leaves (c.time i) = false) :
    onShiftAt c rc i =
      let lt := match rc.zone with
        | some tbl => c.time i + offsetAt tbl (c.time i)
        | none => c.time i
      h.on (weekday lt) (minuteOfDay lt) := by
  unfold onShiftAt
  cases hz : rc.zone <;> simp [h1, h2, h3, hh]

/-- (b3) cross-midnight shift semantics: an interval `[s, e)` with `e ≤ s` declared for weekday `d`
    covers `m ≥ s` on `d` and `m < e` on the following day, and nothing else of those two days -/
theorem cross_midnight (s e m : Int) (d wd : Int) (hes : e ≤ s) (hd : 0 ≤ d ∧ d < 7) (hwd : 0 ≤ wd ∧ wd < 7) :
    let h : Hours := { days := (List.range 7).map (fun (k : Nat) => if (k : Int) = d then [(s, e)] else []) }
    h.on wd m = (decide (wd = d) && decide (m ≥ s) || decide ((wd - 1) % 7 = d) && decide (m < e)) := by
  intro h
  have hday : ∀ x : Int, 0 ≤ x → x < 7 → h.day x = if x = d then [(s, e)] else [] := by
    intro x hx0 hx7
    simp only [Hours.day, h]
    have : x.toNat < 7 := by omega
    rw [List.getD_eq_getElem?_getD, List.getElem?_map, List.getElem?_range this]
    simp
    have : max x 0 = x := by omega
    rw [this]
  have hm : 0 ≤ (wd - 1) % 7 ∧ (wd - 1) % 7 < 7 := by omega
  unfold Hours.on
  rw [hday wd hwd.1 hwd.2, hday _ hm.1 hm.2]
  by_cases h1 : wd = d
  · have h2 : ¬ (wd - 1) % 7 = d := by omega
    have h3 : ¬ (d - 1) % 7 = d := by omega
    simp [h1, h3, hes]
  · by_cases h2 : (wd - 1) % 7 = d
    · simp [h1, h2, hes]
    · simp [h1, h2]

/-- non-vacuity: Monday 22:00–06:00 covers Monday 23:00 and Tuesday 05:00, not Monday 05:00 -/
example : let h : Hours := { days := [[(1320, 360)], [], [], [], [], [], []] }
    h.on 0 1380 = true ∧ h.on 1 300 = true ∧ h.on 0 300 = false := by decide

/-! ### every second, for aligned calendars -/

/-- (b4) with calendars aligned to the scheduling grid (resolution divides an hour; project start, every leave /
    vacation / booking / holiday boundary, every working-hours boundary, every zone offset and zone transition on the
    grid) the working-time decision is the same for every instant of a slot -/
theorem aligned_slot_is_uniform (c : CalEnv) (rc : ResCal) (ha : CalAligned c rc) (i δ : Int) (h0 : 0 ≤ δ) (h1 : δ < c.G) :
    workingAt c rc (c.time i + δ) = workingAt c rc (c.time i) := slot_uniform c rc ha i δ h0 h1

/-- **C02 for whole projects, every second**: after scheduling ANY well-formed project description, a slot of a resource
    that carries a booking is working time of that resource — own hours / shift hours evaluated in the resource's time
    zone (table incl. DST transitions), outside every leave, vacation, blocking booking and global holiday — at EVERY
    one of its seconds, provided the resource's calendar is aligned with the grid (`calAlignedB`, decidable; the
    complement is the open finding F6) -/
theorem booked_every_second (p : RawProj) (h : wfCheck (elaborate p).env = true) (r : Nat) (i : Int)
    (hb : ((runScenario (elaborate p).env).led.get r i).usage ≠ [])
    (hal : calAlignedB (elaborate p).cal ((elaborate p).rcal.getD r {}) = true)
    (δ : Int) (h0 : 0 ≤ δ) (h1 : δ < p.G) :
    workingAt (elaborate p).cal ((elaborate p).rcal.getD r {}) ((elaborate p).cal.time i + δ) = true := by
  have hon := (booked_onShift (elaborate p).env (wfCheck_sound _ h) r i hb).1
  exact onShift_every_second (elaborate p).cal _ (calAlignedB_sound _ _ hal) i hon δ h0 h1

/-- non-vacuity: a resource in a zone with a whole-hour DST transition, own hours 08:00–12:00 / 13:00–17:00 and a one-day
    leave is aligned with the one-hour grid -/
example : calAlignedB { start := 1741564800, G := 3600, size := 400, gvac := [], gleaves := [(1742169600, 1742256000)] }
    { zone := some [(0, 3600), (1743296400, 7200)], hours := some { days := [[(480, 720), (780, 1020)], [], [], [], [], [], []] },
      leaves := [(1741651200, 1741737600)] } = true := by decide +kernel

/-! ### which calendar applies: the nearest declaration (finding F55) -/

/-- the hours of resource `i` in the elaborated calendars -/
theorem resCals_hours (rs : List RawRes) (i : Nat) (hi : i < rs.length) :
    ((resCals rs).getD i {}).hours =
      (inheritOpt (rs.map (·.parent)) (((rs.map (·.shift)).zip (rs.map (·.hours))).map ownCal)).getD i none := by
  unfold resCals resCalsCore
  simp only [Array.getD_eq_getD_getElem?, Array.getElem?_map, List.getElem?_toArray, List.getElem?_range hi,
    Option.map_some, Option.getD_some]

/-- **a resource's own calendar wins**: a resource that declares working hours itself — through a shift reference or
    inline (the shift reference first, if it has both) — works those hours, whatever its enclosing groups declare.
    (The pinned code let a shift inherited from a group win over a resource's own inline hours: finding F55.) -/
theorem own_calendar_wins (rs : List RawRes) (i : Nat) (hi : i < rs.length) (h : Hours)
    (hown : ownCal ((rs.getD i {}).shift, (rs.getD i {}).hours) = some h) :
    ((resCals rs).getD i {}).hours = some h := by
  rw [resCals_hours rs i hi]
  have hget : rs.getD i {} = rs[i] := by simp [List.getD_eq_getElem?_getD, hi]
  rw [hget] at hown
  apply inheritOpt_own _ _ i (by simp [hi])
  simpa using hown

/-- **… else the calendar of the enclosing group**: a resource that declares no hours of its own has the effective hours of
    its parent (declared before it, as the parser produces) — which in turn are the parent's own or its parent's, so the
    NEAREST declaration decides -/
theorem calendar_from_enclosing_group (rs : List RawRes) (i p : Nat) (hi : i < rs.length)
    (hnone : ownCal ((rs.getD i {}).shift, (rs.getD i {}).hours) = none) (hp : (rs.getD i {}).parent = some p) (hlt : p < i) :
    ((resCals rs).getD i {}).hours = ((resCals rs).getD p {}).hours := by
  rw [resCals_hours rs i hi, resCals_hours rs p (by omega)]
  have hget : rs.getD i {} = rs[i] := by simp [List.getD_eq_getElem?_getD, hi]
  rw [hget] at hnone hp
  apply inheritOpt_from_parent _ _ i p (by simp [hi])
  · simpa using hnone
  · simpa using hp
  · exact hlt

/-- non-vacuity and the witness of F55: a group that refers to a shift (9-17) with a member that declares 6-10 -/
example :
    let sh : Hours := { days := [[(540, 1020)], [(540, 1020)], [(540, 1020)], [(540, 1020)], [(540, 1020)], [], []] }
    let own : Hours := { days := [[(360, 600)], [(360, 600)], [(360, 600)], [(360, 600)], [(360, 600)], [], []] }
    let rs : List RawRes := [{ shift := some sh }, { parent := some 0, hours := some own }]
    ownCal ((rs.getD 1 {}).shift, (rs.getD 1 {}).hours) = some own := rfl

end SP.C02
