import Model
import Proofs.Walk
import Proofs.Visits
import Proofs.NoIdleGlobal
import Proofs.NoIdleBack
import Proofs.NoIdleAlt
import Proofs.NoIdleBackAlt
import Proofs.TeamBack
import Proofs.TeamFit
import Proofs.WFCheck
/-!
C08 — no eligible working time is left idle.

The walk visits every slot index from the cursor on, one by one, in the direction of the mode, and at
every visited slot a single-resource task books exactly when the resource is available there and the
task's limits allow it; a booking records the task in that slot.  Hence between the bound and the
finishing slot no slot in which the resource was available to the task is left without the task.
-/
namespace SP.C08
open SP

/-- the cursor is not moved inside a slot … -/
theorem slot_keeps_cursor (e : Env) (σ : St) (t : Nat) (w : Walk) : (scheduleSlot e σ t w).2.1.cur = w.cur :=
  scheduleSlot_cur e σ t w

/-- … and moves by exactly one slot between two slots: none is skipped -/
theorem next_slot (fwd : Bool) (w w1 : Walk) : (advance fwd w w1).cur = w1.cur + (if fwd then 1 else -1) :=
  advance_cur fwd w w1

/-- at a visited slot: available and within limits ⇒ booked (the resource's ledger slot gets the task) -/
theorem available_is_used (e : Env) (σ : St) (t : Nat) (w : Walk) (r : Nat)
    (ha : available e (reserveStep σ w r) r w.cur = true) (hl : taskLimitsOk e (reserveStep σ w r) t w.cur r = true) :
    ∃ a, (t, a) ∈ ((bookResource e σ t w r).1.led.get r w.cur).usage := by
  rw [bookResource_books_iff]
  simp only [ha, hl, Bool.and_self, if_true]
  refine ⟨availSecs e.G ((reserveStep σ w r).led.get r w.cur), ?_⟩
  rw [bookSlot_entry]
  simp

/-- … and conversely nothing is booked where the resource is not available to the task -/
theorem unavailable_not_booked (e : Env) (σ : St) (t : Nat) (w : Walk) (r : Nat)
    (h : (available e (reserveStep σ w r) r w.cur && taskLimitsOk e (reserveStep σ w r) t w.cur r) = false) :
    (bookResource e σ t w r) = (reserveStep σ w r, 0) := by
  rw [bookResource_books_iff]; simp [h]

/-- availability is exactly: leaf resource, on shift, time left in the slot, not a fully free slot that is
    marked (leave bits / other task), every resource-side limit below its value -/
theorem available_iff (e : Env) (σ : St) (r : Nat) (i : Int) :
    available e σ r i = true ↔
      (e.resD r).leaf = true ∧ e.onShift r i = true ∧ availSecs e.G (σ.led.get r i) > 0 ∧
      ¬ ((σ.marks.get r (e.norm i) = true ∨ e.leaveMark r (e.norm i) = true) ∧ availSecs e.G (σ.led.get r i) ≥ (e.G : Rat)) ∧
      (∀ lid ∈ resLimitIds e r, limitOk e σ lid i none = true) := by
  unfold available
  simp only [Bool.and_eq_true, Bool.not_eq_true', List.all_eq_true, decide_eq_true_eq, Bool.and_eq_false_imp,
    Bool.or_eq_true, decide_eq_false_iff_not]
  constructor
  · rintro ⟨⟨⟨⟨h1, h2⟩, h3⟩, h4⟩, h5⟩
    exact ⟨h1, h2, h3, fun hc => h4 hc.1 hc.2, h5⟩
  · rintro ⟨h1, h2, h3, h4, h5⟩
    exact ⟨⟨⟨⟨h1, h2⟩, h3⟩, fun hm hg => h4 ⟨hm, hg⟩⟩, h5⟩

/-- the backward cursor starts at the last slot strictly before the deadline in which a candidate
    resource is on shift (or at slot 0): `backToWork` only skips slots where `p` is false -/
theorem backToWork_skips_only_off (e : Env) (p : Int → Bool) (fuel : Nat) (c0 : Int) :
    backToWork e p fuel c0 ≤ c0 ∧ ∀ j, backToWork e p fuel c0 < j → j ≤ c0 → p j = false := by
  induction fuel generalizing c0 with
  | zero => exact ⟨Int.le_refl _, by intro j h1 h2; simp [backToWork] at h1; omega⟩
  | succ f ih =>
    unfold backToWork
    split
    · rename_i hc
      simp only [Bool.and_eq_true, decide_eq_true_eq, Bool.not_eq_true'] at hc
      have := ih (c0 - 1)
      refine ⟨by omega, ?_⟩
      intro j h1 h2
      by_cases hj : j = c0
      · rw [hj]; exact hc.2
      · exact this.2 j h1 (by omega)
    · exact ⟨Int.le_refl _, by intro j h1 h2; omega⟩

/-! ### one task, end to end (forward mode, single selected resource) -/

/-- **none skipped**: the k-th slot a forward walk visits is `cursor + k` -/
theorem visits_are_consecutive (e : Env) (t : Nat) (fuel : Nat) (σ : St) (w : Walk) (k : Nat)
    (hk : k < (walkVisits e t fuel σ w).length) : ((walkVisits e t fuel σ w)[k]).2.cur = w.cur + k :=
  walkVisits_consecutive e t fuel σ w k hk

/-- **C08 for one task, end to end** (`TaskScenario.schedule()` in forward mode): started in any state satisfying the
    scheduler invariant, a successful run of an effort task with the single selected resource `r` visits the slots
    from the slot of its dependency bound up to its finishing slot one by one, and in the resulting ledger a visited
    slot carries a booking of the task iff — at the moment it was visited — the resource was available (leaf, on
    shift, time left in the slot, not a marked free slot, resource and group limits not exhausted) and the task's
    limits allowed the booking.  No eligible slot between bound and end is left idle. -/
theorem task_no_idle (e : Env) (wf : WF e) (σ : St) (t r : Nat)
    (hinv : Inv e σ) (hel : Elig e t r) (hb : t < σ.ts.size) (hf : (σ.tst t).forward = true)
    (hnd : (σ.tst t).done = false) (hclean : ∀ i, usageOf (σ.led.get r i).usage t = none)
    (hok : (scheduleTask e σ t).2 = true) :
    ∀ p ∈ walkVisits e t (e.size.toNat + 3) (σ.setT t (σ.tst t))
        { cur := (initCursor e σ t).1, offset := (initCursor e σ t).2 },
      (usageOf ((scheduleTask e σ t).1.led.get r p.2.cur).usage t ≠ none ↔
        (available e (reserveStep p.1 p.2 r) r p.2.cur && taskLimitsOk e (reserveStep p.1 p.2 r) t p.2.cur r) = true) :=
  scheduleTask_no_idle e wf σ t r hinv hel hb hf hnd hclean hok

/-! ### whole projects, in terms of the final ledger -/

/-- an effort task allocated to the single leaf resource `r` (no alternative), no start of its own -/
theorem eligU_of_single (e : Env) (t r : Nat) (hlf : (e.taskD t).leaf = true) (ha : (e.taskD t).hasAlloc = true)
    (hm : (e.taskD t).milestone = false) (hpos : 0 < (e.taskD t).effort)
    (hal : (e.taskD t).alloc = [r]) (halt : (e.taskD t).alt = []) (hns : (e.taskD t).startProvided = false)
    (hrleaf : (e.resD r).leaf = true) : EligU e t r :=
  ⟨⟨hlf, ha, hm, hpos, fun σ c => by rw [hal, halt]; exact selectBest_single e σ r _ c⟩, hns, hrleaf⟩

/-- **C08 for whole projects (forward mode), any single resource** (`Proofs/NoIdle`, `Proofs/NoIdleGlobal`, `Proofs/Solid`):
    after scheduling ANY well-formed project, for every forward effort task `t` reported as scheduled, without a start of its
    own, with the single selected leaf resource `r`: every predecessor is scheduled, and between the slot of the dependency
    bound — the latest of the project start, an inherited start and every predecessor's (start | end) + gap in the FINAL
    schedule — and any slot `L` in which `t` is booked (in particular the last one, which holds its end), every slot in which
    `r` is on shift and not on leave carries a booking in the final ledger, or a limit of the resource / a group / the task /
    a container refuses that slot in the final state (the only legitimate reason to leave working time unused). -/
theorem no_idle_final_limits (e : Env) (wf : WF e) (tr : Tree e) (t r : Nat) (hel : EligU e t r)
    (hs : ((runScenario e).tst t).scheduled = true) (hf : ((runScenario e).tst t).forward = true) :
    (∀ dp ∈ (e.taskD t).allDeps, ((runScenario e).tst dp.target).scheduled = true) ∧
    ∀ L, usageOf ((runScenario e).led.get r L).usage t ≠ none →
      ∀ i, boundSlot e (runScenario e) t ≤ i → i ≤ L → e.onShift r i = true → e.leaveMark r i = false →
        ((runScenario e).led.get r i).usage ≠ [] ∨ Exhausted e (runScenario e) t r i :=
  runScenario_doneIdle e wf tr t r hel
    (runScenario_scheduled_done e t ⟨hel.el.leaf, hel.el.effort, hel.el.nomile⟩ hs) hf

/-- **C08 as stated — the unlimited resource**: when neither `r` (nor a group above it) nor `t` (nor a container above it)
    carries a limit, every working slot of `r` between the bound and the end of `t` carries a booking in the final ledger.
    The task never waits, and never pauses, while its resource could work for it. -/
theorem no_idle_final (e : Env) (wf : WF e) (tr : Tree e) (t r : Nat) (hel : EligU e t r)
    (hrl : resLimitIds e r = []) (htl : taskLimitIds e t = [])
    (hs : ((runScenario e).tst t).scheduled = true) (hf : ((runScenario e).tst t).forward = true) :
    (∀ dp ∈ (e.taskD t).allDeps, ((runScenario e).tst dp.target).scheduled = true) ∧
    ∀ L, usageOf ((runScenario e).led.get r L).usage t ≠ none →
      ∀ i, boundSlot e (runScenario e) t ≤ i → i ≤ L → e.onShift r i = true → e.leaveMark r i = false →
        ((runScenario e).led.get r i).usage ≠ [] := by
  obtain ⟨h1, h2⟩ := no_idle_final_limits e wf tr t r hel hs hf
  refine ⟨h1, fun L hL i hb hi hon hnl => ?_⟩
  rcases h2 L hL i hb hi hon hnl with h3 | h3
  · exact h3
  · exfalso
    unfold Exhausted at h3
    rw [hrl, htl] at h3
    rcases h3 with ⟨_, hm, _⟩ | ⟨_, hm, _⟩ <;> cases hm

/-- the same for the environment elaborated from a project description, under the decidable checks -/
theorem no_idle_final_elab (p : RawProj) (h : wfCheck (elaborate p).env = true) (htr : treeCheck (elaborate p).env = true)
    (t r : Nat) (hel : EligU (elaborate p).env t r)
    (hrl : resLimitIds (elaborate p).env r = []) (htl : taskLimitIds (elaborate p).env t = [])
    (hs : ((runScenario (elaborate p).env).tst t).scheduled = true)
    (hf : ((runScenario (elaborate p).env).tst t).forward = true) :
    ∀ L, usageOf ((runScenario (elaborate p).env).led.get r L).usage t ≠ none →
      ∀ i, boundSlot (elaborate p).env (runScenario (elaborate p).env) t ≤ i → i ≤ L →
        (elaborate p).env.onShift r i = true → (elaborate p).env.leaveMark r i = false →
        ((runScenario (elaborate p).env).led.get r i).usage ≠ [] :=
  (no_idle_final _ (wfCheck_sound _ h) (treeCheck_sound _ htr) t r hel hrl htl hs hf).2

/-! ### the ALAP half -/

/-- an effort task allocated to the single leaf resource `r` (no alternative) -/
theorem eligB_of_single (e : Env) (t r : Nat) (hlf : (e.taskD t).leaf = true) (ha : (e.taskD t).hasAlloc = true)
    (hm : (e.taskD t).milestone = false) (hpos : 0 < (e.taskD t).effort)
    (hal : (e.taskD t).alloc = [r]) (halt : (e.taskD t).alt = []) (hrleaf : (e.resD r).leaf = true) : EligB e t r :=
  ⟨⟨hlf, ha, hm, hpos, fun σ c => by rw [hal, halt]; exact selectBest_single e σ r _ c⟩, hrleaf, by rw [hal, halt]; simp⟩

/-- **C08 for whole projects, backward (ALAP) mode** (`Proofs/VisitsBack`, `Proofs/NoIdleBack`): after scheduling ANY
    well-formed project, for every backward effort task `t` reported as scheduled with the single selected leaf resource `r`,
    between any slot `L` in which `t` is booked (in particular the one that holds its end) and the last slot before its
    deadline — the end it carried when the scheduling loop started (explicit, or inherited from a container), else the
    earliest `start − gap` of its successors and the project end, all read off the FINAL schedule (`deadlineG`) — every slot in
    which `r` is on shift and not on leave carries a booking in the final ledger, or a limit refuses it.  (That the task ends
    no later than this deadline is C04's `task_end_respects_deadline` / `backward_deps_respected`.) -/
theorem no_idle_final_alap (e : Env) (wf : WF e) (tr : Tree e) (t r : Nat) (hel : EligB e t r)
    (hs : ((runScenario e).tst t).scheduled = true) (hf : ((runScenario e).tst t).forward = false) :
    ∀ L, usageOf ((runScenario e).led.get r L).usage t ≠ none →
      ∀ i, L ≤ i → i ≤ e.idx (deadlineG e (loopStart e) (runScenario e) t) - 1 →
        e.onShift r i = true → e.leaveMark r i = false →
        ((runScenario e).led.get r i).usage ≠ [] ∨ Exhausted e (runScenario e) t r i :=
  (runScenario_doneIdleB e wf tr t r hel
    (runScenario_scheduled_done e t ⟨hel.el.leaf, hel.el.effort, hel.el.nomile⟩ hs) hf).2.2

/-- **an ALAP task ends no later than its deadline** (whole projects): the reported end of every scheduled backward effort
    task with a single selected leaf resource is at or before `deadlineG` — the end it carried when the loop started (explicit
    or inherited), else the earliest `start − gap` of its successors and the project end in the FINAL schedule -/
theorem alap_ends_by_deadline (e : Env) (wf : WF e) (tr : Tree e) (t r : Nat) (hel : EligB e t r)
    (hs : ((runScenario e).tst t).scheduled = true) (hf : ((runScenario e).tst t).forward = false) :
    ∃ v, ((runScenario e).tst t).stop = some v ∧ v ≤ deadlineG e (loopStart e) (runScenario e) t :=
  (runScenario_doneIdleB e wf tr t r hel
    (runScenario_scheduled_done e t ⟨hel.el.leaf, hel.el.effort, hel.el.nomile⟩ hs) hf).2.1

/-- … and for an unlimited resource and task the slot is booked -/
theorem no_idle_final_alap_unlimited (e : Env) (wf : WF e) (tr : Tree e) (t r : Nat) (hel : EligB e t r)
    (hrl : resLimitIds e r = []) (htl : taskLimitIds e t = [])
    (hs : ((runScenario e).tst t).scheduled = true) (hf : ((runScenario e).tst t).forward = false) :
    ∀ L, usageOf ((runScenario e).led.get r L).usage t ≠ none →
      ∀ i, L ≤ i → i ≤ e.idx (deadlineG e (loopStart e) (runScenario e) t) - 1 →
        e.onShift r i = true → e.leaveMark r i = false → ((runScenario e).led.get r i).usage ≠ [] := by
  intro L hL i h1 h2 hon hnl
  rcases no_idle_final_alap e wf tr t r hel hs hf L hL i h1 h2 hon hnl with h3 | h3
  · exact h3
  · exfalso
    unfold Exhausted at h3
    rw [hrl, htl] at h3
    rcases h3 with ⟨_, hm, _⟩ | ⟨_, hm, _⟩ <;> cases hm

/-- one backward task, any start state: the visited slots are `cursor, cursor − 1, …`, none skipped -/
theorem backward_visits_are_consecutive (e : Env) (t : Nat) (fuel : Nat) (σ : St) (w : Walk) (k : Nat)
    (hk : k < (walkVisitsB e t fuel σ w).length) : ((walkVisitsB e t fuel σ w)[k]).2.cur = w.cur - k :=
  walkVisitsB_consecutive e t fuel σ w k hk

/-! ### teams -/

/-- **C08 for forward teams** (corollary of `C07.team_earliest_fit`): between the bound slot and any slot the team is
    booked in, every slot in which ALL members are on shift and not on leave carries a booking on some member — the team's own
    (then on every member), or another task's — or some limit of a member or of the task has no room left there for the whole
    team: the team never waits while all of its resources could work for it -/
theorem no_idle_final_team (e : Env) (wf : WF e) (tr : Tree e) (t : Nat) (sel : List Nat) (hel : TeamU e t sel)
    (hs : ((runScenario e).tst t).scheduled = true) (hf : ((runScenario e).tst t).forward = true) :
    ∀ L m0, m0 ∈ sel → usageOf ((runScenario e).led.get m0 L).usage t ≠ none →
      ∀ i, boundSlot e (runScenario e) t ≤ i → i ≤ L → (∀ m ∈ sel, e.onShift m i = true ∧ e.leaveMark m i = false) →
        (∃ m ∈ sel, ((runScenario e).led.get m i).usage ≠ []) ∨ TeamTight e (runScenario e) t sel i := by
  obtain ⟨order, rest, _, hT⟩ := runScenario_placementT e wf tr
  obtain ⟨post, pre, _, hfit⟩ := hT t sel hel
    (runScenario_scheduled_done e t ⟨hel.el.leaf, hel.el.effort, hel.el.nomile⟩ hs) hf
  intro L m0 hm0 hL i hb hi hall
  rcases hfit L m0 hm0 hL i hb hi hall with h1 | ⟨m, hm, t', _, h1⟩ | h1
  · exact Or.inl ⟨m0, hm0, usage_ne_nil_of_usageOf (h1 m0 hm0)⟩
  · exact Or.inl ⟨m, hm, usage_ne_nil_of_usageOf h1⟩
  · exact Or.inr h1

/-- unlimited forward teams: no limits anywhere, so an all-working slot in the interval is booked on some member -/
theorem no_idle_final_team_unlimited (e : Env) (wf : WF e) (tr : Tree e) (t : Nat) (sel : List Nat) (hel : TeamU e t sel)
    (hrl : ∀ m ∈ sel, resLimitIds e m = []) (htl : taskLimitIds e t = [])
    (hs : ((runScenario e).tst t).scheduled = true) (hf : ((runScenario e).tst t).forward = true) :
    ∀ L m0, m0 ∈ sel → usageOf ((runScenario e).led.get m0 L).usage t ≠ none →
      ∀ i, boundSlot e (runScenario e) t ≤ i → i ≤ L → (∀ m ∈ sel, e.onShift m i = true ∧ e.leaveMark m i = false) →
        ∃ m ∈ sel, ((runScenario e).led.get m i).usage ≠ [] := by
  intro L m0 hm0 hL i hb hi hall
  rcases no_idle_final_team e wf tr t sel hel hs hf L m0 hm0 hL i hb hi hall with h1 | h1
  · exact h1
  · exact (teamTight_unlimited hrl htl h1).elim

/-- what makes "not available" mean "booked": in every state a scenario run ends in, a slot without entries still has room
    (a start-offset reservation or a team levelling never fills a slot by itself) and a marked slot carries an entry -/
theorem reservations_never_fill_a_slot (e : Env) (wf : WF e) : Solid e (runScenario e) :=
  runScenario_closed (solid_closed e wf) wf (fun _ => trivial) (solid_init e wf)

/-- a limit that refuses: its counter for the period of the slot is at (or above) the limit -/
theorem refuses_iff (e : Env) (σ : St) (lid : Nat) (i : Int) (ro : Option Nat) :
    Refuses e lid i ro σ ↔
      ¬ ((e.limitD lid).res.isSome && (e.limitD lid).res != ro) = true ∧ 0 ≤ e.period (e.limitD lid) i ∧
      (e.limitD lid).value ≤ σ.cnt.get lid (e.period (e.limitD lid) i) :=
  limitOk_false_iff e σ lid i ro

/-- non-vacuity: b (1 h) depends on a (20 min) with a gap of 90 min, one resource -/
def gapProj : RawProj :=
  { G := 3600, start := 1736121600, stop := 1737331200,
    res := [{}],
    tasks := [{ effort := some (1/3), alloc := some ([0], []) },
              { effort := some 1, alloc := some ([0], []), deps := [{ target := 0, gap := 5400 }] }] }

example : wfCheck (elaborate gapProj).env = true := by decide +kernel
example : treeCheck (elaborate gapProj).env = true := by decide +kernel
example : EligU (elaborate gapProj).env 1 0 :=
  eligU_of_single _ 1 0 (by decide +kernel) (by decide +kernel) (by decide +kernel) (by decide +kernel) (by decide +kernel)
    (by decide +kernel) (by decide +kernel) (by decide +kernel)
example : resLimitIds (elaborate gapProj).env 0 = [] ∧ taskLimitIds (elaborate gapProj).env 1 = [] := by decide +kernel

/-! ### forward tasks with an alternative -/

/-- **C08 with an alternative** (`Proofs/NoIdleAlt`): after scheduling ANY well-formed project, for every forward effort task
    `t` reported as scheduled, without a start of its own, with one primary and one alternative resource (both leaves): every
    predecessor is scheduled, and on ONE of the two candidates — the one `_selectBestResources` chose at the first slot; by
    `C03.bookings_on_one_candidate_set` the task holds nothing on the other; it IS booked on this one — between the slot of the dependency bound and any
    slot `L` in which `t` is booked on it, every slot in which that resource is on shift and not on leave carries a booking in
    the final ledger, or a limit refuses that slot in the final state. -/
theorem no_idle_final_with_alternative (e : Env) (wf : WF e) (tr : Tree e) (t r1 r2 : Nat) (hel : EligAltU e t r1 r2)
    (hs : ((runScenario e).tst t).scheduled = true) (hf : ((runScenario e).tst t).forward = true) :
    (∀ dp ∈ (e.taskD t).allDeps, ((runScenario e).tst dp.target).scheduled = true) ∧
    ∃ r, (r = r1 ∨ r = r2) ∧ (∃ L, usageOf ((runScenario e).led.get r L).usage t ≠ none) ∧
      ∀ L, usageOf ((runScenario e).led.get r L).usage t ≠ none →
        ∀ i, boundSlot e (runScenario e) t ≤ i → i ≤ L → e.onShift r i = true → e.leaveMark r i = false →
          ((runScenario e).led.get r i).usage ≠ [] ∨ Exhausted e (runScenario e) t r i :=
  runScenario_doneIdleAlt e wf tr t r1 r2 hel
    (runScenario_scheduled_done e t ⟨hel.el.leaf, hel.el.effort, hel.el.nomile⟩ hs) hf

/-- **C08 with an alternative, ALAP half** (`Proofs/NoIdleBackAlt`): after scheduling ANY well-formed project, every backward
    effort task `t` reported as scheduled with one primary and one alternative resource (both leaves) ends no later than its
    deadline (`deadlineG`: the end it carried when the loop started, else the earliest `start − gap` of its successors and the
    project end in the FINAL schedule), is booked on ONE of its two candidates, and on that one, between any slot `L` in which
    it is booked and the last slot before the deadline, every slot in which the resource is on shift and not on leave carries a
    booking in the final ledger, or a limit refuses it. -/
theorem no_idle_final_alap_with_alternative (e : Env) (wf : WF e) (tr : Tree e) (t r1 r2 : Nat) (hel : EligAltB e t r1 r2)
    (hs : ((runScenario e).tst t).scheduled = true) (hf : ((runScenario e).tst t).forward = false) :
    (∃ v, ((runScenario e).tst t).stop = some v ∧ v ≤ deadlineG e (loopStart e) (runScenario e) t) ∧
    ∃ r, (r = r1 ∨ r = r2) ∧ (∃ L, usageOf ((runScenario e).led.get r L).usage t ≠ none) ∧
      ∀ L, usageOf ((runScenario e).led.get r L).usage t ≠ none →
        ∀ i, L ≤ i → i ≤ e.idx (deadlineG e (loopStart e) (runScenario e) t) - 1 →
          e.onShift r i = true → e.leaveMark r i = false →
          ((runScenario e).led.get r i).usage ≠ [] ∨ Exhausted e (runScenario e) t r i :=
  (runScenario_doneIdleBAlt e wf tr t r1 r2 hel
    (runScenario_scheduled_done e t ⟨hel.el.leaf, hel.el.effort, hel.el.nomile⟩ hs) hf).2

/-- **C08 for ALAP teams** (`Proofs/TeamBack`, `Proofs/TeamLimits`): after scheduling ANY well-formed project, every backward
    team task reported as scheduled — several pairwise different leaf resources; members, groups, task and containers may carry
    limits — ends no later than its deadline (`deadlineG`), and between any slot `L` in which it is booked and the last slot
    before the deadline, every slot in which ALL its members are on shift and not on leave carries the task on every member, or
    a booking on some member, or some limit has no room left there for the whole team (`TeamTight`, see `C07.teamTight_iff`):
    the team never ends earlier than it has to while all of its resources could still work for it. -/
theorem no_idle_final_alap_team (e : Env) (wf : WF e) (tr : Tree e) (t : Nat) (sel : List Nat) (hel : TeamUB e t sel)
    (hs : ((runScenario e).tst t).scheduled = true) (hf : ((runScenario e).tst t).forward = false) :
    (∃ v, ((runScenario e).tst t).stop = some v ∧ v ≤ deadlineG e (loopStart e) (runScenario e) t) ∧
    ∀ L m0, m0 ∈ sel → usageOf ((runScenario e).led.get m0 L).usage t ≠ none →
      ∀ i, L ≤ i → i ≤ e.idx (deadlineG e (loopStart e) (runScenario e) t) - 1 →
        (∀ m ∈ sel, e.onShift m i = true ∧ e.leaveMark m i = false) →
        (∀ m ∈ sel, usageOf ((runScenario e).led.get m i).usage t ≠ none) ∨
        (∃ m ∈ sel, ((runScenario e).led.get m i).usage ≠ []) ∨ TeamTight e (runScenario e) t sel i :=
  (runScenario_doneIdleBT e wf tr t sel hel
    (runScenario_scheduled_done e t ⟨hel.el.leaf, hel.el.effort, hel.el.nomile⟩ hs) hf).2

/-- unlimited ALAP teams: no limits anywhere, so the third case cannot occur -/
theorem no_idle_final_alap_team_unlimited (e : Env) (wf : WF e) (tr : Tree e) (t : Nat) (sel : List Nat) (hel : TeamUB e t sel)
    (hrl : ∀ m ∈ sel, resLimitIds e m = []) (htl : taskLimitIds e t = [])
    (hs : ((runScenario e).tst t).scheduled = true) (hf : ((runScenario e).tst t).forward = false) :
    ∀ L m0, m0 ∈ sel → usageOf ((runScenario e).led.get m0 L).usage t ≠ none →
      ∀ i, L ≤ i → i ≤ e.idx (deadlineG e (loopStart e) (runScenario e) t) - 1 →
        (∀ m ∈ sel, e.onShift m i = true ∧ e.leaveMark m i = false) →
        (∀ m ∈ sel, usageOf ((runScenario e).led.get m i).usage t ≠ none) ∨
        ∃ m ∈ sel, ((runScenario e).led.get m i).usage ≠ [] := by
  intro L m0 hm0 hL i h1 h2 hall
  rcases (no_idle_final_alap_team e wf tr t sel hel hs hf).2 L m0 hm0 hL i h1 h2 hall with h3 | h3 | h3
  · exact Or.inl h3
  · exact Or.inr h3
  · exact (teamTight_unlimited hrl htl h3).elim

end SP.C08
