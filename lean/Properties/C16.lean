import Model
import Model.Scenarios
/-!
C16 — scenarios are scheduled independently.

In the model every scenario is scheduled on the projection of the project onto that scenario; the
theorems state the frame property (a scenario's result is a function of the base project and that
scenario's own overrides only).  That the real code behaves like this model — no ledger, limit counter,
horizon or attribute leaks from one scenario into the next — is what the `project` stream with several
scenarios compares (multi-scenario run of the real code vs single-scenario runs of the model).
-/
namespace SP.C16
open SP

/-- declaring additional scenarios does not change the result of existing ones -/
theorem add_scenario_frame (m : Multi) (extra : List Override) (i : Nat) (h : i < m.scenarios.length) :
    (runAll { m with scenarios := m.scenarios ++ [extra] })[i]? = (runAll m)[i]? := by
  unfold runAll
  simp only [List.map_append, List.map_cons, List.map_nil]
  rw [List.getElem?_append_left (by simpa using h)]

/-- a scenario without overrides is scheduled exactly like the base project (its parent) -/
theorem no_override_is_base (b : RawProj) : projection b [] = b := rfl

theorem no_override_same_result (m : Multi) (i : Nat) (h : m.scenarios[i]? = some []) :
    (runAll m)[i]? = some (runScenario (elaborate m.base).env) := by
  unfold runAll
  rw [List.getElem?_map, h]
  rfl

/-- a scenario-specific attribute changes only that scenario: the other scenarios' results do not
    depend on scenario `j`'s overrides -/
theorem override_only_own (m : Multi) (j : Nat) (ovs : List Override) (i : Nat) (hij : i ≠ j) :
    (runAll { m with scenarios := m.scenarios.set j ovs })[i]? = (runAll m)[i]? := by
  unfold runAll
  simp only [List.getElem?_map]
  rw [List.getElem?_set_ne (by omega)]

/-- every scenario starts from the empty ledger and zero counters -/
theorem fresh_state (e : Env) : (initState e).led.get = (({} : Ledger).get) ∧ (initState e).cnt.get = (({} : Counters).get) :=
  ⟨rfl, rfl⟩

example : (runAll { base := { G := 3600, start := 0, stop := 604800 }, scenarios := [[], [{ task := 0, effort := some 4 }]] }).length = 2 := rfl

end SP.C16
