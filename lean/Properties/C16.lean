import Model
import Model.Scenarios
import Proofs.Scenarios
/-!
C16 — scenarios are scheduled independently.

In the model every scenario is scheduled on the projection of the project onto that scenario; the
theorems state the frame property (a scenario's result is a function of the base project and that
scenario's own overrides only).  That the real code behaves like this model — no ledger, limit counter,
horizon or attribute leaks from one scenario into the next — is what the `project` stream with several
scenarios compares (multi-scenario run of the real code vs single-scenario runs of the model).
-/
namespace SP.C16
open SP

/-- declaring additional scenarios does not change the result of existing ones -/
theorem add_scenario_frame (m : Multi) (extra : List Override) (i : Nat) (h : i < m.scenarios.length) :
    (runAll { m with scenarios := m.scenarios ++ [extra] })[i]? = (runAll m)[i]? := by
  unfold runAll
  simp only [List.map_append, List.map_cons, List.map_nil]
  rw [List.getElem?_append_left (by simpa using h)]

/-- a scenario without overrides is scheduled exactly like the base project (its parent) -/
theorem no_override_is_base (b : RawProj) : projection b [] = b := rfl

theorem no_override_same_result (m : Multi) (i : Nat) (h : m.scenarios[i]? = some []) :
    (runAll m)[i]? = some (runScenario (elaborate m.base).env) := by
  unfold runAll
  rw [List.getElem?_map, h]
  rfl

/-- a scenario-specific attribute changes only that scenario: the other scenarios' results do not
    depend on scenario `j`'s overrides -/
theorem override_only_own (m : Multi) (j : Nat) (ovs : List Override) (i : Nat) (hij : i ≠ j) :
    (runAll { m with scenarios := m.scenarios.set j ovs })[i]? = (runAll m)[i]? := by
  unfold runAll
  simp only [List.getElem?_map]
  rw [List.getElem?_set_ne (by omega)]

/-- every scenario starts from the empty ledger and zero counters -/
theorem fresh_state (e : Env) : (initState e).led.get = (({} : Ledger).get) ∧ (initState e).cnt.get = (({} : Counters).get) :=
  ⟨rfl, rfl⟩

/-- the result reported for scenario `i` is the schedule of ITS OWN projection — nothing else enters -/
theorem scenario_result_is_own_projection (m : Multi) (i : Nat) :
    (runAll m)[i]? = (m.scenarios[i]?).map (fun ovs => runScenario (elaborate (projection m.base ovs)).env) := by
  unfold runAll; rw [List.getElem?_map]

/-- two scenarios with the same overrides get the same schedule, wherever they stand in the declaration
    order and whatever was scheduled between them (no ledger, counter or horizon survives a scenario) -/
theorem same_overrides_same_result (m : Multi) (i j : Nat) (h : m.scenarios[i]? = m.scenarios[j]?) :
    (runAll m)[i]? = (runAll m)[j]? := by
  rw [scenario_result_is_own_projection, scenario_result_is_own_projection, h]

/-- declaring the scenarios in another order permutes the results and changes none of them -/
theorem scenario_order_irrelevant (m : Multi) (l : List (List Override)) (h : l.Perm m.scenarios) :
    (runAll { m with scenarios := l }).Perm (runAll m) := by
  unfold runAll; exact h.map _

/-- removing scenario `j` leaves the results of all the others as they were: those declared before it keep
    their place, those declared after it move up by one -/
theorem remove_scenario_frame (m : Multi) (j i : Nat) :
    (runAll { m with scenarios := m.scenarios.eraseIdx j })[i]? = (runAll m)[if i < j then i else i + 1]? := by
  unfold runAll
  simp only [List.getElem?_map, List.getElem?_eraseIdx]
  split <;> rfl

/-- inserting a scenario anywhere in the declaration order leaves the others' results as they were -/
theorem insert_scenario_frame (m : Multi) (j : Nat) (extra : List Override) (i : Nat) (hi : i < j) :
    (runAll { m with scenarios := m.scenarios.insertIdx j extra })[i]? = (runAll m)[i]? := by
  unfold runAll
  simp only [List.getElem?_map]
  rw [List.getElem?_insertIdx_of_lt hi]

/-- a scenario whose overrides all name tasks the project does not have is scheduled exactly like the base project -/
theorem void_overrides_same_result (m : Multi) (i : Nat) (ovs : List Override) (h : m.scenarios[i]? = some ovs)
    (hv : ∀ o ∈ ovs, m.base.tasks.length ≤ o.task) :
    (runAll m)[i]? = some (runScenario (elaborate m.base).env) := by
  rw [scenario_result_is_own_projection, h]
  simp only [Option.map_some, projection, foldl_applyOne_void ovs m.base.tasks hv]

/-- a scenario has exactly the tasks of the base project -/
theorem projection_task_count (b : RawProj) (ovs : List Override) : (projection b ovs).tasks.length = b.tasks.length :=
  foldl_applyOne_length ovs b.tasks

/-- a task that no override of the scenario names enters the scenario with every attribute of the base project -/
theorem untouched_task_same (b : RawProj) (ovs : List Override) (i : Nat) (h : ∀ o ∈ ovs, o.task ≠ i) :
    (projection b ovs).tasks[i]? = b.tasks[i]? :=
  foldl_applyOne_other ovs b.tasks i h

/-- an override gives the task it names exactly the values it carries, for that scenario: attributes the override does not
    mention keep the base value -/
theorem override_sets_named_task (b : RawProj) (o : Override) (t : RawTask) (h : b.tasks[o.task]? = some t) :
    (projection b [o]).tasks[o.task]? = some { t with
      effort := (o.effort <|> t.effort), start := (o.start <|> t.start), stop := (o.stop <|> t.stop) } :=
  applyOne_same b.tasks o t h

/-- … and, applied after any other overrides that do not name that task, still does so -/
theorem later_override_sets_named_task (b : RawProj) (ovs : List Override) (o : Override) (t : RawTask)
    (h : b.tasks[o.task]? = some t) (hn : ∀ o' ∈ ovs, o'.task ≠ o.task) :
    (projection b (ovs ++ [o])).tasks[o.task]? = some { t with
      effort := (o.effort <|> t.effort), start := (o.start <|> t.start), stop := (o.stop <|> t.stop) } := by
  unfold projection
  simp only [List.foldl_append, List.foldl_cons, List.foldl_nil]
  exact applyOne_same _ o t (by rw [foldl_applyOne_other ovs b.tasks o.task hn]; exact h)

/-- everything of the project that is not a task (resolution, window, resources, calendars, limits) is shared unchanged -/
theorem projection_shares_rest (b : RawProj) (ovs : List Override) :
    { projection b ovs with tasks := b.tasks } = b := rfl

example : (projection { G := 3600, start := 0, stop := 604800, tasks := [{ effort := some 2 }, { effort := some 3 }] }
    [{ task := 1, effort := some 4 }]).tasks.map (·.effort) = [some 2, some 4] := by decide +kernel

example : (runAll { base := { G := 3600, start := 0, stop := 604800 }, scenarios := [[], [{ task := 0, effort := some 4 }]] }).length = 2 := rfl

end SP.C16
