import Model
import Proofs.CliContract
/-!
C19 — the `plan` CLI honours its output contract.

All theorems are about `run env .repaired c fs0`: the effect program of plan.py after
notes/patches/F17, F18, F26, F43 (`Model/Cli.lean`), for every environment `env` (hash function,
engine verdict, report bodies, reports defined by the text: all abstract), every configuration `c`
(channel, format, process id, random token, **fault point**) and every initial file system `fs0`.
`WellFormed` = the argument names a user's path, temp names are fresh, the report goes to stdout.
The `pinned_*` theorems refute the same statements for the program text as pinned.
Not covered here: `-o FILE` (model only, checked by the correspondence stream), stderr text, click.
-/
namespace SP.C19
open SP.Cli
variable {B R : Type}

/-- **Exit-code map.**  For every input class and every fault point the exit code is the one in the
    table `expectedExit` (Proofs/CliContract.lean): 1 for rejected or unreadable input, 2 when
    anything later fails, 0 otherwise. -/
theorem exit_code_map (env : Cli.Env B R) (c : Config B) (fs0 : FS B R) (hwf : WellFormed c fs0) :
    (run env .repaired c fs0).1.exit = some (expectedExit env c fs0) :=
  (run_contract env c fs0 hwf).1

/-- the table has no other entries than 0, 1, 2 -/
theorem exit_code_range (env : Cli.Env B R) (c : Config B) (fs0 : FS B R) :
    expectedExit env c fs0 = 0 ∨ expectedExit env c fs0 = 1 ∨ expectedExit env c fs0 = 2 := by
  unfold expectedExit
  repeat' split
  all_goals simp

/-- missing file, directory, empty file (file channel); empty or whitespace-only stdin: exit 1 -/
theorem bad_input_is_1 (env : Cli.Env B R) (c : Config B) (fs0 : FS B R) (hwf : WellFormed c fs0)
    (h : (c.channel = .file ∧ (fs0 c.inPath = none ∨ fs0 c.inPath = some .dir ∨
            ∃ b, fs0 c.inPath = some (.file (.raw b)) ∧ env.empty b = true)) ∨
         (c.channel = .stdin ∧ env.blank c.stdin = true)) :
    (run env .repaired c fs0).1.exit = some 1 := by
  rw [exit_code_map env c fs0 hwf]
  have : accepted env c fs0 = none := by
    unfold accepted
    rcases h with ⟨hc, h | h | ⟨b, h, he⟩⟩ | ⟨hc, h⟩ <;> simp [hc, h, *]
  simp [expectedExit, this]

/-- **Unreadable input exits 1** (after F26.diff): the input passed validation and reading it fails -/
theorem unreadable_is_1 (env : Cli.Env B R) (c : Config B) (fs0 : FS B R) (hwf : WellFormed c fs0) (b : B)
    (hacc : accepted env c fs0 = some b) (hf : c.fault = .readInput) :
    (run env .repaired c fs0).1.exit = some 1 := by
  rw [exit_code_map env c fs0 hwf]
  simp [expectedExit, hacc, hf]

/-- an accepted input whose processing fails anywhere after the hash — temp dir, input copy, engine
    (syntax error, engine exception, no report file), reading the report, writing stdout — exits 2 -/
theorem generation_failure_is_2 (env : Cli.Env B R) (c : Config B) (fs0 : FS B R) (hwf : WellFormed c fs0) (b : B)
    (hacc : accepted env c fs0 = some b) (hnr : c.fault ≠ .readInput)
    (h : (c.channel = .stdin ∧ (c.fault = .stdinMkstemp ∨ c.fault = .stdinWrite)) ∨ c.fault ∈ midFaults ∨
         env.engineOk b = false ∨ c.fault = .readReport ∨ c.fault = .echo) :
    (run env .repaired c fs0).1.exit = some 2 := by
  rw [exit_code_map env c fs0 hwf]
  unfold expectedExit
  simp only [hacc]
  repeat' split
  all_goals (first | rfl | (exfalso; simp_all))

/-- exit 0 exactly when the input was accepted, the engine succeeds on it and no fault fires -/
theorem exit_0_iff (env : Cli.Env B R) (c : Config B) (fs0 : FS B R) (hwf : WellFormed c fs0) :
    (run env .repaired c fs0).1.exit = some 0 ↔
      ∃ b, accepted env c fs0 = some b ∧ env.engineOk b = true ∧
        ¬(c.channel = .stdin ∧ (c.fault = .stdinMkstemp ∨ c.fault = .stdinWrite)) ∧
        c.fault ≠ .readInput ∧ c.fault ∉ midFaults ∧ c.fault ≠ .readReport ∧ c.fault ≠ .echo := by
  rw [exit_code_map env c fs0 hwf]
  unfold expectedExit
  cases hacc : accepted env c fs0 with
  | none => simp
  | some b =>
    simp only [Option.some.injEq, exists_eq_left']
    repeat' split
    all_goals simp_all

/-- **Stdout carries the report and nothing else**: on exit 0 exactly one item, the auto report of the
    accepted bytes; on any other exit nothing at all -/
theorem stdout_only_report (env : Cli.Env B R) (c : Config B) (fs0 : FS B R) (hwf : WellFormed c fs0) :
    ((run env .repaired c fs0).1.exit = some 0 →
        ∃ b, accepted env c fs0 = some b ∧ (run env .repaired c fs0).1.stdout = [emitted env c b]) ∧
    ((run env .repaired c fs0).1.exit ≠ some 0 → (run env .repaired c fs0).1.stdout = []) := by
  obtain ⟨he, hs⟩ := run_contract env c fs0 hwf
  rw [he, hs]
  unfold expectedStdout
  cases hacc : accepted env c fs0 with
  | none => simp [expectedExit, hacc]
  | some b =>
    constructor
    · intro h0
      have : expectedExit env c fs0 = 0 := by simpa using h0
      exact ⟨b, rfl, by simp [this, emitted]⟩
    · intro h0
      have : expectedExit env c fs0 ≠ 0 := by simpa using h0
      simp [this]

/-- **report_id = SHA-256 of the bytes read**: of the file (file channel), of the bytes written to the
    temp file (stdin channel); the hash function is the abstract `env.H` -/
theorem report_id_is_hash (env : Cli.Env B R) (c : Config B) (fs0 : FS B R) (hwf : WellFormed c fs0)
    (hj : c.fmt = .json) (h0 : (run env .repaired c fs0).1.exit = some 0) :
    ∃ b, accepted env c fs0 = some b ∧
      (run env .repaired c fs0).1.stdout.map (·.reportId) = [some (env.H b)] ∧
      (c.channel = .file → fs0 c.inPath = some (.file (.raw b))) ∧
      (c.channel = .stdin → b = env.stdinCopy c.stdin) := by
  obtain ⟨b, hacc, hs⟩ := (stdout_only_report env c fs0 hwf).1 h0
  refine ⟨b, hacc, by simp [hs, emitted, hj], ?_, ?_⟩
  · intro hc
    simp only [accepted, hc] at hacc
    split at hacc
    · rename_i b' hb'
      split at hacc <;> simp_all
    · simp at hacc
  · intro hc
    simp only [accepted, hc] at hacc
    split at hacc <;> simp_all

/-- **Same bytes from a file and from stdin.**  If the text survives the text-mode round trip
    (`stdinCopy b = b`: UTF-8, no newline translation) and is not blank, the two channels give the
    same exit code and the same stdout — for every fault point common to both, whatever the process
    ids, temp names and random tokens of the two runs. -/
theorem same_bytes_file_stdin (env : Cli.Env B R) (cf cs : Config B) (fs0 : FS B R) (b : B)
    (hwf : WellFormed cf fs0) (hws : WellFormed cs fs0)
    (hcf : cf.channel = .file) (hcs : cs.channel = .stdin)
    (hfile : fs0 cf.inPath = some (.file (.raw b))) (hstdin : cs.stdin = b)
    (hrt : env.stdinCopy b = b) (hne : env.empty b = false) (hnb : env.blank b = false)
    (hfmt : cf.fmt = cs.fmt) (hfault : cf.fault = cs.fault)
    (hcommon : cs.fault ≠ .stdinMkstemp ∧ cs.fault ≠ .stdinWrite) :
    (run env .repaired cf fs0).1.exit = (run env .repaired cs fs0).1.exit ∧
    (run env .repaired cf fs0).1.stdout = (run env .repaired cs fs0).1.stdout := by
  obtain ⟨e1, s1⟩ := run_contract env cf fs0 hwf
  obtain ⟨e2, s2⟩ := run_contract env cs fs0 hws
  have a1 : accepted env cf fs0 = some b := by simp [accepted, hcf, hfile, hne]
  have a2 : accepted env cs fs0 = some b := by simp [accepted, hcs, hstdin, hnb, hrt]
  have hE : expectedExit env cf fs0 = expectedExit env cs fs0 := by
    simp [expectedExit, a1, a2, hcf, hcs, hfault, hcommon.1, hcommon.2]
  rw [e1, e2, s1, s2]
  refine ⟨by rw [hE], ?_⟩
  simp [expectedStdout, a1, a2, hE, hfmt]

/-- **Always the auto report.**  The result does not depend on the reports the text defines, on
    their names, formats or bodies: two environments that differ only there give the same exit
    code and the same stdout, and on success that stdout is the `id, start, end` report. -/
theorem always_auto_report (env env' : Cli.Env B R) (c : Config B) (fs0 : FS B R) (hwf : WellFormed c fs0)
    (hH : env'.H = env.H) (hbl : env'.blank = env.blank) (hem : env'.empty = env.empty)
    (hsc : env'.stdinCopy = env.stdinCopy) (hok : env'.engineOk = env.engineOk)
    (hab : env'.autoBody = env.autoBody) :
    (run env' .repaired c fs0).1.exit = (run env .repaired c fs0).1.exit ∧
    (run env' .repaired c fs0).1.stdout = (run env .repaired c fs0).1.stdout := by
  obtain ⟨e1, s1⟩ := run_contract env c fs0 hwf
  obtain ⟨e2, s2⟩ := run_contract env' c fs0 hwf
  have ha : accepted env' c fs0 = accepted env c fs0 := by simp [accepted, hbl, hem, hsc]
  have hE : expectedExit env' c fs0 = expectedExit env c fs0 := by simp [expectedExit, ha, hok]
  rw [e1, e2, s1, s2, hE]
  exact ⟨rfl, by simp [expectedStdout, ha, hE, hH, hab]⟩

/-! ## the pinned code: refutations, and non-vacuity of the hypotheses -/

/-- texts: 0 plain project, 1 project with its own JSON report `m` -/
def wEnv : Cli.Env Nat String :=
  { H := fun b => if b = 0 then "h0" else "h1", blank := fun _ => false, empty := fun _ => false,
    stdinCopy := id, engineOk := fun _ => true,
    reports := fun b => if b = 1 then [⟨['m'], ['m'], [.json]⟩] else [],
    autoBody := fun _ _ => "id,start,end", userBody := fun _ _ _ => "name,effort" }

def wFs : FS Nat String := fun p =>
  if p = .user 0 then some (.file (.raw 0)) else if p = .user 1 then some (.file (.raw 1)) else none

def wCfg (inp : Nat) (fault : Fault) (order : List Name) : Config Nat :=
  { pid := 0, channel := .file, inPath := .user inp, stdin := 0, fmt := .json, out := none,
    tok := [10, 11], fault := fault, dirOrder := order }

def mJson : Name := ['m', '.', 'j', 's', 'o', 'n']
def autoJson : Name := fileName (wCfg 1 .none []).rid .json

theorem wWellFormed (inp : Nat) (fault : Fault) (order : List Name) : WellFormed (wCfg inp fault order) wFs where
  inp := ⟨inp, rfl⟩
  raw := by
    intro x hx
    simp only [wCfg, wFs] at hx
    by_cases h0 : inp = 0
    · subst h0; exact ⟨0, by simpa using hx.symm⟩
    · by_cases h1 : inp = 1
      · subst h1; exact ⟨1, by simpa using hx.symm⟩
      · simp [h0, h1] at hx
  out := rfl
  fresh := by
    intro p hp
    cases p <;> simp_all [owns, wFs]

/-- F26 on the pinned code: an unreadable input exits 2 -/
theorem pinned_unreadable_is_2 :
    (run wEnv ⟨true, true, false, true⟩ (wCfg 0 .readInput []) wFs).1.exit = some 2 := by decide

/-- F17 on the pinned code: with the user's file listed first, the user's `name, effort` report is
    printed; with the other directory order, the auto report — the output depends on the order in
    which the OS lists the directory -/
theorem pinned_emits_user_report :
    (run wEnv ⟨false, false, true, true⟩ (wCfg 1 .none [mJson, autoJson]) wFs).1.stdout
      = [⟨.json, some "h1", "name,effort"⟩] ∧
    (run wEnv ⟨false, false, true, true⟩ (wCfg 1 .none [autoJson, mJson]) wFs).1.stdout
      = [⟨.json, some "h1", "id,start,end"⟩] := by decide

/-- the repaired program on the same inputs: exit 1 and the auto report, for both directory orders -/
example : (run wEnv .repaired (wCfg 0 .readInput []) wFs).1.exit = some 1 ∧
    (run wEnv .repaired (wCfg 1 .none [mJson, autoJson]) wFs).1.stdout = [⟨.json, some "h1", "id,start,end"⟩] ∧
    (run wEnv .repaired (wCfg 1 .none [autoJson, mJson]) wFs).1.stdout = [⟨.json, some "h1", "id,start,end"⟩] := by
  decide

/-- non-vacuity of `same_bytes_file_stdin`: a file run and a stdin run of text 1 -/
example : ∃ cs : Config Nat, WellFormed (wCfg 1 .none []) wFs ∧ WellFormed cs wFs ∧ cs.channel = .stdin ∧
    cs.stdin = 1 ∧ (run wEnv .repaired cs wFs).1.exit = some 0 ∧
    (run wEnv .repaired cs wFs).1.stdout = (run wEnv .repaired (wCfg 1 .none []) wFs).1.stdout :=
  ⟨{ wCfg 1 .none [] with channel := .stdin, stdin := 1, pid := 5, tok := [3] },
   wWellFormed 1 .none [],
   ⟨⟨1, rfl⟩, (wWellFormed 1 .none []).raw, rfl, by intro p hp; cases p <;> simp_all [owns, wFs]⟩,
   rfl, rfl, by decide, by decide⟩

end SP.C19
