import Model
import Proofs.SchedInv
import Proofs.WFCheck
import Proofs.Containers
/-!
C10 — containers summarise their children and book nothing.

Booking part (scheduler level): no container task and no resource group ever appears in a ledger.
Roll-up part (one step): when all children of a container are scheduled, the roll-up marks it
scheduled with start = earliest child start and end = latest child end.
-/
namespace SP.C10
open SP

/-- only leaf tasks occupy resource time -/
theorem no_container_booked (e : Env) (wf : WF e) (r : Nat) (i : Int) (x : Nat × Rat)
    (hx : x ∈ ((runScenario e).led.get r i).usage) : (e.taskD x.1).leaf = true :=
  (runScenario_inv e wf).leafTask r i x hx

/-- only leaf resources are ever booked: a resource group has an empty ledger -/
theorem no_group_booked (e : Env) (wf : WF e) (r : Nat) (i : Int) (hgrp : (e.resD r).leaf = false) :
    ((runScenario e).led.get r i).usage = [] := by
  by_cases h : ((runScenario e).led.get r i).usage = []
  · exact h
  · have := ((runScenario_inv e wf).shift r i h).2
    rw [hgrp] at this; cases this

theorem minOpt_le (a : Option Int) (b : Int) : ∀ v, minOpt a b = some v → v ≤ b ∧ (∀ x, a = some x → v ≤ x) := by
  intro v h
  cases a with
  | none => simp [minOpt] at h; subst h; exact ⟨Int.le_refl _, by intro x hx; cases hx⟩
  | some x => simp [minOpt] at h; subst h; exact ⟨Int.min_le_right _ _, by intro y hy; cases hy; exact Int.min_le_left _ _⟩

/-- the folded minimum is a lower bound of every child's start … -/
theorem childMinStart_le (σ : St) (children : List Nat) (v : Int) (h : childMinStart σ children = some v) :
    ∀ c ∈ children, ∀ s, (σ.tst c).start = some s → v ≤ s := by
  unfold childMinStart at h
  have key : ∀ (l : List Nat) (init : Option Int) (v : Int),
      l.foldl (fun m c => match (σ.tst c).start with | some s => minOpt m s | none => m) init = some v →
      (∀ x, init = some x → v ≤ x) ∧ (∀ c ∈ l, ∀ s, (σ.tst c).start = some s → v ≤ s) := by
    intro l
    induction l with
    | nil => intro init v h; simp at h; exact ⟨by intro x hx; rw [h] at hx; cases hx; exact Int.le_refl _, by intro c hc; cases hc⟩
    | cons c cs ih =>
      intro init v h
      simp only [List.foldl_cons] at h
      cases hs : (σ.tst c).start with
      | none =>
        simp only [hs] at h
        obtain ⟨h1, h2⟩ := ih init v h
        refine ⟨h1, ?_⟩
        intro c' hc' s hs'
        rcases List.mem_cons.mp hc' with rfl | hm
        · rw [hs] at hs'; cases hs'
        · exact h2 c' hm s hs'
      | some s0 =>
        simp only [hs] at h
        obtain ⟨h1, h2⟩ := ih (minOpt init s0) v h
        cases hm : minOpt init s0 with
        | none => cases init <;> simp [minOpt] at hm
        | some mv =>
          have hv := h1 mv hm
          have hmm := minOpt_le init s0 mv hm
          refine ⟨fun x hx => Int.le_trans hv (hmm.2 x hx), ?_⟩
          intro c' hc' s hs'
          rcases List.mem_cons.mp hc' with rfl | hmem
          · rw [hs] at hs'; cases hs'; exact Int.le_trans hv hmm.1
          · exact h2 c' hmem s hs'
  exact (key children none v h).2

/-- roll-up step: all children scheduled ⇒ the container becomes scheduled, with the folded
    minimum / maximum as its dates (`rollupT`) -/
theorem rollup_marks (e : Env) (σ : St) (t : Nat)
    (hc : (e.taskD t).leaf = false) (hns : (σ.tst t).scheduled = false) (hne : (e.taskD t).children.isEmpty = false)
    (hall : (e.taskD t).children.all (fun c => (σ.tst c).scheduled) = true) :
    (rollupT e σ t).scheduled = true ∧
    (∀ v, childMinStart σ (e.taskD t).children = some v → (rollupT e σ t).start = some v) ∧
    (∀ v, childMaxEnd σ (e.taskD t).children = some v → (rollupT e σ t).stop = some v) := by
  unfold rollupT
  simp only [hc, hns, hne, hall, Bool.false_or, Bool.or_self, Bool.not_true, Bool.false_eq_true, if_false]
  refine ⟨trivial, ?_, ?_⟩
  · intro v hv; simp only [hv]; cases childMaxEnd σ (e.taskD t).children <;> rfl
  · intro v hv; simp only [hv]

/-- a container some child of which is unscheduled is left alone by the roll-up -/
theorem rollup_waits (e : Env) (σ : St) (t : Nat)
    (hall : (e.taskD t).children.all (fun c => (σ.tst c).scheduled) = false) :
    rollupT e σ t = σ.tst t := by
  unfold rollupT
  simp only [hall]
  split <;> simp

/-! ### end to end -/

/-- **C10, dates, for whole projects**: after scheduling any project whose task tree is well-formed (children are
    declared after their parents — `treeCheck`), every scheduled container has all of its children scheduled, its start
    is the minimum of its children's starts and its end the maximum of their ends (`childMinStart` / `childMaxEnd`
    fold exactly those; `childMinStart_le` and its twin show they are bounds) -/
theorem container_summarises_children (e : Env) (tr : Tree e) (c : Nat) (hnl : (e.taskD c).leaf = false)
    (hs : ((runScenario e).tst c).scheduled = true) :
    (∀ ch ∈ (e.taskD c).children, ((runScenario e).tst ch).scheduled = true) ∧
    (∀ s, childMinStart (runScenario e) (e.taskD c).children = some s → ((runScenario e).tst c).start = some s) ∧
    (∀ s, childMaxEnd (runScenario e) (e.taskD c).children = some s → ((runScenario e).tst c).stop = some s) :=
  (runScenario_containers e tr).1 c hnl hs

/-- … and a container with children is scheduled **iff** all of its children are -/
theorem container_scheduled_iff (e : Env) (tr : Tree e) (c : Nat) (hnl : (e.taskD c).leaf = false)
    (hne : (e.taskD c).children ≠ []) :
    ((runScenario e).tst c).scheduled = true ↔ ∀ ch ∈ (e.taskD c).children, ((runScenario e).tst ch).scheduled = true :=
  ⟨fun hs => ((runScenario_containers e tr).1 c hnl hs).1, fun hall => (runScenario_containers e tr).2 c hnl hne hall⟩

/-- the same for an elaborated project description, under the decidable check on the tree -/
theorem container_summarises_children_elab (p : RawProj) (h : treeCheck (elaborate p).env = true) (c : Nat)
    (hnl : ((elaborate p).env.taskD c).leaf = false)
    (hs : ((runScenario (elaborate p).env).tst c).scheduled = true) :
    ContOK (elaborate p).env (runScenario (elaborate p).env) c :=
  container_summarises_children _ (treeCheck_sound _ h) c hnl hs

/-- non-vacuity: a container with two leaves below a container — children are declared after their parents -/
def nested : RawProj :=
  { G := 3600, start := 1736121600, stop := 1737331200,
    res := [{}],
    tasks := [{}, { parent := some 0 }, { parent := some 1, effort := some 1, alloc := some ([0], []) },
              { parent := some 1, effort := some 2, alloc := some ([0], []) }] }

example : treeCheck (elaborate nested).env = true := by decide +kernel
example : ((elaborate nested).env.taskD 1).children = [2, 3] ∧ ((elaborate nested).env.taskD 1).leaf = false := by
  decide +kernel

end SP.C10
