import Model
import Proofs.Resolve
import Proofs.Macro
import Proofs.Blank
/-!
C15 — equivalent ways of writing a project give the same schedule.

The scheduler consumes resolved dependency lists and macro-expanded text; a *spelling* only exists in
front of those two steps.  The theorems below are about the two steps as the REPAIRED code performs
them (`notes/patches/F10.diff`, `F11.diff`, `F14.diff`), for all task trees / texts:

  resolve_rename        renaming local ids by an injective map commutes with resolution
  resolve_rel_abs       `!`×k-relative and absolute references to one task resolve to that task
  precedes_is_depends   `A precedes B {opts}` leaves exactly the list `B depends A {opts}` leaves
  precedes_twice        … and stating it again adds nothing (no duplicates)
  strip_comments_idem   `strip_shell_comments` is idempotent
  macro_inline_pass / macro_inline / process_inline
                        a use `${m}` of a parameterless, `$`-free macro = its body written out
  expand_bounded        the repaired expander never holds more than the bound and makes ≤ 100 passes

The pinned code is refuted on concrete witnesses (`…_pinned_fails`, `expand_unbounded_pinned`): F10, F11, F14.
"Model(AST) = implementation(render_k(AST)) for every spelling k" is the end-to-end statement; it
lives in the correspondence streams and the metamorphic search of `harness/props/c15.py`.
-/
namespace SP.C15
open SP SP.Resolve SP.Macro

/-! ## references -/

/-- **Renaming.**  A consistent injective renaming of local ids (tree and reference alike) does not
    change which task a reference denotes. -/
theorem resolve_rename {α β : Type} [DecidableEq α] [DecidableEq β] (f : α → β)
    (hf : ∀ a b, f a = f b → a = b) (F : Forest α) (src : Pos) (r : Ref α) :
    resolve (mapForest f F) src (r.map f) = resolve F src r :=
  resolve_map f hf F src r

/-- the hypothesis is satisfiable by a non-trivial renaming, and the reference resolves -/
example : (∀ a b : List Char, ('_' :: a) = ('_' :: b) → a = b) ∧
    resolve [.node "x".toList [.node "box".toList []], .node "box".toList [.node "k".toList [], .node "j".toList []]]
      [1, 1] ⟨2, "box".toList, ["k".toList]⟩ = some [1, 0] := by
  refine ⟨fun a b h => by simpa using h, by decide⟩

/-- injectivity is needed: merging two ids changes the answer -/
theorem resolve_rename_needs_injective :
    ¬ ∀ (f : List Char → List Char) (F : Forest (List Char)) (src : Pos) (r : Ref (List Char)),
        resolve (mapForest f F) src (r.map f) = resolve F src r := by
  intro h
  have := h (fun _ => ['z']) [.node ['a'] [], .node ['b'] []] [0] ⟨0, ['b'], []⟩
  revert this
  decide

/-- **Relative = absolute.**  With unique sibling ids, inside the task at `src`, the absolute path of
    `dst` and every `!`×k spelling whose base (the ancestor k levels up; the project root for
    k = depth of `src`) lies above `dst` resolve to `dst`. -/
theorem resolve_rel_abs {α : Type} [DecidableEq α] (F : Forest α) (hu : UniqueSibs F) (src dst : Pos)
    (ids : List α) (hdst : pathIds F dst = some ids) (k : Nat) (hk1 : 1 ≤ k) (hk2 : k ≤ src.length)
    (hanc : src.take (src.length - k) <+: dst) (hlt : src.length - k < dst.length) :
    ∃ rabs rrel, Ref.ofPath 0 ids = some rabs ∧ Ref.ofPath k (ids.drop (src.length - k)) = some rrel ∧
      resolve F src rabs = some dst ∧ resolve F src rrel = some dst :=
  resolve_rel_abs_pos F hu src dst ids hdst k hk1 hk2 hanc hlt

/-- the F10 tree: `x.box` is declared before `box` -/
def f10Forest : Forest (List Char) :=
  [.node "x".toList [.node "box".toList []], .node "box".toList [.node "k".toList [], .node "j".toList []]]

/-- hypotheses of `resolve_rel_abs` hold on the F10 tree for `box.j depends !k` / `depends box.k` -/
example : UniqueSibs f10Forest ∧ pathIds f10Forest [1, 0] = some ["box".toList, "k".toList] ∧
    ([1, 1] : Pos).take (2 - 1) <+: [1, 0] := by
  refine ⟨by decide, by decide, ⟨[0], by decide⟩⟩

/-- the same statement about the PINNED root search (first task anywhere with the head's local id) -/
def rel_abs_pinned : Prop :=
  ∀ (F : Forest (List Char)) (_ : UniqueSibs F) (src dst : Pos) (ids : List (List Char))
    (_ : pathIds F dst = some ids) (k : Nat) (_ : 1 ≤ k) (_ : k ≤ src.length)
    (_ : src.take (src.length - k) <+: dst) (_ : src.length - k < dst.length),
    ∃ rabs rrel, Ref.ofPath 0 ids = some rabs ∧ Ref.ofPath k (ids.drop (src.length - k)) = some rrel ∧
      resolvePinned F src rabs = some dst ∧ resolvePinned F src rrel = some dst

/-- **F10 (refutation).**  On the pinned code `depends box.k` inside `box.j` resolves to nothing. -/
theorem rel_abs_pinned_fails : ¬ rel_abs_pinned := by
  intro h
  obtain ⟨rabs, rrel, h1, _, h3, _⟩ :=
    h f10Forest (by decide) [1, 1] [1, 0] ["box".toList, "k".toList] (by decide) 1 (by decide) (by decide)
      ⟨[0], by decide⟩ (by decide)
  simp only [Ref.ofPath, Option.some.injEq] at h1
  subst h1
  revert h3
  decide

/-- **Strings.**  A reference whose ids contain no dot and whose first id is non-empty and does not
    start with `!` (every `ID` token of the grammar is such an id) is parsed back exactly as written. -/
theorem parse_render (r : Ref (List Char)) (hd : ∀ p ∈ r.path, ∀ x ∈ p, x ≠ '.')
    (hne : r.head ≠ []) (hb : r.head.head? ≠ some '!') : parseRef (renderRef r) = some r :=
  parseRef_renderRef r hd hne hb

/-- ids as the grammar's `ID` token produces them, as far as reference syntax cares -/
def IdLike (p : List Char) : Prop := p ≠ [] ∧ p.head? ≠ some '!' ∧ ∀ x ∈ p, x ≠ '.'

/-- **Relative = absolute, on reference strings** (`_resolve_task_reference` as called by the builder) -/
theorem resolve_rel_abs_str (F : Forest (List Char)) (hu : UniqueSibs F) (src dst : Pos)
    (ids : List (List Char)) (hdst : pathIds F dst = some ids) (hids : ∀ p ∈ ids, IdLike p)
    (k : Nat) (hk1 : 1 ≤ k) (hk2 : k ≤ src.length)
    (hanc : src.take (src.length - k) <+: dst) (hlt : src.length - k < dst.length) :
    ∃ rabs rrel, Ref.ofPath 0 ids = some rabs ∧ Ref.ofPath k (ids.drop (src.length - k)) = some rrel ∧
      resolveStr F src (renderRef rabs) = some dst ∧ resolveStr F src (renderRef rrel) = some dst := by
  obtain ⟨rabs, rrel, h1, h2, h3, h4⟩ := resolve_rel_abs F hu src dst ids hdst k hk1 hk2 hanc hlt
  have wf : ∀ (up : Nat) (l : List (List Char)) (r : Ref (List Char)), (∀ p ∈ l, IdLike p) →
      Ref.ofPath up l = some r → parseRef (renderRef r) = some r := by
    intro up l r hl hr
    cases l with
    | nil => simp [Ref.ofPath] at hr
    | cons h t =>
      simp only [Ref.ofPath, Option.some.injEq] at hr
      subst hr
      exact parse_render _ (fun p hp => (hl p hp).2.2) (hl h (by simp)).1 (hl h (by simp)).2.1
  refine ⟨rabs, rrel, h1, h2, ?_, ?_⟩
  · simp [resolveStr, wf 0 ids rabs hids h1, h3]
  · simp [resolveStr, wf k _ rrel (fun p hp => hids p (List.mem_of_mem_drop hp)) h2, h4]

example : parseRef "!!box.k".toList = some ⟨2, "box".toList, ["k".toList]⟩ ∧
    renderRef ⟨2, "box".toList, ["k".toList]⟩ = "!!box.k".toList ∧
    (∀ p ∈ ["box".toList, "k".toList], IdLike p) := by
  refine ⟨by decide, by decide, ?_⟩
  intro p hp
  simp only [List.mem_cons, List.not_mem_nil, or_false] at hp
  rcases hp with rfl | rfl <;> exact ⟨by decide, by decide, by decide⟩

/-! ## `precedes` -/

/-- **`A precedes B {opts}` ≡ `B depends A {opts}`.**  When both references resolve and `A` is not yet a
    dependency of `B`, the store after the repaired `_resolve_precedes` step is the store
    `_resolve_dependencies` produces for the `depends` spelling: `B`'s list grows by exactly the one entry
    for `A`, options kept, and no other list changes. -/
theorem precedes_is_depends (F : Forest (List Char)) (st : DepStore) (A B : Pos) (refB refA : List Char)
    (opts : DepOpts) (hB : resolveStr F A refB = some B) (hA : resolveStr F B refA = some A)
    (hnew : (getDeps st B).any (fun e => decide (e.target = A)) = false) :
    precedeOne F st A ⟨refB, opts⟩ = resolveDependencies F [(B, [⟨refA, opts⟩])] st ∧
    getDeps (precedeOne F st A ⟨refB, opts⟩) B = getDeps st B ++ [mkEntry A opts] ∧
    ∀ q, q ≠ B → getDeps (precedeOne F st A ⟨refB, opts⟩) q = getDeps st q := by
  have h1 : precedeOne F st A ⟨refB, opts⟩ = extendDeps st B [mkEntry A opts] := by
    simp [precedeOne, hB, hnew]
  refine ⟨?_, ?_, ?_⟩
  · rw [h1]
    simp [resolveDependencies, resolveItems_single F B A refA opts hA]
  · rw [h1, getDeps_extendDeps]; simp
  · intro q hq
    rw [h1, getDeps_extendDeps]; simp [hq]

/-- **Whole project.**  Take a project with pending `depends` lists `pd` and pending `precedes` lists
    `pp`.  Writing one more edge as `A precedes B {opts}` (appended to `pp`) or as `B depends A {opts}`
    (appended to `pd`) gives every task the same dependency list up to the order of its entries —
    provided the project does not already make `A` a dependency of `B`. -/
theorem precedes_is_depends_project (F : Forest (List Char)) (pd pp : List (Pos × List DepItem)) (A B : Pos)
    (refB refA : List Char) (opts : DepOpts)
    (hB : resolveStr F A refB = some B) (hA : resolveStr F B refA = some A)
    (hfresh : (getDeps (finalDeps F pd pp) B).any (fun e => decide (e.target = A)) = false)
    (hno : ∀ pi ∈ pp, ∀ it ∈ pi.2, ¬ (pi.1 = A ∧ resolveStr F pi.1 it.ref = some B)) (q : Pos) :
    (getDeps (finalDeps F (pd ++ [(B, [⟨refA, opts⟩])]) pp) q).Perm
      (getDeps (finalDeps F pd (pp ++ [(A, [⟨refB, opts⟩])])) q) := by
  have hL : finalDeps F (pd ++ [(B, [⟨refA, opts⟩])]) pp =
      resolvePrecedes F pp (extendDeps (resolveDependencies F pd emptyStore) B [mkEntry A opts]) := by
    simp [finalDeps, resolveDependencies, List.foldl_append, resolveItems_single F B A refA opts hA]
  have hR : finalDeps F pd (pp ++ [(A, [⟨refB, opts⟩])]) =
      extendDeps (finalDeps F pd pp) B [mkEntry A opts] := by
    have : finalDeps F pd (pp ++ [(A, [⟨refB, opts⟩])]) = precedeOne F (finalDeps F pd pp) A ⟨refB, opts⟩ := by
      simp [finalDeps, resolvePrecedes, List.foldl_append]
    rw [this]
    simp [precedeOne, hB, hfresh]
  have h0 : StoreRel B (mkEntry A opts) (resolveDependencies F pd emptyStore)
      (extendDeps (resolveDependencies F pd emptyStore) B [mkEntry A opts]) := by
    intro q
    rw [getDeps_extendDeps]
    by_cases hq : q = B
    · subst hq; simp
    · simp [hq]
  have h1 := StoreRel.resolvePrecedes F pp (by simpa using hno) h0 q
  rw [hL, hR, getDeps_extendDeps]
  by_cases hq : q = B
  · subst hq
    simp only [if_true] at h1 ⊢
    exact h1.trans (List.perm_append_singleton _ _).symm
  · simpa [hq, finalDeps] using h1

/-- the hypotheses of `precedes_is_depends_project` hold in a project that already has a `depends`
    and another `precedes` -/
example :
    let F : Forest (List Char) := [.node ['a'] [], .node ['b'] [], .node ['c'] []]
    let pd : List (Pos × List DepItem) := [([1], [⟨['c'], {}⟩])]
    let pp : List (Pos × List DepItem) := [([2], [⟨['a'], { onstart := true }⟩])]
    resolveStr F [0] ['b'] = some [1] ∧ resolveStr F [1] ['!', 'a'] = some [0] ∧
      (getDeps (finalDeps F pd pp) [1]).any (fun e => decide (e.target = [0])) = false ∧
      (∀ pi ∈ pp, ∀ it ∈ pi.2, ¬ (pi.1 = [0] ∧ resolveStr F pi.1 it.ref = some [1])) ∧
      getDeps (finalDeps F pd pp) [0] = [.dict [2] { onstart := true }] := by
  decide

/-- **No duplicates.**  Stating the same `precedes` again changes nothing. -/
theorem precedes_twice (F : Forest (List Char)) (st : DepStore) (A : Pos) (it : DepItem) :
    precedeOne F (precedeOne F st A it) A it = precedeOne F st A it := by
  unfold precedeOne
  cases h : resolveStr F A it.ref with
  | none => simp
  | some tgt =>
    simp only []
    by_cases hx : (getDeps st tgt).any (fun e => decide (e.target = A)) = true
    · simp [hx]
    · simp only [hx, Bool.false_eq_true, if_false, getDeps_extendDeps, if_true]
      simp

/-- the hypotheses of `precedes_is_depends` hold for `a precedes b {gapduration 3h}` / `b depends a {…}`
    with `b` already depending on `c` -/
example :
    let F : Forest (List Char) := [.node ['a'] [], .node ['b'] [], .node ['c'] []]
    let st : DepStore := [([1], [.bare [2]])]
    resolveStr F [0] ['b'] = some [1] ∧ resolveStr F [1] ['!', 'a'] = some [0] ∧
      (getDeps st [1]).any (fun e => decide (e.target = [0])) = false ∧
      getDeps (precedeOne F st [0] ⟨['b'], { gapduration := some "3h" }⟩) [1] =
        [.bare [2], .dict [0] { gapduration := some "3h" }] := by
  decide

/-- **F11 (refutation).**  The pinned `_resolve_precedes` on the same input: the option is lost and the
    list is doubled. -/
theorem precedes_pinned_fails :
    getDeps (precedeOnePinned [.node ['a'] [], .node ['b'] [], .node ['c'] []] [([1], [.bare [2]])] [0]
        ⟨['b'], { gapduration := some "3h" }⟩) [1]
      = [.bare [2], .bare [0], .bare [2], .bare [0]] := by decide

/-! ## comments -/

/-- **`strip_shell_comments` is idempotent** -/
theorem strip_comments_idem (s : List Char) :
    stripShellComments (stripShellComments s) = stripShellComments s :=
  (stripGo_idem s).1

example : stripShellComments "a \"x # y\" # c 'q\nb".toList = "a \"x # y\" \nb".toList := by decide

/-! ## macros -/

/-- **One pass.**  `${m}` (a plain name, not a built-in) of a macro whose body has no `$` — hence no
    parameter and no further call — expands exactly like the body written in its place, whatever
    surrounds it (`u` must not end inside an open `${` or in `$`). -/
theorem macro_inline_pass (E : Macro.Env) (u m body v : List Char) (hu : Closed u = true) (hm : PlainName m)
    (hb : m ∉ builtinNames) (hl : lookup E.defs m = some body) (hbody : ∀ x ∈ body, x ≠ '$') :
    expandOnce E (u ++ '$' :: '{' :: (m ++ '}' :: v)) = expandOnce E (u ++ (body ++ v)) :=
  expandOnce_inline E u m body v hu hm hb hl hbody

/-- **The whole expander** (`_expand_macros`, with or without the size bound): same outcome — same text,
    or `MacroExpansionError` on both sides — for the text with the call and the text with the body
    written out, as long as the latter is itself within the bound. -/
theorem macro_inline (E : Macro.Env) (cap : Option Nat) (u m body v : List Char) (hu : Closed u = true)
    (hm : PlainName m) (hb : m ∉ builtinNames) (hl : lookup E.defs m = some body)
    (hbody : ∀ x ∈ body, x ≠ '$') (hcap : ∀ k, cap = some k → (u ++ (body ++ v)).length ≤ k) :
    expandMacros E cap (u ++ '$' :: '{' :: (m ++ '}' :: v)) = expandMacros E cap (u ++ (body ++ v)) :=
  expandLoop_inline E cap u m body v hu hm hb hl hbody hcap 99

/-- **From the text.**  A text that starts with the definition `macro NAME [RAW]`, contains no other
    definition, and uses `${NAME}` once: `process` gives what it gives for the text with the stored body
    (`RAW` without `#` comments, stripped) written in place of the call. -/
theorem process_inline (env : Macro.Env) (cap : Option Nat) (name raw u v : List Char)
    (hne : name ≠ []) (hw : ∀ x ∈ name, isWord x = true) (hm : PlainName name) (hb : name ∉ builtinNames)
    (hraw : ∀ x ∈ raw, x ≠ '[' ∧ x ≠ ']')
    (hbody : ∀ x ∈ strip (stripShellComments raw), x ≠ '$')
    (hu : Closed u = true)
    (hrest : extractMacros (u ++ '$' :: '{' :: (name ++ '}' :: v)) = ([], u ++ '$' :: '{' :: (name ++ '}' :: v)))
    (hrest' : extractMacros (u ++ (strip (stripShellComments raw) ++ v)) = ([], u ++ (strip (stripShellComments raw) ++ v)))
    (hcap : ∀ k, cap = some k → (u ++ (strip (stripShellComments raw) ++ v)).length ≤ k) :
    process env cap (defText name raw ++ (u ++ '$' :: '{' :: (name ++ '}' :: v))) =
      process env cap (defText name raw ++ (u ++ (strip (stripShellComments raw) ++ v))) := by
  unfold process
  rw [extract_defText name raw _ hne hw hraw, extract_defText name raw _ hne hw hraw, hrest, hrest']
  exact macro_inline _ cap u name _ v hu hm hb (by simp [lookup]) hbody hcap

/-- hypotheses of `process_inline` hold for
    `macro eff [effort 4h # half a day]` + `task t { ${eff} allocate r }` -/
example :
    let name := "eff".toList
    let raw := "effort 4h # half a day\n".toList
    let u := "\ntask t \"T\" { ".toList
    let v := " allocate r }".toList
    name ≠ [] ∧ (∀ x ∈ name, isWord x = true) ∧ PlainName name ∧ name ∉ builtinNames ∧
      (∀ x ∈ raw, x ≠ '[' ∧ x ≠ ']') ∧ strip (stripShellComments raw) = "effort 4h".toList ∧
      Closed u = true ∧
      extractMacros (u ++ '$' :: '{' :: (name ++ '}' :: v)) = ([], u ++ '$' :: '{' :: (name ++ '}' :: v)) ∧
      process {} (some 5000000) (defText name raw ++ (u ++ '$' :: '{' :: (name ++ '}' :: v))) =
        .ok "\ntask t \"T\" { effort 4h allocate r }".toList := by
  decide

/-- a parameter (`$1`) is outside `macro_inline` (the body contains `$`); it is covered by the
    correspondence stream.  What the model says on an example: -/
example : process {} none "macro m [effort $1 $2]${m 4h \"x\"}".toList = .ok "effort 4h \"x\"".toList := by decide

/-! ## F38 (repaired): comments are blanked before macro processing -/

/-- "a `#` comment line in front of a text does not change which macros are defined" — for the extraction step ALONE -/
def comments_inert : Prop :=
  ∀ (c t : List Char), (∀ x ∈ c, x ≠ '\n') → (extractMacros ('#' :: c ++ '\n' :: t)).1 = (extractMacros t).1

/-- **F38 (pinned code, refutation).**  `_extract_macros` has no notion of comments: `# macro a [x]` defines `a`.  On the pinned
    code this step ran on the raw text (witness `findings/F38.json`); the repaired `process` blanks the comments first
    (`Macro.processText`), so the extraction never sees one — next theorems. -/
theorem comments_inert_fails : ¬ comments_inert := by
  intro h
  have := h " macro a [x]".toList [] (by decide)
  revert this
  decide

/-- **the comment is white space** (`blank_comments`, repaired code): a `#` comment line in front of a text gives the
    preprocessor exactly what the same number of blanks gives — whatever the comment contains (a macro definition, a macro
    call, a project header, quotes).  The whole `process` therefore returns the same outcome for the two texts. -/
theorem comment_is_whitespace (env : Macro.Env) (cap : Option Nat) (c : List Char) (hc : ∀ x ∈ c, x ≠ '\n') (v : List Char) :
    processText env cap ('#' :: c ++ '\n' :: v) = processText env cap (List.replicate (c.length + 1) ' ' ++ '\n' :: v) := by
  unfold processText
  rw [Macro.comment_is_whitespace c hc v]

/-- **a comment anywhere is white space**: wherever the `#` stands outside strings, rich text blocks and other comments (the
    scanner's state after the preceding text `u` is normal — `endSt`, computable), the whole `process` returns the same outcome as
    for the text with the comment replaced by blanks -/
theorem comment_anywhere_is_whitespace (env : Macro.Env) (cap : Option Nat) (u c v : List Char) (hc : ∀ x ∈ c, x ≠ '\n')
    (hn : endSt .normal u '#' = .normal) :
    processText env cap (u ++ '#' :: c ++ '\n' :: v) =
      processText env cap (u ++ List.replicate (c.length + 1) ' ' ++ '\n' :: v) := by
  unfold processText
  rw [Macro.comment_anywhere_is_whitespace u c v hc hn]

/-- non-vacuity: after a task line with a string the scanner is back in its normal state -/
example : endSt .normal "task a \"A # not a comment\" { effort 1h }\n".toList '#' = .normal := by decide +kernel

/-- blanking replaces characters one for one: positions (line and column of later error messages) are unchanged -/
theorem blank_keeps_positions (s : List Char) : (blankComments s).length = s.length := Macro.blankComments_length s

/-- the F38 witness on the model: the commented-out redefinition no longer defines -/
example : processText {} none "macro e [4h]\n# macro e [8h]\n${e}".toList = processText {} none "macro e [4h]\n              \n${e}".toList := by
  decide +kernel

/-! ## termination and size of the expansion -/

/-- **`expand_bounded` (repaired expander).**  With the bound `k`: (1) at most 100 passes are made and
    every text a pass returns has at most `k` characters; (2) a returned result is the input itself
    (no pass was needed) or has at most `k` characters.  Otherwise the outcome is `tooLarge`. -/
theorem expand_bounded (E : Macro.Env) (k : Nat) (s : List Char) :
    ((expandTrace E (some k) maxIterations s).length ≤ maxIterations ∧
      ∀ c ∈ expandTrace E (some k) maxIterations s, c.length ≤ k) ∧
    ∀ out, expandMacros E (some k) s = .ok out → out = s ∨ out.length ≤ k :=
  ⟨expandTrace_bounded E k maxIterations s, fun out h => expandLoop_bounded E k maxIterations s out h⟩

/-- a pass of the repaired expander is the unbounded pass followed by the size test (so the theorems
    about `expandOnce` speak about the repaired code whenever it does not raise) -/
theorem pass_bounded_eq (E : Macro.Env) (k : Nat) (s : List Char) :
    expandOnceB E (some k) s = if (expandOnce E s).length ≤ k then some (expandOnce E s) else none :=
  expandOnceB_some E k s

/-- **F14 (refutation by a growth lemma).**  With `macro a [${a} ${a}]` every pass of the pinned expander
    doubles the text: after `n` passes `${a}` has become `blow n`, of length `5·2ⁿ − 1`. -/
theorem expand_unbounded_pinned (n : Nat) :
    expandLoop selfDouble none n ['$', '{', 'a', '}'] = .ok (blow n) ∧ (blow n).length + 1 = 5 * 2 ^ n := by
  refine ⟨?_, blow_length n⟩
  have := expandLoop_blow n 0
  simpa [blow] using this

/-- the pinned `_expand_macros` (100 passes) returns a text of `5·2¹⁰⁰ − 1` characters -/
theorem expand_pinned_result_size :
    ∃ out, expandMacros selfDouble none ['$', '{', 'a', '}'] = .ok out ∧ out.length + 1 = 5 * 2 ^ 100 :=
  ⟨blow 100, (expand_unbounded_pinned 100).1, (expand_unbounded_pinned 100).2⟩

/-- "the expansion stays within a million times the size of what was written" — a very generous
    bound, stated for the PINNED expander (no size test) -/
def expand_bounded_pinned : Prop :=
  ∀ (E : Macro.Env) (s out : List Char), expandMacros E none s = .ok out →
    out.length ≤ 1000000 * (s.length + (E.defs.map (fun d => d.2.length)).sum + 1)

/-- **F14.**  The pinned expander violates even that bound on `macro a [${a} ${a}]` + `${a}`. -/
theorem expand_bounded_pinned_fails : ¬ expand_bounded_pinned := by
  intro h
  obtain ⟨out, h1, h2⟩ := expand_pinned_result_size
  have := h selfDouble _ out h1
  simp only [selfDouble, List.length_cons, List.length_nil, List.map_cons, List.map_nil, List.sum_cons,
    List.sum_nil] at this
  have e : out.length + 1 = 6338253001141147007483516026880 := by rw [h2]
  omega

/-- the witness as text: extraction yields exactly `selfDouble` -/
example : extractMacros "macro a [${a} ${a}]${a}".toList = (selfDouble.defs, "${a}".toList) := by decide

/-- the repaired expander on the same witness raises (shown for a bound of 60 characters) -/
example : expandMacros selfDouble (some 60) ['$', '{', 'a', '}'] = .tooLarge := by decide

end SP.C15
