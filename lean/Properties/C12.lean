import Model
import Proofs.Hidden
/-!
C12 — same input, same output: independent of history and process state.

`Model/Hidden.lean` lists every piece of process-global state of the package and, for every API entry
point, the order of its reads and writes.  A *history* is any list of ops (complete runs, parses without
scheduling, runs interrupted by an exception at any point, `schedule()` / report generation on projects
the caller kept).  `out h t` is the list of every value the final run of `t` reads from hidden state (or
from attribute flags computed from it): the run's schedule and reports are a function of the text and of
that list.

The theorems are about the model; that the model's inventory of hidden state and its read/write tables
are those of the code is what `./check C12` tests on every run (static inventory stream, dynamic
`hidden` stream with instrumented mode accesses, digests against fresh processes).
-/
namespace SP.C12
open SP.Hidden

/-- **History independence.**  Whatever was parsed, scheduled, reported or aborted before in the same
    process — a history of any length — the final run reads the same values as in a fresh process. -/
theorem C12_history (h : List Op) (t : TextAbs) : out h t = out [] t := by
  unfold out
  have k := runHist_keeps World.init h
  exact obsRun_congr _ _ t (by simpa [runHist] using k.1) (by simpa [runHist] using k.2.1)

/-- the same for any function of the observations (a schedule, a report, a digest) -/
theorem C12_history_any {α : Type} (render : TextAbs → List Obs → α) (h : List Op) (t : TextAbs) :
    render t (out h t) = render t (out [] t) := by rw [C12_history]

/-! ### one lemma per hidden component -/

/-- `AttributeBase._mode`: every run writes it (`Project.__init__` ⇒ 0) before anything reads it, so the
    value left behind by earlier ops — any value, reachable or not — is never seen. -/
theorem mode_written_before_read (w : World) (m : Nat) (t : TextAbs) :
    obsRun { w with h := { w.h with mode := m } } t = obsRun w t :=
  obsRun_congr _ _ t rfl rfl

/-- `TjTime._tz` is read (`Project.__init__`) but no op writes it. -/
theorem tz_never_written (h : List Op) : (runHist World.init h).h.tz = "UTC" := by
  simpa [World.init] using (runHist_keeps World.init h).1

/-- the message handler's configuration is read by every warning but no op writes it. -/
theorem mhcfg_never_written (h : List Op) : (runHist World.init h).h.cfg = {} := by
  simpa [World.init] using (runHist_keeps World.init h).2.1

/-- the data cache never holds an entry, and the error counter never moves. -/
theorem cache_never_filled (h : List Op) :
    (runHist World.init h).h.cacheLen = 0 ∧ (runHist World.init h).h.errors = 0 := by
  have k := runHist_keeps World.init h
  exact ⟨by simpa [World.init] using k.2.2.1, by simpa [World.init] using k.2.2.2⟩

/-- the message log is append-only … -/
theorem msgs_append_only (w : World) (o : Op) : ∃ l, (step w o).1.h.msgs = w.h.msgs ++ l :=
  step_msgs w o

/-- … and, like the cache singleton and the counters, it is never read: a run started with any log,
    any counters, any cache state reads the same values. -/
theorem log_cache_counters_never_read (w : World) (t : TextAbs) (msgs : List String) (errors cacheLen : Nat)
    (cacheInst mhInst : Bool) :
    obsRun { w with h := { w.h with msgs := msgs, errors := errors, cacheLen := cacheLen,
                                    cacheInst := cacheInst, mhInst := mhInst } } t = obsRun w t :=
  obsRun_congr _ _ t rfl rfl

/-- what a run CAN depend on: the two components that are read before being written.  (They are
    constant over all histories by `tz_never_written` / `mhcfg_never_written`.) -/
theorem run_depends_only_on_tz_and_cfg (w1 w2 : World) (t : TextAbs)
    (htz : w1.h.tz = w2.h.tz) (hcfg : w1.h.cfg = w2.h.cfg) : obsRun w1 t = obsRun w2 t :=
  obsRun_congr w1 w2 t htz hcfg

/-! ### repeated `schedule()` -/

theorem lookup_put (w : World) (s : Nat) (p : ProjSt) (h : HState) :
    (w.put (some s) p h).slots.lookup s = some p := by
  simp [World.put]

theorem put_put (w : World) (s : Nat) (p p' : ProjSt) (h h' : HState) :
    (w.put (some s) p h).put (some s) p' h' = w.put (some s) p' h' := by
  simp [World.put, List.filter_filter]

/-- **Idempotence.**  Calling `schedule()` again on a project (scheduled completely, partly, not at all,
    with or without failed tasks — any kept project in any world) changes neither the hidden state nor
    the project, and reads nothing. -/
theorem C12_idempotent (w : World) (s : Nat) :
    (step (step w (.schedule s none)).1 (.schedule s none)).1 = (step w (.schedule s none)).1 ∧
    (step (step w (.schedule s none)).1 (.schedule s none)).2.1 = [] := by
  cases hl : w.slots.lookup s with
  | none => simp [step, hl]
  | some p =>
    have hi := schedApply_idem w.h p
    simp only [step, hl, lookup_put, put_h, put_put]
    refine ⟨?_, hi.2⟩
    rw [hi.1]

/-- any number of further calls -/
def schedTimes (w : World) (s : Nat) : Nat → World
  | 0 => w
  | n + 1 => (step (schedTimes w s n) (.schedule s none)).1

theorem C12_idempotent_n (w : World) (s : Nat) (n : Nat) : schedTimes w s (n + 1) = schedTimes w s 1 := by
  induction n with
  | zero => rfl
  | succ k ih =>
    show (step (schedTimes w s (k + 1)) (.schedule s none)).1 = schedTimes w s 1
    rw [ih]
    exact (C12_idempotent w s).1

/-- a run followed by `schedule()` on the kept project: the scenario passes are not started again -/
theorem C12_run_then_schedule (w : World) (t : TextAbs) (s : Nat) (hl : t.lexOk = true)
    (ht : t.hasTasks = true) (hs : t.scens ≠ []) :
    (step (step w (.run t (some s))).1 (.schedule s none)).1 = (step w (.run t (some s))).1 := by
  · obtain ⟨s0, ss, hss⟩ : ∃ a l, t.scens = a :: l := by
      cases h : t.scens with
      | nil => exact absurd h hs
      | cons a l => exact ⟨a, l, rfl⟩
    have hd : loopDone (s0 :: ss) [] 0 none = List.replicate (ss.length + 1) true := by
      simpa using loopDone_all (s0 :: ss) [] 0
    have hc2 : (anyDone (List.replicate (ss.length + 1) true) &&
        allDone (s0 :: ss).length (List.replicate (ss.length + 1) true)) = true := by
      rw [anyDone_replicate]
      simpa using allDone_replicate (ss.length + 1)
    simp only [step, hl, if_true, lookup_put, put_h, put_put, schedApply, schedProg, schedDone, schedRuns, ht,
      hss, hd, hc2, execProg]

/-! ### the pinned code (before the repair of F21) did start them again -/

/-- A scheduled one-scenario project: the pinned `Project.schedule()` runs prepare/schedule/finish of the
    scenario a second time (mode 1, 2 again; the warning is emitted again; the pass counter moves), the
    repaired one does nothing.  On the real code the second pass moved a failed task's start date
    (findings/F21.json). -/
theorem F21_pinned_reenters :
    let p : ProjSt := { t := { scens := [{ warns := ["unscheduled_tasks"] }], props := 2 }, done := [true], runs := [1] }
    schedRunsPinned p = [2] ∧ schedRuns p none = [1] ∧
    schedProgPinned p ≠ [] ∧ schedProg p none = [] ∧
    Act.warn "unscheduled_tasks" ∈ schedProgPinned p := by
  decide

/-! ### non-vacuity -/

/-- a text with two root tasks, a resource, inherited attributes, two scenarios (one with a failing task) and reports -/
def sampleText : TextAbs :=
  { build := [.set "effort", .rootInit, .set "allocate", .resInit, .rootInit, .set "start",
              .inheritRead "start", .inheritRead "allocate", .inheritRead "priority"],
    props := 3, hasTasks := true,
    scens := [{}, { warns := ["unscheduled_tasks"] }], reportSets := 4 }

def otherText : TextAbs :=
  { build := [.set "priority", .rootInit, .resInit, .inheritRead "priority"], props := 2, scens := [{}] }

/-- a history with every kind of op: a complete run that is kept, a second `schedule()` on it, its reports,
    a parse without scheduling, runs aborted in `prepareScenario` (mode left at 1) / in `scheduleScenario`
    (mode left at 2) / inside the builder, a syntax error, and a `schedule()` interrupted in its second scenario -/
def sampleHistory : List Op :=
  [.run otherText (some 0), .schedule 0 none, .report 0, .parseOnly sampleText (some 1),
   .failRun sampleText (.scen 0 .prepare), .failRun otherText (.scen 0 .sched), .failRun sampleText (.build 2),
   .failRun { otherText with lexOk := false } .lex, .schedule 1 (some (1, .sched)), .schedule 1 none]

/-- the history really moves the hidden state … -/
example : (runHist World.init sampleHistory).h =
    { mode := 2, cacheInst := true, mhInst := true, msgs := ["unscheduled_tasks"] } := by decide

example : (runHist World.init (sampleHistory.take 5)).h.mode = 1 := by decide

/-- … the final run reads several values (time zone twice, the mode saved by two root tasks, three flags,
    the warning's view of the configuration) … -/
example : out [] sampleText =
    [.tz "UTC", .tz "UTC", .savedMode 0, .savedMode 0, .flag "start" { provided := true },
     .flag "allocate" { provided := true }, .flag "priority" {}, .warnCfg {}] := by decide

/-- … and they are those of a fresh process (instance of `C12_history`, evaluated). -/
example : out sampleHistory sampleText = out [] sampleText := by decide

/-- The theorem has content: a run that did NOT write the mode first would see the history.  The same
    builder accesses without the leading `setMode 0` of `Project.__init__`, started after an op that left
    mode 2, read different flags. -/
example :
    (execProg ⟨{ mode := 2 }, []⟩ (buildProg sampleText)).2.1 ≠ (execProg ⟨{ mode := 0 }, []⟩ (buildProg sampleText)).2.1 := by
  decide

/-- the hypotheses of `C12_run_then_schedule` are met by the sample text -/
example : sampleText.lexOk = true ∧ sampleText.hasTasks = true ∧ sampleText.scens ≠ [] := by decide

/-- idempotence, evaluated on the kept two-scenario project of the sample history (interrupted, completed, repeated) -/
example :
    let w := runHist World.init sampleHistory
    (step w (.schedule 1 none)).1 = w ∧ (w.slots.lookup 1).map (·.runs) = some [1, 2] ∧
    (w.slots.lookup 1).map (·.done) = some [true, true] := by
  decide

end SP.C12
