import Model
import Proofs.Report
/-!
C18 — reports say what was scheduled.

All theorems are about `SP.Report` (Model/Report.lean), for every scheduled project given as data,
every column list (duplicates, unknown ids, API titles), every time format, leaf flag and format list.
The model carries the *repaired* behaviour for F19 (dates of unscheduled tasks) and F28 (cost walks the
ledger); JSON = CSV for every column list (F20 — keys collapsing for repeated titles — is repaired: keys are made unique).
-/
namespace SP.C18
open SP SP.Report

/-- the tasks that get a row -/
def keep (s : Spec) (t : Task) : Bool := !s.leafTasksOnly || t.leaf

/-- the tasks of the body lines, in order -/
def rows (p : Project) (s : Spec) : List Task := prepareTaskList p s.leafTasksOnly

/-! ## one row per task, in declaration order, leaves only when requested -/

/-- the rows are exactly the kept tasks, each once, ordered by sequence number -/
theorem rows_are_tasks_in_declaration_order (p : Project) (s : Spec) :
    rows p s = (sortSeq p.tasks).filter (keep s) ∧
    (rows p s).Perm (p.tasks.filter (keep s)) ∧
    SeqSorted (rows p s) := by
  have e : rows p s = (sortSeq p.tasks).filter (keep s) := prepareTaskList_eq p s.leafTasksOnly
  refine ⟨e, ?_, ?_⟩
  · rw [e]; exact (sortSeq_perm p.tasks).filter _
  · rw [e]; exact (sortSeq_sorted p.tasks).sublist List.filter_sublist

/-- when the tasks are handed over in declaration order the rows are that list, filtered -/
theorem rows_of_declaration_order (p : Project) (s : Spec) (h : SeqSorted p.tasks) :
    rows p s = p.tasks.filter (keep s) := by
  rw [(rows_are_tasks_in_declaration_order p s).1, sortSeq_of_sorted _ h]

/-- with `leaftasksonly` no container has a row and every leaf has one; without it every task has one -/
theorem row_iff (p : Project) (s : Spec) (t : Task) :
    t ∈ rows p s ↔ t ∈ p.tasks ∧ (s.leafTasksOnly = true → t.leaf = true) := by
  rw [((rows_are_tasks_in_declaration_order p s).2.1).mem_iff, List.mem_filter]
  cases h : s.leafTasksOnly <;> simp [keep, h]

/-- body line `i` is the line of row `i`: one cell per column -/
theorem one_line_per_row (p : Project) (s : Spec) (i : Nat) :
    (generate p s).body[i]? = ((rows p s)[i]?).map (fun t => s.columns.map (cell p s t)) := by
  simp [generate, rows]

theorem body_length (p : Project) (s : Spec) : (generate p s).body.length = (rows p s).length := by
  simp [generate, rows]

/-- header cell `j` is the title of column `j` -/
theorem header_titles (p : Project) (s : Spec) (j : Nat) :
    (generate p s).header[j]? = (s.columns[j]?).map headerCell := by
  simp [generate]

/-- the table is rectangular -/
theorem table_rectangular (p : Project) (s : Spec) :
    ∀ line ∈ (generate p s).body, line.length = (generate p s).header.length := by
  intro line h
  simp only [generate, List.mem_map] at h
  obtain ⟨t, _, rfl⟩ := h
  simp [generate]

/-! ## every cell is the formatted value of its task -/

/-- cell (i, j) = format (effective time format) (value of column j for the task of row i) -/
theorem cell_is_formatted_value (p : Project) (s : Spec) (i j : Nat) (t : Task) (c : Column)
    (hi : (rows p s)[i]? = some t) (hj : s.columns[j]? = some c) :
    ((generate p s).body[i]?).bind (·[j]?) =
      some (formatLookup (effectiveFormat s) (cellValue p t c.id)) := by
  rw [one_line_per_row, hi]
  simp [hj, cell]

/-- unscheduled tasks show empty dates — whatever `start`/`end` they carry (F19 repaired) -/
theorem unscheduled_empty_dates (p : Project) (s : Spec) (t : Task) (c : Column)
    (hu : t.scheduled = false) (hc : c.id = "start" ∨ c.id = "end") :
    cell p s t c = .ok "" := by
  rcases hc with hc | hc <;> simp [cell, cellValue, hc, hu, formatLookup, formatValue]

/-- a scheduled task's dates are rendered with the effective time format -/
theorem scheduled_dates_rendered (p : Project) (s : Spec) (t : Task) (c : Column) (x : Int)
    (hs : t.scheduled = true) (hf : effectiveFormat s ≠ "") :
    (c.id = "start" → t.start = some x → cell p s t c = strftime (effectiveFormat s) x) ∧
    (c.id = "end" → t.stop = some x → cell p s t c = strftime (effectiveFormat s) x) := by
  constructor
  · intro hc hx
    simp [cell, cellValue, hc, hs, lookupAttr, isScenarioSpecific, propertiesById, taskAttrDefs, Task.attr?,
      hx, optTime, formatLookup, formatValue, hf]
  · intro hc hx
    simp [cell, cellValue, hc, hs, lookupAttr, isScenarioSpecific, propertiesById, taskAttrDefs, Task.attr?,
      hx, optTime, formatLookup, formatValue, hf]

/-- the effective time format: the report's, unless that is (or defaults to) "%Y-%m-%d" and the
    project gives a non-empty one -/
theorem effective_format (s : Spec) :
    (∀ f, s.timeFormat = some f → f ≠ "%Y-%m-%d" → effectiveFormat s = f) ∧
    (∀ pf, (s.timeFormat = none ∨ s.timeFormat = some "%Y-%m-%d") → s.projectTimeformat = some pf → pf ≠ "" →
        effectiveFormat s = pf) ∧
    ((s.timeFormat = none ∨ s.timeFormat = some "%Y-%m-%d") →
        (s.projectTimeformat = none ∨ s.projectTimeformat = some "") → effectiveFormat s = "%Y-%m-%d") := by
  refine ⟨?_, ?_, ?_⟩
  · intro f h1 h2; simp [effectiveFormat, h1, h2]
  · intro pf h1 h2 h3
    rcases h1 with h1 | h1 <;> simp [effectiveFormat, h1, h2, h3]
  · intro h1 h2
    rcases h1 with h1 | h1 <;> rcases h2 with h2 | h2 <;> simp [effectiveFormat, h1, h2]

/-- the default format renders year-month-day -/
theorem strftime_default (t : Int) (h : yearOk (civilOf t) = true) :
    strftime "%Y-%m-%d" t =
      .ok (toString (civilOf t).y ++ "-" ++ pad2 (civilOf t).mo ++ "-" ++ pad2 (civilOf t).d) := by
  have e : "%Y-%m-%d".toList = ['%', 'Y', '-', '%', 'm', '-', '%', 'd'] := by decide
  simp [strftime, h, e, expand, String.append_assoc]

/-! ## JSON and CSV carry identical cells -/

/-- **the JSON records carry exactly the cells of the CSV body rows** (finding F20, repaired): for every project, every
    column list — repeated titles, titles that differ in case only, titles that look like generated keys — the values of
    every JSON record are the cells of its CSV row, in column order, and the records are keyed by `uniqNames` of the
    lower-cased header: pairwise different keys, one per column -/
theorem json_cells_eq_csv (p : Project) (s : Spec) :
    jsonCells (toJson (generate p s)) = (toCsv (generate p s)).tail ∧
    (∀ rec ∈ (toJson (generate p s)).data, rec.map (·.1) = uniqNames ((generate p s).header.map String.toLower)) ∧
    (toJson (generate p s)).columns.Nodup ∧
    (toJson (generate p s)).columns.length = (generate p s).header.length := by
  have hu := uniqNames_nodup ((generate p s).header.map String.toLower)
  have hrect := table_rectangular p s
  refine ⟨?_, ?_, hu.1, by simp [toJson, hu.2]⟩
  · simp only [jsonCells, toJson, toCsv, List.tail_cons, List.map_map]
    conv => rhs; rw [← List.map_id (generate p s).body]
    apply List.map_congr_left
    intro line hl
    simp only [Function.comp, id]
    exact record_values _ line hu.1 (by rw [hu.2]; simp [hrect line hl])
  · intro rec hrec
    simp only [toJson, List.mem_map] at hrec
    obtain ⟨line, hl, rfl⟩ := hrec
    exact record_keys _ line hu.1 (by rw [hu.2]; simp [hrect line hl])

/-- with pairwise different lower-cased titles the keys are those titles, unchanged -/
theorem json_keys_of_distinct_titles (p : Project) (s : Spec)
    (h : ((generate p s).header.map String.toLower).Nodup) :
    (toJson (generate p s)).columns = (generate p s).header.map String.toLower := by
  simp only [toJson]; exact uniqNames_of_nodup _ h

/-- the pinned `to_json` (keys = lower-cased titles as they are): with a repeated title every record is strictly
    shorter than its CSV row — this was finding F20 -/
theorem pinned_record_short (ks : List String) (vs : List Cell) (hd : ¬ ks.Nodup) :
    ((ks.zip vs).foldl (fun d kv => dictSet d kv.1 kv.2) []).length < ks.length := record_short ks vs hd

/-! the F20 witness: `columns id, start, end, id` -/

def f20Project : Project :=
  { tasks := [{ id := "a", name := "A", seq := 1, leaf := true, scheduled := true,
                start := some 1736154000, stop := some 1736168400, effort := .float 4, priority := 500,
                scen := [], plain := [] }]
    resources := [{ id := "r1", rate := 0 }]
    ledger := [{ res := "r1", task := "a", secs := 14400 }] }

def f20Spec : Spec :=
  { columns := [⟨"id", none⟩, ⟨"start", none⟩, ⟨"end", none⟩, ⟨"id", none⟩]
    timeFormat := none, projectTimeformat := none, leafTasksOnly := false, formats := [.json, .csv] }

/-- the witness after the repair: four keys, the repeated title qualified with its column position -/
example : (toJson (generate f20Project f20Spec)).columns = ["id", "start", "end", "id_4"] := by decide +kernel

example : uniqNames ["id", "start", "end", "id", "id_4", "id"] = ["id", "start", "end", "id_4", "id_4_5", "id_6"] := by
  decide +kernel


/-! ## money: cost = rate × booked time -/

/-- the cost of a task is Σ over the ledger lines of the task of rate(resource) · seconds / 3600
    (resource ids pairwise different) — F28 repaired -/
theorem cost_eq_rate_times_booked (p : Project) (tid : String) (h : (p.resources.map (·.id)).Nodup) :
    getCost p tid = ((p.ledger.filter (fun b => b.task == tid)).map
      (fun b => rateOf p b.res * b.secs / 3600)).sum := by
  rw [getCost_eq_costOver, costOver_eq _ _ _ h]; rfl

/-- what the cost column shows: that amount with two decimals, or nothing when it is not positive -/
theorem cost_cell (p : Project) (s : Spec) (t : Task) (c : Column) (hc : c.id = "cost") :
    cell p s t c = if 0 < getCost p t.id then .ok (fmt2 (getCost p t.id)) else .ok "" := by
  have e : ("cost" == "revenue") = false := by decide
  simp only [cell, cellValue, hc, costValue, e, Bool.false_eq_true, if_false, beq_self_eq_true, if_true]
  split <;> simp [formatLookup, formatValue]

/-- the two decimals shown are within half a cent of the amount -/
theorem money_rendering_close (q : Rat) (h : 0 ≤ q) :
    ((cents q : Rat) / 100 - q ≤ 1 / 200) ∧ (q - (cents q : Rat) / 100 ≤ 1 / 200) ∧
    fmt2 q = toString (cents q / 100) ++ "." ++ pad2 (cents q % 100) := by
  have hn : ¬ q < 0 := by grind
  have hc : cents q = Report.roundHalfEven (q * 100) := by simp [cents, hn]
  have := roundHalfEven_close (q * 100)
  refine ⟨?_, ?_, ?_⟩
  · rw [hc]; grind
  · rw [hc]; grind
  · simp [fmt2, hn]

example : (f20Project.resources.map (·.id)).Nodup := by decide

/-! ## generating reports never alters the schedule -/

/-- any sequence of report generations leaves the scheduled project and the context stack as they
    were; every generation writes the renderings of that same project -/
theorem generate_readonly (st : GenState) (specs : List Spec) :
    (generateAll st specs).1.project = st.project ∧
    (generateAll st specs).1.contexts = st.contexts ∧
    (generateAll st specs).2 = specs.map (renderings st.project) := by
  induction specs generalizing st with
  | nil => simp [generateAll]
  | cons s r ih =>
    have h1 : (generateStep st s).1.project = st.project := rfl
    have h2 : (generateStep st s).1.contexts = st.contexts := rfl
    have h3 : (generateStep st s).2 = renderings st.project s := rfl
    have := ih (generateStep st s).1
    simp only [generateAll, List.map_cons]
    rw [h1, h2] at this
    exact ⟨this.1, this.2.1, by rw [this.2.2, h3]⟩

/-- generating the same report `n` times yields `n` times the same renderings -/
theorem generate_repeatable (st : GenState) (s : Spec) (n : Nat) :
    (generateAll st (List.replicate n s)).2 = List.replicate n (renderings st.project s) := by
  rw [(generate_readonly st _).2.2]; simp

/-- one rendering per requested format, in that order: JSON of the table for `json`, CSV for `csv` -/
theorem renderings_follow_formats (p : Project) (s : Spec) (k : Nat) :
    (renderings p s)[k]? = (s.formats[k]?).map (render (generate p s)) ∧
    render (generate p s) .json = .json (toJson (generate p s)) ∧
    render (generate p s) .csv = .csv (toCsv (generate p s)) := by
  simp [renderings, render]

end SP.C18

/-! ## non-vacuity: the hypotheses above are met by non-trivial inputs, and the model evaluates the
    recorded witnesses as the (repaired) implementation does -/
namespace SP.C18
open SP SP.Report

/-- the F19 witness after scheduling: `a` ran away (unscheduled, start kept, ghost bookings),
    `b` is scheduled, `c` depends on `a` and was never started; given out of declaration order -/
def f19Project : Project :=
  { tasks := [
      { id := "c", name := "C", seq := 3, leaf := true, scheduled := false, start := none, stop := none,
        effort := .float 4, priority := 500, scen := [], plain := [] },
      { id := "a", name := "A", seq := 1, leaf := true, scheduled := false, start := some 1736154000, stop := none,
        effort := .float 40, priority := 500, scen := [], plain := [] },
      { id := "g", name := "G", seq := 4, leaf := false, scheduled := false, start := none, stop := none,
        effort := .int 0, priority := 500, scen := [], plain := [] },
      { id := "b", name := "B", seq := 2, leaf := true, scheduled := true, start := some 1736154000,
        stop := some 1736168400, effort := .float 4, priority := 700, scen := [], plain := [] }]
    resources := [{ id := "r1", rate := 100 }, { id := "r2", rate := 10 }]
    ledger := [{ res := "r1", task := "a", secs := 432000 }, { res := "r2", task := "b", secs := 14400 }] }

def f19Spec : Spec :=
  { columns := [⟨"id", none⟩, ⟨"start", none⟩, ⟨"end", none⟩, ⟨"cost", none⟩, ⟨"foo", none⟩, ⟨"priority", some "Prio"⟩]
    timeFormat := none, projectTimeformat := some "%d.%m.%Y %H:%M", leafTasksOnly := true, formats := [.csv] }

example : generate f19Project f19Spec =
    { header := ["Id", "Start", "End", "Cost", "foo", "Prio"]
      body := [[.ok "a", .ok "", .ok "", .ok "12000.00", .ok "-", .ok "500"],
               [.ok "b", .ok "06.01.2025 09:00", .ok "06.01.2025 13:00", .ok "40.00", .ok "-", .ok "700"],
               [.ok "c", .ok "", .ok "", .ok "", .ok "-", .ok "500"]] } := by decide +kernel

/-- `unscheduled_empty_dates` applies: task `a` is unscheduled and carries a start -/
example : ∃ t ∈ f19Project.tasks, t.scheduled = false ∧ t.start ≠ none := by decide +kernel

/-- `scheduled_dates_rendered` applies to task `b` -/
example : ∃ t ∈ f19Project.tasks, t.scheduled = true ∧ t.start = some 1736154000 ∧ effectiveFormat f19Spec ≠ "" := by
  decide +kernel

/-- `rows_of_declaration_order` applies to a three-task project; `f19Project` itself is *not* in
    declaration order and is covered by `rows_are_tasks_in_declaration_order` -/
example : SeqSorted f20Project.tasks ∧ ¬ SeqSorted f19Project.tasks := by
  constructor
  · simp [SeqSorted, f20Project]
  · simp [SeqSorted, f19Project]

example : (f19Project.resources.map (·.id)).Nodup ∧ getCost f19Project "a" = 12000 := by decide +kernel

/-- `strftime_default` applies -/
example : yearOk (civilOf 1736154000) = true := by decide +kernel

/-- directives outside the modelled set are declined, not defaulted -/
example : strftime "%y" 1736154000 = .error .unsupportedDirective ∧ strftime "%Y" (-40000000000) = .error .outOfRange := by
  decide +kernel

/-- a tie is rounded half to even, as `"%.2f"` does on the exact value -/
example : fmt2 (1/8) = "0.12" ∧ fmt2 (3/8) = "0.38" ∧ fmt2 (2399/2) = "1199.50" := by decide +kernel

end SP.C18
