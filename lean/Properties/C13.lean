import Model
import Model.Calendar
import Proofs.Scan
/-!
C13 — compiled fast paths ≡ pure-Python fallbacks (slot conversion and scan part; working hours in
`Properties/C13wh`).  The compiled variants are modelled separately (`cy*`), with C `int` arguments
as an explicit range guard; inside the guard they are proved equal to the pure-Python models.
-/
namespace SP.C13
open SP

/-- C-int guard for a board and an index -/
def Guard (b : Board) (i : Int) : Prop :=
  inCInt i = true ∧ inCInt b.G = true ∧ inCInt b.size = true ∧ inCInt (i * b.G) = true

theorem idxToDate_equiv (b : Board) (i : Int) (f : Bool) (g : Guard b i) :
    cyIdxToDate b i f = pyIdxToDate b i f := by
  obtain ⟨g1, g2, g3, g4⟩ := g
  cases f <;> grind [cyIdxToDate, pyIdxToDate, Board.time]

theorem dateToIdx_equiv (b : Board) (t : Int) (f : Bool)
    (g : inCInt b.G = true ∧ inCInt b.size = true ∧ inCInt (b.rawIdx t) = true) :
    cyDateToIdx b t f = pyDateToIdx b t f := by
  obtain ⟨g1, g2, g3⟩ := g
  cases f <;> grind [cyDateToIdx, pyDateToIdx]

theorem projIdxToDate_equiv (g : Grid) (i : Int)
    (h : inCInt i = true ∧ inCInt g.G = true ∧ inCInt (i * g.G) = true) :
    cyProjIdxToDate g i = .ok (g.time i) := by
  obtain ⟨h1, h2, h3⟩ := h
  simp [cyProjIdxToDate, Grid.time, h1, h2, h3]

theorem projDateToIdx_equiv (g : Grid) (t : Int) (h : inCInt g.G = true ∧ inCInt (g.idx t) = true) :
    cyProjDateToIdx g t = .ok (g.idx t) := by
  obtain ⟨h1, h2⟩ := h
  simp [cyProjDateToIdx, h1, h2]

/-- the two scan loops are the same function of (table, window, minimum length) — including the
    evaluation order difference (`pred and idx < end` vs `pred if idx < end else False`) -/
theorem scan_equiv (pat : List Bool) (sIdx eIdx : Int) (m : Nat) :
    cyScan pat sIdx eIdx m = pyScan pat sIdx eIdx m := by
  unfold cyScan pyScan
  simp only []
  congr 1
  apply foldl_congr_step
  intro st i
  unfold cyScanStep scanStep
  by_cases h : i < scanHi eIdx pat.length m <;> simp [h]

/-- non-vacuity: a realistic board and index satisfy the guard -/
example : Guard ⟨1736121600, 1737331200, 900⟩ 1344 := by unfold Guard; decide

/-! ### working hours -/

/-- the compiled `check_working_hours_fast` (a weekday missing from the table falls through to the
    previous-day loop) decides exactly what the pure-Python loop decides -/
theorem onShift_equiv (h : Hours) (wd m : Int) : h.onCy wd m = h.on wd m := by
  unfold Hours.onCy Hours.on
  simp only []
  cases hd : h.day wd with
  | nil => simp
  | cons x xs =>
    simp only [List.isEmpty_cons, Bool.false_eq_true, if_false, ge_iff_le]
    generalize ((x :: xs).any fun iv => if iv.2 ≤ iv.1 then decide (iv.1 ≤ m) else decide (iv.1 ≤ m) && decide (m < iv.2)) = b
    cases b <;> simp

/-- both `get_daily_hours` variants divide the same integer minute total by 60 (after the `fix:` both
    in double precision): the minute totals agree -/
theorem daily_minutes_equiv (h : Hours) (wd : Int) :
    h.dailyMinutes wd = (h.day wd).foldl (fun acc iv => acc + (iv.2 - iv.1)) 0 := rfl

/-- the previous weekday used for cross-midnight tails is `(wd + 6) % 7` in C and `(wd - 1) % 7` in
    Python: equal for every weekday 0..6 (the pinned `.pyx` used C's `%` on `wd - 1`: −1 for Monday) -/
theorem prev_weekday_equiv (wd : Int) (h : 0 ≤ wd ∧ wd < 7) : (wd + 6) % 7 = (wd - 1) % 7 := by omega

/-- C remainder semantics, for the record: `Int.tmod (0 - 1) 7 = -1` -/
example : Int.tmod (0 - 1) 7 = -1 := by decide

end SP.C13
