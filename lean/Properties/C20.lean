import Model
import Proofs.Cli
import Proofs.CliClean
import Proofs.CliConc
/-!
C20 — CLI runs leave no trace and do not interfere with each other.

`Variant.repaired` is plan.py after notes/patches/F17, F18, F26, F43; the `pinned_*` theorems are the
refutations for the code as pinned (one concrete witness each).
-/
namespace SP.C20
open SP.Cli
variable {B R : Type}

/-! ## (1) no trace, on every exit path -/

/-- **No leftover (file-system form).**  For every input, every channel and format, every fault point
    and every engine outcome: when `plan report` (stdout target) has exited, the file system is the
    one it started from — nothing added in the temp directory, nothing in the working directory,
    nothing anywhere else — provided the engine writes only below its output directory.
    (`run_exited` shows every run does exit within `fuel` steps.) -/
theorem no_leftover (env : Cli.Env B R) (v : Variant) (c : Config B) (fs0 : FS B R)
    (hv : v.f43 = true) (hout : c.out = none) (hfp : ∀ b, Footprint env v c.pid b c.rid c.fmt)
    (hfresh : Fresh c.pid fs0) :
    (run env v c fs0).1.pc = .exited ∧ ∀ p, (run env v c fs0).2 p = fs0 p :=
  ⟨run_exited env v c fs0,
   clean_exited c fs0 _ hfresh (clean_run env v c fs0 hv hout hfp hfresh) (run_exited env v c fs0)⟩

/-- **No leftover (trace form).**  created \ removed = ∅: of the paths the run created, none is left. -/
theorem created_minus_removed_empty (env : Cli.Env B R) (v : Variant) (c : Config B) (fs0 : FS B R)
    (hv : v.f43 = true) (hout : c.out = none) (hfp : ∀ b, Footprint env v c.pid b c.rid c.fmt)
    (hfresh : Fresh c.pid fs0) : leftover (run env v c fs0).1.trace = [] := by
  have htr := run_trace_applied env v c fs0
  have hown := run_trace_owned env v c fs0 hout hfp
  have hfin := (no_leftover env v c fs0 hv hout hfp hfresh).2
  generalize run env v c fs0 = s at htr hown hfin
  apply List.eq_nil_iff_forall_not_mem.mpr
  intro p hp
  have hex := leftover_exists fs0 _ p hp
  obtain ⟨n, hn⟩ := leftover_was_set _ p hp
  have ho : owns c.pid p = true := hown _ hn
  rw [← htr, hfin p, hfresh p ho] at hex
  exact hex rfl

/-- the repaired engine call (`--report <auto id>`) satisfies the footprint hypothesis as soon as no
    report of any text uses the random id -/
theorem repaired_footprint (env : Cli.Env B R) (c : Config B)
    (hid : ∀ b, ∀ r ∈ env.reports b, r.id ≠ c.rid) (b : B) :
    Footprint env .repaired c.pid b c.rid c.fmt :=
  footprint_filtered env .repaired c b rfl (hid b)

/-- the repaired `plan report` leaves no trace, whatever reports the project defines and wherever
    their names point -/
theorem repaired_no_leftover (env : Cli.Env B R) (c : Config B) (fs0 : FS B R) (hout : c.out = none)
    (hid : ∀ b, ∀ r ∈ env.reports b, r.id ≠ c.rid) (hfresh : Fresh c.pid fs0) :
    (∀ p, (run env .repaired c fs0).2 p = fs0 p) ∧ leftover (run env .repaired c fs0).1.trace = [] :=
  ⟨(no_leftover env .repaired c fs0 rfl hout (repaired_footprint env c hid) hfresh).2,
   created_minus_removed_empty env .repaired c fs0 rfl hout (repaired_footprint env c hid) hfresh⟩

/-! ## (2) non-interference of N concurrent runs, for every interleaving and every N -/

/-- **Non-interference.**  For every number of processes, every interleaving `σ` of their steps and
    every process `i`: what `i` has computed (program counter, stdout, exit code, everything local)
    is exactly what it computes alone in the same number of its own steps — provided each process's
    engine stays inside its output directory. -/
theorem noninterference (env : Cli.Env B R) (v : Variant) (cfg : Nat → Config B) (fs0 : FS B R) (hs : Setup cfg)
    (hfp : ∀ i b, Footprint env v i b (cfg i).rid (cfg i).fmt) (σ : List Nat) (i : Nat) :
    (exec env v cfg (init fs0) σ).locals i = (solo env v cfg fs0 i (σ.count i)).1 ∧
    Agree (cfg i) (exec env v cfg (init fs0) σ).fs (solo env v cfg fs0 i (σ.count i)).2 := by
  have h0 : Inv env v cfg fs0 (init fs0) (fun _ => 0) := by
    intro j; exact ⟨rfl, fun p _ => rfl⟩
  have := inv_exec env v cfg fs0 hs hfp σ _ _ h0 i
  simpa using this

/-- a process that got at least `fuel` steps in the interleaving has finished, with exactly the local
    state (stdout, exit code) of its solitary run -/
theorem concurrent_output_eq_solitary (env : Cli.Env B R) (v : Variant) (cfg : Nat → Config B) (fs0 : FS B R)
    (hs : Setup cfg) (hfp : ∀ i b, Footprint env v i b (cfg i).rid (cfg i).fmt) (σ : List Nat) (i : Nat)
    (hn : fuel ≤ σ.count i) :
    (exec env v cfg (init fs0) σ).locals i = (run env v (cfg i) fs0).1 ∧
    Agree (cfg i) (exec env v cfg (init fs0) σ).fs (run env v (cfg i) fs0).2 := by
  have hni := noninterference env v cfg fs0 hs hfp σ i
  obtain ⟨d, hd⟩ := Nat.exists_eq_add_of_le hn
  have hsolo : solo env v cfg fs0 i (σ.count i) = run env v (cfg i) fs0 := by
    simp only [solo, hd, iter_add]
    rw [show iter env v (cfg i) fuel ({}, fs0) = run env v (cfg i) fs0 from rfl]
    exact iter_exited _ _ _ _ _ (run_exited env v (cfg i) fs0)
  rw [hsolo] at hni
  exact hni

/-- **No trace after a concurrent experiment.**  When every process that started has run to completion
    (in whatever interleaving), the shared file system is the initial one. -/
theorem interleaved_no_trace (env : Cli.Env B R) (v : Variant) (cfg : Nat → Config B) (fs0 : FS B R)
    (hv : v.f43 = true) (hs : Setup cfg) (hfp : ∀ i b, Footprint env v i b (cfg i).rid (cfg i).fmt)
    (hfresh : ∀ i, Fresh i fs0) (σ : List Nat) (hdone : ∀ i, σ.count i = 0 ∨ fuel ≤ σ.count i) :
    ∀ p, (exec env v cfg (init fs0) σ).fs p = fs0 p := by
  have key : ∀ q p, owns q p = true → (exec env v cfg (init fs0) σ).fs p = fs0 p := by
    intro q p hq
    have hq' : owns (cfg q).pid p = true := by rw [hs.pid q]; exact hq
    rcases hdone q with h0 | hn
    · have := (noninterference env v cfg fs0 hs hfp σ q).2 p (Or.inl hq')
      rw [this, h0]; rfl
    · have := (concurrent_output_eq_solitary env v cfg fs0 hs hfp σ q hn).2 p (Or.inl hq')
      rw [this]
      exact (no_leftover env v (cfg q) fs0 hv (hs.out q)
        (fun b => by rw [hs.pid q]; exact hfp q b) (by rw [hs.pid q]; exact hfresh q)).2 p
  intro p
  cases p with
  | user n => exact exec_unowned env v cfg hs hfp _ (fun _ => rfl) σ _
  | outside f => exact exec_unowned env v cfg hs hfp _ (fun _ => rfl) σ _
  | tmp q k => exact key q _ (by simp [owns])
  | inDir q f => exact key q _ (by simp [owns])

/-- **Commutation.**  Steps of different processes commute: taking them in either order gives the
    same local states and the same shared file system. -/
theorem steps_commute (env : Cli.Env B R) (v : Variant) (cfg : Nat → Config B) (hs : Setup cfg)
    (hfp : ∀ i b, Footprint env v i b (cfg i).rid (cfg i).fmt) (g : Global B R) (i j : Nat) (hij : i ≠ j) :
    (gstep env v cfg (gstep env v cfg g i) j).locals = (gstep env v cfg (gstep env v cfg g j) i).locals ∧
    ∀ p, (gstep env v cfg (gstep env v cfg g i) j).fs p = (gstep env v cfg (gstep env v cfg g j) i).fs p := by
  have hji : j ≠ i := fun e => hij e.symm
  have aj := other_step_invisible env v cfg hs hfp i j hij (g.locals i) g.fs
  have ai := other_step_invisible env v cfg hs hfp j i hji (g.locals j) g.fs
  have cj := step_congr env v (cfg j) (g.locals j) (hs.out j) aj
  have ci := step_congr env v (cfg i) (g.locals i) (hs.out i) ai
  constructor
  · funext k
    simp only [gstep, hij, hji, if_false]
    by_cases hki : k = i
    · subst hki; simp [hij, ci.1]
    · by_cases hkj : k = j
      · subst hkj; simp [hji, cj.1]
      · simp [hki, hkj]
  · intro p
    simp only [gstep, hij, hji, if_false]
    have fi : ∀ l fs, owns i p = false → (step env v (cfg i) (l, fs)).2 p = fs p := fun l fs h =>
      step_frame env v (cfg i) l fs (hs.out i) (fun b => by rw [hs.pid i]; exact hfp i b) (by rw [hs.pid i]; exact h)
    have fj : ∀ l fs, owns j p = false → (step env v (cfg j) (l, fs)).2 p = fs p := fun l fs h =>
      step_frame env v (cfg j) l fs (hs.out j) (fun b => by rw [hs.pid j]; exact hfp j b) (by rw [hs.pid j]; exact h)
    cases hoi : owns i p
    · cases hoj : owns j p
      · rw [fj _ _ hoj, fi _ _ hoi, fi _ _ hoi, fj _ _ hoj]
      · rw [fi _ _ hoi]
        exact cj.2 p (Or.inl (by rw [hs.pid j]; exact hoj))
    · have hoj : owns j p = false := by
        cases p <;> simp_all [owns]
      rw [fj _ _ hoj]
      exact (ci.2 p (Or.inl (by rw [hs.pid i]; exact hoi))).symm

/-! ## the pinned code: refutations (one concrete witness each) and non-vacuity of the hypotheses -/

/-- witness environment: text `1` defines `taskreport zz "../e" { formats json }`, text `2` a plain-named one -/
def wEnv : Cli.Env Nat String :=
  { H := fun _ => "h", blank := fun _ => false, empty := fun _ => false, stdinCopy := id,
    engineOk := fun _ => true,
    reports := fun b =>
      if b = 1 then [⟨['z', 'z'], ['.', '.', '/', 'e'], [.json]⟩]
      else if b = 2 then [⟨['m'], ['m'], [.json, .csv]⟩] else [],
    autoBody := fun _ _ => "auto", userBody := fun _ _ _ => "user" }

/-- initial file system: `user 0`, `user 1`, `user 2` hold the texts 0, 1, 2; nothing else exists -/
def wFs : FS Nat String := fun p =>
  if p = .user 0 then some (.file (.raw 0)) else if p = .user 1 then some (.file (.raw 1))
  else if p = .user 2 then some (.file (.raw 2)) else none

def wCfg (pid : Nat) (inp : Nat) (fault : Fault) : Config Nat :=
  { pid := pid, channel := .file, inPath := .user inp, stdin := 0, fmt := .json, out := none,
    tok := [1, 2], fault := fault, dirOrder := [] }

theorem wFs_fresh (pid : Nat) : Fresh pid wFs := by
  intro p hp
  cases p <;> simp_all [owns, wFs]

/-- F18 on the pinned code: the engine-footprint hypothesis is false … -/
theorem pinned_footprint_fails : ¬ Footprint wEnv .pinned 0 1 (wCfg 0 1 .none).rid .json := by
  intro h
  obtain ⟨file, n, hop⟩ := h (Op.set (.outside ['.', '.', '/', 'e', '.', 'j', 's', 'o', 'n']) (.file (.report ['z', 'z'] "user")))
    (by decide)
  cases hop

/-- … and the run leaves the escaped report behind, outside every output directory (exit code 0) -/
theorem pinned_leaves_escaped_report :
    (run wEnv ⟨true, false, true, true⟩ (wCfg 0 1 .none) wFs).2 (.outside ['.', '.', '/', 'e', '.', 'j', 's', 'o', 'n']) ≠ none ∧
    (run wEnv ⟨true, false, true, true⟩ (wCfg 0 1 .none) wFs).1.exit = some 0 := by
  decide

/-- F43 on the pinned code: when reading the input copy fails, `plan_auto_*.tjp` is left behind -/
theorem pinned_leaves_auto_copy :
    (run wEnv ⟨true, true, true, false⟩ (wCfg 0 0 .copyRead) wFs).2 (.tmp 0 .autoCopy) ≠ none ∧
    leftover (run wEnv ⟨true, true, true, false⟩ (wCfg 0 0 .copyRead) wFs).1.trace = [.tmp 0 .autoCopy] := by
  decide

/-- hence the full property fails for the pinned program text -/
theorem pinned_no_leftover_fails :
    ¬ (∀ (c : Config Nat) (fs0 : FS Nat String), c.out = none → Fresh c.pid fs0 →
        ∀ p, (run wEnv .pinned c fs0).2 p = fs0 p) := by
  intro h
  have := h (wCfg 0 0 .copyRead) wFs rfl (wFs_fresh 0) (.tmp 0 .autoCopy)
  revert this
  decide

/-- non-vacuity: the hypotheses of `repaired_no_leftover` hold for the witness, with a project that
    defines an escaping report, and the run is a successful one that did create and remove things -/
example : (wCfg 0 1 .none).out = none ∧ (∀ b, ∀ r ∈ wEnv.reports b, r.id ≠ (wCfg 0 1 .none).rid) ∧
    Fresh 0 wFs ∧ (run wEnv .repaired (wCfg 0 1 .none) wFs).1.exit = some 0 ∧
    (run wEnv .repaired (wCfg 0 1 .none) wFs).1.trace.length = 6 := by
  refine ⟨rfl, ?_, wFs_fresh 0, by decide, by decide⟩
  intro b r hr
  simp only [wEnv] at hr
  split at hr
  · simp at hr; subst hr; decide
  · split at hr
    · simp at hr; subst hr; decide
    · simp at hr

/-- non-vacuity of `Setup` and of the footprint hypothesis for three concurrent processes on different inputs -/
example : Setup (fun i => wCfg i (i % 3) .none) ∧
    ∀ i b, Footprint wEnv .repaired i b (wCfg i (i % 3) .none).rid (wCfg i (i % 3) .none).fmt := by
  refine ⟨⟨fun _ => rfl, fun _ => rfl, fun i => ⟨i % 3, rfl⟩⟩, ?_⟩
  intro i b
  have := repaired_footprint wEnv (wCfg i (i % 3) .none) ?_ b
  · exact this
  · intro b r hr
    simp only [wEnv] at hr
    split at hr
    · simp at hr; subst hr; simp [Config.rid, wCfg, ridPrefix]
    · split at hr
      · simp at hr; subst hr; simp [Config.rid, wCfg, ridPrefix]
      · simp at hr

/-- two pinned processes given the same escaping report name write the same outside path: the
    disjointness on which non-interference rests is gone -/
theorem pinned_escapes_collide :
    (Op.set (.outside ['.', '.', '/', 'e', '.', 'j', 's', 'o', 'n']) (.file (.report ['z', 'z'] "user")) : Op Nat String)
      ∈ engineOps wEnv .pinned 0 1 (wCfg 0 1 .none).rid .json ∧
    (Op.set (.outside ['.', '.', '/', 'e', '.', 'j', 's', 'o', 'n']) (.file (.report ['z', 'z'] "user")) : Op Nat String)
      ∈ engineOps wEnv .pinned 7 1 (wCfg 7 1 .none).rid .json := by
  decide

end SP.C20
