import Model
import Model.Elab
import Proofs.SchedInv
import Proofs.WFCheck
/-!
C01 — a resource is never double-booked.

Per leaf resource and slot: the seconds booked, summed over all tasks, never exceed the slot length,
and the portions can be laid out inside the slot without overlapping.  Proved (1) for every sequence
of the ledger operations on one slot, (2) for every state the scheduler model ends in, for every
well-formed project (any efforts incl. sub-slot, efficiencies, priorities, dependencies, ASAP/ALAP,
teams, alternatives, all resolutions).
-/
namespace SP.C01
open SP

/-- the operations the scheduler performs on one (resource, slot) -/
inductive LedgerOp where
  | reserve (off : Rat)              -- start-offset reservation
  | book (t : Nat)                   -- take what is left of the slot
  | release (t : Nat) (actual : Rat) -- finishing task keeps `actual` of what it booked
  deriving Repr

def step (G : Int) (s : Slot) : LedgerOp → Slot
  | .reserve off => s.reserve off
  | .book t => s.book G t
  | .release t a => s.release t a

/-- preconditions the scheduler establishes (offset inside the slot, non-negative remainder) -/
def Pre (G : Int) : LedgerOp → Prop
  | .reserve off => 0 ≤ off ∧ off ≤ (G : Rat)
  | .book _ => True
  | .release _ a => 0 ≤ a

theorem step_inv (G : Int) (s : Slot) (op : LedgerOp) (h : SlotInv G s) (hp : Pre G op) : SlotInv G (step G s op) := by
  cases op with
  | reserve off => exact reserve_inv G s off hp.1 hp.2 h
  | book t => exact book_inv G s t h
  | release t a => exact release_inv G s t a hp h

/-- every reachable slot state, for op sequences of any length -/
theorem ops_inv (G : Int) (hG : 0 < G) (ops : List LedgerOp) (hp : ∀ op ∈ ops, Pre G op) :
    SlotInv G (ops.foldl (step G) {}) := by
  have key : ∀ (ops : List LedgerOp) (s : Slot), SlotInv G s → (∀ op ∈ ops, Pre G op) → SlotInv G (ops.foldl (step G) s) := by
    intro ops
    induction ops with
    | nil => intro s hs _; exact hs
    | cons op ops ih =>
      intro s hs hpre
      exact ih _ (step_inv G s op hs (hpre op List.mem_cons_self)) (fun o ho => hpre o (List.mem_cons_of_mem _ ho))
  exact key ops {} (slotInv_empty G hG) hp

/-- the sum over all tasks never exceeds the slot length -/
theorem total_le_slot (G : Int) (s : Slot) (h : SlotInv G s) : usageSum s.usage ≤ (G : Rat) := by
  have := h.sum_le; have := h.used_le; grind

/-- the portions can be laid out without overlapping: portion `i` occupies
    `[Σ first i, Σ first i+1)`, which ends before portion `j > i` starts, all inside `[0, G]` -/
theorem layout (G : Int) (s : Slot) (h : SlotInv G s) (i j : Nat) (hij : i < j) (hj : j ≤ s.usage.length) :
    0 ≤ usageSum (s.usage.take i) ∧
    usageSum (s.usage.take (i + 1)) ≤ usageSum (s.usage.take j) ∧
    usageSum (s.usage.take j) ≤ (G : Rat) := layout_disjoint G s h i j hij hj

/-- **scheduler level**: after scheduling any well-formed project, every (resource, slot) of the
    ledger satisfies the slot invariant -/
theorem sched (e : Env) (wf : WF e) (r : Nat) (i : Int) : SlotInv e.G ((runScenario e).led.get r i) :=
  (runScenario_inv e wf).slot r i

theorem sched_total (e : Env) (wf : WF e) (r : Nat) (i : Int) :
    usageSum ((runScenario e).led.get r i).usage ≤ (e.G : Rat) :=
  total_le_slot e.G _ (sched e wf r i)

/-- the same for the environment elaborated from a project description, under the decidable check -/
theorem sched_elab (p : RawProj) (h : wfCheck (elaborate p).env = true) (r : Nat) (i : Int) :
    SlotInv p.G ((runScenario (elaborate p).env).led.get r i) :=
  sched (elaborate p).env (wfCheck_sound _ h) r i

/-- non-vacuity: three tasks of 20, 30 and 30 minutes on one resource (the witness of finding F1)
    form a well-formed project -/
def f1 : RawProj :=
  { G := 3600, start := 1736121600, stop := 1737331200,
    res := [{}],
    tasks := [{ effort := some (1/3), alloc := some ([0], []), prio := some 900 },
              { effort := some (1/2), alloc := some ([0], []), prio := some 800 },
              { effort := some (1/2), alloc := some ([0], []), prio := some 700 }] }

example : wfCheck (elaborate f1).env = true := by decide +kernel

/-- non-vacuity of the op-sequence theorem: the five-op sequence that broke the pinned code -/
example : ∀ op ∈ [LedgerOp.book 0, .release 0 1200, .book 1, .release 1 1800, .book 2], Pre 3600 op := by
  intro op h
  simp only [List.mem_cons, List.mem_nil_iff, or_false] at h
  rcases h with h | h | h | h | h <;> subst h <;> simp [Pre] <;> decide

end SP.C01
