import Model
import Proofs.SchedInv
import Proofs.Fuel
import Proofs.Horizon
import Proofs.Ordered
import Proofs.FrameTeamBack
/-!
C11 — scheduling is total.

Every function of the model is a total, structurally recursive Lean definition (loops carry explicit
fuel): termination is part of the definitions being accepted.  Theorems: the pick loop consumes one
task per iteration (so `#tasks + 1` fuel is never exhausted with work left), a failed task always
produces the `unscheduled_tasks` warning, a dead-locked work list the `deadlock` warning, and a task
whose cursor starts outside the horizon is reported as run-away instead of being walked.
Partial: Python exceptions in glue code, Lark on corrupted text, recursion limits and wall-clock time are
runtime facts the model cannot exhibit; they are covered by the crash/hang search of the check.
-/
namespace SP.C11
open SP

/-- the work list shrinks by exactly the picked task -/
theorem pick_removes_one (tasks : List Nat) (t : Nat) (h : t ∈ tasks) : (tasks.erase t).length + 1 = tasks.length := by
  rw [List.length_erase_of_mem h]
  have : 0 < tasks.length := List.length_pos_of_mem h
  omega

/-- fuel: with `fuel > #tasks` the loop never stops because of the fuel while a task is ready -/
theorem pickLoop_fuel_enough (e : Env) (fuel : Nat) (tasks failed : List Nat) (σ : St) (h : tasks.length < fuel) :
    (pickLoop e fuel tasks failed σ) = (pickLoop e (fuel + 1) tasks failed σ) := by
  induction fuel generalizing tasks failed σ with
  | zero => omega
  | succ f ih =>
    unfold pickLoop
    split
    · rfl
    · split
      · rename_i t ht
        have hm : t ∈ tasks := List.mem_of_find?_eq_some ht
        have hl := pick_removes_one tasks t hm
        exact ih _ _ _ (by omega)
      · rfl

/-- failed tasks are always reported -/
theorem unscheduled_warning (e : Env) (σ : St)
    (h : (pickLoop e ((todoOf e (preLoop e σ)).length + 1) (todoOf e (preLoop e σ)) [] (preLoop e σ)).2 ≠ []) :
    "unscheduled_tasks" ∈ (scheduleScenario e σ).warnings := by
  unfold scheduleScenario
  simp only []
  have hne : (pickLoop e ((todoOf e (preLoop e σ)).length + 1) (todoOf e (preLoop e σ)) [] (preLoop e σ)).2.isEmpty = false := by
    cases hx : (pickLoop e ((todoOf e (preLoop e σ)).length + 1) (todoOf e (preLoop e σ)) [] (preLoop e σ)).2 with
    | nil => exact absurd hx h
    | cons _ _ => rfl
  simp [hne]

/-- a work list in which no task is ready (and nothing failed before) is reported as a deadlock and all
    its tasks count as failed -/
theorem deadlock_warning (e : Env) (f : Nat) (tasks : List Nat) (σ : St) (hne : tasks.isEmpty = false)
    (hnone : tasks.find? (fun t => ready e σ t) = none) :
    pickLoop e (f + 1) tasks [] σ = ({ σ with warnings := σ.warnings ++ ["deadlock"] }, tasks) := by
  unfold pickLoop
  simp [hne, hnone]

/-- a cursor outside the horizon: the task is marked run-away, `schedule()` returns False, nothing is booked -/
theorem outside_horizon_is_runaway (e : Env) (σ : St) (t : Nat) (hnd : (σ.tst t).done = false)
    (hout : (preStartCursor e σ t (initCursor e σ t).1 < 0 || preStartCursor e σ t (initCursor e σ t).1 > e.upper) = true) :
    (scheduleTask e σ t).2 = false ∧ (scheduleTask e σ t).1.led = σ.led := by
  unfold scheduleTask
  simp only [hnd, Bool.false_eq_true, if_false, hout, if_true]
  exact ⟨trivial, rfl⟩

/-- an already scheduled task is left alone -/
theorem scheduled_is_skipped (e : Env) (σ : St) (t : Nat) (h : (σ.tst t).done = true) : scheduleTask e σ t = (σ, true) := by
  unfold scheduleTask; simp [h]

/-! ### the fuel of the model's loops is never what stops them -/

/-- **the slot walk**: the code's `while self.scheduleSlot()` loop has no fuel; it ends when the task is finished or the
    cursor leaves the horizon.  The model's walk behaves the same for ANY fuel above the number of slots between the cursor
    and the edge of the horizon: more fuel never changes the result -/
theorem walk_fuel_irrelevant (e : Env) (t : Nat) (fwd : Bool) (fuel k : Nat) (σ : St) (w : Walk)
    (h : slotsLeft e fwd w < fuel) : walkLoop e t fwd (fuel + k) σ w = walkLoop e t fwd fuel σ w :=
  walkLoop_fuel_irrelevant e t fwd fuel k σ w h

/-- … and `scheduleTask` starts the walk (only from a cursor inside the horizon) with more fuel than that -/
theorem walk_fuel_ample (e : Env) (fwd : Bool) (w : Walk) (hs : e.upper ≤ e.size + 1)
    (hin : ¬ (w.cur < 0 ∨ w.cur > e.upper)) : slotsLeft e fwd w < e.size.toNat + 3 :=
  scheduleTask_fuel_ample e fwd w hs hin

/-- the hypothesis holds for every elaborated project: the scoreboard covers the horizon -/
theorem horizon_covered (p : RawProj) (hG : 0 < p.G) : (elaborate p).env.upper ≤ (elaborate p).env.size + 1 :=
  elaborate_horizon p hG

/-- the two searches for a working slot (`while cur > lower and not …: cur -= 1`, and the forward one) likewise -/
theorem back_search_fuel (e : Env) (p : Int → Bool) (fuel : Nat) (c0 : Int) (h : c0.toNat < fuel) :
    backToWork e p fuel c0 = backToWork e p (fuel + 1) c0 := backToWork_fuel_enough e p fuel c0 h

theorem fwd_search_fuel (e : Env) (fuel : Nat) (c0 : Int) (h : (e.upper - c0).toNat < fuel) :
    fwdToWork e fuel c0 = fwdToWork e (fuel + 1) c0 := fwdToWork_fuel_enough e fuel c0 h

/-- the completion estimate of `_selectBestResources` (`while remaining > 0 and idx < size`) -/
theorem estimate_fuel (e : Env) (σ : St) (r : Nat) (perSlot : Rat) (fuel : Nat) (cur : Int) (rem : Rat)
    (h : (e.size - cur).toNat < fuel) :
    estimateAux e σ r perSlot fuel cur rem = estimateAux e σ r perSlot (fuel + 1) cur rem :=
  estimateAux_fuel_enough e σ r perSlot fuel cur rem h

/-- **the ALAP marking** (`_markTaskALAP`, a depth-first walk with a processed set; the code has no fuel): every step
    decreases `alapMeasure` (stack length + the cost of the unprocessed tasks), so fuel above it never matters … -/
theorem alap_marking_fuel (e : Env) (fuel : Nat) (stack processed : List Nat) (σ : St)
    (h : alapMeasure e stack processed < fuel) :
    markAlap e fuel stack processed σ = markAlap e (fuel + 1) stack processed σ :=
  markAlap_fuel_enough e fuel stack processed σ h

/-- … and the `n² + n + 1` units `propagateAlap` hands out per anchor exceed it whenever no task lists more predecessors
    than there are tasks (no repeated edges) -/
theorem alap_marking_fuel_ample (e : Env) (hb : DepsBounded e) (a : Nat) (ha : a < e.tasks.size) (processed : List Nat)
    (hp : processed.contains a = true) (preds : List Nat) (hpl : preds.length ≤ (e.taskD a).deps.length) :
    alapMeasure e preds processed < e.tasks.size * e.tasks.size + e.tasks.size + 1 :=
  markAlap_fuel_ample e hb a ha processed hp preds hpl

/-! ### scheduled ⇒ ordered dates inside the scheduling horizon -/

/-- **nothing is booked outside the scheduling horizon** (`Proofs/Horizon`, by the induction principle over reachable states):
    after scheduling ANY well-formed project every ledger entry lies at a slot `0 ≤ i ≤ upper` -/
theorem bookings_inside_horizon (e : Env) (wf : WF e) (r : Nat) (i : Int)
    (h : ((runScenario e).led.get r i).usage ≠ []) : 0 ≤ i ∧ i ≤ e.upper :=
  runScenario_inHorizon e wf r i h

/-- **a scheduled task has start ≤ end inside the scheduling horizon**: after scheduling ANY well-formed project, every effort
    task with a single selected resource that is reported as scheduled has a reported start and a reported end with
    `project start ≤ start ≤ end ≤ end of the horizon` (`time (upper + 1)`) -/
theorem scheduled_dates_inside_horizon (e : Env) (wf : WF e) (t r : Nat) (hel : Elig e t r)
    (hs : ((runScenario e).tst t).scheduled = true) :
    ∃ s v, ((runScenario e).tst t).start = some s ∧ ((runScenario e).tst t).stop = some v ∧
      e.time 0 ≤ s ∧ s ≤ v ∧ v ≤ e.time (e.upper + 1) := by
  have hd := runScenario_scheduled_done e t ⟨hel.leaf, hel.effort, hel.nomile⟩ hs
  obtain ⟨s, v, h1, h2, h3, h4⟩ := Framed.inside wf (runScenario_inHorizon e wf) (runScenario_framed_all e wf t r hel hd)
  obtain ⟨s', v', h1', h2', hle⟩ := (runScenario_ordered e wf).1 t r hel hd
  rw [h1] at h1'; rw [h2] at h2'
  cases h1'; cases h2'
  exact ⟨s, v, h1, h2, h3, hle, h4⟩

/-- the same bounds for every member of a team of one common efficiency (both modes) -/
theorem team_dates_inside_horizon (e : Env) (wf : WF e) (t : Nat) (sel : List Nat) (η : Rat) (hel : TeamElig e t sel η)
    (r : Nat) (hr : r ∈ sel) (hs : ((runScenario e).tst t).scheduled = true) :
    ∃ s v, ((runScenario e).tst t).start = some s ∧ ((runScenario e).tst t).stop = some v ∧
      e.time 0 ≤ s ∧ v ≤ e.time (e.upper + 1) :=
  Framed.inside wf (runScenario_inHorizon e wf)
    (runScenario_framedT_all e wf t sel η r hel hr (runScenario_scheduled_done e t ⟨hel.leaf, hel.effort, hel.nomile⟩ hs))

end SP.C11
