import Model
import Proofs.SchedInv
/-!
C11 — scheduling is total.

Every function of the model is a total, structurally recursive Lean definition (loops carry explicit
fuel): termination is part of the definitions being accepted.  Theorems: the pick loop consumes one
task per iteration (so `#tasks + 1` fuel is never exhausted with work left), a failed task always
produces the `unscheduled_tasks` warning, a dead-locked work list the `deadlock` warning, and a task
whose cursor starts outside the horizon is reported as run-away instead of being walked.
Partial: Python exceptions in glue code, Lark on corrupted text, recursion limits and wall-clock time are
runtime facts the model cannot exhibit; they are covered by the crash/hang search of the check.
-/
namespace SP.C11
open SP

/-- the work list shrinks by exactly the picked task -/
theorem pick_removes_one (tasks : List Nat) (t : Nat) (h : t ∈ tasks) : (tasks.erase t).length + 1 = tasks.length := by
  rw [List.length_erase_of_mem h]
  have : 0 < tasks.length := List.length_pos_of_mem h
  omega

/-- fuel: with `fuel > #tasks` the loop never stops because of the fuel while a task is ready -/
theorem pickLoop_fuel_enough (e : Env) (fuel : Nat) (tasks failed : List Nat) (σ : St) (h : tasks.length < fuel) :
    (pickLoop e fuel tasks failed σ) = (pickLoop e (fuel + 1) tasks failed σ) := by
  induction fuel generalizing tasks failed σ with
  | zero => omega
  | succ f ih =>
    unfold pickLoop
    split
    · rfl
    · split
      · rename_i t ht
        have hm : t ∈ tasks := List.mem_of_find?_eq_some ht
        have hl := pick_removes_one tasks t hm
        exact ih _ _ _ (by omega)
      · rfl

/-- failed tasks are always reported -/
theorem unscheduled_warning (e : Env) (σ : St)
    (h : (pickLoop e ((todoOf e (preLoop e σ)).length + 1) (todoOf e (preLoop e σ)) [] (preLoop e σ)).2 ≠ []) :
    "unscheduled_tasks" ∈ (scheduleScenario e σ).warnings := by
  unfold scheduleScenario
  simp only []
  have hne : (pickLoop e ((todoOf e (preLoop e σ)).length + 1) (todoOf e (preLoop e σ)) [] (preLoop e σ)).2.isEmpty = false := by
    cases hx : (pickLoop e ((todoOf e (preLoop e σ)).length + 1) (todoOf e (preLoop e σ)) [] (preLoop e σ)).2 with
    | nil => exact absurd hx h
    | cons _ _ => rfl
  simp [hne]

/-- a work list in which no task is ready (and nothing failed before) is reported as a deadlock and all
    its tasks count as failed -/
theorem deadlock_warning (e : Env) (f : Nat) (tasks : List Nat) (σ : St) (hne : tasks.isEmpty = false)
    (hnone : tasks.find? (fun t => ready e σ t) = none) :
    pickLoop e (f + 1) tasks [] σ = ({ σ with warnings := σ.warnings ++ ["deadlock"] }, tasks) := by
  unfold pickLoop
  simp [hne, hnone]

/-- a cursor outside the horizon: the task is marked run-away, `schedule()` returns False, nothing is booked -/
theorem outside_horizon_is_runaway (e : Env) (σ : St) (t : Nat) (hnd : (σ.tst t).done = false)
    (hout : (preStartCursor e σ t (initCursor e σ t).1 < 0 || preStartCursor e σ t (initCursor e σ t).1 > e.upper) = true) :
    (scheduleTask e σ t).2 = false ∧ (scheduleTask e σ t).1.led = σ.led := by
  unfold scheduleTask
  simp only [hnd, Bool.false_eq_true, if_false, hout, if_true]
  exact ⟨trivial, rfl⟩

/-- an already scheduled task is left alone -/
theorem scheduled_is_skipped (e : Env) (σ : St) (t : Nat) (h : (σ.tst t).done = true) : scheduleTask e σ t = (σ, true) := by
  unfold scheduleTask; simp [h]

end SP.C11
