import Model
import Proofs.Slots
import Proofs.Scan
/-!
C17 — slot/time conversion and interval scanning obey their algebra.
All theorems are for every resolution `G > 0`, every window and every index / instant / pattern.
-/
namespace SP.C17
open SP

/-- slot index → time is strictly increasing -/
theorem time_strictMono (b : Board) (hG : 0 < b.G) (i j : Int) (h : i < j) : b.time i < b.time j :=
  b.time_lt hG h

/-- index (time i) = i, for every index (not only those of the table) -/
theorem idx_time (b : Board) (hG : 0 < b.G) (i : Int) : b.rawIdx (b.time i) = i := b.rawIdx_time hG i

/-- floor-inverse on instants at or after `start`: time (index t) ≤ t < time (index t + 1) -/
theorem time_idx_floor (b : Board) (hG : 0 < b.G) (t : Int) (ht : b.start ≤ t) :
    b.time (b.rawIdx t) ≤ t ∧ t < b.time (b.rawIdx t + 1) := b.rawIdx_floor hG ht

/-- what happens *before* the window (truncation toward zero), stated explicitly -/
theorem idx_before_start (b : Board) (hG : 0 < b.G) (t : Int) (ht : t < b.start) :
    b.rawIdx t ≤ 0 ∧ (b.start - b.G < t → b.rawIdx t = 0) ∧ t ≤ b.time (b.rawIdx t) :=
  b.rawIdx_before hG ht

/-- the table covers [start, end]: slot 0 starts at `start`, the last slot starts at or after `end`,
    and the table is not longer than needed -/
theorem table_covers (b : Board) (hG : 0 < b.G) :
    b.time 0 = b.start ∧ b.stop ≤ b.time (b.size - 1) ∧ b.time (b.size - 2) < b.stop := by
  refine ⟨by simp [Board.time], ?_, ?_⟩
  · have := ceilDiv_mul_ge (b.stop - b.start) b.G hG
    simp only [Board.time, Board.size]
    have e : ceilDiv (b.stop - b.start) b.G + 1 - 1 = ceilDiv (b.stop - b.start) b.G := by omega
    rw [e]; omega
  · have := ceilDiv_mul_lt (b.stop - b.start) b.G hG
    simp only [Board.time, Board.size]
    have e : ceilDiv (b.stop - b.start) b.G + 1 - 2 = ceilDiv (b.stop - b.start) b.G - 1 := by omega
    rw [e]; omega

/-- `idxToDate`: inside the table the slot time; outside, rejected — unless clamping, then the nearest bound -/
theorem idxToDate_spec (b : Board) (i : Int) :
    (0 ≤ i ∧ i < b.size → ∀ f, pyIdxToDate b i f = .ok (b.time i)) ∧
    (i < 0 ∨ b.size ≤ i → pyIdxToDate b i false = .indexError) ∧
    (i < 0 → pyIdxToDate b i true = .ok b.start) ∧
    (b.size ≤ i → 0 ≤ i → pyIdxToDate b i true = .ok b.stop) := by
  refine ⟨?_, ?_, ?_, ?_⟩
  · rintro ⟨h0, h1⟩ f
    cases f <;> grind [pyIdxToDate]
  · intro h; grind [pyIdxToDate]
  · intro h; grind [pyIdxToDate]
  · intro h h0; grind [pyIdxToDate]

/-- `dateToIdx` never rejects an instant of the window and returns its floor slot -/
theorem dateToIdx_window (b : Board) (hG : 0 < b.G) (t : Int) (h0 : b.start ≤ t) (h1 : t ≤ b.stop) (f : Bool) :
    pyDateToIdx b t f = .ok (b.rawIdx t) ∧ 0 ≤ b.rawIdx t ∧ b.rawIdx t < b.size := by
  have a := b.rawIdx_nonneg hG h0
  have c := b.rawIdx_lt_size hG h0 h1
  refine ⟨?_, a, c⟩
  cases f <;> grind [pyDateToIdx]

/-- round trip through the checked API for every index of the table -/
theorem dateToIdx_idxToDate (b : Board) (hG : 0 < b.G) (i : Int) (h0 : 0 ≤ i) (h1 : i < b.size) (f : Bool) :
    pyDateToIdx b (b.time i) f = .ok i := by
  have := b.rawIdx_time hG i
  cases f <;> grind [pyDateToIdx]

/-- out-of-table instants: rejected, or clamped to the nearest slot -/
theorem dateToIdx_outside (b : Board) (t : Int) :
    (b.rawIdx t < 0 ∨ b.size ≤ b.rawIdx t → pyDateToIdx b t false = .indexError) ∧
    (b.rawIdx t < 0 → pyDateToIdx b t true = .ok 0) ∧
    (b.size ≤ b.rawIdx t → 0 ≤ b.rawIdx t → pyDateToIdx b t true = .ok (b.size - 1)) := by
  refine ⟨?_, ?_, ?_⟩
  · intro h; grind [pyDateToIdx]
  · intro h; grind [pyDateToIdx]
  · intro h h0; grind [pyDateToIdx]

/-- the effective predicate of a scan: the table value, and only strictly below the scan end -/
def effPred (pat : List Bool) (hi : Int) (i : Int) : Bool := patAt pat i && decide (i < hi)

/-- **Scan specification.**  `collectIntervals` returns exactly the maximal runs of the predicate
    (inside the scan range = window widened by `m`, clipped to the table) whose length is at least `m`,
    each clipped to the query window `[sIdx, eIdx]`. -/
theorem scan_exactly_maximal_runs (pat : List Bool) (sIdx eIdx : Int) (m : Nat) (x : Int × Int)
    (hlo : scanLo sIdx m ≤ scanHi eIdx pat.length m + 1) :
    x ∈ pyScan pat sIdx eIdx m ↔
      ∃ a b, ClosedRun (effPred pat (scanHi eIdx pat.length m)) (scanLo sIdx m) (scanHi eIdx pat.length m + 1) a b
             ∧ (m : Int) ≤ b - a ∧ x = (max a sIdx, min b eIdx) := by
  have hstep : ∀ (st : ScanSt) (i : Int),
      scanStep pat sIdx eIdx (scanHi eIdx pat.length m) m st i =
      qStep (effPred pat (scanHi eIdx pat.length m)) sIdx eIdx m st i := by
    intro st i; simp [scanStep, qStep, effPred]
  have inv := scanInv_fold (effPred pat (scanHi eIdx pat.length m)) sIdx eIdx m (scanLo sIdx m)
      (scanHi eIdx pat.length m - scanLo sIdx m + 1).toNat
  have hk : scanLo sIdx m + ((scanHi eIdx pat.length m - scanLo sIdx m + 1).toNat : Int)
      = scanHi eIdx pat.length m + 1 := by omega
  rw [hk] at inv
  have hfold : pyScan pat sIdx eIdx m =
      ((scanIdxs (scanLo sIdx m) (scanHi eIdx pat.length m - scanLo sIdx m + 1).toNat).foldl
        (qStep (effPred pat (scanHi eIdx pat.length m)) sIdx eIdx m) { dur := 0, start := 0, acc := [] }).acc := by
    unfold pyScan scanIdxs
    simp only []
    rw [foldl_congr_step _ _ hstep]
  rw [hfold]
  exact inv.acc x

/-- no run is left open when the loop ends: the predicate is false at the scan end by construction -/
theorem scan_end_closed (pat : List Bool) (hi : Int) : effPred pat hi hi = false := by
  simp [effPred]

end SP.C17
