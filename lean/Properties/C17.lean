import Model
namespace SP.C17
theorem placeholder : (1 : Nat) = 1 := rfl
end SP.C17
