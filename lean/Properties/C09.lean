import Model
import Proofs.Order
import Proofs.Frozen
import Proofs.Intruder
import Proofs.WFCheck
/-!
C09 — lower-priority work never disturbs higher-priority work.

The work list is sorted by priority (ties in declaration order); a task with strictly lowest priority is
its last element; the loop always picks the first ready task of the list — so the added task is picked
only when none of the other remaining tasks is ready, and of two ready competitors the one with the
strictly higher priority is picked first.  And what is placed later cannot disturb what was placed earlier:
a completed task keeps its dates and every one of its bookings until the end of the loop (`placed_is_frozen`).
The relation between the two runs — with and without the added task — is `lowest_priority_intruder_harmless`
(`Proofs/Intruder`: a congruence of every scheduler function in the environment, and a simulation of the two pick loops).
-/
namespace SP.C09
open SP

theorem worklist_sorted (e : Env) (l : List Nat) :
    (l.mergeSort (prioLe e)).Pairwise (fun a b => prioLe e a b = true) := todo_sorted e l

/-- the strictly lowest priority is placed last -/
theorem lowest_priority_last (e : Env) (l : List Nat) (L : Nat) (hL : L ∈ l) (hnd : l.Nodup)
    (hlow : ∀ x ∈ l, x ≠ L → (e.taskD x).prio > (e.taskD L).prio) :
    ∃ pre, l.mergeSort (prioLe e) = pre ++ [L] := lowest_is_last e l L hL hnd hlow

/-- the loop picks the first ready task in list order -/
theorem first_ready_wins (e : Env) (σ : St) (tasks : List Nat) (t : Nat)
    (h : tasks.find? (fun t => ready e σ t) = some t) :
    ready e σ t = true ∧ ∃ pre post, tasks = pre ++ t :: post ∧ ∀ x ∈ pre, ready e σ x = false :=
  picks_first_ready e σ tasks t h

/-- hence the added task `L` (last) is picked only when no other remaining task is ready -/
theorem lowest_picked_only_when_alone (e : Env) (σ : St) (pre : List Nat) (L : Nat)
    (h : (pre ++ [L]).find? (fun t => ready e σ t) = some L) (hL : L ∉ pre) : ∀ x ∈ pre, ready e σ x = false := by
  obtain ⟨_, pre', post, hsplit, hpre⟩ := picks_first_ready e σ _ L h
  -- L occurs exactly once, at the end
  have : pre' = pre := by
    have hlen : pre'.length = pre.length := by
      by_cases hlt : pre'.length < pre.length
      · -- then L = element of pre at that index
        have h1 := congrArg (fun l => l[pre'.length]?) hsplit
        simp only [List.getElem?_append_left hlt] at h1
        rw [List.getElem?_append_right (Nat.le_refl _)] at h1
        simp at h1
        have : L ∈ pre := List.mem_of_getElem? h1
        exact absurd this hL
      · have h2 := congrArg List.length hsplit
        simp at h2
        omega
    have h3 := congrArg (List.take pre.length) hsplit
    simp only [List.take_left'] at h3
    rw [← hlen, List.take_left'] at h3
    · exact h3.symm
    · rfl
  rw [← this]; exact hpre

/-- served first: of two tasks of the work list, the one that comes first has at least the priority of the other -/
theorem served_first (e : Env) (l : List Nat) (a b : Nat) (pre mid post : List Nat)
    (hsplit : l.mergeSort (prioLe e) = pre ++ b :: mid ++ a :: post) : (e.taskD b).prio ≥ (e.taskD a).prio :=
  higher_first e l a b pre mid post hsplit

/-- **what is placed later does not disturb what was placed earlier**: a leaf task that is completed at some point of
    the scheduling loop has, when the loop ends, exactly the dates and flags and exactly the ledger entries (on every
    resource, in every slot) it had at that point — for every continuation of the loop, whatever the remaining tasks,
    their priorities and their allocations are -/
theorem placed_is_frozen (e : Env) (fuel : Nat) (tasks failed : List Nat) (σ : St) (t : Nat)
    (hlf : (e.taskD t).leaf = true) (hd : (σ.tst t).done = true) :
    (pickLoop e fuel tasks failed σ).1.tst t = σ.tst t ∧
    ∀ r i, usageOf ((pickLoop e fuel tasks failed σ).1.led.get r i).usage t = usageOf (σ.led.get r i).usage t :=
  pickLoop_frozen e fuel tasks failed σ t hlf hd

/-- in particular one more round — scheduling any task `t0` — leaves a completed task untouched -/
theorem one_round_frozen (e : Env) (σ : St) (t0 t : Nat) (hlf : (e.taskD t).leaf = true) (hd : (σ.tst t).done = true) :
    (updateContainers e (scheduleTask e σ t0).1).tst t = σ.tst t ∧
    ∀ r i, usageOf ((updateContainers e (scheduleTask e σ t0).1).led.get r i).usage t = usageOf (σ.led.get r i).usage t :=
  round_frozen e σ t0 t hlf hd

example : ([0, 1, 2] : List Nat).Nodup := by decide

/-! ### the two runs -/

/-- decidable form of the hypotheses of the two-run theorem for the project `e` and the added task `zd` -/
def intrCheck (e : Env) (zd : TaskD) : Bool :=
  (List.range e.tasks.size).all (fun t =>
    (match (e.taskD t).parent with | some p => decide (p < t) | none => true) &&
    (e.taskD t).allDeps.all (fun dp => dp.target != e.tasks.size) &&
    (e.taskD t).deps.all (fun dp => dp.target != e.tasks.size) &&
    !(e.taskD t).children.contains e.tasks.size &&
    decide ((e.taskD t).prio > zd.prio) && (e.taskD t).forward) &&
  zd.leaf && zd.parent.isNone && zd.allDeps.all (fun dp => decide (dp.target < e.tasks.size)) && zd.limits.isEmpty &&
    zd.forward && !e.projAlap

theorem intrCheck_sound (e : Env) (zd : TaskD) (h : intrCheck e zd = true) :
    Intr e zd ∧ FwdEnv e ∧ zd.forward = true ∧ ∀ t, t < e.tasks.size → (e.taskD t).prio > zd.prio := by
  unfold intrCheck at h
  simp only [Bool.and_eq_true, List.all_eq_true, List.mem_range, Bool.not_eq_true', decide_eq_true_eq,
    Option.isNone_iff_eq_none, List.isEmpty_iff, bne_iff_ne, ne_eq] at h
  obtain ⟨⟨⟨⟨⟨⟨hall, hleaf⟩, hpar⟩, hdeps⟩, hlim⟩, hfwd⟩, hproj⟩ := h
  have hin : ∀ t, e.tasks.size ≤ t → e.taskD t = {} := fun t ht => taskD_default e t ht
  refine ⟨⟨?_, hleaf, hpar, hdeps, hlim, ?_, ?_, ?_⟩, ⟨hproj, ?_⟩, hfwd, ?_⟩
  · intro t p hp
    by_cases ht : t < e.tasks.size
    · have := (hall t ht).1.1.1.1.1
      rw [hp] at this; simpa using this
    · rw [hin t (by omega)] at hp; cases hp
  · intro t dp hdp
    by_cases ht : t < e.tasks.size
    · exact (hall t ht).1.1.1.1.2 dp hdp
    · rw [hin t (by omega)] at hdp; cases hdp
  · intro t dp hdp
    by_cases ht : t < e.tasks.size
    · exact (hall t ht).1.1.1.2 dp hdp
    · rw [hin t (by omega)] at hdp; cases hdp
  · intro t hc
    by_cases ht : t < e.tasks.size
    · have := (hall t ht).1.1.2
      rw [List.contains_eq_mem] at this
      simp at this
      exact this hc
    · rw [hin t (by omega)] at hc; cases hc
  · intro t
    by_cases ht : t < e.tasks.size
    · exact (hall t ht).2
    · rw [hin t (by omega)]
  · intro t ht
    exact (hall t ht).1.2

/-- **C09, the two runs** (`Proofs/Intruder`).  `ext e zd` is the forward project `e` with one more task `zd` appended — a
    top-level leaf without limits of its own, which may depend on existing tasks but on which nothing depends and which no
    container holds, whose priority is strictly lower than every other task's; resources, calendars, limits and horizon are those of `e` ("everything still
    fits the horizon").  Then in the schedule of `ext e zd` every other task has exactly the attributes — scheduled flag,
    start, end — it has in the schedule of `e`: whatever the added task's effort, resource, pinned start or calendar
    position, however the two compete for resources and limits. -/
theorem lowest_priority_intruder_harmless (e : Env) (zd : TaskD) (hi : Intr e zd) (tr : Tree e) (hfe : FwdEnv e)
    (hz : zd.forward = true) (hlow : ∀ t, t < e.tasks.size → (e.taskD t).prio > zd.prio) :
    ∀ t, t ≠ e.tasks.size → (runScenario (ext e zd)).tst t = (runScenario e).tst t :=
  runScenario_intruder e zd hi tr hfe hz hlow

/-- the same under the decidable checks -/
theorem lowest_priority_intruder_harmless_checked (e : Env) (zd : TaskD) (h : intrCheck e zd = true)
    (htr : treeCheck e = true) :
    ∀ t, t < e.tasks.size → (runScenario (ext e zd)).tst t = (runScenario e).tst t := by
  obtain ⟨hi, hfe, hz, hlow⟩ := intrCheck_sound e zd h
  intro t ht
  exact lowest_priority_intruder_harmless e zd hi (treeCheck_sound e htr) hfe hz hlow t (by omega)

/-- non-vacuity: two tasks on one resource, and an added 3 h task of priority 1 on the same resource -/
def base2 : RawProj :=
  { G := 3600, start := 1736121600, stop := 1737331200,
    res := [{}],
    tasks := [{ effort := some 4, alloc := some ([0], []) },
              { effort := some 2, alloc := some ([0], []), deps := [{ target := 0 }] }] }

def zlow : TaskD := { effort := 3, hasAlloc := true, alloc := [0], prio := 1, allDeps := [{ target := 0 }], deps := [{ target := 0 }] }

example : intrCheck (elaborate base2).env zlow = true := by decide +kernel
example : treeCheck (elaborate base2).env = true := by decide +kernel

end SP.C09
