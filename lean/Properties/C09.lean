import Model
import Proofs.Order
import Proofs.Frozen
/-!
C09 — lower-priority work never disturbs higher-priority work.

The work list is sorted by priority (ties in declaration order); a task with strictly lowest priority is
its last element; the loop always picks the first ready task of the list — so the added task is picked
only when none of the other remaining tasks is ready, and of two ready competitors the one with the
strictly higher priority is picked first.  And what is placed later cannot disturb what was placed earlier:
a completed task keeps its dates and every one of its bookings until the end of the loop (`placed_is_frozen`).
Partial: that the other tasks' results are *identical in the two runs* (with and without the added task) is the
metamorphic part of the tie — it needs a congruence of every scheduler function in the environment.
-/
namespace SP.C09
open SP

theorem worklist_sorted (e : Env) (l : List Nat) :
    (l.mergeSort (prioLe e)).Pairwise (fun a b => prioLe e a b = true) := todo_sorted e l

/-- the strictly lowest priority is placed last -/
theorem lowest_priority_last (e : Env) (l : List Nat) (L : Nat) (hL : L ∈ l) (hnd : l.Nodup)
    (hlow : ∀ x ∈ l, x ≠ L → (e.taskD x).prio > (e.taskD L).prio) :
    ∃ pre, l.mergeSort (prioLe e) = pre ++ [L] := lowest_is_last e l L hL hnd hlow

/-- the loop picks the first ready task in list order -/
theorem first_ready_wins (e : Env) (σ : St) (tasks : List Nat) (t : Nat)
    (h : tasks.find? (fun t => ready e σ t) = some t) :
    ready e σ t = true ∧ ∃ pre post, tasks = pre ++ t :: post ∧ ∀ x ∈ pre, ready e σ x = false :=
  picks_first_ready e σ tasks t h

/-- hence the added task `L` (last) is picked only when no other remaining task is ready -/
theorem lowest_picked_only_when_alone (e : Env) (σ : St) (pre : List Nat) (L : Nat)
    (h : (pre ++ [L]).find? (fun t => ready e σ t) = some L) (hL : L ∉ pre) : ∀ x ∈ pre, ready e σ x = false := by
  obtain ⟨_, pre', post, hsplit, hpre⟩ := picks_first_ready e σ _ L h
  -- L occurs exactly once, at the end
  have : pre' = pre := by
    have hlen : pre'.length = pre.length := by
      by_cases hlt : pre'.length < pre.length
      · -- then L = element of pre at that index
        have h1 := congrArg (fun l => l[pre'.length]?) hsplit
        simp only [List.getElem?_append_left hlt] at h1
        rw [List.getElem?_append_right (Nat.le_refl _)] at h1
        simp at h1
        have : L ∈ pre := List.mem_of_getElem? h1
        exact absurd this hL
      · have h2 := congrArg List.length hsplit
        simp at h2
        omega
    have h3 := congrArg (List.take pre.length) hsplit
    simp only [List.take_left'] at h3
    rw [← hlen, List.take_left'] at h3
    · exact h3.symm
    · rfl
  rw [← this]; exact hpre

/-- served first: of two tasks of the work list, the one that comes first has at least the priority of the other -/
theorem served_first (e : Env) (l : List Nat) (a b : Nat) (pre mid post : List Nat)
    (hsplit : l.mergeSort (prioLe e) = pre ++ b :: mid ++ a :: post) : (e.taskD b).prio ≥ (e.taskD a).prio :=
  higher_first e l a b pre mid post hsplit

/-- **what is placed later does not disturb what was placed earlier**: a leaf task that is completed at some point of
    the scheduling loop has, when the loop ends, exactly the dates and flags and exactly the ledger entries (on every
    resource, in every slot) it had at that point — for every continuation of the loop, whatever the remaining tasks,
    their priorities and their allocations are -/
theorem placed_is_frozen (e : Env) (fuel : Nat) (tasks failed : List Nat) (σ : St) (t : Nat)
    (hlf : (e.taskD t).leaf = true) (hd : (σ.tst t).done = true) :
    (pickLoop e fuel tasks failed σ).1.tst t = σ.tst t ∧
    ∀ r i, usageOf ((pickLoop e fuel tasks failed σ).1.led.get r i).usage t = usageOf (σ.led.get r i).usage t :=
  pickLoop_frozen e fuel tasks failed σ t hlf hd

/-- in particular one more round — scheduling any task `t0` — leaves a completed task untouched -/
theorem one_round_frozen (e : Env) (σ : St) (t0 t : Nat) (hlf : (e.taskD t).leaf = true) (hd : (σ.tst t).done = true) :
    (updateContainers e (scheduleTask e σ t0).1).tst t = σ.tst t ∧
    ∀ r i, usageOf ((updateContainers e (scheduleTask e σ t0).1).led.get r i).usage t = usageOf (σ.led.get r i).usage t :=
  round_frozen e σ t0 t hlf hd

example : ([0, 1, 2] : List Nat).Nodup := by decide

end SP.C09
