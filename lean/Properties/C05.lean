import Model
import Proofs.SchedInv
import Proofs.WFCheck
/-!
C05 — daily and weekly limits are never exceeded.

Counter level: every limit counter ends at or below its limit (an `inc` only ever follows an `ok` on
the same counter), for the whole horizon (counters are created on demand, so there is no index beyond
which the limit stops applying).  Period level: the daily (weekly) period index of a slot identifies its
calendar day (its Monday-based ISO week) — a true period is never split over two counters nor are two
periods merged into one.
-/
namespace SP.C05
open SP

/-- every counter of every limit, in every period, is within the limit after scheduling -/
theorem counter_le (e : Env) (wf : WF e) (lid : Nat) (k : Int) :
    (runScenario e).cnt.get lid k ≤ max 0 (e.limitD lid).value :=
  (runScenario_inv e wf).cnt lid k

/-- no booking happens while a counter sits at its limit: `ok` is `count < value` -/
theorem ok_iff (e : Env) (σ : St) (lid : Nat) (i : Int) (hk : 0 ≤ e.period (e.limitD lid) i)
    (hr : (e.limitD lid).res = none) :
    limitOk e σ lid i none = decide (σ.cnt.get lid (e.period (e.limitD lid) i) < (e.limitD lid).value) := by
  unfold limitOk
  simp [hr]
  intro h; omega

/-- daily period = calendar day: two slots share a counter iff they lie on the same calendar day -/
theorem day_period (c : CalEnv) (i j : Int) :
    dayIdxAt c i = dayIdxAt c j ↔ dayOf (c.time i) = dayOf (c.time j) := by
  unfold dayIdxAt; omega

theorem monday_mod (d : Int) : (mondayOf d + 3) % 7 = 0 := by
  unfold mondayOf weekdayOfDay; omega

/-- weekly period = Monday-based week: two slots share a counter iff their days have the same Monday -/
theorem week_period (c : CalEnv) (i j : Int) :
    weekIdxAt c i = weekIdxAt c j ↔ mondayOf (dayOf (c.time i)) = mondayOf (dayOf (c.time j)) := by
  unfold weekIdxAt
  have h1 := monday_mod (dayOf (c.time i))
  have h2 := monday_mod (dayOf (c.time j))
  have h3 := monday_mod (dayOf c.start)
  omega

/-- the Monday of a day is within that day's week: at most six days earlier -/
theorem monday_range (d : Int) : mondayOf d ≤ d ∧ d < mondayOf d + 7 := by
  unfold mondayOf weekdayOfDay; omega

/-- same Monday ⇒ same ISO (year, week): the ISO week is a function of the week's Monday -/
theorem iso_week_of_monday (d1 d2 : Int) (h : mondayOf d1 = mondayOf d2) : isoYearWeek d1 = isoYearWeek d2 := by
  unfold isoYearWeek; rw [h]

/-- … and conversely: equal ISO (year, week) ⇒ same Monday -/
theorem monday_of_iso_week (d1 d2 : Int) (h : isoYearWeek d1 = isoYearWeek d2) : mondayOf d1 = mondayOf d2 := by
  unfold isoYearWeek at h
  simp only [Prod.mk.injEq] at h
  obtain ⟨hy, hw⟩ := h
  rw [hy] at hw
  have h1 := monday_mod d1
  have h2 := monday_mod d2
  omega

/-- shifting a slot by whole weeks shifts its weekly period by the same number, whatever the year
    (the pinned ISO-number formula failed this across 53-week years) -/
theorem week_shift (c : CalEnv) (i : Int) (k : Int) (hG : 0 < c.G) (hdiv : (604800 * k) % c.G = 0) :
    weekIdxAt c (i + 604800 * k / c.G) = weekIdxAt c i + k := by
  unfold weekIdxAt CalEnv.time dayOf mondayOf weekdayOfDay
  have e1 : (i + 604800 * k / c.G) * c.G = i * c.G + 604800 * k := by
    rw [Int.add_mul]
    have : 604800 * k / c.G * c.G = 604800 * k := Int.ediv_mul_cancel (Int.dvd_of_emod_eq_zero hdiv)
    omega
  rw [e1]
  omega

example : weekIdxAt { start := 1798416000, G := 3600, size := 1000, gvac := [], gleaves := [] } 168 = 1 := by decide

end SP.C05
