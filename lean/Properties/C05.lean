import Model
import Proofs.SchedInv
import Proofs.WFCheck
import Proofs.Counted
/-!
C05 — daily and weekly limits are never exceeded.

Counter level: every limit counter ends at or below its limit (an `inc` only ever follows an `ok` on
the same counter), for the whole horizon (counters are created on demand, so there is no index beyond
which the limit stops applying).  Period level: the daily (weekly) period index of a slot identifies its
calendar day (its Monday-based ISO week) — a true period is never split over two counters nor are two
periods merged into one.
-/
namespace SP.C05
open SP

/-- every counter of every limit, in every period, is within the limit after scheduling -/
theorem counter_le (e : Env) (wf : WF e) (lid : Nat) (k : Int) :
    (runScenario e).cnt.get lid k ≤ max 0 (e.limitD lid).value :=
  (runScenario_inv e wf).cnt lid k

/-- no booking happens while a counter sits at its limit: `ok` is `count < value` -/
theorem ok_iff (e : Env) (σ : St) (lid : Nat) (i : Int) (hk : 0 ≤ e.period (e.limitD lid) i)
    (hr : (e.limitD lid).res = none) :
    limitOk e σ lid i none = decide (σ.cnt.get lid (e.period (e.limitD lid) i) < (e.limitD lid).value) := by
  unfold limitOk
  simp [hr]
  intro h; omega

/-- daily period = calendar day: two slots share a counter iff they lie on the same calendar day -/
theorem day_period (c : CalEnv) (i j : Int) :
    dayIdxAt c i = dayIdxAt c j ↔ dayOf (c.time i) = dayOf (c.time j) := by
  unfold dayIdxAt; omega

theorem monday_mod (d : Int) : (mondayOf d + 3) % 7 = 0 := by
  unfold mondayOf weekdayOfDay; omega

/-- weekly period = Monday-based week: two slots share a counter iff their days have the same Monday -/
theorem week_period (c : CalEnv) (i j : Int) :
    weekIdxAt c i = weekIdxAt c j ↔ mondayOf (dayOf (c.time i)) = mondayOf (dayOf (c.time j)) := by
  unfold weekIdxAt
  have h1 := monday_mod (dayOf (c.time i))
  have h2 := monday_mod (dayOf (c.time j))
  have h3 := monday_mod (dayOf c.start)
  omega

/-- the Monday of a day is within that day's week: at most six days earlier -/
theorem monday_range (d : Int) : mondayOf d ≤ d ∧ d < mondayOf d + 7 := by
  unfold mondayOf weekdayOfDay; omega

/-- same Monday ⇒ same ISO (year, week): the ISO week is a function of the week's Monday -/
theorem iso_week_of_monday (d1 d2 : Int) (h : mondayOf d1 = mondayOf d2) : isoYearWeek d1 = isoYearWeek d2 := by
  unfold isoYearWeek; rw [h]

/-- … and conversely: equal ISO (year, week) ⇒ same Monday -/
theorem monday_of_iso_week (d1 d2 : Int) (h : isoYearWeek d1 = isoYearWeek d2) : mondayOf d1 = mondayOf d2 := by
  unfold isoYearWeek at h
  simp only [Prod.mk.injEq] at h
  obtain ⟨hy, hw⟩ := h
  rw [hy] at hw
  have h1 := monday_mod d1
  have h2 := monday_mod d2
  omega

/-- shifting a slot by whole weeks shifts its weekly period by the same number, whatever the year
    (the pinned ISO-number formula failed this across 53-week years) -/
theorem week_shift (c : CalEnv) (i : Int) (k : Int) (hG : 0 < c.G) (hdiv : (604800 * k) % c.G = 0) :
    weekIdxAt c (i + 604800 * k / c.G) = weekIdxAt c i + k := by
  unfold weekIdxAt CalEnv.time dayOf mondayOf weekdayOfDay
  have e1 : (i + 604800 * k / c.G) * c.G = i * c.G + 604800 * k := by
    rw [Int.add_mul]
    have : 604800 * k / c.G * c.G = 604800 * k := Int.ediv_mul_cancel (Int.dvd_of_emod_eq_zero hdiv)
    omega
  rw [e1]
  omega

/-! ### booked time, not only counters -/

/-- which limits count a booking of resource `r` by task `t`: the unfiltered limits of `r` and of every enclosing resource
    group, and the limits of `t` and of every enclosing task that carry no resource filter or name `r` -/
theorem covers_iff (e : Env) (lid r t : Nat) :
    covers e lid r t ↔
      (lid ∈ resLimitIds e r ∧ (e.limitD lid).res = none) ∨
      (lid ∈ taskLimitIds e t ∧ ((e.limitD lid).res = none ∨ (e.limitD lid).res = some r)) := by
  unfold covers bookPairs applies
  constructor
  · rintro ⟨q, hq, rfl, ha⟩
    simp only [List.mem_append, List.mem_map] at hq
    rcases hq with ⟨l, hl, rfl⟩ | ⟨l, hl, rfl⟩
    · left
      refine ⟨hl, ?_⟩
      cases hr : (e.limitD l).res with
      | none => rfl
      | some x => simp [hr] at ha
    · right
      refine ⟨hl, ?_⟩
      cases hr : (e.limitD l).res with
      | none => exact Or.inl rfl
      | some x =>
        right
        simp only [hr, Option.isSome_some, Bool.true_and, Bool.not_eq_true', bne_eq_false_iff_eq] at ha
        exact ha
  · rintro (⟨hl, hr⟩ | ⟨hl, hr⟩)
    · exact ⟨(lid, none), by simp only [List.mem_append, List.mem_map]; exact Or.inl ⟨lid, hl, rfl⟩, rfl, by simp [hr]⟩
    · refine ⟨(lid, some r), by simp only [List.mem_append, List.mem_map]; exact Or.inr ⟨lid, hl, rfl⟩, rfl, ?_⟩
      rcases hr with hr | hr <;> simp [hr]

/-- **C05 at the level of the ledger** (`Proofs/Counted`, by the induction principle `runScenario_closed` over every state
    the scheduler reaches): after scheduling ANY well-formed project, for every limit and every one of its periods (calendar
    day or Monday-based week), the ledger entries (resource, slot, task) that the limit covers in that period — however
    they are listed, without repetition — number at most `value` slots … -/
theorem booked_entries_le_limit (e : Env) (wf : WF e) (lid : Nat) (p : Int) (L : List Trip) (hp : 0 ≤ p)
    (hv : Valid e (runScenario e) lid p L) : (L.length : Int) ≤ max 0 (e.limitD lid).value :=
  runScenario_entries_le_limit e wf lid p L hp hv

/-- … and the seconds they record add up to at most `value x G`: the booked working time of a limited resource, of all
    members of a limited group together, or of all tasks below a limited task, in any day / week of the whole horizon,
    never exceeds the limit -/
theorem booked_seconds_le_limit (e : Env) (wf : WF e) (lid : Nat) (p : Int) (L : List Trip) (hp : 0 ≤ p)
    (hv : Valid e (runScenario e) lid p L) :
    sumTrips (runScenario e) L ≤ (max 0 (e.limitD lid).value : Int) * (e.G : Rat) :=
  runScenario_secs_le_limit e wf lid p L hp hv

/-- the same for the environment elaborated from a project description, under the decidable check -/
theorem booked_seconds_le_limit_elab (p : RawProj) (h : wfCheck (elaborate p).env = true) (lid : Nat) (k : Int)
    (L : List Trip) (hk : 0 ≤ k) (hv : Valid (elaborate p).env (runScenario (elaborate p).env) lid k L) :
    sumTrips (runScenario (elaborate p).env) L
      ≤ (max 0 ((elaborate p).env.limitD lid).value : Int) * ((elaborate p).env.G : Rat) :=
  booked_seconds_le_limit _ (wfCheck_sound _ h) lid k L hk hv

/-- every counter is at least the number of covered entries, in every reachable final state: no booking goes uncounted -/
theorem no_booking_uncounted (e : Env) (wf : WF e) : Counted e (runScenario e) := runScenario_counted e wf

/-- non-vacuity: one resource with `dailymax 2h`, one task of 5 h — the limit covers the task's bookings -/
def lim2 : RawProj :=
  { G := 3600, start := 1736121600, stop := 1737331200,
    res := [{ limits := [{ weekly := false, value := 2 }] }],
    tasks := [{ effort := some 5, alloc := some ([0], []) }] }

example : wfCheck (elaborate lim2).env = true := by decide +kernel
example : covers (elaborate lim2).env 0 0 0 :=
  (covers_iff _ 0 0 0).mpr (Or.inl ⟨by decide +kernel, by decide +kernel⟩)

example : weekIdxAt { start := 1798416000, G := 3600, size := 1000, gvac := [], gleaves := [] } 168 = 1 := by decide

end SP.C05
