import Model
import Proofs.Walk
import Proofs.Round
import Proofs.FrameWalk
import Proofs.FrameBack
import Proofs.FrameTeam
import Proofs.FrameTeamBack
import Proofs.FrameAlt
import Proofs.Ordered
import Proofs.TeamOrdered
import Proofs.WFCheck
/-!
C06 — reported start and end frame exactly the booked work.

Forward finish: `end = time(cur) + round(usedBefore + need)` with `usedBefore + need ≤ used ≤ G`, so the
end lies in the finishing slot (after whatever was used before) and never beyond it.  Milestones: start =
end = the dependency bound (cursor + offset).
-/
namespace SP.C06
open SP

theorem roundHalfEven_bounds (x : Rat) : (x.floor : Int) ≤ roundHalfEven x ∧ roundHalfEven x ≤ x.floor + 1 :=
  SP.roundHalfEven_bounds x

theorem roundHalfEven_mono_int (x : Rat) (n : Int) (h : x ≤ (n : Rat)) : roundHalfEven x ≤ n :=
  SP.roundHalfEven_mono_int x n h

theorem roundHalfEven_nonneg (x : Rat) (h : 0 ≤ x) : 0 ≤ roundHalfEven x :=
  SP.roundHalfEven_nonneg x h

/-- the reported date of a finishing task lies inside the finishing slot: `time(cur) ≤ end ≤ time(cur+1)`
    whenever the amount it accounts for is within the slot (`0 ≤ usedBefore + need ≤ G`) -/
theorem finish_date_in_slot (e : Env) (cur : Int) (x : Rat) (h0 : 0 ≤ x) (h1 : x ≤ (e.G : Rat)) :
    e.time cur ≤ e.time cur + roundHalfEven x ∧ e.time cur + roundHalfEven x ≤ e.time (cur + 1) ∧
    e.time cur ≤ e.time cur + e.G - roundHalfEven x ∧ e.time cur + e.G - roundHalfEven x ≤ e.time (cur + 1) := by
  have a := roundHalfEven_nonneg x h0
  have b := roundHalfEven_mono_int x e.G h1
  have : e.time (cur + 1) = e.time cur + e.G := by unfold Env.time; rw [Int.add_mul]; omega
  omega

/-- a milestone without a pinned date is placed at `time(cur) + offset` = its dependency bound,
    with start = end -/
theorem milestone_at_bound (e : Env) (σ : St) (t : Nat) (w : Walk)
    (hms : ((e.taskD t).milestone || (e.taskD t).effort == 0) = true)
    (hf : (σ.tst t).forward = true) (hns : ((σ.tst t).start.isSome && (e.taskD t).startProvided) = false) :
    let r := scheduleSlot e σ t w
    r.2.2 = false ∧
    (r.1.ts.size = σ.ts.size) := by
  unfold scheduleSlot
  simp only [hms, hf, hns, if_true, Bool.false_eq_true, if_false]
  exact ⟨trivial, by simp [St.setT]⟩

/-- the date a forward milestone receives -/
def milestoneDate (e : Env) (w : Walk) : Int := e.time w.cur + (if w.offset > 0 then w.offset.floor else 0)

/-- with the cursor and offset of a bound `x ≥ project start`, that date is `x` itself -/
theorem milestoneDate_is_bound (e : Env) (wf : WF e) (x : Int) (hx : e.start ≤ x) :
    milestoneDate e { cur := (cursorOf e x).1, offset := (cursorOf e x).2 } = x := by
  unfold milestoneDate cursorOf
  simp only []
  have hfl := (Board.mk e.start e.stop e.G).rawIdx_floor wf.G_pos (t := x) hx
  simp only [Board.time, Board.rawIdx] at hfl
  by_cases hgt : x > e.time (e.idx x)
  · simp only [hgt, if_true]
    have hpos : (0 : Rat) < ((x - e.time (e.idx x) : Int) : Rat) := by
      have : (0 : Int) < x - e.time (e.idx x) := by omega
      exact_mod_cast this
    simp only [hpos, if_true, Rat.floor_intCast]
    omega
  · simp only [hgt, if_false]
    have : ¬ ((0 : Rat) > 0) := by grind
    simp
    unfold Env.time Env.idx at *
    omega

/-! ### end to end (both modes, single selected resource) -/

/-- **C06 for whole projects**: after scheduling ANY well-formed project, for every effort task — forward (ASAP) or backward
    (ALAP) — with a single selected resource `r` that is reported as scheduled there are a first slot `fb` and a last slot
    `last`, both carrying a booking of the task, such that every booking of the task on `r` lies in `[fb, last]`, the
    reported start lies inside slot `fb` and the reported end inside slot `last` (in backward mode: exactly at its end) —
    the interval frames the booked work, slot-exactly. -/
theorem start_end_frame_bookings (e : Env) (wf : WF e) (t r : Nat) (hel : Elig e t r)
    (hs : ((runScenario e).tst t).scheduled = true) :
    ∃ fb last : Int, fb ≤ last ∧
      usageOf ((runScenario e).led.get r fb).usage t ≠ none ∧ usageOf ((runScenario e).led.get r last).usage t ≠ none ∧
      (∀ i, usageOf ((runScenario e).led.get r i).usage t ≠ none → fb ≤ i ∧ i ≤ last) ∧
      (∃ v, ((runScenario e).tst t).start = some v ∧ e.time fb ≤ v ∧ v ≤ e.time (fb + 1)) ∧
      (∃ v, ((runScenario e).tst t).stop = some v ∧ e.time last ≤ v ∧ v ≤ e.time (last + 1)) :=
  runScenario_framed_all e wf t r hel (runScenario_scheduled_done e t ⟨hel.leaf, hel.effort, hel.nomile⟩ hs)

/-- the same for the environment elaborated from a project description, under the decidable check -/
theorem start_end_frame_bookings_elab (p : RawProj) (h : wfCheck (elaborate p).env = true) (t r : Nat)
    (hel : Elig (elaborate p).env t r)
    (hs : ((runScenario (elaborate p).env).tst t).scheduled = true) :
    Framed (elaborate p).env (runScenario (elaborate p).env) t r :=
  start_end_frame_bookings _ (wfCheck_sound _ h) t r hel hs

/-- one task, backward mode: `schedule()` from any state leaves the task framed -/
theorem task_framed_backward (e : Env) (wf : WF e) (σ : St) (t r : Nat)
    (hinv : Inv e σ) (hel : Elig e t r) (hb : t < σ.ts.size) (hf : (σ.tst t).forward = false)
    (hnd : (σ.tst t).done = false) (hclean : ∀ i, usageOf (σ.led.get r i).usage t = none)
    (hok : (scheduleTask e σ t).2 = true) : Framed e (scheduleTask e σ t).1 t r :=
  scheduleTask_framed_back e wf σ t r hinv hel hb hf hnd hclean hok

/-! ### teams (both modes) -/

/-- **C06 for teams**: after scheduling ANY well-formed project, every team task — forward (ASAP) or backward (ALAP); its
    allocation always selects the same several members `sel`, pairwise different, of one common efficiency `η` — that is
    reported as scheduled is framed on EVERY member `r`: there are a first slot `fb` and a last slot `last`, both carrying a
    booking of the task on `r`, every booking of the task on `r` lies in `[fb, last]`, the reported start lies inside slot
    `fb` and the reported end inside slot `last` (in backward mode: exactly at its end). -/
theorem team_framed (e : Env) (wf : WF e) (t : Nat) (sel : List Nat) (η : Rat) (hel : TeamElig e t sel η)
    (r : Nat) (hr : r ∈ sel) (hs : ((runScenario e).tst t).scheduled = true) :
    ∃ fb last : Int, fb ≤ last ∧
      usageOf ((runScenario e).led.get r fb).usage t ≠ none ∧ usageOf ((runScenario e).led.get r last).usage t ≠ none ∧
      (∀ i, usageOf ((runScenario e).led.get r i).usage t ≠ none → fb ≤ i ∧ i ≤ last) ∧
      (∃ v, ((runScenario e).tst t).start = some v ∧ e.time fb ≤ v ∧ v ≤ e.time (fb + 1)) ∧
      (∃ v, ((runScenario e).tst t).stop = some v ∧ e.time last ≤ v ∧ v ≤ e.time (last + 1)) :=
  runScenario_framedT_all e wf t sel η r hel hr
    (runScenario_scheduled_done e t ⟨hel.leaf, hel.effort, hel.nomile⟩ hs)

/-- the hypothesis `TeamElig` is met by the plain syntactic case (several different allocated resources of one positive
    efficiency, no alternatives): `C03.teamElig_of_alloc`; here for the environment elaborated from a project description -/
theorem team_framed_elab (p : RawProj) (h : wfCheck (elaborate p).env = true) (t : Nat) (sel : List Nat) (η : Rat)
    (hel : TeamElig (elaborate p).env t sel η) (r : Nat) (hr : r ∈ sel)
    (hs : ((runScenario (elaborate p).env).tst t).scheduled = true) :
    Framed (elaborate p).env (runScenario (elaborate p).env) t r :=
  team_framed _ (wfCheck_sound _ h) t sel η hel r hr hs

/-! ### tasks with an alternative (both modes) -/

/-- **C06 with an alternative** (`Proofs/FrameAlt`): after scheduling ANY well-formed project, every effort task with one
    primary and one alternative resource that is reported as scheduled is framed on ONE of the two — the one
    `_selectBestResources` chose at its first slot (by `C03.bookings_on_one_candidate_set` it holds nothing on the other):
    first and last booked slot, every booking between them, the reported start inside the first, the reported end inside
    the last. -/
theorem framed_with_alternative (e : Env) (wf : WF e) (t r1 r2 : Nat) (hel : EligAlt e t r1 r2)
    (hs : ((runScenario e).tst t).scheduled = true) :
    ∃ r, (r = r1 ∨ r = r2) ∧ ∃ fb last : Int, fb ≤ last ∧
      usageOf ((runScenario e).led.get r fb).usage t ≠ none ∧ usageOf ((runScenario e).led.get r last).usage t ≠ none ∧
      (∀ i, usageOf ((runScenario e).led.get r i).usage t ≠ none → fb ≤ i ∧ i ≤ last) ∧
      (∃ v, ((runScenario e).tst t).start = some v ∧ e.time fb ≤ v ∧ v ≤ e.time (fb + 1)) ∧
      (∃ v, ((runScenario e).tst t).stop = some v ∧ e.time last ≤ v ∧ v ≤ e.time (last + 1)) :=
  runScenario_framed_alt e wf t r1 r2 hel (runScenario_scheduled_done e t ⟨hel.leaf, hel.effort, hel.nomile⟩ hs)

/-! ### start ≤ end -/

/-- **start ≤ end always** (`Proofs/Ordered`; the single-slot case rests on `bookResource_usedBefore`: the first booking in
    the slot of the dependency bound leaves the part of the slot before the bound alone, so the end, counted from what was
    used before the task's own seconds, cannot come before the start): after scheduling ANY well-formed project, every effort
    task with a single selected resource that is reported as scheduled — forward or backward, spanning many slots or beginning
    and finishing inside one — has a reported start and a reported end with start ≤ end. -/
theorem start_le_end (e : Env) (wf : WF e) (t r : Nat) (hel : Elig e t r)
    (hs : ((runScenario e).tst t).scheduled = true) :
    ∃ s v, ((runScenario e).tst t).start = some s ∧ ((runScenario e).tst t).stop = some v ∧ s ≤ v :=
  (runScenario_ordered e wf).1 t r hel (runScenario_scheduled_done e t ⟨hel.leaf, hel.effort, hel.nomile⟩ hs)

/-- the same for a task with one primary and one alternative resource -/
theorem start_le_end_with_alternative (e : Env) (wf : WF e) (t r1 r2 : Nat) (hel : EligAlt e t r1 r2)
    (hs : ((runScenario e).tst t).scheduled = true) :
    ∃ s v, ((runScenario e).tst t).start = some s ∧ ((runScenario e).tst t).stop = some v ∧ s ≤ v :=
  (runScenario_ordered e wf).2 t r1 r2 hel (runScenario_scheduled_done e t ⟨hel.leaf, hel.effort, hel.nomile⟩ hs)

/-- the same for a team whose members share one efficiency (`Proofs/TeamOrdered`: `bookResources_team_usedBefore` — after
    levelling and the offset reservation every member's slot holds at least the start offset before the team's own seconds) -/
theorem start_le_end_team (e : Env) (wf : WF e) (t : Nat) (sel : List Nat) (η : Rat) (hel : TeamElig e t sel η)
    (hs : ((runScenario e).tst t).scheduled = true) :
    ∃ s v, ((runScenario e).tst t).start = some s ∧ ((runScenario e).tst t).stop = some v ∧ s ≤ v :=
  runScenario_orderedT e wf t sel η hel (runScenario_scheduled_done e t ⟨hel.leaf, hel.effort, hel.nomile⟩ hs)

end SP.C06
