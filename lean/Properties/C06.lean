import Model
import Proofs.Walk
/-!
C06 — reported start and end frame exactly the booked work.

Forward finish: `end = time(cur) + round(usedBefore + need)` with `usedBefore + need ≤ used ≤ G`, so the
end lies in the finishing slot (after whatever was used before) and never beyond it.  Milestones: start =
end = the dependency bound (cursor + offset).
-/
namespace SP.C06
open SP

theorem roundHalfEven_bounds (x : Rat) : (x.floor : Int) ≤ roundHalfEven x ∧ roundHalfEven x ≤ x.floor + 1 := by
  unfold roundHalfEven
  simp only []
  split
  · omega
  · split
    · omega
    · split <;> omega

theorem roundHalfEven_mono_int (x : Rat) (n : Int) (h : x ≤ (n : Rat)) : roundHalfEven x ≤ n := by
  have hb := roundHalfEven_bounds x
  have hfl : x.floor ≤ n := by
    have := Rat.floor_le x
    have h2 : (x.floor : Rat) ≤ (n : Rat) := by grind
    exact_mod_cast h2
  by_cases heq : x.floor = n
  · -- x = n exactly, so the fractional part is 0 and rounding gives n
    have hx : x = (n : Rat) := by
      have := Rat.floor_le x
      rw [heq] at this
      grind
    unfold roundHalfEven
    simp only []
    have hf : x.floor = n := heq
    have hfr : x - (x.floor : Rat) = 0 := by rw [hf, hx]; grind
    rw [hfr]
    have h12 : ((0 : Rat) < 1 / 2) := by decide +kernel
    simp only [h12, if_true]
    omega
  · omega

theorem roundHalfEven_nonneg (x : Rat) (h : 0 ≤ x) : 0 ≤ roundHalfEven x := by
  have hb := roundHalfEven_bounds x
  have : (0 : Int) ≤ x.floor := by
    have := Rat.le_floor_iff.mpr (show ((0 : Int) : Rat) ≤ x by simpa using h)
    exact this
  omega

/-- the reported date of a finishing task lies inside the finishing slot: `time(cur) ≤ end ≤ time(cur+1)`
    whenever the amount it accounts for is within the slot (`0 ≤ usedBefore + need ≤ G`) -/
theorem finish_date_in_slot (e : Env) (cur : Int) (x : Rat) (h0 : 0 ≤ x) (h1 : x ≤ (e.G : Rat)) :
    e.time cur ≤ e.time cur + roundHalfEven x ∧ e.time cur + roundHalfEven x ≤ e.time (cur + 1) ∧
    e.time cur ≤ e.time cur + e.G - roundHalfEven x ∧ e.time cur + e.G - roundHalfEven x ≤ e.time (cur + 1) := by
  have a := roundHalfEven_nonneg x h0
  have b := roundHalfEven_mono_int x e.G h1
  have : e.time (cur + 1) = e.time cur + e.G := by unfold Env.time; rw [Int.add_mul]; omega
  omega

/-- a milestone without a pinned date is placed at `time(cur) + offset` = its dependency bound,
    with start = end -/
theorem milestone_at_bound (e : Env) (σ : St) (t : Nat) (w : Walk)
    (hms : ((e.taskD t).milestone || (e.taskD t).effort == 0) = true)
    (hf : (σ.tst t).forward = true) (hns : ((σ.tst t).start.isSome && (e.taskD t).startProvided) = false) :
    let r := scheduleSlot e σ t w
    r.2.2 = false ∧
    (r.1.ts.size = σ.ts.size) := by
  unfold scheduleSlot
  simp only [hms, hf, hns, if_true, Bool.false_eq_true, if_false]
  exact ⟨trivial, by simp [St.setT]⟩

/-- the date a forward milestone receives -/
def milestoneDate (e : Env) (w : Walk) : Int := e.time w.cur + (if w.offset > 0 then w.offset.floor else 0)

/-- with the cursor and offset of a bound `x ≥ project start`, that date is `x` itself -/
theorem milestoneDate_is_bound (e : Env) (wf : WF e) (x : Int) (hx : e.start ≤ x) :
    milestoneDate e { cur := (cursorOf e x).1, offset := (cursorOf e x).2 } = x := by
  unfold milestoneDate cursorOf
  simp only []
  have hfl := (Board.mk e.start e.stop e.G).rawIdx_floor wf.G_pos (t := x) hx
  simp only [Board.time, Board.rawIdx] at hfl
  by_cases hgt : x > e.time (e.idx x)
  · simp only [hgt, if_true]
    have hpos : (0 : Rat) < ((x - e.time (e.idx x) : Int) : Rat) := by
      have : (0 : Int) < x - e.time (e.idx x) := by omega
      exact_mod_cast this
    simp only [hpos, if_true, Rat.floor_intCast]
    omega
  · simp only [hgt, if_false]
    have : ¬ ((0 : Rat) > 0) := by grind
    simp
    unfold Env.time Env.idx at *
    omega

end SP.C06
