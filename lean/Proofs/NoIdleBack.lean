import Proofs.VisitsBack
import Proofs.BackGlobal
import Proofs.NoIdleGlobal
/-!
C08 for whole scenarios, backward (ALAP) mode: in the final ledger, between any slot a backward effort task is booked in and the
last slot before its deadline — its explicit / inherited end, else the earliest `start − gap` of its successors and the project
end, read off the final schedule — no working slot of its resource is without an entry, unless a limit refuses it.
-/
namespace SP

/-- a backward effort task with the single selected leaf resource `r` (one of its allocated or alternative resources) -/
structure EligB (e : Env) (t r : Nat) : Prop where
  el : Elig e t r
  rleaf : (e.resD r).leaf = true
  mem : r ∈ (e.taskD t).alloc ++ (e.taskD t).alt

/-- the deadline: the end the task carried when the loop started (own or inherited), else the one computed from the successors -/
def deadlineG (e : Env) (σ0 σ : St) (t : Nat) : Int :=
  match (σ0.tst t).stop with
  | some x => x
  | none => latestEnd e σ t

def NoIdleBackAt (e : Env) (σ0 σ : St) (t r : Nat) : Prop :=
  ∀ L, usageOf (σ.led.get r L).usage t ≠ none →
    ∀ i, L ≤ i → i ≤ e.idx (deadlineG e σ0 σ t) - 1 → e.onShift r i = true → e.leaveMark r i = false →
      Has r i σ ∨ Exhausted e σ t r i

/-- the dates `latestEnd` reads are settled: the on-start predecessors and the successors are scheduled -/
def Settled (e : Env) (σ : St) (t : Nat) : Prop :=
  (∀ dp ∈ (e.taskD t).allDeps, dp.onstart = true → (σ.tst dp.target).scheduled = true) ∧
  (∀ s ∈ successors e t, (σ.tst s).scheduled = true)

def DoneIdleB (e : Env) (σ0 σ : St) : Prop :=
  ∀ t r, EligB e t r → (σ.tst t).done = true → (σ.tst t).forward = false →
    ((σ0.tst t).stop = none → Settled e σ t) ∧
    (∃ v, (σ.tst t).stop = some v ∧ v ≤ deadlineG e σ0 σ t) ∧ NoIdleBackAt e σ0 σ t r

structure BIdleInv (e : Env) (σ0 σ : St) (tasks : List Nat) : Prop where
  inv : Inv e σ
  solid : Solid e σ
  nodup : tasks.Nodup
  leaf : ∀ t ∈ tasks, (e.taskD t).leaf = true
  inrange : ∀ t ∈ tasks, t < σ.ts.size
  pending : ∀ t ∈ tasks, σ.tst t = σ0.tst t ∧ (σ.tst t).scheduled = false ∧ (σ.tst t).done = false ∧
    (∀ r i, usageOf (σ.led.get r i).usage t = none)
  ok : DoneIdleB e σ0 σ

theorem foldl_congr_mem' {α β : Type} (f g : β → α → β) (l : List α) (i1 i2 : β)
    (h : ∀ acc, ∀ x ∈ l, f acc x = g acc x) (hi : i1 = i2) : l.foldl f i1 = l.foldl g i2 := by
  subst hi
  induction l generalizing i1 with
  | nil => rfl
  | cons x xs ih =>
    simp only [List.foldl_cons]
    rw [h i1 x List.mem_cons_self]
    exact ih _ (fun acc y hy => h acc y (List.mem_cons_of_mem _ hy))

theorem latestEnd_congr (e : Env) (σ σ' : St) (t : Nat)
    (h1 : ∀ dp ∈ (e.taskD t).allDeps, dp.onstart = true → (σ'.tst dp.target).start = (σ.tst dp.target).start)
    (h2 : ∀ s ∈ successors e t, (σ'.tst s).start = (σ.tst s).start) : latestEnd e σ' t = latestEnd e σ t := by
  unfold latestEnd
  simp only []
  apply foldl_congr_mem'
  · intro acc s hs
    rw [h2 s hs]
  · apply foldl_congr_mem'
    · intro acc dp hdp
      by_cases ho : dp.onstart = true
      · simp only [ho, if_true]; rw [h1 dp hdp ho]
      · simp only [ho, Bool.false_eq_true, if_false]
    · rfl

theorem deadlineG_congr (e : Env) (σ0 σ σ' : St) (t : Nat)
    (h : (σ0.tst t).stop = none →
      (∀ dp ∈ (e.taskD t).allDeps, dp.onstart = true → (σ'.tst dp.target).start = (σ.tst dp.target).start) ∧
      (∀ s ∈ successors e t, (σ'.tst s).start = (σ.tst s).start)) : deadlineG e σ0 σ' t = deadlineG e σ0 σ t := by
  unfold deadlineG
  cases hs : (σ0.tst t).stop with
  | some x => rfl
  | none => simp only []; exact latestEnd_congr e σ σ' t (h hs).1 (h hs).2

theorem alapReady_settled (e : Env) (σ : St) (t : Nat) (hf : (σ.tst t).forward = false)
    (hns : (σ.tst t).stop = none) (hr : ready e σ t = true) : Settled e σ t := by
  refine ⟨?_, alapReady_successors e σ t hf hns hr⟩
  unfold ready at hr
  simp only [hf, Bool.false_eq_true, if_false] at hr
  unfold alapReady at hr
  simp only [hns, Option.isSome_none, Bool.false_eq_true, if_false] at hr
  intro dp hdp ho
  by_cases hany : (e.taskD t).allDeps.any (fun dp => dp.onstart && !(σ.tst dp.target).scheduled) = true
  · simp only [hany, if_true] at hr; exact Bool.noConfusion hr
  · simp only [List.any_eq_true, not_exists, not_and] at hany
    have := hany dp hdp
    simp only [ho, Bool.true_and, Bool.not_eq_true', Bool.not_eq_false] at this
    exact this

theorem bIdleInv_step (e : Env) (wf : WF e) (σ0 σ : St) (tasks : List Nat) (t0 : Nat) (h : BIdleInv e σ0 σ tasks)
    (hmem : t0 ∈ tasks) (hready : ready e σ t0 = true) :
    BIdleInv e σ0 (updateContainers e (scheduleTask e σ t0).1) (tasks.erase t0) := by
  have hlf0 := h.leaf t0 hmem
  obtain ⟨heq0, hus0, hnd0, hclean0⟩ := h.pending t0 hmem
  have hinv1 := scheduleTask_inv e σ t0 wf h.inv hlf0
  have hsame : ∀ x, x ≠ t0 → ((e.taskD x).leaf = true ∨ (σ.tst x).scheduled = true) →
      (updateContainers e (scheduleTask e σ t0).1).tst x = σ.tst x := by
    intro x hne hx
    rw [updateContainers_fixed e _ x (by rw [scheduleTask_other e σ t0 x hne]; exact hx), scheduleTask_other e σ t0 x hne]
  -- settled dates stay as they are
  have hsettled : ∀ t, Settled e σ t → Settled e (updateContainers e (scheduleTask e σ t0).1) t ∧
      (∀ dp ∈ (e.taskD t).allDeps, dp.onstart = true →
        ((updateContainers e (scheduleTask e σ t0).1).tst dp.target).start = (σ.tst dp.target).start) ∧
      (∀ s ∈ successors e t, ((updateContainers e (scheduleTask e σ t0).1).tst s).start = (σ.tst s).start) := by
    intro t hst
    have hd : ∀ dp ∈ (e.taskD t).allDeps, dp.onstart = true →
        (updateContainers e (scheduleTask e σ t0).1).tst dp.target = σ.tst dp.target := by
      intro dp hdp ho
      have hxs := hst.1 dp hdp ho
      exact hsame dp.target (fun hx => by rw [hx, hus0] at hxs; exact Bool.noConfusion hxs) (Or.inr hxs)
    have hsu : ∀ s ∈ successors e t, (updateContainers e (scheduleTask e σ t0).1).tst s = σ.tst s := by
      intro s hs
      have hxs := hst.2 s hs
      exact hsame s (fun hx => by rw [hx, hus0] at hxs; exact Bool.noConfusion hxs) (Or.inr hxs)
    exact ⟨⟨fun dp hdp ho => by rw [hd dp hdp ho]; exact hst.1 dp hdp ho, fun s hs => by rw [hsu s hs]; exact hst.2 s hs⟩,
      fun dp hdp ho => by rw [hd dp hdp ho], fun s hs => by rw [hsu s hs]⟩
  refine ⟨updateContainers_inv e _ hinv1,
    closed_updateContainers (solid_closed e wf) _ (closed_scheduleTask (solid_closed e wf) wf σ t0 h.inv hlf0 trivial h.solid),
    h.nodup.erase t0, fun t ht => h.leaf t (List.mem_of_mem_erase ht), ?_, ?_, ?_⟩
  · intro t ht
    rw [updateContainers_size, scheduleTask_size]; exact h.inrange t (List.mem_of_mem_erase ht)
  · intro t ht
    have htm : t ∈ tasks := List.mem_of_mem_erase ht
    have hne : t ≠ t0 := fun heq => by
      rw [heq] at ht; exact (List.Nodup.not_mem_erase h.nodup) ht
    obtain ⟨h1, h2, h3, h4⟩ := h.pending t htm
    rw [hsame t hne (Or.inl (h.leaf t htm))]
    refine ⟨h1, h2, h3, fun r i => ?_⟩
    rw [updateContainers_led, scheduleTask_same e σ t0 t (Ne.symm hne) r i]
    exact h4 r i
  · intro t r hel hd hfw
    by_cases heq : t = t0
    · subst heq
      rw [updateContainers_leaf e _ t hel.el.leaf] at hd hfw
      rw [scheduleTask_self_forward] at hfw
      have hok := scheduleTask_done e σ t hnd0 hd
      have hst : (σ0.tst t).stop = none → Settled e σ t := fun hns =>
        alapReady_settled e σ t hfw (by rw [heq0]; exact hns) hready
      have hdl : deadlineG e σ0 σ t = deadlineOf e σ t := by
        unfold deadlineG deadlineOf; rw [heq0]; cases (σ0.tst t).stop <;> rfl
      have hdc := deadlineG_congr e σ0 σ (updateContainers e (scheduleTask e σ t).1) t (fun hns => (hsettled t (hst hns)).2)
      refine ⟨fun hns => (hsettled t (hst hns)).1, ?_, ?_⟩
      · obtain ⟨v, hv, hle⟩ := scheduleTask_stop_le e wf σ t (h.inrange t hmem) hfw hel.el.effort hnd0 hok
        refine ⟨v, by rw [updateContainers_leaf e _ t hel.el.leaf]; exact hv, ?_⟩
        rw [hdc, hdl]; exact hle
      intro L hL i hLi hid hon hnl
      rw [hdc] at hid
      rw [hdl] at hid
      rw [updateContainers_led] at hL
      by_cases hic : i ≤ (initCursor e σ t).1
      · have := scheduleTaskB_no_idle_interval e wf σ t r h.inv h.solid hel.el hfw hnd0 (hclean0 r) hel.rleaf hok L hL i hLi hic hon hnl
        rcases this with h1 | h1
        · left; unfold Has at h1 ⊢; rw [updateContainers_led]; exact h1
        · right
          exact exhausted_closed_step (fun lid ro hr => closed_updateContainers (refuses_closed e lid i ro) _ hr) h1
      · exfalso
        have := initCursor_back_gap e σ t r hfw hel.el.effort hel.el.alloc hel.mem i (by omega) hid
        rw [this] at hon; exact Bool.noConfusion hon
    · have htsame := hsame t heq (Or.inl hel.el.leaf)
      rw [htsame] at hd hfw
      obtain ⟨hst, hend, hidle⟩ := h.ok t r hel hd hfw
      refine ⟨fun hns => (hsettled t (hst hns)).1, ?_, ?_⟩
      · obtain ⟨v, hv, hle⟩ := hend
        refine ⟨v, by rw [htsame]; exact hv, ?_⟩
        rw [deadlineG_congr e σ0 σ _ t (fun hns => (hsettled t (hst hns)).2)]; exact hle
      intro L hL i hLi hid hon hnl
      rw [deadlineG_congr e σ0 σ _ t (fun hns => (hsettled t (hst hns)).2)] at hid
      rw [updateContainers_led, scheduleTask_same e σ t0 t (Ne.symm heq) r L] at hL
      rcases hidle L hL i hLi hid hon hnl with h1 | h1
      · left
        have h2 := closed_scheduleTask (has_closed e r i) wf σ t0 h.inv hlf0 trivial h1
        unfold Has at h2 ⊢
        rw [updateContainers_led]; exact h2
      · right
        exact exhausted_closed_step (fun lid ro hr =>
          closed_updateContainers (refuses_closed e lid i ro) _
            (closed_scheduleTask (refuses_closed e lid i ro) wf σ t0 h.inv hlf0 trivial hr)) h1

theorem DoneIdleB.of_eq {e : Env} {σ0 σ σ' : St} (hl : σ'.led = σ.led) (ht : σ'.ts = σ.ts) (hc : σ'.cnt = σ.cnt)
    (h : DoneIdleB e σ0 σ) : DoneIdleB e σ0 σ' := by
  unfold DoneIdleB NoIdleBackAt Settled deadlineG latestEnd Has Exhausted Refuses limitOk St.tst at *
  rw [hl, ht, hc]; exact h

theorem pickLoop_doneIdleB (e : Env) (wf : WF e) (σ0 : St) (fuel : Nat) (tasks failed : List Nat) (σ : St)
    (h : BIdleInv e σ0 σ tasks) : DoneIdleB e σ0 (pickLoop e fuel tasks failed σ).1 := by
  induction fuel generalizing tasks failed σ with
  | zero => exact h.ok
  | succ f ih =>
    unfold pickLoop
    split
    · exact h.ok
    · split
      · rename_i t0 hfind
        have hmem : t0 ∈ tasks := List.mem_of_find?_eq_some hfind
        have hready : ready e σ t0 = true := by
          have := List.find?_some hfind; simpa using this
        exact ih _ _ _ (bIdleInv_step e wf σ0 σ tasks t0 h hmem hready)
      · split
        · exact DoneIdleB.of_eq (σ := σ) rfl rfl rfl h.ok
        · exact h.ok

/-- **C08, backward mode, end to end.**  After scheduling any well-formed project: for every completed backward (ALAP) effort
    task `t` with the single selected leaf resource `r`, between any slot `L` in which `t` is booked and the last slot before its
    deadline — the end it carried when the loop started (its own, or inherited from a container), else the earliest
    `start − gap` of its successors and the project end, read off the FINAL schedule — every slot in which `r` is on shift and
    not on leave carries an entry in the final ledger, unless a limit refuses it: no working, unbooked slot within the limits is
    left between the end of the task and its deadline. -/
theorem runScenario_doneIdleB (e : Env) (wf : WF e) (tr : Tree e) : DoneIdleB e (loopStart e) (runScenario e) := by
  have hdf : DoneFalse (prepare e (initState e)) := prepare_doneFalse e _ (doneFalse_init e)
  have hprep : Inv e (prepare e (initState e)) := prepare_inv e _ (inv_init e wf)
  have hsol : Solid e (prepare e (initState e)) := closed_prepare (solid_closed e wf) _ (solid_init e wf)
  have hempty : ∀ r i, ((prepare e (initState e)).led.get r i).usage = [] := by
    intro r i; rw [prepare_led]; simp [initState, Ledger.get_empty]
  have h2 : BIdleInv e (loopStart e) (loopStart e) (todoOf e (loopStart e)) := by
    refine ⟨preLoop_inv e _ hprep, closed_preLoop (solid_closed e wf) _ hsol, todoOf_nodup e _, todoOf_leaf e _, ?_, ?_, ?_⟩
    · intro x hx; unfold loopStart; rw [preLoop_size, prepare_size, initState_size]; exact (todoOf_mem e _ x hx).1
    · intro x hx
      refine ⟨rfl, (todoOf_mem e _ x hx).2, by unfold loopStart; exact preLoop_doneFalse e _ hdf x, fun r i => ?_⟩
      unfold loopStart
      rw [preLoop_led, hempty r i]; rfl
    · intro x r _ hdone
      have : ((loopStart e).tst x).done = false := by unfold loopStart; exact preLoop_doneFalse e _ hdf x
      rw [this] at hdone; exact Bool.noConfusion hdone
  have h3 := pickLoop_doneIdleB e wf (loopStart e) ((todoOf e (loopStart e)).length + 1) (todoOf e (loopStart e)) [] (loopStart e) h2
  have h4 : DoneIdleB e (loopStart e) (scheduleScenario e (prepare e (initState e))) := by
    unfold scheduleScenario
    simp only []
    split
    · exact h3
    · exact DoneIdleB.of_eq (σ := (pickLoop e ((todoOf e (loopStart e)).length + 1) (todoOf e (loopStart e)) [] (loopStart e)).1)
        rfl rfl rfl h3
  unfold runScenario
  intro t r hel hd hfw
  rw [finishScenario_leafT e _ t hel.el.leaf] at hd hfw
  obtain ⟨hst, hend, hidle⟩ := h4 t r hel hd hfw
  have hc := scheduleScenario_cont e tr
  have hsd := finishScenario_sameDates e _ hc.1 hc.2
  refine ⟨fun hns => ?_, ?_, ?_⟩
  · have := hst hns
    exact ⟨fun dp hdp ho => by rw [(hsd dp.target).2.2]; exact this.1 dp hdp ho,
      fun s hs => by rw [(hsd s).2.2]; exact this.2 s hs⟩
  · obtain ⟨v, hv, hle⟩ := hend
    refine ⟨v, by rw [finishScenario_leafT e _ t hel.el.leaf]; exact hv, ?_⟩
    rw [deadlineG_congr e (loopStart e) (scheduleScenario e (prepare e (initState e))) _ t
      (fun _ => ⟨fun dp _ _ => (hsd dp.target).1, fun s _ => (hsd s).1⟩)]
    exact hle
  · intro L hL i hLi hid hon hnl
    rw [deadlineG_congr e (loopStart e) (scheduleScenario e (prepare e (initState e))) _ t
      (fun _ => ⟨fun dp _ _ => (hsd dp.target).1, fun s _ => (hsd s).1⟩)] at hid
    rw [finishScenario_led] at hL
    rcases hidle L hL i hLi hid hon hnl with h1 | h1
    · left; unfold Has at h1 ⊢; rw [finishScenario_led]; exact h1
    · right
      exact exhausted_closed_step (fun lid ro hr => closed_finishScenario (refuses_closed e lid i ro) _ hr) h1

end SP
