import Proofs.EffortGlobal
import Proofs.OneSet
/-!
C03, the effort clause, for tasks with an alternative: whichever single resource `_selectBestResources` chose at the first
slot, the task holds on it exactly its effort.
-/
namespace SP

/-- an effort task (no milestone) with one primary and one alternative resource -/
structure EligAlt (e : Env) (t r1 r2 : Nat) : Prop where
  leaf : (e.taskD t).leaf = true
  alloc : (e.taskD t).hasAlloc = true
  nomile : (e.taskD t).milestone = false
  effort : 0 < (e.taskD t).effort
  prim : (e.taskD t).alloc = [r1]
  alt : (e.taskD t).alt = [r2]

theorem selectBest_alt (e : Env) (σ : St) (r1 r2 : Nat) (effort : Rat) (c : Int) :
    selectBest e σ [r1] [r2] effort c = [r1] ∨ selectBest e σ [r1] [r2] effort c = [r2] := by
  rcases selectBest_cases e σ [r1] [r2] effort c with h | h | h
  · exfalso
    unfold selectBest at h
    simp at h
    split at h <;> (try split at h) <;> simp at h
  · exact Or.inl h
  · exact Or.inr h

/-- what holds of every such task that is `done`: on one of its two candidates it holds exactly its effort -/
def DoneExactAlt (e : Env) (σ : St) : Prop :=
  ∀ t r1 r2, EligAlt e t r1 r2 → (σ.tst t).done = true → ∃ r vis, (r = r1 ∨ r = r2) ∧ Exact e σ t r vis

structure AltInv (e : Env) (σ : St) (tasks : List Nat) : Prop where
  inv : Inv e σ
  nodup : tasks.Nodup
  leaf : ∀ t ∈ tasks, (e.taskD t).leaf = true
  pending : ∀ t ∈ tasks, (σ.tst t).done = false ∧ ∀ r i, usageOf (σ.led.get r i).usage t = none
  exact : DoneExactAlt e σ

theorem altInv_step (e : Env) (wf : WF e) (σ : St) (tasks : List Nat) (t0 : Nat) (h : AltInv e σ tasks)
    (hmem : t0 ∈ tasks) : AltInv e (updateContainers e (scheduleTask e σ t0).1) (tasks.erase t0) := by
  have hlf0 := h.leaf t0 hmem
  have hinv1 := scheduleTask_inv e σ t0 wf h.inv hlf0
  refine ⟨updateContainers_inv e _ hinv1, h.nodup.erase t0, fun t ht => h.leaf t (List.mem_of_mem_erase ht), ?_, ?_⟩
  · intro t ht
    have htm : t ∈ tasks := List.mem_of_mem_erase ht
    have hne : t ≠ t0 := fun heq => by
      rw [heq] at ht; exact (List.Nodup.not_mem_erase h.nodup) ht
    obtain ⟨hd, hc⟩ := h.pending t htm
    refine ⟨?_, ?_⟩
    · rw [updateContainers_leaf e _ t (h.leaf t htm), scheduleTask_other e σ t0 t hne]; exact hd
    · intro r i
      rw [updateContainers_led, scheduleTask_same e σ t0 t (Ne.symm hne) r i]
      exact hc r i
  · intro t r1 r2 hel hd
    rw [updateContainers_leaf e _ t hel.leaf] at hd
    by_cases heq : t = t0
    · subst heq
      obtain ⟨hnd, hclean⟩ := h.pending t hmem
      have hok := scheduleTask_done e σ t hnd hd
      have hs := selectBest_alt e (σ.setT t (preStartT e σ t (initCursor e σ t).1)) r1 r2 (e.taskD t).effort
        (preStartCursor e σ t (initCursor e σ t).1)
      rcases hs with hs | hs
      · obtain ⟨vis, hv⟩ := scheduleTask_exact_sel e wf σ t r1 h.inv hel.leaf hel.alloc hel.nomile hel.effort
          (by rw [hel.prim, hel.alt]; exact hs) hnd (hclean r1) hok
        exact ⟨r1, vis, Or.inl rfl, Exact.of_led (updateContainers_led e _) hv⟩
      · obtain ⟨vis, hv⟩ := scheduleTask_exact_sel e wf σ t r2 h.inv hel.leaf hel.alloc hel.nomile hel.effort
          (by rw [hel.prim, hel.alt]; exact hs) hnd (hclean r2) hok
        exact ⟨r2, vis, Or.inr rfl, Exact.of_led (updateContainers_led e _) hv⟩
    · rw [scheduleTask_other e σ t0 t heq] at hd
      obtain ⟨r, vis, hr, hv⟩ := h.exact t r1 r2 hel hd
      exact ⟨r, vis, hr, Exact.of_led (updateContainers_led e _) (Exact.of_same (scheduleTask_same e σ t0 t (Ne.symm heq)) hv)⟩

theorem DoneExactAlt.of_eq {e : Env} {σ σ' : St} (hl : σ'.led = σ.led) (ht : ∀ t, (σ'.tst t).done = (σ.tst t).done)
    (h : DoneExactAlt e σ) : DoneExactAlt e σ' := by
  intro t r1 r2 hel hd
  rw [ht] at hd
  obtain ⟨r, vis, hr, hv⟩ := h t r1 r2 hel hd
  exact ⟨r, vis, hr, Exact.of_led hl hv⟩

theorem pickLoop_doneExactAlt (e : Env) (wf : WF e) (fuel : Nat) (tasks failed : List Nat) (σ : St)
    (h : AltInv e σ tasks) : DoneExactAlt e (pickLoop e fuel tasks failed σ).1 := by
  induction fuel generalizing tasks failed σ with
  | zero => exact h.exact
  | succ f ih =>
    unfold pickLoop
    split
    · exact h.exact
    · split
      · rename_i t0 hfind
        exact ih _ _ _ (altInv_step e wf σ tasks t0 h (List.mem_of_find?_eq_some hfind))
      · split
        · exact DoneExactAlt.of_eq (σ := σ) rfl (fun _ => rfl) h.exact
        · exact h.exact

/-- **C03, effort, with an alternative, end to end.**  After scheduling any well-formed project, every completed effort task
    with one primary and one alternative resource holds, on ONE of the two, entries in distinct slots (and nowhere else on it)
    whose seconds weighted by that resource's efficiency add up to exactly the requested effort. -/
theorem runScenario_effort_exact_alt (e : Env) (wf : WF e) : DoneExactAlt e (runScenario e) := by
  unfold runScenario
  have hprep : Inv e (prepare e (initState e)) := prepare_inv e _ (inv_init e wf)
  have hd : DoneFalse (prepare e (initState e)) := prepare_doneFalse e _ (doneFalse_init e)
  have hempty : ∀ r i, ((preLoop e (prepare e (initState e))).led.get r i).usage = [] := by
    intro r i; rw [preLoop_led, prepare_led]; simp [initState, Ledger.get_empty]
  have h2 : AltInv e (preLoop e (prepare e (initState e))) (todoOf e (preLoop e (prepare e (initState e)))) := by
    refine ⟨preLoop_inv e _ hprep, todoOf_nodup e _, todoOf_leaf e _, ?_, ?_⟩
    · intro t _
      exact ⟨preLoop_doneFalse e _ hd t, fun r i => by rw [hempty r i]; rfl⟩
    · intro t r1 r2 _ hdone
      rw [preLoop_doneFalse e _ hd t] at hdone
      exact Bool.noConfusion hdone
  have h3 := pickLoop_doneExactAlt e wf ((todoOf e (preLoop e (prepare e (initState e)))).length + 1)
    (todoOf e (preLoop e (prepare e (initState e)))) [] _ h2
  have h4 : DoneExactAlt e (scheduleScenario e (prepare e (initState e))) := by
    unfold scheduleScenario
    simp only []
    split
    · exact h3
    · exact DoneExactAlt.of_eq (σ := (pickLoop e _ _ [] _).1) rfl (fun _ => rfl) h3
  intro t r1 r2 hel hdone
  rw [finishScenario_leafT e _ t hel.leaf] at hdone
  obtain ⟨r, vis, hr, hv⟩ := h4 t r1 r2 hel hdone
  exact ⟨r, vis, hr, Exact.of_led (finishScenario_led e _) hv⟩

end SP
