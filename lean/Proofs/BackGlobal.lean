import Proofs.Deadline
import Proofs.EffortGlobal
/-!
C04 for whole scenarios, backward mode: every completed backward effort task whose deadline comes from its successors ends
at or before `start(s) − gap` of every successor `s`.
-/
namespace SP

/-- every completed backward effort task that had no end of its own when the loop started ends at or before the start of
    each of its successors minus the gap the successor asks for; and every successor is scheduled -/
def BackOK (e : Env) (σ0 σ : St) : Prop :=
  ∀ t, EffLeaf e t → (σ0.tst t).stop = none → (σ.tst t).done = true → (σ.tst t).forward = false →
    ∀ s ∈ successors e t,
      (σ.tst s).scheduled = true ∧
      ∀ ss v, (σ.tst s).start = some ss → (σ.tst t).stop = some v → v + succGap e t s ≤ ss

/-- loop invariant: `σ0` is the state at the start of the loop -/
structure BackInv (e : Env) (σ0 σ : St) (tasks : List Nat) : Prop where
  nodup : tasks.Nodup
  leaf : ∀ t ∈ tasks, (e.taskD t).leaf = true
  inrange : ∀ t ∈ tasks, t < σ.ts.size
  pending : ∀ t ∈ tasks, σ.tst t = σ0.tst t ∧ (σ.tst t).scheduled = false ∧ (σ.tst t).done = false
  ok : BackOK e σ0 σ

theorem successors_leaf (e : Env) (t s : Nat) (h : s ∈ successors e t) : (e.taskD s).leaf = true := by
  unfold successors at h
  simp only [List.mem_filter, Bool.and_eq_true] at h
  exact h.2.1.1

theorem alapReady_successors (e : Env) (σ : St) (t : Nat) (hf : (σ.tst t).forward = false)
    (hns : (σ.tst t).stop = none) (hr : ready e σ t = true) :
    ∀ s ∈ successors e t, (σ.tst s).scheduled = true := by
  unfold ready at hr
  simp only [hf, Bool.false_eq_true, if_false] at hr
  unfold alapReady at hr
  simp only [hns, Option.isSome_none, Bool.false_eq_true, if_false] at hr
  split at hr
  · exact Bool.noConfusion hr
  · simpa [List.all_eq_true] using hr

theorem backInv_step (e : Env) (wf : WF e) (σ0 σ : St) (tasks : List Nat) (t0 : Nat) (h : BackInv e σ0 σ tasks)
    (hmem : t0 ∈ tasks) (hready : ready e σ t0 = true) :
    BackInv e σ0 (updateContainers e (scheduleTask e σ t0).1) (tasks.erase t0) := by
  have hlf0 := h.leaf t0 hmem
  obtain ⟨heq0, hus0, hnd0⟩ := h.pending t0 hmem
  have hsame : ∀ x, (e.taskD x).leaf = true → x ≠ t0 →
      (updateContainers e (scheduleTask e σ t0).1).tst x = σ.tst x := by
    intro x hx hne
    rw [updateContainers_leaf e _ x hx, scheduleTask_other e σ t0 x hne]
  refine ⟨h.nodup.erase t0, fun t ht => h.leaf t (List.mem_of_mem_erase ht), ?_, ?_, ?_⟩
  · intro t ht
    rw [updateContainers_size, scheduleTask_size]; exact h.inrange t (List.mem_of_mem_erase ht)
  · intro t ht
    have htm : t ∈ tasks := List.mem_of_mem_erase ht
    have hne : t ≠ t0 := fun heq => by
      rw [heq] at ht; exact (List.Nodup.not_mem_erase h.nodup) ht
    rw [hsame t (h.leaf t htm) hne]; exact h.pending t htm
  · intro t hel hns hd hfw s hs
    have hsl := successors_leaf e t s hs
    by_cases heq : t = t0
    · subst heq
      rw [updateContainers_leaf e _ t hel.1] at hd hfw ⊢
      rw [scheduleTask_self_forward] at hfw
      have hns' : (σ.tst t).stop = none := by rw [heq0]; exact hns
      have hok := scheduleTask_done e σ t hnd0 hd
      have hsched := alapReady_successors e σ t hfw hns' hready s hs
      have hsne : s ≠ t := by
        intro hx; rw [hx, hus0] at hsched; exact Bool.noConfusion hsched
      have hssame := hsame s hsl hsne
      obtain ⟨v0, hv0, hle0⟩ := scheduleTask_stop_le e wf σ t (h.inrange t hmem) hfw hel.2.1 hnd0 hok
      refine ⟨by rw [hssame]; exact hsched, fun ss v hss hv => ?_⟩
      rw [hssame] at hss
      have hd1 : deadlineOf e σ t = latestEnd e σ t := by unfold deadlineOf; rw [hns']
      have := latestEnd_le_succ e σ t s hs ss hss
      rw [hv0] at hv
      have : v0 = v := by simpa using hv
      omega
    · have htsame := hsame t hel.1 heq
      rw [htsame] at hd hfw ⊢
      obtain ⟨hsched, hineq⟩ := h.ok t hel hns hd hfw s hs
      have hsne : s ≠ t0 := by
        intro hx; rw [hx, hus0] at hsched; exact Bool.noConfusion hsched
      have hssame := hsame s hsl hsne
      refine ⟨by rw [hssame]; exact hsched, fun ss v hss hv => ?_⟩
      rw [hssame] at hss
      exact hineq ss v hss hv

theorem BackOK.of_ts {e : Env} {σ0 σ σ' : St} (h : σ'.ts = σ.ts) (hok : BackOK e σ0 σ) : BackOK e σ0 σ' := by
  unfold BackOK St.tst at *
  rw [h]; exact hok

theorem pickLoop_backOK (e : Env) (wf : WF e) (σ0 : St) (fuel : Nat) (tasks failed : List Nat) (σ : St)
    (h : BackInv e σ0 σ tasks) : BackOK e σ0 (pickLoop e fuel tasks failed σ).1 := by
  induction fuel generalizing tasks failed σ with
  | zero => exact h.ok
  | succ f ih =>
    unfold pickLoop
    split
    · exact h.ok
    · split
      · rename_i t0 hfind
        have hmem : t0 ∈ tasks := List.mem_of_find?_eq_some hfind
        have hready : ready e σ t0 = true := by
          have := List.find?_some hfind; simpa using this
        exact ih _ _ _ (backInv_step e wf σ0 σ tasks t0 h hmem hready)
      · split
        · exact BackOK.of_ts (σ := σ) rfl h.ok
        · exact h.ok

end SP

namespace SP

/-- the state in which the pick loop starts -/
def loopStart (e : Env) : St := preLoop e (prepare e (initState e))

theorem markAlap_stop (e : Env) (fuel : Nat) (stack processed : List Nat) (σ : St) (t : Nat) :
    ((markAlap e fuel stack processed σ).1.tst t).stop = (σ.tst t).stop := by
  induction fuel generalizing stack processed σ with
  | zero => unfold markAlap; rfl
  | succ f ih =>
    cases stack with
    | nil => unfold markAlap; rfl
    | cons x stack =>
      unfold markAlap
      simp only []
      split
      · exact ih _ _ _
      · split
        · exact ih _ _ _
        · split
          · exact ih _ _ _
          · rw [ih, tst_setT]
            split
            · rename_i hx; rw [hx.1]
            · rfl

theorem propagateAlap_stop (e : Env) (σ : St) (t : Nat) : ((propagateAlap e σ).tst t).stop = (σ.tst t).stop := by
  unfold propagateAlap
  simp only []
  have : ∀ (l : List Nat) (acc : St × List Nat),
      ((l.foldl (fun (acc : St × List Nat) a =>
        markAlap e (e.tasks.size * e.tasks.size + e.tasks.size + 1)
          (((e.taskD a).deps.map (·.target)).filter (fun p => !(if acc.2.contains a then acc.2 else a :: acc.2).contains p))
          (if acc.2.contains a then acc.2 else a :: acc.2) acc.1) acc).1.tst t).stop = (acc.1.tst t).stop := by
    intro l
    induction l with
    | nil => intro acc; rfl
    | cons x xs ih =>
      intro acc
      simp only [List.foldl_cons]
      rw [ih, markAlap_stop]
  exact this _ (σ, [])

theorem milestonePrepass_effLeaf (e : Env) (σ : St) (t : Nat) (hel : EffLeaf e t) :
    (milestonePrepass e σ).tst t = σ.tst t := by
  unfold milestonePrepass
  have : ∀ (l : List Nat) (acc : St), (l.foldl (fun (acc : St) x => acc.setT x (prepassT e acc x)) acc).tst t = acc.tst t := by
    intro l
    induction l with
    | nil => intro acc; rfl
    | cons x xs ih =>
      intro acc
      simp only [List.foldl_cons]
      rw [ih, tst_setT]
      split
      · rename_i hx; rw [hx.1]; exact prepassT_effLeaf e acc t hel
      · rfl
  exact this _ σ

/-- the end an effort leaf carries when the loop starts is the one it carries after `prepare` -/
theorem loopStart_stop (e : Env) (t : Nat) (hel : EffLeaf e t) :
    ((loopStart e).tst t).stop = ((prepare e (initState e)).tst t).stop := by
  unfold loopStart preLoop
  rw [updateContainers_leaf e _ t hel.1, propagateAlap_stop, milestonePrepass_effLeaf e _ t hel]

/-- **C04, backward mode, end to end.**  After scheduling any well-formed project: every completed backward (ALAP) effort
    task that has no end after `prepare` (no `end` of its own and none inherited from a container) ends at or before
    `start(s) − gap` of every successor `s` — every leaf whose own or inherited finish-to-start edges name the task or one
    of its enclosing containers — with the gap that successor asks for; and every such successor is scheduled. -/
theorem runScenario_backOK (e : Env) (wf : WF e) (t : Nat) (hel : EffLeaf e t)
    (hns : ((prepare e (initState e)).tst t).stop = none)
    (hd : ((runScenario e).tst t).done = true) (hfw : ((runScenario e).tst t).forward = false)
    (s : Nat) (hs : s ∈ successors e t) :
    ((runScenario e).tst s).scheduled = true ∧
    ∀ ss v, ((runScenario e).tst s).start = some ss → ((runScenario e).tst t).stop = some v → v + succGap e t s ≤ ss := by
  have hdf : DoneFalse (prepare e (initState e)) := prepare_doneFalse e _ (doneFalse_init e)
  have hsz : (prepare e (initState e)).ts.size = e.tasks.size := by rw [prepare_size, initState_size]
  have h2 : BackInv e (loopStart e) (loopStart e) (todoOf e (loopStart e)) := by
    refine ⟨todoOf_nodup e _, todoOf_leaf e _, ?_, ?_, ?_⟩
    · intro x hx; unfold loopStart; rw [preLoop_size, hsz]; exact (todoOf_mem e _ x hx).1
    · intro x hx
      exact ⟨rfl, (todoOf_mem e _ x hx).2, by unfold loopStart; exact preLoop_doneFalse e _ hdf x⟩
    · intro x _ _ hdone
      have : ((loopStart e).tst x).done = false := by unfold loopStart; exact preLoop_doneFalse e _ hdf x
      rw [this] at hdone; exact Bool.noConfusion hdone
  have h3 := pickLoop_backOK e wf (loopStart e) ((todoOf e (loopStart e)).length + 1) (todoOf e (loopStart e)) [] (loopStart e) h2
  have h4 : BackOK e (loopStart e) (scheduleScenario e (prepare e (initState e))) := by
    unfold scheduleScenario
    simp only []
    split
    · exact h3
    · exact BackOK.of_ts (σ := (pickLoop e ((todoOf e (loopStart e)).length + 1) (todoOf e (loopStart e)) [] (loopStart e)).1) rfl h3
  unfold runScenario at hd hfw ⊢
  have hsl := successors_leaf e t s hs
  rw [finishScenario_leafT e _ t hel.1] at hd hfw ⊢
  rw [finishScenario_leafT e _ s hsl]
  exact h4 t hel (by rw [loopStart_stop e t hel]; exact hns) hd hfw s hs

end SP
