import Model.Report
/-! helper lemmas for `Properties/C18.lean` -/
namespace SP.Report
open SP

/-! ## sorting by sequence number -/

/-- sorted by `seq` (weakly) -/
def SeqSorted (l : List Task) : Prop := l.Pairwise (fun a b => a.seq ≤ b.seq)

theorem insSeq_perm (t : Task) (l : List Task) : (insSeq t l).Perm (t :: l) := by
  induction l with
  | nil => simp [insSeq]
  | cons u r ih =>
    unfold insSeq
    split
    · exact List.Perm.refl _
    · exact (List.Perm.cons u ih).trans (List.Perm.swap t u r)

theorem sortSeq_perm (l : List Task) : (sortSeq l).Perm l := by
  induction l with
  | nil => simp [sortSeq]
  | cons t r ih => exact (insSeq_perm t (sortSeq r)).trans (List.Perm.cons t ih)

theorem mem_insSeq {t x : Task} {l : List Task} : x ∈ insSeq t l ↔ x = t ∨ x ∈ l := by
  rw [(insSeq_perm t l).mem_iff]; simp

theorem insSeq_sorted (t : Task) (l : List Task) (h : SeqSorted l) : SeqSorted (insSeq t l) := by
  induction l with
  | nil => simp [insSeq, SeqSorted]
  | cons u r ih =>
    unfold insSeq
    have hu := List.pairwise_cons.mp h
    split
    · rename_i hle
      refine List.pairwise_cons.mpr ⟨?_, h⟩
      intro x hx
      rcases List.mem_cons.mp hx with rfl | hx
      · exact hle
      · exact Nat.le_trans hle (hu.1 x hx)
    · rename_i hnle
      refine List.pairwise_cons.mpr ⟨?_, ih hu.2⟩
      intro x hx
      rcases mem_insSeq.mp hx with rfl | hx
      · omega
      · exact hu.1 x hx

theorem sortSeq_sorted (l : List Task) : SeqSorted (sortSeq l) := by
  induction l with
  | nil => simp [sortSeq, SeqSorted]
  | cons t r ih => exact insSeq_sorted t _ ih

theorem insSeq_of_le_all (t : Task) (l : List Task) (h : ∀ u ∈ l, t.seq ≤ u.seq) : insSeq t l = t :: l := by
  cases l with
  | nil => rfl
  | cons u r => simp [insSeq, h u (by simp)]

theorem sortSeq_of_sorted (l : List Task) (h : SeqSorted l) : sortSeq l = l := by
  induction l with
  | nil => rfl
  | cons t r ih =>
    have ht := List.pairwise_cons.mp h
    show insSeq t (sortSeq r) = t :: r
    rw [ih ht.2]
    exact insSeq_of_le_all t r ht.1

theorem SeqSorted.sublist {l l' : List Task} (h : SeqSorted l) (s : l'.Sublist l) : SeqSorted l' :=
  List.Pairwise.sublist s h

/-- the leaf loop of `_prepare_task_list` on a sorted list is a plain filter -/
theorem leafLoop_eq (pre rest : List Task) (h : SeqSorted (pre ++ rest)) :
    rest.foldl (fun acc t => if t.leaf then sortSeq (acc ++ [t]) else acc) (pre.filter (·.leaf))
      = (pre ++ rest).filter (·.leaf) := by
  induction rest generalizing pre with
  | nil => simp
  | cons t r ih =>
    have h' : SeqSorted ((pre ++ [t]) ++ r) := by simpa using h
    have := ih (pre ++ [t]) h'
    simp only [List.foldl_cons]
    by_cases hl : t.leaf
    · have hs : SeqSorted (pre.filter (·.leaf) ++ [t]) := by
        have hsub : (pre.filter (·.leaf) ++ [t]).Sublist (pre ++ t :: r) :=
          List.Sublist.append List.filter_sublist (by simp)
        exact SeqSorted.sublist h hsub
      simp only [hl, if_true]
      rw [sortSeq_of_sorted _ hs]
      have e : pre.filter (·.leaf) ++ [t] = (pre ++ [t]).filter (·.leaf) := by simp [List.filter_append, hl]
      rw [e, this]; simp
    · simp only [hl]
      have e : pre.filter (·.leaf) = (pre ++ [t]).filter (·.leaf) := by simp [List.filter_append, hl]
      simp only [Bool.false_eq_true, if_false]
      rw [e, this]; simp

theorem prepareTaskList_eq (p : Project) (leafOnly : Bool) :
    prepareTaskList p leafOnly = (sortSeq p.tasks).filter (fun t => !leafOnly || t.leaf) := by
  have hs := sortSeq_sorted p.tasks
  unfold prepareTaskList
  simp only [List.append_nil]
  rw [sortSeq_of_sorted _ hs, sortSeq_of_sorted _ hs]
  cases leafOnly with
  | false =>
    simp only [Bool.false_eq_true, if_false, Bool.not_false, Bool.true_or]
    exact (List.filter_eq_self.mpr (fun _ _ => rfl)).symm
  | true =>
    simp only [if_true, Bool.not_true, Bool.false_or]
    have := leafLoop_eq [] (sortSeq p.tasks) (by simpa using hs)
    simpa using this

/-! ## the JSON record of a line -/

theorem dictSet_new (d : List (String × Cell)) (k : String) (v : Cell) (h : ∀ e ∈ d, e.1 ≠ k) :
    dictSet d k v = d ++ [(k, v)] := by
  induction d with
  | nil => rfl
  | cons e r ih =>
    obtain ⟨k', v'⟩ := e
    have hk : k' ≠ k := h (k', v') (by simp)
    have hr : ∀ e ∈ r, e.1 ≠ k := fun e he => h e (by simp [he])
    simp [dictSet, hk, ih hr]

theorem foldl_dictSet_zip (ks : List String) (vs : List Cell) (acc : List (String × Cell))
    (hnd : ks.Nodup) (hdis : ∀ e ∈ acc, e.1 ∉ ks) :
    (ks.zip vs).foldl (fun d kv => dictSet d kv.1 kv.2) acc = acc ++ ks.zip vs := by
  induction ks generalizing vs acc with
  | nil => simp
  | cons k r ih =>
    cases vs with
    | nil => simp
    | cons v vr =>
      have hk := List.nodup_cons.mp hnd
      simp only [List.zip_cons_cons, List.foldl_cons]
      rw [dictSet_new acc k v (fun e he hek => hdis e he (by simp [hek]))]
      rw [ih vr (acc ++ [(k, v)]) hk.2]
      · simp
      · intro e he
        rcases List.mem_append.mp he with he | he
        · intro hm; exact hdis e he (by simp [hm])
        · simp only [List.mem_singleton] at he
          subst he; exact hk.1

theorem record_values (ks : List String) (vs : List Cell) (hnd : ks.Nodup) (hlen : vs.length ≤ ks.length) :
    ((ks.zip vs).foldl (fun d kv => dictSet d kv.1 kv.2) []).map (·.2) = vs := by
  rw [foldl_dictSet_zip ks vs [] hnd (by simp)]
  simp only [List.nil_append]
  exact List.map_snd_zip hlen

theorem record_keys (ks : List String) (vs : List Cell) (hnd : ks.Nodup) (hlen : ks.length ≤ vs.length) :
    ((ks.zip vs).foldl (fun d kv => dictSet d kv.1 kv.2) []).map (·.1) = ks := by
  rw [foldl_dictSet_zip ks vs [] hnd (by simp)]
  simp only [List.nil_append]
  exact List.map_fst_zip hlen

/-! ### with a repeated key the record is shorter than the header -/

theorem keys_dictSet (d : List (String × Cell)) (k : String) (v : Cell) :
    (dictSet d k v).map (·.1) = if k ∈ d.map (·.1) then d.map (·.1) else d.map (·.1) ++ [k] := by
  induction d with
  | nil => simp [dictSet]
  | cons e r ih =>
    obtain ⟨k', v'⟩ := e
    by_cases hk : k' = k
    · simp [dictSet, hk]
    · have hk' : ¬ k = k' := fun e => hk e.symm
      simp only [dictSet, beq_iff_eq, hk, if_false, List.map_cons, ih, List.mem_cons, hk', false_or]
      split <;> simp

theorem nodup_length_le {l' l : List String} (hn : l'.Nodup) (hs : ∀ x ∈ l', x ∈ l) : l'.length ≤ l.length := by
  induction l generalizing l' with
  | nil =>
    cases l' with
    | nil => simp
    | cons a r => exact absurd (hs a (by simp)) (by simp)
  | cons a r ih =>
    have h1 : (l'.erase a).length ≤ r.length := by
      apply ih (hn.erase a)
      intro x hx
      have hx' := (List.Nodup.mem_erase_iff hn).mp hx
      rcases List.mem_cons.mp (hs x hx'.2) with e | e
      · exact absurd e hx'.1
      · exact e
    have h2 : l'.length ≤ (l'.erase a).length + 1 := by
      by_cases ha : a ∈ l'
      · rw [List.length_erase_of_mem ha]; omega
      · rw [List.erase_of_not_mem ha]; omega
    simp only [List.length_cons]; omega

theorem nodup_length_lt {l' l : List String} (hn : l'.Nodup) (hs : ∀ x ∈ l', x ∈ l) (hd : ¬ l.Nodup) :
    l'.length < l.length := by
  induction l generalizing l' with
  | nil => exact absurd List.nodup_nil hd
  | cons a r ih =>
    by_cases ha : a ∈ r
    · have : l'.length ≤ r.length := by
        apply nodup_length_le hn
        intro x hx
        rcases List.mem_cons.mp (hs x hx) with e | e
        · rw [e]; exact ha
        · exact e
      simp only [List.length_cons]; omega
    · have hdr : ¬ r.Nodup := fun h => hd (List.nodup_cons.mpr ⟨ha, h⟩)
      have h1 : (l'.erase a).length < r.length := by
        apply ih (hn.erase a) _ hdr
        intro x hx
        have hx' := (List.Nodup.mem_erase_iff hn).mp hx
        rcases List.mem_cons.mp (hs x hx'.2) with e | e
        · exact absurd e hx'.1
        · exact e
      have h2 : l'.length ≤ (l'.erase a).length + 1 := by
        by_cases ha' : a ∈ l'
        · rw [List.length_erase_of_mem ha']; omega
        · rw [List.erase_of_not_mem ha']; omega
      simp only [List.length_cons]; omega

theorem foldl_dictSet_keys (kvs : List (String × Cell)) (acc : List (String × Cell)) (S : List String)
    (hn : (acc.map (·.1)).Nodup) (hacc : ∀ x ∈ acc.map (·.1), x ∈ S) (hk : ∀ kv ∈ kvs, kv.1 ∈ S) :
    ((kvs.foldl (fun d kv => dictSet d kv.1 kv.2) acc).map (·.1)).Nodup ∧
    ∀ x ∈ (kvs.foldl (fun d kv => dictSet d kv.1 kv.2) acc).map (·.1), x ∈ S := by
  induction kvs generalizing acc with
  | nil => exact ⟨hn, hacc⟩
  | cons kv r ih =>
    simp only [List.foldl_cons]
    apply ih
    · rw [keys_dictSet]
      split
      · exact hn
      · rename_i hnot
        exact List.nodup_append.mpr ⟨hn, by simp, by
          intro a ha b hb
          simp only [List.mem_singleton] at hb
          subst hb; intro e; subst e; exact hnot ha⟩
    · rw [keys_dictSet]
      intro x hx
      split at hx
      · exact hacc x hx
      · rcases List.mem_append.mp hx with h | h
        · exact hacc x h
        · simp only [List.mem_singleton] at h
          subst h; exact hk kv (by simp)
    · intro kv' h; exact hk kv' (by simp [h])

/-- a record never has more entries than there are different keys: with a repeated key it is shorter
    than the header -/
theorem record_short (ks : List String) (vs : List Cell) (hd : ¬ ks.Nodup) :
    ((ks.zip vs).foldl (fun d kv => dictSet d kv.1 kv.2) []).length < ks.length := by
  have h := foldl_dictSet_keys (ks.zip vs) [] ks (by simp) (by simp) (by
    intro kv hkv; exact (List.of_mem_zip hkv).1)
  have := nodup_length_lt h.1 h.2 hd
  simpa using this

/-! ## cost: exchanging the two sums of `getCost` -/

theorem sum_map_add {α : Type} (l : List α) (f g : α → Rat) :
    (l.map (fun x => f x + g x)).sum = (l.map f).sum + (l.map g).sum := by
  induction l with
  | nil => simp only [List.map_nil, List.sum_nil]; grind
  | cons a r ih => simp only [List.map_cons, List.sum_cons, ih]; grind

theorem sum_map_zero {α : Type} (l : List α) (f : α → Rat) (h : ∀ x ∈ l, f x = 0) : (l.map f).sum = 0 := by
  induction l with
  | nil => simp
  | cons a r ih =>
    simp only [List.map_cons, List.sum_cons]
    rw [h a (by simp), ih (fun x hx => h x (by simp [hx]))]; grind

/-- a ledger line's contribution, seen from the resource loop -/
def contrib (x : String) (c : Rat) (r : Resource) : Rat := if x == r.id then c / 3600 * r.rate else 0

def rateIn (rs : List Resource) (x : String) : Rat :=
  match rs.find? (·.id == x) with
  | some r => r.rate
  | none => 0

theorem contrib_sum (rs : List Resource) (x : String) (c : Rat) (hnd : (rs.map (·.id)).Nodup) :
    ((rs.filter (fun r => r.rate != 0)).map (contrib x c)).sum = c / 3600 * rateIn rs x := by
  induction rs with
  | nil => simp [rateIn]
  | cons r rest ih =>
    have hn : r.id ∉ rest.map (·.id) ∧ (rest.map (·.id)).Nodup := List.nodup_cons.mp hnd
    by_cases hx : r.id = x
    · -- `r` is the resource of the line; no later resource has the same id
      have hz : ((rest.filter (fun r => r.rate != 0)).map (contrib x c)).sum = 0 := by
        apply sum_map_zero
        intro y hy
        have hy' : y ∈ rest := (List.mem_filter.mp hy).1
        have : y.id ≠ x := by
          intro e; apply hn.1; rw [hx, ← e]; exact List.mem_map_of_mem hy'
        have : (x == y.id) = false := by simp [beq_eq_false_iff_ne, Ne.symm this]
        simp [contrib, this]
      have hr : rateIn (r :: rest) x = r.rate := by simp [rateIn, List.find?, hx]
      rw [hr]
      by_cases h0 : r.rate = 0
      · have : (r.rate != 0) = false := by simp [h0]
        simp only [List.filter_cons, this, Bool.false_eq_true, if_false]
        rw [hz, h0]; grind
      · have : (r.rate != 0) = true := by simp [h0]
        simp only [List.filter_cons, this, if_true, List.map_cons, List.sum_cons]
        rw [hz]
        have : (x == r.id) = true := by simp [hx]
        simp [contrib, this]; grind
    · have hne : (r.id == x) = false := by simp [beq_eq_false_iff_ne, hx]
      have hr : rateIn (r :: rest) x = rateIn rest x := by simp [rateIn, List.find?, hne]
      have hc : contrib x c r = 0 := by
        have : (x == r.id) = false := by simp [beq_eq_false_iff_ne, Ne.symm hx]
        simp [contrib, this]
      rw [hr, ← ih hn.2]
      by_cases h0 : (r.rate != 0) = true
      · simp only [List.filter_cons, h0, if_true, List.map_cons, List.sum_cons, hc]; grind
      · simp only [List.filter_cons, h0, Bool.false_eq_true, if_false]

/-- `getCost` computed over an explicit ledger -/
def costOver (rs : List Resource) (ledger : List Booking) (tid : String) : Rat :=
  ((rs.filter (fun r => r.rate != 0)).map (fun r =>
    ((ledger.filter (fun b => b.res == r.id && b.task == tid)).map (·.secs)).sum / 3600 * r.rate)).sum

/-- rate × booked time, line by line -/
def ledgerCost (rs : List Resource) (ledger : List Booking) (tid : String) : Rat :=
  ((ledger.filter (fun b => b.task == tid)).map (fun b => rateIn rs b.res * b.secs / 3600)).sum

theorem costOver_eq (rs : List Resource) (ledger : List Booking) (tid : String)
    (hnd : (rs.map (·.id)).Nodup) : costOver rs ledger tid = ledgerCost rs ledger tid := by
  induction ledger with
  | nil =>
    simp only [costOver, ledgerCost, List.filter_nil, List.map_nil, List.sum_nil]
    apply sum_map_zero; intro r _; grind
  | cons b rest ih =>
    by_cases ht : b.task = tid
    · have step : costOver rs (b :: rest) tid
          = costOver rs rest tid + ((rs.filter (fun r => r.rate != 0)).map (contrib b.res b.secs)).sum := by
        unfold costOver
        rw [← sum_map_add]
        congr 1
        apply List.map_congr_left
        intro r _
        by_cases hr : b.res = r.id
        · have : (b.res == r.id && b.task == tid) = true := by simp [hr, ht]
          simp only [List.filter_cons, this, if_true, List.map_cons, List.sum_cons]
          have : (b.res == r.id) = true := by simp [hr]
          simp only [contrib, this, if_true]; grind
        · have : (b.res == r.id && b.task == tid) = false := by simp [hr]
          simp only [List.filter_cons, this, Bool.false_eq_true, if_false]
          have : (b.res == r.id) = false := by simp [beq_eq_false_iff_ne, hr]
          simp only [contrib, this, Bool.false_eq_true, if_false]; grind
      rw [step, ih, contrib_sum rs b.res b.secs hnd]
      have : (b.task == tid) = true := by simp [ht]
      simp only [ledgerCost, List.filter_cons, this, if_true, List.map_cons, List.sum_cons]; grind
    · have hf : (b.task == tid) = false := by simp [beq_eq_false_iff_ne, ht]
      have step : costOver rs (b :: rest) tid = costOver rs rest tid := by
        unfold costOver
        congr 1
        apply List.map_congr_left
        intro r _
        have : (b.res == r.id && b.task == tid) = false := by simp [hf]
        simp only [List.filter_cons, this, Bool.false_eq_true, if_false]
      rw [step, ih]
      simp only [ledgerCost, List.filter_cons, hf, Bool.false_eq_true, if_false]

theorem getCost_eq_costOver (p : Project) (tid : String) : getCost p tid = costOver p.resources p.ledger tid := rfl

theorem rateOf_eq_rateIn (p : Project) (x : String) : rateOf p x = rateIn p.resources x := rfl

/-! ## rounding -/

theorem roundHalfEven_close (x : Rat) :
    (roundHalfEven x : Rat) - x ≤ 1/2 ∧ x - (roundHalfEven x : Rat) ≤ 1/2 := by
  have h1 := Rat.floor_le x
  have h2 := Rat.lt_floor_add_one x
  have h3 : ((x.floor + 1 : Int) : Rat) = (x.floor : Rat) + 1 := by simp [Rat.intCast_add]
  unfold roundHalfEven
  simp only []
  split
  · constructor <;> grind
  · split
    · rw [h3]; constructor <;> grind
    · split
      · constructor <;> grind
      · rw [h3]; constructor <;> grind

end SP.Report

namespace SP.Report

/-! ### the JSON keys are pairwise different (finding F20, repaired) -/

theorem le_maxLen_foldl (l : List String) (m : Nat) : m ≤ l.foldl (fun m s => max m s.length) m := by
  induction l generalizing m with
  | nil => exact Nat.le_refl _
  | cons x xs ih => simp only [List.foldl_cons]; exact Nat.le_trans (Nat.le_max_left _ _) (ih _)

theorem mem_le_maxLen (l : List String) (s : String) (h : s ∈ l) : s.length ≤ maxLen l := by
  unfold maxLen
  have : ∀ (l : List String) (m : Nat), s ∈ l → s.length ≤ l.foldl (fun m s => max m s.length) m := by
    intro l
    induction l with
    | nil => intro m h; cases h
    | cons x xs ih =>
      intro m h
      simp only [List.foldl_cons]
      rcases List.mem_cons.mp h with h | h
      · subst h; exact Nat.le_trans (Nat.le_max_right _ _) (le_maxLen_foldl xs _)
      · exact ih _ h
  exact this l 0 h

/-- the key `freshKey` returns is not among the names seen so far -/
theorem freshKey_not_mem (seen : List String) (fuel : Nat) (k : String) (h : maxLen seen < k.length + fuel) :
    freshKey seen fuel k ∉ seen := by
  induction fuel generalizing k with
  | zero =>
    unfold freshKey
    intro hm
    have := mem_le_maxLen seen k hm
    omega
  | succ f ih =>
    unfold freshKey
    split
    · apply ih
      rw [String.length_append]
      have : "_".length = 1 := rfl
      omega
    · rename_i hc
      intro hm
      apply hc
      exact List.contains_iff_mem.mpr hm

theorem uniqNames_aux (l : List (String × Nat)) (acc : List String) (hacc : acc.Nodup) :
    (l.foldl (fun acc ni =>
      let k0 := if acc.contains ni.1 then ni.1 ++ "_" ++ toString (ni.2 + 1) else ni.1
      acc ++ [freshKey acc (maxLen acc + 1) k0]) acc).Nodup ∧
    (l.foldl (fun acc ni =>
      let k0 := if acc.contains ni.1 then ni.1 ++ "_" ++ toString (ni.2 + 1) else ni.1
      acc ++ [freshKey acc (maxLen acc + 1) k0]) acc).length = acc.length + l.length := by
  induction l generalizing acc with
  | nil => exact ⟨hacc, rfl⟩
  | cons x xs ih =>
    simp only [List.foldl_cons]
    have hfresh : freshKey acc (maxLen acc + 1) (if acc.contains x.1 then x.1 ++ "_" ++ toString (x.2 + 1) else x.1) ∉ acc :=
      freshKey_not_mem acc _ _ (by omega)
    have hnd : (acc ++ [freshKey acc (maxLen acc + 1) (if acc.contains x.1 then x.1 ++ "_" ++ toString (x.2 + 1) else x.1)]).Nodup := by
      rw [List.nodup_append]
      refine ⟨hacc, by simp, ?_⟩
      intro a ha b hb
      have : b = freshKey acc (maxLen acc + 1) (if acc.contains x.1 then x.1 ++ "_" ++ toString (x.2 + 1) else x.1) := by
        simpa using hb
      intro hab
      rw [this] at hab
      exact hfresh (hab ▸ ha)
    obtain ⟨h1, h2⟩ := ih _ hnd
    refine ⟨h1, ?_⟩
    rw [h2]; simp; omega

/-- **the JSON keys are pairwise different, one per column** — whatever the titles are -/
theorem uniqNames_nodup (names : List String) : (uniqNames names).Nodup ∧ (uniqNames names).length = names.length := by
  unfold uniqNames
  have := uniqNames_aux names.zipIdx [] List.nodup_nil
  refine ⟨this.1, ?_⟩
  rw [this.2]; simp

/-- titles that are already pairwise different are kept as they are -/
theorem uniqNames_of_nodup_aux (l : List (String × Nat)) (acc : List String)
    (h : ∀ x ∈ l, x.1 ∉ acc) (hnd : (l.map (·.1)).Nodup) :
    l.foldl (fun acc ni =>
      let k0 := if acc.contains ni.1 then ni.1 ++ "_" ++ toString (ni.2 + 1) else ni.1
      acc ++ [freshKey acc (maxLen acc + 1) k0]) acc = acc ++ l.map (·.1) := by
  induction l generalizing acc with
  | nil => simp
  | cons x xs ih =>
    simp only [List.foldl_cons, List.map_cons]
    have hx : x.1 ∉ acc := h x List.mem_cons_self
    have hc : acc.contains x.1 = false := by
      cases hcc : acc.contains x.1 with
      | false => rfl
      | true => exact absurd (List.contains_iff_mem.mp hcc) hx
    have hfk : freshKey acc (maxLen acc + 1) x.1 = x.1 := by
      unfold freshKey; simp only [hc, Bool.false_eq_true, if_false]
    simp only [hc, Bool.false_eq_true, if_false, hfk]
    have hnd' : x.1 ∉ xs.map (·.1) ∧ (xs.map (·.1)).Nodup := List.nodup_cons.mp hnd
    rw [ih (acc ++ [x.1]) ?_ hnd'.2]
    · simp
    · intro y hy hm
      rcases List.mem_append.mp hm with hm | hm
      · exact h y (List.mem_cons_of_mem _ hy) hm
      · have hyx : y.1 = x.1 := by simpa using hm
        apply hnd'.1
        rw [← hyx]
        exact List.mem_map_of_mem (f := (·.1)) hy

theorem uniqNames_of_nodup (names : List String) (h : names.Nodup) : uniqNames names = names := by
  unfold uniqNames
  rw [uniqNames_of_nodup_aux names.zipIdx [] (fun _ _ hm => by cases hm) (by simpa using h)]
  simp

end SP.Report
