import Proofs.Frame
/-!
The start of a forward effort task (C04): the date written at the first booking is at or after the
dependency bound, and it is the date the task keeps.
-/
namespace SP

/-- the date `markStart` writes when the first booking happens in slot `cur` -/
def markDate (e : Env) (cur : Int) (off : Rat) : Int := e.time cur + (if off > 0 then off.floor else 0)

theorem time_mono (e : Env) (wf : WF e) (a b : Int) (h : a ≤ b) : e.time a ≤ e.time b := by
  unfold Env.time
  have : a * e.G ≤ b * e.G := Int.mul_le_mul_of_nonneg_right h (Int.le_of_lt wf.G_pos)
  omega

/-- whichever slot at or after the cursor the first booking lands in, the date written is at or after the bound -/
theorem markDate_ge (e : Env) (wf : WF e) (B : Int) (hB : e.start ≤ B) (cur : Int) (hc : (cursorOf e B).1 ≤ cur) :
    B ≤ markDate e cur (cursorOf e B).2 := by
  have hm := time_mono e wf _ _ hc
  have hfl := (Board.mk e.start e.stop e.G).rawIdx_floor wf.G_pos (t := B) hB
  simp only [Board.time, Board.rawIdx] at hfl
  unfold markDate
  unfold cursorOf at hc hm ⊢
  simp only [] at hc hm ⊢
  by_cases hgt : B > e.time (e.idx B)
  · simp only [hgt, if_true]
    have hpos : (0 : Rat) < ((B - e.time (e.idx B) : Int) : Rat) := Rat.intCast_pos.mpr (by omega)
    simp only [gt_iff_lt, hpos, if_true, Rat.floor_intCast]
    omega
  · simp only [hgt, if_false]
    have : ¬ ((0 : Rat) > 0) := by grind
    simp only [this, if_false]
    unfold Env.time Env.idx at *
    omega

/-- in a later slot (offset cleared) the date written is the slot start, which is after the bound -/
theorem markDate_ge_later (e : Env) (wf : WF e) (B : Int) (hB : e.start ≤ B) (cur : Int) (hc : (cursorOf e B).1 < cur) :
    B ≤ markDate e cur 0 := by
  have hfl := (Board.mk e.start e.stop e.G).rawIdx_floor wf.G_pos (t := B) hB
  simp only [Board.time, Board.rawIdx] at hfl
  have hm := time_mono e wf ((cursorOf e B).1 + 1) cur (by omega)
  unfold markDate
  have : ¬ ((0 : Rat) > 0) := by grind
  simp only [this, if_false]
  unfold cursorOf at hm
  simp only [] at hm
  unfold Env.time Env.idx at *
  have h2 : (Int.tdiv (B - e.start) e.G + 1) * e.G = Int.tdiv (B - e.start) e.G * e.G + e.G := by
    rw [Int.add_mul]; omega
  omega

theorem startInv_date_ge (e : Env) (wf : WF e) (B : Int) (hB : e.start ≤ B) (w : Walk)
    (hcur : (cursorOf e B).1 ≤ w.cur)
    (hoff : (w.offset = (cursorOf e B).2 ∧ w.cur = (cursorOf e B).1) ∨ (w.offset = 0 ∧ (cursorOf e B).1 < w.cur)) :
    B ≤ markDate e w.cur w.offset := by
  rcases hoff with ⟨h1, _⟩ | ⟨h1, h2⟩
  · rw [h1]; exact markDate_ge e wf B hB w.cur hcur
  · rw [h1]; exact markDate_ge_later e wf B hB w.cur h2

end SP

namespace SP

theorem tst_setT_same (σ : St) (t : Nat) (x : TSt) (hb : t < σ.ts.size) : (σ.setT t x).tst t = x := by
  rw [tst_setT]; simp [hb]

theorem bookAll_leveled_ts (e : Env) (σ : St) (t0 : Nat) (w : Walk) (sel : List Nat) :
    (bookAll e (leveled e σ t0 w.cur sel) t0 w sel).σ.ts = σ.ts := by
  rw [bookAll_ts, leveled_ts]

/-- what `bookResources` does to the start of its own task -/
theorem bookResources_start (e : Env) (σ : St) (t0 : Nat) (w : Walk)
    (hb : t0 < σ.ts.size) (hf : (σ.tst t0).forward = true) (hpos : 0 < (e.taskD t0).effort) :
    (w.done ≠ 0 → (bookResources e σ t0 w).1.tst t0 = σ.tst t0) ∧
    (w.done = 0 →
      ((bookResources e σ t0 w).2.done = 0 ∧ (bookResources e σ t0 w).1.tst t0 = σ.tst t0) ∨
      ((bookResources e σ t0 w).1.tst t0).start = some (markDate e w.cur w.offset)) := by
  unfold bookResources
  split
  · exact ⟨fun _ => rfl, fun h => Or.inl ⟨h, rfl⟩⟩
  · simp only []
    split
    · exact ⟨fun _ => rfl, fun h => Or.inl ⟨h, rfl⟩⟩
    · split
      · exact ⟨fun _ => rfl, fun h => Or.inl ⟨h, rfl⟩⟩
      · have hts := bookAll_leveled_ts e σ t0 { w with selected := some (selectedOf e σ t0 w) } (selectedOf e σ t0 w)
        have htst : (bookAll e (leveled e σ t0 w.cur (selectedOf e σ t0 w)) t0
            { w with selected := some (selectedOf e σ t0 w) } (selectedOf e σ t0 w)).σ.tst t0 = σ.tst t0 := by
          unfold St.tst; rw [hts]
        have hsz : t0 < (bookAll e (leveled e σ t0 w.cur (selectedOf e σ t0 w)) t0
            { w with selected := some (selectedOf e σ t0 w) } (selectedOf e σ t0 w)).σ.ts.size := by rw [hts]; exact hb
        split
        · constructor
          · intro hne
            unfold markStart
            have : (w.done == 0) = false := by simpa using hne
            simp only [this, Bool.and_false, Bool.false_and, Bool.false_eq_true, if_false]
            exact htst
          · intro hz
            refine Or.inr ?_
            unfold markStart
            have h1 : (w.done == 0) = true := by simpa using hz
            have h2 : decide ((e.taskD t0).effort > 0) = true := by simpa using hpos
            simp only [h1, h2, htst, hf, Bool.and_self, if_true]
            rw [tst_setT_same _ _ _ hsz]
            rfl
        · exact ⟨fun _ => htst, fun h => Or.inl ⟨h, htst⟩⟩

end SP

namespace SP

/-- invariant of a forward walk about the start of its own task; `B` is the dependency bound -/
structure StartInv (e : Env) (σ : St) (t0 : Nat) (B : Int) (w : Walk) : Prop where
  inb : t0 < σ.ts.size
  fwd : (σ.tst t0).forward = true
  cur : (cursorOf e B).1 ≤ w.cur
  off : (w.offset = (cursorOf e B).2 ∧ w.cur = (cursorOf e B).1) ∨ (w.offset = 0 ∧ (cursorOf e B).1 < w.cur)
  started : w.done ≠ 0 → ∃ v, (σ.tst t0).start = some v ∧ B ≤ v

theorem bookResources_startInv (e : Env) (wf : WF e) (σ : St) (t0 : Nat) (B : Int) (w : Walk) (hB : e.start ≤ B)
    (hpos : 0 < (e.taskD t0).effort) (h : StartInv e σ t0 B w) :
    (bookResources e σ t0 w).2.done ≠ 0 →
      ∃ v, ((bookResources e σ t0 w).1.tst t0).start = some v ∧ B ≤ v := by
  intro hne
  obtain ⟨h1, h2⟩ := bookResources_start e σ t0 w h.inb h.fwd hpos
  by_cases hz : w.done = 0
  · rcases h2 hz with ⟨hd, _⟩ | hs
    · exact absurd hd hne
    · refine ⟨_, hs, ?_⟩
      exact startInv_date_ge e wf B hB w h.cur h.off
  · rw [h1 hz]; exact h.started hz

theorem scheduleSlot_startInv (e : Env) (wf : WF e) (σ : St) (t0 : Nat) (B : Int) (w : Walk) (hB : e.start ≤ B)
    (hpos : 0 < (e.taskD t0).effort) (hm : (e.taskD t0).milestone = false) (h : StartInv e σ t0 B w) :
    ((scheduleSlot e σ t0 w).2.2 = true → StartInv e (scheduleSlot e σ t0 w).1 t0 B (advance true w (scheduleSlot e σ t0 w).2.1)) ∧
    ((scheduleSlot e σ t0 w).2.2 = false → ∃ v, ((scheduleSlot e σ t0 w).1.tst t0).start = some v ∧ B ≤ v) := by
  have hz : ((e.taskD t0).effort == 0) = false := by
    simp only [beq_eq_false_iff_ne, ne_eq]; grind
  have hfr := bookResources_frame e σ t0 w
  have hwk := bookResources_walk e σ t0 w
  have hst := bookResources_startInv e wf σ t0 B w hB hpos h
  unfold scheduleSlot
  simp only [hm, hz, Bool.or_self, Bool.false_eq_true, if_false, h.fwd, if_true]
  by_cases hfin : (bookResources e σ t0 w).2.done ≥ (e.taskD t0).effort
  · simp only [hfin, if_true]
    refine ⟨fun hc => Bool.noConfusion hc, fun _ => ?_⟩
    have hne : (bookResources e σ t0 w).2.done ≠ 0 := by grind
    obtain ⟨v, hv, hle⟩ := hst hne
    refine ⟨v, ?_, hle⟩
    have hsz : t0 < (finishTask e (bookResources e σ t0 w).1 t0 (bookResources e σ t0 w).2 w.done true).1.ts.size := by
      rw [finishTask_ts, hfr.2.2.2.2]; exact h.inb
    show ((St.setT (finishTask e (bookResources e σ t0 w).1 t0 (bookResources e σ t0 w).2 w.done true).1 t0 _).tst t0).start = some v
    rw [tst_setT_same _ _ _ hsz]
    show ((finishTask e (bookResources e σ t0 w).1 t0 (bookResources e σ t0 w).2 w.done true).1.tst t0).start = some v
    unfold St.tst
    rw [finishTask_ts]
    exact hv
  · simp only [hfin, if_false]
    refine ⟨fun _ => ⟨?_, ?_, ?_, ?_, ?_⟩, fun hc => Bool.noConfusion hc⟩
    · rw [hfr.2.2.2.2]; exact h.inb
    · rw [hfr.2.2.2.1]; exact h.fwd
    · rw [advance_cur, hwk.1]; have := h.cur; simp only [if_true]; omega
    · right
      refine ⟨rfl, ?_⟩
      rw [advance_cur, hwk.1]; have := h.cur; simp only [if_true]; omega
    · exact hst

end SP

namespace SP

theorem walkLoop_start (e : Env) (wf : WF e) (t0 : Nat) (B : Int) (hB : e.start ≤ B)
    (hpos : 0 < (e.taskD t0).effort) (hm : (e.taskD t0).milestone = false)
    (fuel : Nat) (σ : St) (w : Walk) (h : StartInv e σ t0 B w)
    (hok : (walkLoop e t0 true fuel σ w).2.2 = true) :
    ∃ v, ((walkLoop e t0 true fuel σ w).1.tst t0).start = some v ∧ B ≤ v := by
  induction fuel generalizing σ w with
  | zero => simp [walkLoop] at hok
  | succ f ih =>
    have hs := scheduleSlot_startInv e wf σ t0 B w hB hpos hm h
    unfold walkLoop at hok ⊢
    simp only [] at hok ⊢
    by_cases hc : (scheduleSlot e σ t0 w).2.2 = true
    · simp only [hc, Bool.not_true, Bool.false_eq_true, if_false] at hok ⊢
      by_cases hout : ((advance true w (scheduleSlot e σ t0 w).2.1).cur < 0 || (advance true w (scheduleSlot e σ t0 w).2.1).cur > e.upper) = true
      · simp only [hout, if_true] at hok
        exact Bool.noConfusion hok
      · simp only [hout, Bool.false_eq_true, if_false] at hok ⊢
        exact ih _ _ (hs.1 hc) hok
    · have hc' : (scheduleSlot e σ t0 w).2.2 = false := by simpa using hc
      simp only [hc', Bool.not_false, if_true] at hok ⊢
      exact hs.2 hc'

/-- the dependency bound of a forward task without a start of its own, in state `σ` -/
def boundOf (e : Env) (σ : St) (t : Nat) : Int :=
  match (σ.tst t).start with
  | some s => earliestStart e σ (e.taskD t).allDeps (max e.start s)
  | none => earliestStart e σ (e.taskD t).allDeps e.start

theorem boundOf_ge_start (e : Env) (σ : St) (t : Nat) : e.start ≤ boundOf e σ t := by
  unfold boundOf
  split
  · exact Int.le_trans (Int.le_max_left _ _) (earliestStart_ge e σ _ _)
  · exact earliestStart_ge e σ _ _

theorem boundOf_ge_depDate (e : Env) (σ : St) (t : Nat) (dp : Dep) (hd : dp ∈ (e.taskD t).allDeps) (dt : Int)
    (hdt : (if dp.onstart then (σ.tst dp.target).start else (σ.tst dp.target).stop) = some dt) :
    depDate e dp dt ≤ boundOf e σ t := by
  unfold boundOf
  split
  · exact earliestStart_ge_depDate e σ _ _ dp hd dt hdt
  · exact earliestStart_ge_depDate e σ _ _ dp hd dt hdt

theorem boundOf_ge_dep (e : Env) (wf : WF e) (σ : St) (t : Nat) (dp : Dep) (hd : dp ∈ (e.taskD t).allDeps) (dt : Int)
    (hdt : (if dp.onstart then (σ.tst dp.target).start else (σ.tst dp.target).stop) = some dt) :
    dt + dp.gap ≤ boundOf e σ t :=
  Int.le_trans (depDate_ge e wf.G_pos dp dt) (boundOf_ge_depDate e σ t dp hd dt hdt)

theorem initCursor_forward (e : Env) (σ : St) (t : Nat) (hf : (σ.tst t).forward = true)
    (hnp : (e.taskD t).startProvided = false) : initCursor e σ t = cursorOf e (boundOf e σ t) := by
  unfold initCursor boundOf
  simp only [hf, if_true, hnp, Bool.false_eq_true, if_false]
  cases (σ.tst t).start <;> rfl

/-- **one forward task**: a successful `scheduleTask` of an effort task without a start of its own leaves it with a
    start at or after its dependency bound (computed in the state it was started in) -/
theorem scheduleTask_start_ge (e : Env) (wf : WF e) (σ : St) (t0 : Nat)
    (hb : t0 < σ.ts.size) (hf : (σ.tst t0).forward = true) (hnp : (e.taskD t0).startProvided = false)
    (ha : (e.taskD t0).hasAlloc = true) (hm : (e.taskD t0).milestone = false) (hpos : 0 < (e.taskD t0).effort)
    (hnd : (σ.tst t0).done = false) (hok : (scheduleTask e σ t0).2 = true) :
    ∃ v, ((scheduleTask e σ t0).1.tst t0).start = some v ∧ boundOf e σ t0 ≤ v := by
  have hic := initCursor_forward e σ t0 hf hnp
  have hz : ((e.taskD t0).effort == 0) = false := by
    simp only [beq_eq_false_iff_ne, ne_eq]; grind
  have hpc : preStartCursor e σ t0 (initCursor e σ t0).1 = (initCursor e σ t0).1 := by
    unfold preStartCursor; simp [ha]
  have hpt : preStartT e σ t0 (initCursor e σ t0).1 = σ.tst t0 := by
    unfold preStartT; simp [ha]
  unfold scheduleTask at hok ⊢
  simp only [hnd, Bool.false_eq_true, if_false, hpc, hpt, hf] at hok ⊢
  by_cases hout : ((initCursor e σ t0).1 < 0 || (initCursor e σ t0).1 > e.upper) = true
  · simp only [hout, if_true] at hok
    exact Bool.noConfusion hok
  · simp only [hout, Bool.false_eq_true, if_false] at hok ⊢
    have hs0 : StartInv e (σ.setT t0 (σ.tst t0)) t0 (boundOf e σ t0) { cur := (initCursor e σ t0).1, offset := (initCursor e σ t0).2 } := by
      refine ⟨by rw [size_setT]; exact hb, by rw [tst_setT_same _ _ _ hb]; exact hf, ?_, ?_, fun h => absurd rfl h⟩
      · rw [hic]; exact Int.le_refl _
      · left; rw [hic]; exact ⟨rfl, rfl⟩
    by_cases hfin : (walkLoop e t0 true (e.size.toNat + 3) (σ.setT t0 (σ.tst t0))
        { cur := (initCursor e σ t0).1, offset := (initCursor e σ t0).2 }).2.2 = true
    · simp only [hfin, Bool.not_true, Bool.false_eq_true, if_false] at hok ⊢
      obtain ⟨v, hv, hle⟩ := walkLoop_start e wf t0 _ (boundOf_ge_start e σ t0) hpos hm _ _ _ hs0 hfin
      refine ⟨v, ?_, hle⟩
      have hsz : t0 < (walkLoop e t0 true (e.size.toNat + 3) (σ.setT t0 (σ.tst t0))
          { cur := (initCursor e σ t0).1, offset := (initCursor e σ t0).2 }).1.ts.size := by
        rw [(walkLoop_frame e t0 true _ _ _).2.2.2.2, size_setT]; exact hb
      rw [tst_setT_same _ _ _ hsz]
      unfold finalT
      simp only [if_true, hv, Option.isNone_some, Bool.false_eq_true, if_false]
    · have hfin' : (walkLoop e t0 true (e.size.toNat + 3) (σ.setT t0 (σ.tst t0))
        { cur := (initCursor e σ t0).1, offset := (initCursor e σ t0).2 }).2.2 = false := by simpa using hfin
      simp only [hfin', Bool.not_false, if_true] at hok
      exact Bool.noConfusion hok

end SP
