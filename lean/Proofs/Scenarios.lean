/-
Proofs/Scenarios.lean — what applying scenario-specific overrides does to the task list (C16):
the number of tasks never changes and a task no override names keeps every attribute.
-/
import Model
import Model.Scenarios
namespace SP
theorem applyOne_length (ts : List RawTask) (o : Override) : (applyOne ts o).length = ts.length := by
  simp [applyOne]

theorem applyOne_other (ts : List RawTask) (o : Override) (i : Nat) (h : o.task ≠ i) :
    (applyOne ts o)[i]? = ts[i]? := by
  unfold applyOne
  rw [List.getElem?_map, List.getElem?_zipIdx]
  cases hts : ts[i]? with
  | none => simp
  | some t =>
    simp only [Option.map_some, Nat.zero_add]
    rw [if_neg (by simpa using (fun h' : i = o.task => h h'.symm))]

theorem foldl_applyOne_length (ovs : List Override) (ts : List RawTask) :
    (ovs.foldl applyOne ts).length = ts.length := by
  induction ovs generalizing ts with
  | nil => rfl
  | cons o os ih => simp only [List.foldl_cons]; rw [ih, applyOne_length]

theorem foldl_applyOne_other (ovs : List Override) (ts : List RawTask) (i : Nat) (h : ∀ o ∈ ovs, o.task ≠ i) :
    (ovs.foldl applyOne ts)[i]? = ts[i]? := by
  induction ovs generalizing ts with
  | nil => rfl
  | cons o os ih =>
    simp only [List.foldl_cons]
    rw [ih _ (fun o' ho' => h o' (List.mem_cons_of_mem _ ho')), applyOne_other _ _ _ (h o List.mem_cons_self)]
/-- what an override does to the task it names: each attribute it carries replaces the base value, the others stay -/
theorem applyOne_same (ts : List RawTask) (o : Override) (t : RawTask) (h : ts[o.task]? = some t) :
    (applyOne ts o)[o.task]? = some { t with
      effort := (o.effort <|> t.effort), start := (o.start <|> t.start), stop := (o.stop <|> t.stop) } := by
  unfold applyOne
  rw [List.getElem?_map, List.getElem?_zipIdx, h]
  cases o.effort <;> cases o.start <;> cases o.stop <;> simp
/-- overrides that name no task of the project change nothing -/
theorem foldl_applyOne_void (ovs : List Override) (ts : List RawTask) (h : ∀ o ∈ ovs, ts.length ≤ o.task) :
    ovs.foldl applyOne ts = ts := by
  apply List.ext_getElem?
  intro i
  by_cases hi : i < ts.length
  · exact foldl_applyOne_other ovs ts i (fun o ho heq => by have := h o ho; omega)
  · have h1 : (ovs.foldl applyOne ts)[i]? = none := by
      rw [List.getElem?_eq_none_iff, foldl_applyOne_length]; omega
    rw [h1, List.getElem?_eq_none_iff.mpr (by omega)]
end SP
