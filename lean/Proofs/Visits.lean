import Proofs.FrameWalk
import Proofs.Team
/-!
C08 along the walk: every slot from the cursor to the finishing slot is visited, none is skipped, and a visited
slot ends up booked for the task exactly when, at the time it was visited, the resource was available to the task
and its limits allowed the booking.
-/
namespace SP

/-! ### a slot's operations touch that slot only -/

theorem reserveAt_other (σ : St) (r : Nat) (i : Int) (c : Rat) (r' : Nat) (i' : Int) (h : i' ≠ i) :
    (reserveAt σ r i c).led.get r' i' = σ.led.get r' i' := by
  rw [reserveAt_get]
  have : ¬ (r = r' ∧ i = i') := fun hh => h hh.2.symm
  simp [this]

theorem foldl_slotframe {α : Type} (f : St → α → St) (l : List α) (σ : St) (r' : Nat) (i' : Int)
    (hf : ∀ acc a, (f acc a).led.get r' i' = acc.led.get r' i') : (l.foldl f σ).led.get r' i' = σ.led.get r' i' := by
  induction l generalizing σ with
  | nil => rfl
  | cons x xs ih => simp only [List.foldl_cons]; rw [ih, hf]

theorem levelTeam_other (σ : St) (cur : Int) (sel : List Nat) (r' : Nat) (i' : Int) (h : i' ≠ cur) :
    (levelTeam σ cur sel).led.get r' i' = σ.led.get r' i' := by
  unfold levelTeam
  exact foldl_slotframe _ sel σ r' i' (fun acc m => reserveAt_other acc m cur _ r' i' h)

theorem leveled_other (e : Env) (σ : St) (t : Nat) (cur : Int) (sel : List Nat) (r' : Nat) (i' : Int) (h : i' ≠ cur) :
    (leveled e σ t cur sel).led.get r' i' = σ.led.get r' i' := by
  unfold leveled; split
  · exact levelTeam_other σ cur sel r' i' h
  · rfl

theorem bookAll_other (e : Env) (σ : St) (t : Nat) (w : Walk) (sel : List Nat) (r' : Nat) (i' : Int) (h : i' ≠ w.cur) :
    (bookAll e σ t w sel).σ.led.get r' i' = σ.led.get r' i' := by
  unfold bookAll
  have : ∀ (l : List Nat) (a : BookAcc), (l.foldl (bookOne e t w) a).σ.led.get r' i' = a.σ.led.get r' i' := by
    intro l
    induction l with
    | nil => intro a; rfl
    | cons x xs ih =>
      intro a
      simp only [List.foldl_cons]
      rw [ih]
      unfold bookOne; simp only []
      split <;> exact bookResource_frame e a.σ t w x r' i' (fun hh => h hh.2.symm)
  exact this sel _

theorem bookResources_other (e : Env) (σ : St) (t : Nat) (w : Walk) (r' : Nat) (i' : Int) (h : i' ≠ w.cur) :
    (bookResources e σ t w).1.led.get r' i' = σ.led.get r' i' := by
  unfold bookResources
  split
  · rfl
  · simp only []
    split
    · rfl
    · split
      · rfl
      · have h1 : (bookAll e (leveled e σ t w.cur (selectedOf e σ t w)) t { w with selected := some (selectedOf e σ t w) }
            (selectedOf e σ t w)).σ.led.get r' i' = σ.led.get r' i' := by
          rw [bookAll_other e _ t { w with selected := some (selectedOf e σ t w) } _ r' i' h, leveled_other e σ t w.cur _ r' i' h]
        split
        · rw [markStart_led]; exact h1
        · exact h1

theorem releaseOthers_other (σ : St) (t : Nat) (cur : Int) (r : Nat) (need : Rat) (sel : List Nat) (r' : Nat) (i' : Int)
    (h : i' ≠ cur) : (releaseOthers σ t cur r need sel).led.get r' i' = σ.led.get r' i' := by
  unfold releaseOthers
  apply foldl_slotframe
  intro acc m
  split
  · rfl
  · split
    · rfl
    · simp only [Ledger.get_set]
      have : ¬ (m = r' ∧ cur = i') := fun hh => h hh.2.symm
      simp [this]

theorem finishTask_other (e : Env) (σ : St) (t : Nat) (w : Walk) (before : Rat) (fwd : Bool) (r' : Nat) (i' : Int)
    (h : i' ≠ w.cur) : (finishTask e σ t w before fwd).1.led.get r' i' = σ.led.get r' i' := by
  unfold finishTask
  split
  · rfl
  · rename_i r0 _
    simp only []
    rw [releaseOthers_other _ _ _ _ _ _ _ _ h]
    simp only [Ledger.get_set]
    have : ¬ (r0 = r' ∧ w.cur = i') := fun hh => h hh.2.symm
    simp [this]

/-- everything `scheduleSlot` does to the ledger happens in the slot of the cursor -/
theorem scheduleSlot_other (e : Env) (σ : St) (t : Nat) (w : Walk) (r' : Nat) (i' : Int) (h : i' ≠ w.cur) :
    (scheduleSlot e σ t w).1.led.get r' i' = σ.led.get r' i' := by
  unfold scheduleSlot
  simp only []
  split
  · split
    · split <;> rfl
    · split <;> rfl
  · have h1 := bookResources_other e σ t w r' i' h
    have hc := (bookResources_walk e σ t w).1
    split
    · show (finishTask e (bookResources e σ t w).1 t (bookResources e σ t w).2 w.done (σ.tst t).forward).1.led.get r' i' = _
      rw [finishTask_other _ _ _ _ _ _ _ _ (by rw [hc]; exact h), h1]
    · exact h1

/-- a forward walk never touches a slot before its cursor -/
theorem walkLoop_before (e : Env) (t : Nat) (fuel : Nat) (σ : St) (w : Walk) (r' : Nat) (i' : Int) (h : i' < w.cur) :
    (walkLoop e t true fuel σ w).1.led.get r' i' = σ.led.get r' i' := by
  induction fuel generalizing σ w with
  | zero => rfl
  | succ f ih =>
    unfold walkLoop
    simp only []
    have h1 := scheduleSlot_other e σ t w r' i' (by omega)
    split
    · exact h1
    · split
      · exact h1
      · rw [ih]
        · exact h1
        · rw [advance_cur, scheduleSlot_cur]; simp only [if_true]; omega

end SP

namespace SP

/-! ### the visits of a forward walk -/

/-- the (state, walk) pairs in which `scheduleSlot` is called along a forward walk, in order -/
def walkVisits (e : Env) (t : Nat) : Nat → St → Walk → List (St × Walk)
  | 0, _, _ => []
  | f + 1, σ, w =>
    (σ, w) :: (if !(scheduleSlot e σ t w).2.2 then []
      else if (advance true w (scheduleSlot e σ t w).2.1).cur < 0 || (advance true w (scheduleSlot e σ t w).2.1).cur > e.upper then []
      else walkVisits e t f (scheduleSlot e σ t w).1 (advance true w (scheduleSlot e σ t w).2.1))

/-- **none skipped**: the k-th visit is at slot `cursor + k` -/
theorem walkVisits_consecutive (e : Env) (t : Nat) (fuel : Nat) (σ : St) (w : Walk) (k : Nat)
    (hk : k < (walkVisits e t fuel σ w).length) : ((walkVisits e t fuel σ w)[k]).2.cur = w.cur + k := by
  induction fuel generalizing σ w k with
  | zero => simp [walkVisits] at hk
  | succ f ih =>
    unfold walkVisits at hk ⊢
    cases k with
    | zero => simp
    | succ k =>
      simp only [List.getElem_cons_succ]
      split at hk
      · simp at hk
      · split at hk
        · simp at hk
        · rename_i h1 h2
          simp only [h1, h2, if_false, Bool.false_eq_true] at hk ⊢
          simp only [List.length_cons, Nat.add_lt_add_iff_right] at hk
          rw [ih _ _ k hk, advance_cur, scheduleSlot_cur]
          simp only [if_true]; omega

/-- the gate of one booking attempt on resource `r` in the state and walk of a visit -/
def gate (e : Env) (σ : St) (t : Nat) (w : Walk) (r : Nat) : Bool :=
  available e (reserveStep σ w r) r w.cur && taskLimitsOk e (reserveStep σ w r) t w.cur r

/-- single selection: the slot of the cursor carries an entry of the task afterwards iff the gate was open -/
theorem bookResources_single_iff (e : Env) (σ : St) (t : Nat) (w : Walk) (r : Nat)
    (ha : (e.taskD t).hasAlloc = true) (hsel : selectedOf e σ t w = [r])
    (hnone : usageOf (σ.led.get r w.cur).usage t = none) :
    usageOf ((bookResources e σ t w).1.led.get r w.cur).usage t ≠ none ↔ gate e σ t w r = true := by
  rw [bookResources_single e σ t w r ha hsel]
  simp only []
  have key : usageOf ((bookResource e σ t { w with selected := some [r] } r).1.led.get r w.cur).usage t ≠ none ↔
      gate e σ t w r = true := by
    rw [bookResource_books_iff]
    have hrs : reserveStep σ { w with selected := some [r] } r = reserveStep σ w r := rfl
    have hn' : usageOf ((reserveStep σ w r).led.get r w.cur).usage t = none := by rw [reserveStep_get]; exact hnone
    unfold gate
    simp only [hrs]
    split
    · rename_i hc
      constructor
      · intro _; exact hc
      · intro _
        rw [bookSlot_entry, usageOf_append_none _ _ _ hn']; simp
    · rename_i hc
      constructor
      · intro hne; exact absurd hn' hne
      · intro hg; exact absurd hg hc
  split
  · simp only [markStart_led]; exact key
  · exact key

end SP

namespace SP

/-- the finishing slot carries an entry of the task, and its gate was open -/
theorem scheduleSlot_finish_entry (e : Env) (wf : WF e) (σ : St) (t r : Nat) (w : Walk) (vis : List Int)
    (hinv : Inv e σ) (hlf : (e.taskD t).leaf = true) (hw : WalkOk e t w)
    (ha : (e.taskD t).hasAlloc = true) (hm : (e.taskD t).milestone = false)
    (hsel : selectedOf e σ t w = [r]) (hlt : w.done < (e.taskD t).effort) (hpos : 0 < (e.taskD t).effort)
    (h : FInv e σ t r w vis) (hc : (scheduleSlot e σ t w).2.2 = false) :
    usageOf ((scheduleSlot e σ t w).1.led.get r w.cur).usage t ≠ none ∧ gate e σ t w r = true := by
  have hcur_notin : w.cur ∉ vis := by
    intro hin
    have := h.acc.before _ hin
    simp only [if_true] at this; omega
  have hnone := h.acc.only _ hcur_notin
  obtain ⟨hdone, hframe, hselw, hcurw, hoffw, hlastw⟩ := bookResources_single_acc e wf σ t w r ha hsel hnone
  have hb := bookResources_inv e σ t w wf hinv hlf hw
  have heff := wf.eff_pos r
  have hz : ((e.taskD t).effort == 0) = false := by
    simp only [beq_eq_false_iff_ne, ne_eq]; grind
  have hfin : (bookResources e σ t w).2.done ≥ (e.taskD t).effort := by
    unfold scheduleSlot at hc
    simp only [hm, hz, Bool.or_self, Bool.false_eq_true, if_false] at hc
    by_cases hfin : (bookResources e σ t w).2.done ≥ (e.taskD t).effort
    · exact hfin
    · simp only [hfin, if_false] at hc; exact Bool.noConfusion hc
  have hgain : taskSecs ((bookResources e σ t w).1.led.get r w.cur) t ≠ 0 := by
    intro h0; rw [h0] at hdone; grind
  have hu := taskSecs_ne_zero _ _ hgain
  have haG := entry_le_G e _ hb r w.cur t _ hu
  have hlast : (bookResources e σ t w).2.last = some r := hlastw (by grind)
  have hge : (e.taskD t).effort ≤ w.done + taskSecs ((bookResources e σ t w).1.led.get r w.cur) t / 3600 * (e.resD r).eff := by
    rw [← hdone]; exact hfin
  have hfs := finishTask_secs e wf (bookResources e σ t w).1 t (bookResources e σ t w).2 w.done (σ.tst t).forward r _
    hlast hselw (by rw [hcurw]; exact hu) haG hlt hge
  rw [hcurw] at hfs
  have hled : (scheduleSlot e σ t w).1.led =
      (finishTask e (bookResources e σ t w).1 t (bookResources e σ t w).2 w.done (σ.tst t).forward).1.led := by
    unfold scheduleSlot
    simp only [hm, hz, Bool.or_self, Bool.false_eq_true, if_false, hfin, if_true]
    rfl
  refine ⟨by rw [hled, hfs.1]; simp, ?_⟩
  exact (bookResources_single_iff e σ t w r ha hsel hnone).mp (by rw [hu]; simp)

/-- **no eligible slot left idle**: along the forward walk of a single-resource task that finishes, every visited slot
    ends up carrying an entry of the task exactly when its gate (resource available ∧ task limits allow) was open at the
    moment of the visit -/
theorem walkLoop_no_idle (e : Env) (wf : WF e) (t r : Nat) (fuel : Nat) (σ : St) (w : Walk) (vis : List Int)
    (hinv : Inv e σ) (hlf : (e.taskD t).leaf = true) (hw : WalkOk e t w)
    (ha : (e.taskD t).hasAlloc = true) (hm : (e.taskD t).milestone = false)
    (hsel : selectedOf e σ t w = [r]) (hlt : w.done < (e.taskD t).effort) (hpos : 0 < (e.taskD t).effort)
    (h : FInv e σ t r w vis) (hok : (walkLoop e t true fuel σ w).2.2 = true) :
    ∀ p ∈ walkVisits e t fuel σ w,
      (usageOf ((walkLoop e t true fuel σ w).1.led.get r p.2.cur).usage t ≠ none ↔ gate e p.1 t p.2 r = true) := by
  induction fuel generalizing σ w vis with
  | zero => simp [walkLoop] at hok
  | succ f ih =>
    have hs := scheduleSlot_inv e σ t w wf hinv hlf hw
    have hsa := scheduleSlot_acc e wf σ t r true w vis hinv hlf hw ha hm hsel hlt hpos h.acc
    have hsf := scheduleSlot_finv e wf σ t r w vis hinv hlf hw ha hm hsel hlt hpos h
    have hcur_notin : w.cur ∉ vis := by
      intro hin
      have := h.acc.before _ hin
      simp only [if_true] at this; omega
    have hnone := h.acc.only _ hcur_notin
    have hz : ((e.taskD t).effort == 0) = false := by
      simp only [beq_eq_false_iff_ne, ne_eq]; grind
    unfold walkLoop at hok ⊢
    unfold walkVisits
    simp only [] at hok ⊢
    by_cases hc : (scheduleSlot e σ t w).2.2 = true
    · simp only [hc, Bool.not_true, Bool.false_eq_true, if_false] at hok ⊢
      obtain ⟨_, hsel', hlt'⟩ := hsa.1 hc
      have hw1 := hs.2 hc
      by_cases hout : ((advance true w (scheduleSlot e σ t w).2.1).cur < 0 || (advance true w (scheduleSlot e σ t w).2.1).cur > e.upper) = true
      · simp only [hout, if_true] at hok
        exact Bool.noConfusion hok
      · simp only [hout, Bool.false_eq_true, if_false] at hok ⊢
        intro p hp
        rcases List.mem_cons.mp hp with hp | hp
        · subst hp
          simp only []
          rw [walkLoop_before e t f _ _ r w.cur (by rw [advance_cur, scheduleSlot_cur]; simp only [if_true]; omega)]
          have hst : (scheduleSlot e σ t w).1 = (bookResources e σ t w).1 := by
            unfold scheduleSlot at hc ⊢
            simp only [hm, hz, Bool.or_self, Bool.false_eq_true, if_false] at hc ⊢
            by_cases hfin : (bookResources e σ t w).2.done ≥ (e.taskD t).effort
            · simp only [hfin, if_true] at hc; exact Bool.noConfusion hc
            · simp only [hfin, if_false]
          rw [hst]
          exact bookResources_single_iff e σ t w r ha hsel hnone
        · exact ih (scheduleSlot e σ t w).1 (advance true w (scheduleSlot e σ t w).2.1) (w.cur :: vis) hs.1
            (walkOk_advance e t wf _ _ _ hw1)
            (selectedOf_some e _ t _ [r] hsel') hlt' (hsf.1 hc) hok p hp
    · have hc' : (scheduleSlot e σ t w).2.2 = false := by simpa using hc
      simp only [hc', Bool.not_false, if_true] at hok ⊢
      intro p hp
      have hp' : p = (σ, w) := by simpa using hp
      subst hp'
      have := scheduleSlot_finish_entry e wf σ t r w vis hinv hlf hw ha hm hsel hlt hpos h hc'
      exact ⟨fun _ => this.2, fun _ => this.1⟩

end SP

namespace SP

/-- **one forward task, no idle slot**: the slots `cursor, cursor+1, …` up to the finishing slot are visited in order, and
    in the final ledger of `scheduleTask` a visited slot carries an entry of the task on `r` iff the gate was open when
    it was visited -/
theorem scheduleTask_no_idle (e : Env) (wf : WF e) (σ : St) (t r : Nat)
    (hinv : Inv e σ) (hel : Elig e t r) (hb : t < σ.ts.size) (hf : (σ.tst t).forward = true)
    (hnd : (σ.tst t).done = false) (hclean : ∀ i, usageOf (σ.led.get r i).usage t = none)
    (hok : (scheduleTask e σ t).2 = true) :
    ∀ p ∈ walkVisits e t (e.size.toNat + 3) (σ.setT t (σ.tst t))
        { cur := (initCursor e σ t).1, offset := (initCursor e σ t).2 },
      (usageOf ((scheduleTask e σ t).1.led.get r p.2.cur).usage t ≠ none ↔ gate e p.1 t p.2 r = true) := by
  have hpos := hel.effort
  have hpc : preStartCursor e σ t (initCursor e σ t).1 = (initCursor e σ t).1 := by
    unfold preStartCursor; simp [hel.alloc]
  have hpt : preStartT e σ t (initCursor e σ t).1 = σ.tst t := by
    unfold preStartT; simp [hel.alloc]
  have hoff := initCursor_off e σ t wf
  unfold scheduleTask at hok ⊢
  simp only [hnd, Bool.false_eq_true, if_false, hpc, hpt, hf] at hok ⊢
  have h0 : Inv e (σ.setT t (σ.tst t)) := inv_setT _ _ hinv
  by_cases hout : ((initCursor e σ t).1 < 0 || (initCursor e σ t).1 > e.upper) = true
  · simp only [hout, if_true] at hok
    exact Bool.noConfusion hok
  · simp only [hout, Bool.false_eq_true, if_false] at hok ⊢
    have hw : WalkOk e t { cur := (initCursor e σ t).1, offset := (initCursor e σ t).2 } :=
      ⟨hoff.1, hoff.2, wf.effort_nonneg t⟩
    have hfi : FInv e (σ.setT t (σ.tst t)) t r { cur := (initCursor e σ t).1, offset := (initCursor e σ t).2 } [] := by
      refine ⟨⟨fun i _ => hclean i, fun i hi => absurd hi List.not_mem_nil,
          by show (0 : Rat) = sumOver _ r t [] / 3600 * (e.resD r).eff; simp only [sumOver]; grind, List.nodup_nil⟩,
        by rw [size_setT]; exact hb, by rw [tst_setT_same _ _ _ hb]; exact hf, Rat.le_refl,
        ⟨fun _ i hi => absurd hi List.not_mem_nil, fun hne => absurd rfl hne⟩⟩
    have hs0 : selectedOf e (σ.setT t (σ.tst t)) t { cur := (initCursor e σ t).1, offset := (initCursor e σ t).2 } = [r] := by
      unfold selectedOf; exact hel.sel _ _
    by_cases hfin : (walkLoop e t true (e.size.toNat + 3) (σ.setT t (σ.tst t))
        { cur := (initCursor e σ t).1, offset := (initCursor e σ t).2 }).2.2 = true
    · simp only [hfin, Bool.not_true, Bool.false_eq_true, if_false] at hok ⊢
      exact walkLoop_no_idle e wf t r _ _ _ [] h0 hel.leaf hw hel.alloc hel.nomile hs0 hpos hpos hfi hfin
    · have hfin' : (walkLoop e t true (e.size.toNat + 3) (σ.setT t (σ.tst t))
        { cur := (initCursor e σ t).1, offset := (initCursor e σ t).2 }).2.2 = false := by simpa using hfin
      simp only [hfin', Bool.not_false, if_true] at hok
      exact Bool.noConfusion hok

end SP
