import Proofs.FrameBack
import Proofs.EffortAlt
/-!
C06 for tasks with an alternative: whichever single resource `_selectBestResources` chose at the first slot, the task is
framed on it (both modes).
-/
namespace SP

/-- what holds of every completed task with one primary and one alternative resource: it is framed on one of the two -/
def DoneFramedAlt (e : Env) (σ : St) : Prop :=
  ∀ t r1 r2, EligAlt e t r1 r2 → (σ.tst t).done = true → ∃ r, (r = r1 ∨ r = r2) ∧ Framed e σ t r

structure FrInvAlt (e : Env) (σ : St) (tasks : List Nat) : Prop where
  inv : Inv e σ
  nodup : tasks.Nodup
  leaf : ∀ t ∈ tasks, (e.taskD t).leaf = true
  inrange : ∀ t ∈ tasks, t < σ.ts.size
  pending : ∀ t ∈ tasks, (σ.tst t).done = false ∧ ∀ r i, usageOf (σ.led.get r i).usage t = none
  ok : DoneFramedAlt e σ

theorem frInvAlt_step (e : Env) (wf : WF e) (σ : St) (tasks : List Nat) (t0 : Nat) (h : FrInvAlt e σ tasks)
    (hmem : t0 ∈ tasks) : FrInvAlt e (updateContainers e (scheduleTask e σ t0).1) (tasks.erase t0) := by
  have hlf0 := h.leaf t0 hmem
  have hinv1 := scheduleTask_inv e σ t0 wf h.inv hlf0
  have hsame : ∀ x, (e.taskD x).leaf = true → x ≠ t0 →
      (updateContainers e (scheduleTask e σ t0).1).tst x = σ.tst x := by
    intro x hx hne
    rw [updateContainers_leaf e _ x hx, scheduleTask_other e σ t0 x hne]
  refine ⟨updateContainers_inv e _ hinv1, h.nodup.erase t0, fun t ht => h.leaf t (List.mem_of_mem_erase ht), ?_, ?_, ?_⟩
  · intro t ht
    rw [updateContainers_size, scheduleTask_size]; exact h.inrange t (List.mem_of_mem_erase ht)
  · intro t ht
    have htm : t ∈ tasks := List.mem_of_mem_erase ht
    have hne : t ≠ t0 := fun heq => by
      rw [heq] at ht; exact (List.Nodup.not_mem_erase h.nodup) ht
    obtain ⟨hd, hc⟩ := h.pending t htm
    refine ⟨by rw [hsame t (h.leaf t htm) hne]; exact hd, fun r i => ?_⟩
    rw [updateContainers_led, scheduleTask_same e σ t0 t (Ne.symm hne) r i]
    exact hc r i
  · intro t r1 r2 hel hd
    by_cases heq : t = t0
    · subst heq
      rw [updateContainers_leaf e _ t hel.leaf] at hd
      obtain ⟨hnd, hclean⟩ := h.pending t hmem
      have hok := scheduleTask_done e σ t hnd hd
      have hs := selectBest_alt e (σ.setT t (σ.tst t)) r1 r2 (e.taskD t).effort (initCursor e σ t).1
      have key : ∀ r, selectBest e (σ.setT t (σ.tst t)) [r1] [r2] (e.taskD t).effort (initCursor e σ t).1 = [r] →
          Framed e (scheduleTask e σ t).1 t r := by
        intro r hsr
        have hsel0 : selectBest e (σ.setT t (σ.tst t)) (e.taskD t).alloc (e.taskD t).alt (e.taskD t).effort
            (initCursor e σ t).1 = [r] := by rw [hel.prim, hel.alt]; exact hsr
        cases hfw : (σ.tst t).forward with
        | true =>
          exact scheduleTask_framed_sel e wf σ t r h.inv hel.leaf hel.alloc hel.nomile hel.effort hsel0
            (h.inrange t hmem) hfw hnd (hclean r) hok
        | false =>
          exact scheduleTask_framed_back_sel e wf σ t r h.inv hel.leaf hel.alloc hel.nomile hel.effort hsel0
            (h.inrange t hmem) hfw hnd (hclean r) hok
      rcases hs with hs | hs
      · exact ⟨r1, Or.inl rfl, Framed.of_same (SameEntries.of_led (updateContainers_led e _))
          (updateContainers_leaf e _ t hel.leaf) (key r1 hs)⟩
      · exact ⟨r2, Or.inr rfl, Framed.of_same (SameEntries.of_led (updateContainers_led e _))
          (updateContainers_leaf e _ t hel.leaf) (key r2 hs)⟩
    · have hts := hsame t hel.leaf heq
      rw [hts] at hd
      obtain ⟨r, hr, hfr⟩ := h.ok t r1 r2 hel hd
      refine ⟨r, hr, Framed.of_same ?_ hts hfr⟩
      exact (scheduleTask_same e σ t0 t (Ne.symm heq)).trans (SameEntries.of_led (updateContainers_led e _))

theorem DoneFramedAlt.of_eq {e : Env} {σ σ' : St} (hl : σ'.led = σ.led) (ht : σ'.ts = σ.ts) (h : DoneFramedAlt e σ) :
    DoneFramedAlt e σ' := by
  unfold DoneFramedAlt Framed St.tst at *
  rw [hl, ht]; exact h

theorem pickLoop_doneFramedAlt (e : Env) (wf : WF e) (fuel : Nat) (tasks failed : List Nat) (σ : St)
    (h : FrInvAlt e σ tasks) : DoneFramedAlt e (pickLoop e fuel tasks failed σ).1 := by
  induction fuel generalizing tasks failed σ with
  | zero => exact h.ok
  | succ f ih =>
    unfold pickLoop
    split
    · exact h.ok
    · split
      · rename_i t0 hfind
        exact ih _ _ _ (frInvAlt_step e wf σ tasks t0 h (List.mem_of_find?_eq_some hfind))
      · split
        · exact DoneFramedAlt.of_eq (σ := σ) rfl rfl h.ok
        · exact h.ok

/-- **C06 with an alternative, both modes, end to end**: after scheduling any well-formed project, every completed effort
    task with one primary and one alternative resource is framed on ONE of the two. -/
theorem runScenario_framed_alt (e : Env) (wf : WF e) : DoneFramedAlt e (runScenario e) := by
  unfold runScenario
  have hprep : Inv e (prepare e (initState e)) := prepare_inv e _ (inv_init e wf)
  have hd : DoneFalse (prepare e (initState e)) := prepare_doneFalse e _ (doneFalse_init e)
  have hsz : (prepare e (initState e)).ts.size = e.tasks.size := by rw [prepare_size, initState_size]
  have h2 : FrInvAlt e (preLoop e (prepare e (initState e))) (todoOf e (preLoop e (prepare e (initState e)))) := by
    refine ⟨preLoop_inv e _ hprep, todoOf_nodup e _, todoOf_leaf e _, ?_, ?_, ?_⟩
    · intro t ht; rw [preLoop_size, hsz]; exact (todoOf_mem e _ t ht).1
    · intro t _
      refine ⟨preLoop_doneFalse e _ hd t, fun r i => ?_⟩
      rw [preLoop_led, prepare_led]; simp [initState, Ledger.get_empty, usageOf]
    · intro t r1 r2 _ hdone
      rw [preLoop_doneFalse e _ hd t] at hdone
      exact Bool.noConfusion hdone
  have h3 := pickLoop_doneFramedAlt e wf ((todoOf e (preLoop e (prepare e (initState e)))).length + 1)
    (todoOf e (preLoop e (prepare e (initState e)))) [] _ h2
  have h4 : DoneFramedAlt e (scheduleScenario e (prepare e (initState e))) := by
    unfold scheduleScenario
    simp only []
    split
    · exact h3
    · exact DoneFramedAlt.of_eq (σ := (pickLoop e ((todoOf e (preLoop e (prepare e (initState e)))).length + 1)
        (todoOf e (preLoop e (prepare e (initState e)))) [] (preLoop e (prepare e (initState e)))).1) rfl rfl h3
  intro t r1 r2 hel hdn
  rw [finishScenario_leafT e _ t hel.leaf] at hdn
  obtain ⟨r, hr, hfr⟩ := h4 t r1 r2 hel hdn
  exact ⟨r, hr, Framed.of_same (SameEntries.of_led (finishScenario_led e _)) (finishScenario_leafT e _ t hel.leaf) hfr⟩

end SP
