import Proofs.FrameBack
import Proofs.EffortAlt
/-!
C06 / C11: the reported dates of a scheduled effort task are ordered, start ≤ end — for every task with a single selected
resource and every task with one primary and one alternative resource, forward or backward.
-/
namespace SP

def DoneOrdered (e : Env) (σ : St) : Prop :=
  (∀ t r, Elig e t r → (σ.tst t).done = true → Ordered σ t) ∧
  (∀ t r1 r2, EligAlt e t r1 r2 → (σ.tst t).done = true → Ordered σ t)

structure OrdInv (e : Env) (σ : St) (tasks : List Nat) : Prop where
  inv : Inv e σ
  nodup : tasks.Nodup
  leaf : ∀ t ∈ tasks, (e.taskD t).leaf = true
  inrange : ∀ t ∈ tasks, t < σ.ts.size
  pending : ∀ t ∈ tasks, (σ.tst t).done = false ∧ ∀ r i, usageOf (σ.led.get r i).usage t = none
  ok : DoneOrdered e σ

theorem Ordered.of_tst {σ σ' : St} {t : Nat} (h : σ'.tst t = σ.tst t) (ho : Ordered σ t) : Ordered σ' t := by
  unfold Ordered at *; rw [h]; exact ho

theorem ordInv_step (e : Env) (wf : WF e) (σ : St) (tasks : List Nat) (t0 : Nat) (h : OrdInv e σ tasks)
    (hmem : t0 ∈ tasks) : OrdInv e (updateContainers e (scheduleTask e σ t0).1) (tasks.erase t0) := by
  have hlf0 := h.leaf t0 hmem
  have hinv1 := scheduleTask_inv e σ t0 wf h.inv hlf0
  have hsame : ∀ x, (e.taskD x).leaf = true → x ≠ t0 →
      (updateContainers e (scheduleTask e σ t0).1).tst x = σ.tst x := by
    intro x hx hne
    rw [updateContainers_leaf e _ x hx, scheduleTask_other e σ t0 x hne]
  -- the task just scheduled, whatever single resource its selection names
  have key : ∀ r, (e.taskD t0).leaf = true → (e.taskD t0).hasAlloc = true → (e.taskD t0).milestone = false →
      0 < (e.taskD t0).effort →
      selectBest e (σ.setT t0 (σ.tst t0)) (e.taskD t0).alloc (e.taskD t0).alt (e.taskD t0).effort (initCursor e σ t0).1 = [r] →
      ((updateContainers e (scheduleTask e σ t0).1).tst t0).done = true →
      Ordered (updateContainers e (scheduleTask e σ t0).1) t0 := by
    intro r hlf hal hnm hpos hsel hd
    rw [updateContainers_leaf e _ t0 hlf] at hd
    obtain ⟨hnd, hclean⟩ := h.pending t0 hmem
    have hok := scheduleTask_done e σ t0 hnd hd
    have hord : Ordered (scheduleTask e σ t0).1 t0 := by
      cases hfw : (σ.tst t0).forward with
      | true =>
        exact (scheduleTask_framed_sel2 e wf σ t0 r h.inv hlf hal hnm hpos hsel (h.inrange t0 hmem) hfw hnd (hclean r) hok).2
      | false =>
        exact (scheduleTask_framed_back_sel2 e wf σ t0 r h.inv hlf hal hnm hpos hsel (h.inrange t0 hmem) hfw hnd (hclean r) hok).2
    exact Ordered.of_tst (updateContainers_leaf e _ t0 hlf) hord
  refine ⟨updateContainers_inv e _ hinv1, h.nodup.erase t0, fun t ht => h.leaf t (List.mem_of_mem_erase ht), ?_, ?_, ?_, ?_⟩
  · intro t ht
    rw [updateContainers_size, scheduleTask_size]; exact h.inrange t (List.mem_of_mem_erase ht)
  · intro t ht
    have htm : t ∈ tasks := List.mem_of_mem_erase ht
    have hne : t ≠ t0 := fun heq => by
      rw [heq] at ht; exact (List.Nodup.not_mem_erase h.nodup) ht
    obtain ⟨hd, hc⟩ := h.pending t htm
    refine ⟨by rw [hsame t (h.leaf t htm) hne]; exact hd, fun r i => ?_⟩
    rw [updateContainers_led, scheduleTask_same e σ t0 t (Ne.symm hne) r i]
    exact hc r i
  · intro t r hel hd
    by_cases heq : t = t0
    · subst heq
      exact key r hel.leaf hel.alloc hel.nomile hel.effort (hel.sel _ _) hd
    · have hts := hsame t hel.leaf heq
      rw [hts] at hd
      exact Ordered.of_tst hts (h.ok.1 t r hel hd)
  · intro t r1 r2 hel hd
    by_cases heq : t = t0
    · subst heq
      rcases selectBest_alt e (σ.setT t (σ.tst t)) r1 r2 (e.taskD t).effort (initCursor e σ t).1 with hs | hs
      · exact key r1 hel.leaf hel.alloc hel.nomile hel.effort (by rw [hel.prim, hel.alt]; exact hs) hd
      · exact key r2 hel.leaf hel.alloc hel.nomile hel.effort (by rw [hel.prim, hel.alt]; exact hs) hd
    · have hts := hsame t hel.leaf heq
      rw [hts] at hd
      exact Ordered.of_tst hts (h.ok.2 t r1 r2 hel hd)

theorem DoneOrdered.of_eq {e : Env} {σ σ' : St} (ht : σ'.ts = σ.ts) (h : DoneOrdered e σ) : DoneOrdered e σ' := by
  unfold DoneOrdered Ordered St.tst at *
  rw [ht]; exact h

theorem pickLoop_doneOrdered (e : Env) (wf : WF e) (fuel : Nat) (tasks failed : List Nat) (σ : St)
    (h : OrdInv e σ tasks) : DoneOrdered e (pickLoop e fuel tasks failed σ).1 := by
  induction fuel generalizing tasks failed σ with
  | zero => exact h.ok
  | succ f ih =>
    unfold pickLoop
    split
    · exact h.ok
    · split
      · rename_i t0 hfind
        exact ih _ _ _ (ordInv_step e wf σ tasks t0 h (List.mem_of_find?_eq_some hfind))
      · split
        · exact DoneOrdered.of_eq (σ := σ) rfl h.ok
        · exact h.ok

/-- **start ≤ end, end to end**: after scheduling any well-formed project, every completed effort task with a single selected
    resource, or with one primary and one alternative resource, has a reported start and a reported end with start ≤ end —
    forward or backward, whether it spans many slots or begins and finishes inside one. -/
theorem runScenario_ordered (e : Env) (wf : WF e) : DoneOrdered e (runScenario e) := by
  unfold runScenario
  have hprep : Inv e (prepare e (initState e)) := prepare_inv e _ (inv_init e wf)
  have hd : DoneFalse (prepare e (initState e)) := prepare_doneFalse e _ (doneFalse_init e)
  have hsz : (prepare e (initState e)).ts.size = e.tasks.size := by rw [prepare_size, initState_size]
  have h2 : OrdInv e (preLoop e (prepare e (initState e))) (todoOf e (preLoop e (prepare e (initState e)))) := by
    refine ⟨preLoop_inv e _ hprep, todoOf_nodup e _, todoOf_leaf e _, ?_, ?_, ?_, ?_⟩
    · intro t ht; rw [preLoop_size, hsz]; exact (todoOf_mem e _ t ht).1
    · intro t _
      refine ⟨preLoop_doneFalse e _ hd t, fun r i => ?_⟩
      rw [preLoop_led, prepare_led]; simp [initState, Ledger.get_empty, usageOf]
    · intro t r _ hdone
      rw [preLoop_doneFalse e _ hd t] at hdone
      exact Bool.noConfusion hdone
    · intro t r1 r2 _ hdone
      rw [preLoop_doneFalse e _ hd t] at hdone
      exact Bool.noConfusion hdone
  have h3 := pickLoop_doneOrdered e wf ((todoOf e (preLoop e (prepare e (initState e)))).length + 1)
    (todoOf e (preLoop e (prepare e (initState e)))) [] _ h2
  have h4 : DoneOrdered e (scheduleScenario e (prepare e (initState e))) := by
    unfold scheduleScenario
    simp only []
    split
    · exact h3
    · exact DoneOrdered.of_eq (σ := (pickLoop e ((todoOf e (preLoop e (prepare e (initState e)))).length + 1)
        (todoOf e (preLoop e (prepare e (initState e)))) [] (preLoop e (prepare e (initState e)))).1) rfl h3
  refine ⟨?_, ?_⟩
  · intro t r hel hdn
    rw [finishScenario_leafT e _ t hel.leaf] at hdn
    exact Ordered.of_tst (finishScenario_leafT e _ t hel.leaf) (h4.1 t r hel hdn)
  · intro t r1 r2 hel hdn
    rw [finishScenario_leafT e _ t hel.leaf] at hdn
    exact Ordered.of_tst (finishScenario_leafT e _ t hel.leaf) (h4.2 t r1 r2 hel hdn)

end SP
