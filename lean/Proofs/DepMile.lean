import Proofs.DepAll
/-!
C04 for milestones as dependents: a forward milestone (or a leaf without effort) without a start of its own that the loop
placed lies at or after `(start | end) + gap` of every predecessor.
-/
namespace SP

/-- a leaf the scheduler treats as a milestone (`milestone`, or no effort), without a start of its own -/
structure FwdMile (e : Env) (t : Nat) : Prop where
  leaf : (e.taskD t).leaf = true
  mile : ((e.taskD t).milestone || (e.taskD t).effort == 0) = true
  nostart : (e.taskD t).startProvided = false

theorem walkLoop_milestone (e : Env) (σ : St) (t : Nat) (w : Walk) (f : Nat)
    (hm : ((e.taskD t).milestone || (e.taskD t).effort == 0) = true) (hf : (σ.tst t).forward = true)
    (hnp : (e.taskD t).startProvided = false) :
    (walkLoop e t true (f + 1) σ w).1 =
      σ.setT t { σ.tst t with start := some (markDate e w.cur w.offset), stop := some (markDate e w.cur w.offset) } ∧
    (walkLoop e t true (f + 1) σ w).2.2 = true := by
  have hs : scheduleSlot e σ t w =
      (σ.setT t { σ.tst t with start := some (markDate e w.cur w.offset), stop := some (markDate e w.cur w.offset) }, w, false) := by
    unfold scheduleSlot
    simp only [hm, if_true, hf, hnp, Bool.and_false, Bool.false_eq_true, if_false]
    rfl
  unfold walkLoop
  simp only [hs, Bool.not_false, if_true]
  exact ⟨trivial, trivial⟩

/-- **one forward milestone**: a successful `scheduleTask` dates it at its dependency bound -/
theorem scheduleTask_start_ge_mile (e : Env) (wf : WF e) (σ : St) (t0 : Nat)
    (hb : t0 < σ.ts.size) (hf : (σ.tst t0).forward = true) (hel : FwdMile e t0)
    (hnd : (σ.tst t0).done = false) (hok : (scheduleTask e σ t0).2 = true) :
    ∃ v, ((scheduleTask e σ t0).1.tst t0).start = some v ∧ boundOf e σ t0 ≤ v := by
  have hic := initCursor_forward e σ t0 hf hel.nostart
  have hpc : preStartCursor e σ t0 (initCursor e σ t0).1 = (initCursor e σ t0).1 := by
    unfold preStartCursor; simp [hel.mile]
  have hpt : preStartT e σ t0 (initCursor e σ t0).1 = σ.tst t0 := by
    unfold preStartT; simp [hel.mile]
  have hB := boundOf_ge_start e σ t0
  have hdate : boundOf e σ t0 ≤ markDate e (initCursor e σ t0).1 (initCursor e σ t0).2 := by
    rw [hic]; exact markDate_ge e wf _ hB _ (Int.le_refl _)
  have hsz0 : t0 < (σ.setT t0 (σ.tst t0)).ts.size := by rw [size_setT]; exact hb
  have hf0 : ((σ.setT t0 (σ.tst t0)).tst t0).forward = true := by rw [tst_setT_same _ _ _ hb]; exact hf
  obtain ⟨hw1, hw2⟩ := walkLoop_milestone e (σ.setT t0 (σ.tst t0)) t0
    { cur := (initCursor e σ t0).1, offset := (initCursor e σ t0).2 } (e.size.toNat + 2) hel.mile hf0 hel.nostart
  unfold scheduleTask at hok ⊢
  simp only [hnd, Bool.false_eq_true, if_false, hpc, hpt, hf] at hok ⊢
  by_cases hout : ((initCursor e σ t0).1 < 0 || (initCursor e σ t0).1 > e.upper) = true
  · simp only [hout, if_true] at hok
    exact Bool.noConfusion hok
  · simp only [hout, Bool.false_eq_true, if_false] at hok ⊢
    have h3 : (e.size.toNat + 3) = (e.size.toNat + 2) + 1 := rfl
    rw [h3]
    simp only [hw2, Bool.not_true, Bool.false_eq_true, if_false]
    rw [hw1]
    refine ⟨markDate e (initCursor e σ t0).1 (initCursor e σ t0).2, ?_, hdate⟩
    have hsz1 : t0 < ((σ.setT t0 (σ.tst t0)).setT t0
        { (σ.setT t0 (σ.tst t0)).tst t0 with
          start := some (markDate e (initCursor e σ t0).1 (initCursor e σ t0).2),
          stop := some (markDate e (initCursor e σ t0).1 (initCursor e σ t0).2) }).ts.size := by
      rw [size_setT]; exact hsz0
    rw [tst_setT_same _ _ _ hsz1, tst_setT_same _ _ _ hsz0]
    unfold finalT
    simp

/-- a forward leaf without a start of its own: an effort task with an allocation, or a milestone -/
def FwdAny (e : Env) (t : Nat) : Prop := FwdEff e t ∨ FwdMile e t

theorem FwdAny.leaf' {e : Env} {t : Nat} (h : FwdAny e t) : (e.taskD t).leaf = true := by
  rcases h with h | h
  · exact h.leaf
  · exact h.leaf

theorem scheduleTask_start_ge_any (e : Env) (wf : WF e) (σ : St) (t0 : Nat)
    (hb : t0 < σ.ts.size) (hf : (σ.tst t0).forward = true) (hel : FwdAny e t0)
    (hnd : (σ.tst t0).done = false) (hok : (scheduleTask e σ t0).2 = true) :
    ∃ v, ((scheduleTask e σ t0).1.tst t0).start = some v ∧ boundOf e σ t0 ≤ v := by
  rcases hel with h | h
  · exact scheduleTask_start_ge e wf σ t0 hb hf h.nostart h.alloc h.nomile h.effort hnd hok
  · exact scheduleTask_start_ge_mile e wf σ t0 hb hf h hnd hok

def DepsOKAny (e : Env) (σ : St) : Prop :=
  ∀ t, FwdAny e t → (σ.tst t).done = true → (σ.tst t).forward = true →
    ∀ dp ∈ (e.taskD t).allDeps,
      (σ.tst dp.target).scheduled = true ∧
      ∀ dt v, dateOf σ dp = some dt → (σ.tst t).start = some v → depDate e dp dt ≤ v

structure DepInvAny (e : Env) (σ : St) (tasks : List Nat) : Prop where
  nodup : tasks.Nodup
  leaf : ∀ t ∈ tasks, (e.taskD t).leaf = true
  inrange : ∀ t ∈ tasks, t < σ.ts.size
  unsched : ∀ t ∈ tasks, (σ.tst t).scheduled = false ∧ (σ.tst t).done = false
  ok : DepsOKAny e σ

theorem depInvAny_step (e : Env) (wf : WF e) (σ : St) (tasks : List Nat) (t0 : Nat) (h : DepInvAny e σ tasks)
    (hmem : t0 ∈ tasks) (hready : ready e σ t0 = true) :
    DepInvAny e (updateContainers e (scheduleTask e σ t0).1) (tasks.erase t0) := by
  have hlf0 := h.leaf t0 hmem
  obtain ⟨hus0, hnd0⟩ := h.unsched t0 hmem
  -- a task other than t0 that is a leaf or already scheduled keeps its attributes
  have hsame : ∀ x, x ≠ t0 → ((e.taskD x).leaf = true ∨ (σ.tst x).scheduled = true) →
      (updateContainers e (scheduleTask e σ t0).1).tst x = σ.tst x := by
    intro x hne hx
    rw [updateContainers_fixed e _ x (by rw [scheduleTask_other e σ t0 x hne]; exact hx), scheduleTask_other e σ t0 x hne]
  refine ⟨h.nodup.erase t0, fun t ht => h.leaf t (List.mem_of_mem_erase ht), ?_, ?_, ?_⟩
  · intro t ht
    rw [updateContainers_size, scheduleTask_size]; exact h.inrange t (List.mem_of_mem_erase ht)
  · intro t ht
    have htm : t ∈ tasks := List.mem_of_mem_erase ht
    have hne : t ≠ t0 := fun heq => by
      rw [heq] at ht; exact (List.Nodup.not_mem_erase h.nodup) ht
    rw [hsame t hne (Or.inl (h.leaf t htm))]; exact h.unsched t htm
  · intro t hel hd hfw dp hdp
    by_cases heq : t = t0
    · subst heq
      rw [updateContainers_leaf e _ t hel.leaf'] at hd hfw ⊢
      rw [scheduleTask_self_forward] at hfw
      have hok := scheduleTask_done e σ t hnd0 hd
      have hdeps := ready_forward_deps e σ t hfw hready
      have hxs := hdeps dp hdp
      have hxne : dp.target ≠ t := by
        intro hx; rw [hx, hus0] at hxs; exact Bool.noConfusion hxs
      have hxsame := hsame dp.target hxne (Or.inr hxs)
      obtain ⟨v0, hv0, hle0⟩ := scheduleTask_start_ge_any e wf σ t (h.inrange t hmem) hfw hel hnd0 hok
      refine ⟨by rw [hxsame]; exact hxs, fun dt v hdt hv => ?_⟩
      have hdt' : (if dp.onstart then (σ.tst dp.target).start else (σ.tst dp.target).stop) = some dt := by
        unfold dateOf at hdt; rw [hxsame] at hdt; exact hdt
      have := boundOf_ge_depDate e σ t dp hdp dt hdt'
      rw [hv0] at hv
      have : v0 = v := by simpa using hv
      omega
    · have htsame := hsame t heq (Or.inl hel.leaf')
      rw [htsame] at hd hfw ⊢
      obtain ⟨hxs, hineq⟩ := h.ok t hel hd hfw dp hdp
      have hxne : dp.target ≠ t0 := by
        intro hx; rw [hx, hus0] at hxs; exact Bool.noConfusion hxs
      have hxsame := hsame dp.target hxne (Or.inr hxs)
      refine ⟨by rw [hxsame]; exact hxs, fun dt v hdt hv => ?_⟩
      apply hineq dt v _ hv
      unfold dateOf at hdt ⊢; rw [hxsame] at hdt; exact hdt

theorem DepsOKAny.of_ts {e : Env} {σ σ' : St} (h : σ'.ts = σ.ts) (hok : DepsOKAny e σ) : DepsOKAny e σ' := by
  unfold DepsOKAny dateOf St.tst at *
  rw [h]; exact hok

theorem pickLoop_depsOKAny (e : Env) (wf : WF e) (fuel : Nat) (tasks failed : List Nat) (σ : St)
    (h : DepInvAny e σ tasks) : DepsOKAny e (pickLoop e fuel tasks failed σ).1 := by
  induction fuel generalizing tasks failed σ with
  | zero => exact h.ok
  | succ f ih =>
    unfold pickLoop
    split
    · exact h.ok
    · split
      · rename_i t0 hfind
        have hmem : t0 ∈ tasks := List.mem_of_find?_eq_some hfind
        have hready : ready e σ t0 = true := by
          have := List.find?_some hfind; simpa using this
        exact ih _ _ _ (depInvAny_step e wf σ tasks t0 h hmem hready)
      · split
        · exact DepsOKAny.of_ts (σ := σ) rfl h.ok
        · exact h.ok

theorem scheduleScenario_depsOKAny (e : Env) (wf : WF e) (σ : St) (hd : DoneFalse σ) (hsz : σ.ts.size = e.tasks.size) :
    DepsOKAny e (scheduleScenario e σ) := by
  unfold scheduleScenario
  simp only []
  have h2 : DepInvAny e (preLoop e σ) (todoOf e (preLoop e σ)) := by
    refine ⟨todoOf_nodup e _, todoOf_leaf e _, ?_, ?_, ?_⟩
    · intro t ht; rw [preLoop_size, hsz]; exact (todoOf_mem e _ t ht).1
    · intro t ht; exact ⟨(todoOf_mem e _ t ht).2, preLoop_doneFalse e σ hd t⟩
    · intro t _ hdone
      rw [preLoop_doneFalse e σ hd t] at hdone
      exact Bool.noConfusion hdone
  have h3 := pickLoop_depsOKAny e wf ((todoOf e (preLoop e σ)).length + 1) (todoOf e (preLoop e σ)) [] (preLoop e σ) h2
  split
  · exact h3
  · exact DepsOKAny.of_ts (σ := (pickLoop e ((todoOf e (preLoop e σ)).length + 1) (todoOf e (preLoop e σ)) [] (preLoop e σ)).1) rfl h3

/-- **C04, forward mode, end to end, effort tasks and milestones.**  After scheduling any well-formed project with a well-formed
    task tree: every forward leaf without a start of its own — an effort task with an allocation, or a milestone / a leaf
    without effort — that the loop completed (`done`) starts at or after `(start | end) + gap` of every predecessor, leaf or
    container, in the final schedule, and every predecessor is scheduled. -/
theorem runScenario_depsOKAny (e : Env) (wf : WF e) (tr : Tree e) : DepsOKAny e (runScenario e) := by
  unfold runScenario
  have h := scheduleScenario_depsOKAny e wf (prepare e (initState e)) (prepare_doneFalse e _ (doneFalse_init e))
    (by rw [prepare_size, initState_size])
  have hc := scheduleScenario_cont e tr
  have hsd := finishScenario_sameDates e _ hc.1 hc.2
  intro t hel hd hfw dp hdp
  rw [finishScenario_leafT e _ t hel.leaf'] at hd hfw ⊢
  obtain ⟨hxs, hineq⟩ := h t hel hd hfw dp hdp
  have hx := hsd dp.target
  refine ⟨by rw [hx.2.2]; exact hxs, fun dt v hdt hv => hineq dt v ?_ hv⟩
  unfold dateOf at hdt ⊢
  rw [hx.1, hx.2.1] at hdt; exact hdt

end SP
