import Proofs.EffortGlobal
/-!
C09, the frame half: once a leaf task is completed, no task scheduled afterwards changes its attributes or any of its
ledger entries.
-/
namespace SP

theorem scheduleTask_done_noop (e : Env) (σ : St) (t : Nat) (h : (σ.tst t).done = true) : scheduleTask e σ t = (σ, true) := by
  unfold scheduleTask; simp [h]

/-- one round of the pick loop leaves a completed leaf task as it is -/
theorem round_frozen (e : Env) (σ : St) (t0 t : Nat) (hlf : (e.taskD t).leaf = true) (hd : (σ.tst t).done = true) :
    (updateContainers e (scheduleTask e σ t0).1).tst t = σ.tst t ∧
    SameEntries σ (updateContainers e (scheduleTask e σ t0).1) t := by
  by_cases heq : t0 = t
  · subst heq
    rw [scheduleTask_done_noop e σ t0 hd]
    exact ⟨updateContainers_leaf e σ t0 hlf, SameEntries.of_led (updateContainers_led e σ)⟩
  · refine ⟨?_, ?_⟩
    · rw [updateContainers_leaf e _ t hlf, scheduleTask_other e σ t0 t (Ne.symm heq)]
    · exact (scheduleTask_same e σ t0 t heq).trans (SameEntries.of_led (updateContainers_led e _))

/-- **frozen**: a leaf task that is completed at some point of the pick loop has, at the end of the loop, exactly the
    attributes (dates, flags) and exactly the ledger entries it had at that point — whatever is scheduled afterwards -/
theorem pickLoop_frozen (e : Env) (fuel : Nat) (tasks failed : List Nat) (σ : St) (t : Nat)
    (hlf : (e.taskD t).leaf = true) (hd : (σ.tst t).done = true) :
    (pickLoop e fuel tasks failed σ).1.tst t = σ.tst t ∧ SameEntries σ (pickLoop e fuel tasks failed σ).1 t := by
  induction fuel generalizing tasks failed σ with
  | zero => exact ⟨rfl, SameEntries.refl σ t⟩
  | succ f ih =>
    unfold pickLoop
    split
    · exact ⟨rfl, SameEntries.refl σ t⟩
    · split
      · rename_i t0 _
        obtain ⟨h1, h2⟩ := round_frozen e σ t0 t hlf hd
        obtain ⟨h3, h4⟩ := ih (tasks.erase t0) _ (updateContainers e (scheduleTask e σ t0).1) (by rw [h1]; exact hd)
        exact ⟨h3.trans h1, h2.trans h4⟩
      · split
        · exact ⟨rfl, SameEntries.of_led rfl⟩
        · exact ⟨rfl, SameEntries.refl σ t⟩

end SP
