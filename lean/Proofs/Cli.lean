import Model.Cli
/-!
Helper lemmas for C19/C20 (`plan report` as an effect program).

* algebra of `Op.apply`/`applyOps`; write footprints (`OpOwned`, `stepCore_ops_owned`, `step_frame`);
* a step looks only at its own view (`step_congr`);
* the auto report's output name is a plain file name (`kindOf_rid`);
* what the engine leaves at the auto report's path (`engine_auto`);
* `iter` bookkeeping.
-/
namespace SP.Cli
variable {B R : Type}

/-! ### write operations -/

@[simp] theorem applyOps_nil (fs : FS B R) : applyOps fs [] = fs := rfl
@[simp] theorem applyOps_cons (fs : FS B R) (o : Op B R) (os : List (Op B R)) :
    applyOps fs (o :: os) = applyOps (o.apply fs) os := rfl
theorem applyOps_append (fs : FS B R) (a b : List (Op B R)) :
    applyOps fs (a ++ b) = applyOps (applyOps fs a) b := by
  simp [applyOps, List.foldl_append]
@[simp] theorem apply_set (fs : FS B R) (p q : Path) (n : Node B R) :
    (Op.set p n).apply fs q = if q = p then some n else fs q := rfl
@[simp] theorem apply_del (fs : FS B R) (p q : Path) :
    (Op.del p : Op B R).apply fs q = if q = p then none else fs q := rfl
@[simp] theorem apply_rmtree (fs : FS B R) (pid : Nat) (q : Path) :
    (Op.rmtree pid : Op B R).apply fs q = if inTree pid q then none else fs q := rfl

/-- the paths that belong to process `pid`: the names the OS gave it and everything below its output directory -/
def owns (pid : Nat) : Path → Bool
  | .tmp q _ => q == pid
  | .inDir q _ => q == pid
  | _ => false

theorem inTree_owns {pid : Nat} {p : Path} (h : inTree pid p = true) : owns pid p = true := by
  cases p <;> simp_all [inTree, owns]
  case tmp q k => cases k <;> simp_all

/-- a write operation that touches only paths of process `pid` -/
def OpOwned (pid : Nat) : Op B R → Prop
  | .set p _ => owns pid p = true
  | .del p => owns pid p = true
  | .rmtree q => q = pid

theorem apply_frame {pid : Nat} {op : Op B R} (h : OpOwned pid op) (fs : FS B R) {p : Path}
    (hp : owns pid p = false) : op.apply fs p = fs p := by
  cases op with
  | set q n =>
    have : p ≠ q := by intro e; subst e; simp [OpOwned] at h; simp [h] at hp
    simp [this]
  | del q =>
    have : p ≠ q := by intro e; subst e; simp [OpOwned] at h; simp [h] at hp
    simp [this]
  | rmtree q =>
    simp only [OpOwned] at h; subst h
    have : inTree q p = false := by
      cases hi : inTree q p
      · rfl
      · have := inTree_owns hi; simp [this] at hp
    simp [this]

theorem applyOps_frame {pid : Nat} (ops : List (Op B R)) (h : ∀ op ∈ ops, OpOwned pid op) (fs : FS B R)
    {p : Path} (hp : owns pid p = false) : applyOps fs ops p = fs p := by
  induction ops generalizing fs with
  | nil => rfl
  | cons o os ih =>
    rw [applyOps_cons, ih (fun op ho => h op (by simp [ho]))]
    exact apply_frame (h o (by simp)) fs hp

/-- the value an operation leaves at `p` depends only on the old value at `p` -/
theorem apply_pointwise (op : Op B R) {fs fs' : FS B R} {p : Path} (h : fs p = fs' p) :
    op.apply fs p = op.apply fs' p := by
  cases op <;> simp [h]

theorem applyOps_pointwise (ops : List (Op B R)) {fs fs' : FS B R} {p : Path} (h : fs p = fs' p) :
    applyOps fs ops p = applyOps fs' ops p := by
  induction ops generalizing fs fs' with
  | nil => exact h
  | cons o os ih => exact ih (apply_pointwise o h)

/-! ### the auto report's output name -/

theorem hexDigit_ne_slash (d : Fin 16) : hexDigit d ≠ '/' := by revert d; decide

theorem comps_noslash (n : Name) (h : '/' ∉ n) : comps n = [n] := by
  induction n with
  | nil => rfl
  | cons c cs ih =>
    have hc : c ≠ '/' := by intro e; apply h; simp [e]
    have hcs : '/' ∉ cs := by intro e; apply h; simp [e]
    simp [comps, ih hcs, hc]

theorem slash_notin_rid (c : Config B) : '/' ∉ c.rid := by
  intro h
  simp only [Config.rid, List.mem_append, List.mem_map] at h
  rcases h with h | ⟨d, _, hd⟩
  · revert h; decide
  · exact hexDigit_ne_slash d hd

/-- `plan_auto_<hex>` is a plain file name: no separator, not `..`, not absolute -/
theorem kindOf_rid (c : Config B) : kindOf c.rid = .plain := by
  have hs := slash_notin_rid c
  have hh : c.rid.head? = some 'p' := by simp [Config.rid, ridPrefix]
  have hd : c.rid ≠ ['.', '.'] := by
    intro e; rw [e] at hh; simp at hh
  unfold kindOf
  rw [comps_noslash _ hs, hh]
  simp [hs, hd]

theorem outPath_rid (c : Config B) (f : Fmt) : outPath c.pid c.rid f = .inDir c.pid (fileName c.rid f) := by
  simp [outPath, kindOf_rid]

/-- whatever else the engine generates, the file at the auto report's path is the auto report
    (it is generated last: the definition is appended to the text) -/
theorem engine_auto (env : Env B R) (v : Variant) (c : Config B) (b : B) (fs : FS B R) :
    applyOps fs (engineOps env v c.pid b c.rid c.fmt) (.inDir c.pid (fileName c.rid c.fmt))
      = some (.file (.report c.rid (env.autoBody b c.fmt))) := by
  unfold engineOps
  simp only [applyOps_append, applyOps_cons, applyOps_nil, outPath_rid]
  simp

/-- with `--report <auto id>` and an id no report of the text uses, the engine writes one file, below
    its output directory -/
theorem footprint_filtered (env : Env B R) (v : Variant) (c : Config B) (b : B) (hv : v.f18 = true)
    (hfresh : ∀ r ∈ env.reports b, r.id ≠ c.rid) : Footprint env v c.pid b c.rid c.fmt := by
  intro op hop
  unfold engineOps at hop
  simp only [List.mem_append, List.mem_flatMap, List.mem_singleton] at hop
  rcases hop with ⟨r, hr, hin⟩ | h
  · have := hfresh r hr
    simp [hv, this] at hin
  · exact ⟨fileName c.rid c.fmt, _, by rw [h, outPath_rid]⟩

/-- every report with a non-escaping name stays below the output directory, filtered or not -/
theorem footprint_plain_names (env : Env B R) (v : Variant) (c : Config B) (b : B)
    (hnames : ∀ r ∈ env.reports b, kindOf r.name ≠ .escaping) : Footprint env v c.pid b c.rid c.fmt := by
  intro op hop
  unfold engineOps at hop
  simp only [List.mem_append, List.mem_flatMap, List.mem_singleton] at hop
  rcases hop with ⟨r, hr, hin⟩ | h
  · have hk := hnames r hr
    split at hin
    · simp at hin
    · simp only [List.mem_map] at hin
      obtain ⟨g, _, rfl⟩ := hin
      have hp : outPath c.pid r.name g = .inDir c.pid (fileName r.name g) := by
        unfold outPath
        split <;> simp_all
      exact ⟨_, _, by rw [hp]⟩
  · exact ⟨fileName c.rid c.fmt, _, by rw [h, outPath_rid]⟩

/-- inside its footprint the engine touches none of the process's top-level temp names -/
theorem engine_tmp (env : Env B R) (v : Variant) (c : Config B) (b : B) (fs : FS B R)
    (hfp : Footprint env v c.pid b c.rid c.fmt) (k : TmpKind) :
    applyOps fs (engineOps env v c.pid b c.rid c.fmt) (.tmp c.pid k) = fs (.tmp c.pid k) := by
  unfold Footprint at hfp
  generalize engineOps env v c.pid b c.rid c.fmt = ops at hfp
  induction ops generalizing fs with
  | nil => rfl
  | cons o os ih =>
    rw [applyOps_cons, ih _ (fun op ho => hfp op (by simp [ho]))]
    obtain ⟨file, n, rfl⟩ := hfp o (by simp)
    simp

/-! ### footprints of a step -/

theorem owns_tp (c : Config B) (k : TmpKind) : owns c.pid (tp c k) = true := by simp [tp, owns]

/-- every write operation of a step (stdout target, engine inside its footprint) is on the process's own paths -/
theorem stepCore_ops_owned (env : Env B R) (v : Variant) (c : Config B) (l : Local B R) (w : View B R)
    (hout : c.out = none) (hfp : ∀ b, Footprint env v c.pid b c.rid c.fmt) :
    ∀ op ∈ (stepCore env v c l w).2, OpOwned c.pid op := by
  intro op hop
  unfold stepCore at hop
  have ht := owns_tp c
  repeat' (split at hop)
  all_goals (simp only [raise, goto, List.not_mem_nil, List.mem_cons, or_false] at hop)
  all_goals (try subst hop)
  all_goals (try (simp [OpOwned, ht]; done))
  all_goals (try (simp_all; done))
  all_goals (first
    | (revert hop; generalize List.filter _ _ = fl; cases fl <;> simp; done)
    | (obtain ⟨file, n, rfl⟩ := hfp _ op hop; simp [OpOwned, owns]))

theorem step_frame (env : Env B R) (v : Variant) (c : Config B) (l : Local B R) (fs : FS B R)
    (hout : c.out = none) (hfp : ∀ b, Footprint env v c.pid b c.rid c.fmt) {p : Path}
    (hp : owns c.pid p = false) : (step env v c (l, fs)).2 p = fs p := by
  simp only [step]
  exact applyOps_frame _ (stepCore_ops_owned env v c l _ hout hfp) fs hp

/-! ### a step looks only at the process's own view -/

/-- two file systems that agree on everything process `c.pid` may look at -/
def Agree (c : Config B) (fs fs' : FS B R) : Prop :=
  ∀ p, (owns c.pid p = true ∨ p = c.inPath) → fs p = fs' p

theorem viewOf_congr (c : Config B) {fs fs' : FS B R} (hout : c.out = none) (h : Agree c fs fs') :
    viewOf c fs = viewOf c fs' := by
  unfold viewOf
  have h1 : fs c.inPath = fs' c.inPath := h _ (Or.inr rfl)
  have h2 : (fun k => fs (.tmp c.pid k)) = (fun k => fs' (.tmp c.pid k)) := by
    funext k; exact h _ (Or.inl (by simp [owns]))
  have h3 : (fun f => fs (.inDir c.pid f)) = (fun f => fs' (.inDir c.pid f)) := by
    funext f; exact h _ (Or.inl (by simp [owns]))
  simp [h1, h2, h3, hout]

theorem step_congr (env : Env B R) (v : Variant) (c : Config B) (l : Local B R) {fs fs' : FS B R}
    (hout : c.out = none) (h : Agree c fs fs') :
    (step env v c (l, fs)).1 = (step env v c (l, fs')).1 ∧
    Agree c (step env v c (l, fs)).2 (step env v c (l, fs')).2 := by
  have hv := viewOf_congr c hout h
  refine ⟨by simp [step, hv], ?_⟩
  intro p hp
  simp only [step, hv]
  exact applyOps_pointwise _ (h p hp)

/-! ### iteration -/

theorem iter_succ (env : Env B R) (v : Variant) (c : Config B) (n : Nat) (s : Local B R × FS B R) :
    iter env v c (n + 1) s = step env v c (iter env v c n s) := rfl

theorem iter_add (env : Env B R) (v : Variant) (c : Config B) (m n : Nat) (s : Local B R × FS B R) :
    iter env v c (m + n) s = iter env v c n (iter env v c m s) := by
  induction n with
  | zero => rfl
  | succ n ih => rw [← Nat.add_assoc, iter_succ, ih, iter_succ]

theorem step_exited (env : Env B R) (v : Variant) (c : Config B) (s : Local B R × FS B R)
    (h : s.1.pc = .exited) : step env v c s = s := by
  obtain ⟨l, fs⟩ := s
  cases l
  simp_all [step, stepCore]

theorem iter_exited (env : Env B R) (v : Variant) (c : Config B) (n : Nat) (s : Local B R × FS B R)
    (h : s.1.pc = .exited) : iter env v c n s = s := by
  induction n with
  | zero => rfl
  | succ n ih => rw [iter_succ, ih, step_exited _ _ _ _ h]

end SP.Cli
