import Proofs.NoIdle
import Proofs.Deadline
/-!
The backward (ALAP) mirror of `Proofs/Visits` and `Proofs/NoIdle`: the slots a backward walk visits are `cursor, cursor − 1, …`,
a visited slot is booked for the task iff the gate was open, and in terms of the ledger the walk leaves: every visited working
slot carries an entry unless a limit refuses it.
-/
namespace SP

/-- the (state, walk) pairs in which `scheduleSlot` is called along a backward walk, in order -/
def walkVisitsB (e : Env) (t : Nat) : Nat → St → Walk → List (St × Walk)
  | 0, _, _ => []
  | f + 1, σ, w =>
    (σ, w) :: (if !(scheduleSlot e σ t w).2.2 then []
      else if (advance false w (scheduleSlot e σ t w).2.1).cur < 0 || (advance false w (scheduleSlot e σ t w).2.1).cur > e.upper then []
      else walkVisitsB e t f (scheduleSlot e σ t w).1 (advance false w (scheduleSlot e σ t w).2.1))

/-- **none skipped**: the k-th visit is at slot `cursor − k` -/
theorem walkVisitsB_consecutive (e : Env) (t : Nat) (fuel : Nat) (σ : St) (w : Walk) (k : Nat)
    (hk : k < (walkVisitsB e t fuel σ w).length) : ((walkVisitsB e t fuel σ w)[k]).2.cur = w.cur - k := by
  induction fuel generalizing σ w k with
  | zero => simp [walkVisitsB] at hk
  | succ f ih =>
    unfold walkVisitsB at hk ⊢
    cases k with
    | zero => simp
    | succ k =>
      simp only [List.getElem_cons_succ]
      split at hk
      · simp at hk
      · split at hk
        · simp at hk
        · rename_i h1 h2
          simp only [h1, h2, if_false, Bool.false_eq_true] at hk ⊢
          simp only [List.length_cons, Nat.add_lt_add_iff_right] at hk
          rw [ih _ _ k hk, advance_cur, scheduleSlot_cur]
          simp only [Bool.false_eq_true, if_false]; omega

/-- a backward walk never touches a slot after its cursor -/
theorem walkLoop_after (e : Env) (t : Nat) (fuel : Nat) (σ : St) (w : Walk) (r' : Nat) (i' : Int) (h : w.cur < i') :
    (walkLoop e t false fuel σ w).1.led.get r' i' = σ.led.get r' i' := by
  induction fuel generalizing σ w with
  | zero => rfl
  | succ f ih =>
    unfold walkLoop
    simp only []
    have h1 := scheduleSlot_other e σ t w r' i' (by omega)
    split
    · exact h1
    · split
      · exact h1
      · rw [ih]
        · exact h1
        · rw [advance_cur, scheduleSlot_cur]; simp only [Bool.false_eq_true, if_false]; omega

/-- the finishing slot carries an entry of the task, and its gate was open (either direction) -/
theorem scheduleSlot_finish_entry_acc (e : Env) (wf : WF e) (σ : St) (t r : Nat) (fwd : Bool) (w : Walk) (vis : List Int)
    (hinv : Inv e σ) (hlf : (e.taskD t).leaf = true) (hw : WalkOk e t w)
    (ha : (e.taskD t).hasAlloc = true) (hm : (e.taskD t).milestone = false)
    (hsel : selectedOf e σ t w = [r]) (hlt : w.done < (e.taskD t).effort) (hpos : 0 < (e.taskD t).effort)
    (h : Acc e σ t r fwd w vis) (hc : (scheduleSlot e σ t w).2.2 = false) :
    usageOf ((scheduleSlot e σ t w).1.led.get r w.cur).usage t ≠ none ∧ gate e σ t w r = true := by
  have hcur_notin : w.cur ∉ vis := by
    intro hin
    have := h.before _ hin
    split at this <;> omega
  have hnone := h.only _ hcur_notin
  obtain ⟨hdone, hframe, hselw, hcurw, hoffw, hlastw⟩ := bookResources_single_acc e wf σ t w r ha hsel hnone
  have hb := bookResources_inv e σ t w wf hinv hlf hw
  have heff := wf.eff_pos r
  have hz : ((e.taskD t).effort == 0) = false := by
    simp only [beq_eq_false_iff_ne, ne_eq]; grind
  have hfin : (bookResources e σ t w).2.done ≥ (e.taskD t).effort := by
    unfold scheduleSlot at hc
    simp only [hm, hz, Bool.or_self, Bool.false_eq_true, if_false] at hc
    by_cases hfin : (bookResources e σ t w).2.done ≥ (e.taskD t).effort
    · exact hfin
    · simp only [hfin, if_false] at hc; exact Bool.noConfusion hc
  have hgain : taskSecs ((bookResources e σ t w).1.led.get r w.cur) t ≠ 0 := by
    intro h0; rw [h0] at hdone; grind
  have hu := taskSecs_ne_zero _ _ hgain
  have haG := entry_le_G e _ hb r w.cur t _ hu
  have hlast : (bookResources e σ t w).2.last = some r := hlastw (by grind)
  have hge : (e.taskD t).effort ≤ w.done + taskSecs ((bookResources e σ t w).1.led.get r w.cur) t / 3600 * (e.resD r).eff := by
    rw [← hdone]; exact hfin
  have hfs := finishTask_secs e wf (bookResources e σ t w).1 t (bookResources e σ t w).2 w.done (σ.tst t).forward r _
    hlast hselw (by rw [hcurw]; exact hu) haG hlt hge
  rw [hcurw] at hfs
  have hled : (scheduleSlot e σ t w).1.led =
      (finishTask e (bookResources e σ t w).1 t (bookResources e σ t w).2 w.done (σ.tst t).forward).1.led := by
    unfold scheduleSlot
    simp only [hm, hz, Bool.or_self, Bool.false_eq_true, if_false, hfin, if_true]
    rfl
  refine ⟨by rw [hled, hfs.1]; simp, ?_⟩
  exact (bookResources_single_iff e σ t w r ha hsel hnone).mp (by rw [hu]; simp)

/-- **no eligible slot left idle, backward**: along the backward walk of a single-resource task that finishes, every visited
    slot ends up carrying an entry of the task exactly when its gate was open at the moment of the visit -/
theorem walkLoopB_no_idle (e : Env) (wf : WF e) (t r : Nat) (fuel : Nat) (σ : St) (w : Walk) (vis : List Int)
    (hinv : Inv e σ) (hlf : (e.taskD t).leaf = true) (hw : WalkOk e t w)
    (ha : (e.taskD t).hasAlloc = true) (hm : (e.taskD t).milestone = false)
    (hsel : selectedOf e σ t w = [r]) (hlt : w.done < (e.taskD t).effort) (hpos : 0 < (e.taskD t).effort)
    (h : Acc e σ t r false w vis) (hok : (walkLoop e t false fuel σ w).2.2 = true) :
    ∀ p ∈ walkVisitsB e t fuel σ w,
      (usageOf ((walkLoop e t false fuel σ w).1.led.get r p.2.cur).usage t ≠ none ↔ gate e p.1 t p.2 r = true) := by
  induction fuel generalizing σ w vis with
  | zero => simp [walkLoop] at hok
  | succ f ih =>
    have hs := scheduleSlot_inv e σ t w wf hinv hlf hw
    have hsa := scheduleSlot_acc e wf σ t r false w vis hinv hlf hw ha hm hsel hlt hpos h
    have hcur_notin : w.cur ∉ vis := by
      intro hin
      have := h.before _ hin
      simp only [Bool.false_eq_true, if_false] at this; omega
    have hnone := h.only _ hcur_notin
    have hz : ((e.taskD t).effort == 0) = false := by
      simp only [beq_eq_false_iff_ne, ne_eq]; grind
    unfold walkLoop at hok ⊢
    unfold walkVisitsB
    simp only [] at hok ⊢
    by_cases hc : (scheduleSlot e σ t w).2.2 = true
    · simp only [hc, Bool.not_true, Bool.false_eq_true, if_false] at hok ⊢
      obtain ⟨hacc', hsel', hlt'⟩ := hsa.1 hc
      have hw1 := hs.2 hc
      by_cases hout : ((advance false w (scheduleSlot e σ t w).2.1).cur < 0 || (advance false w (scheduleSlot e σ t w).2.1).cur > e.upper) = true
      · simp only [hout, if_true] at hok
        exact Bool.noConfusion hok
      · simp only [hout, Bool.false_eq_true, if_false] at hok ⊢
        intro p hp
        rcases List.mem_cons.mp hp with hp | hp
        · subst hp
          simp only []
          rw [walkLoop_after e t f _ _ r w.cur (by rw [advance_cur, scheduleSlot_cur]; simp only [Bool.false_eq_true, if_false]; omega)]
          have hst : (scheduleSlot e σ t w).1 = (bookResources e σ t w).1 := by
            unfold scheduleSlot at hc ⊢
            simp only [hm, hz, Bool.or_self, Bool.false_eq_true, if_false] at hc ⊢
            by_cases hfin : (bookResources e σ t w).2.done ≥ (e.taskD t).effort
            · simp only [hfin, if_true] at hc; exact Bool.noConfusion hc
            · simp only [hfin, if_false]
          rw [hst]
          exact bookResources_single_iff e σ t w r ha hsel hnone
        · exact ih (scheduleSlot e σ t w).1 (advance false w (scheduleSlot e σ t w).2.1) (w.cur :: vis) hs.1
            (walkOk_advance e t wf _ _ _ hw1)
            (selectedOf_some e _ t _ [r] hsel') hlt' hacc' hok p hp
    · have hc' : (scheduleSlot e σ t w).2.2 = false := by simpa using hc
      simp only [hc', Bool.not_false, if_true] at hok ⊢
      intro p hp
      have hp' : p = (σ, w) := by simpa using hp
      subst hp'
      have := scheduleSlot_finish_entry_acc e wf σ t r false w vis hinv hlf hw ha hm hsel hlt hpos h hc'
      exact ⟨fun _ => this.2, fun _ => this.1⟩

/-- the states and walks of the visits satisfy the invariants -/
theorem walkVisitsB_inv (e : Env) (wf : WF e) (t : Nat) (fuel : Nat) (σ : St) (w : Walk)
    (hinv : Inv e σ) (hs : Solid e σ) (hlf : (e.taskD t).leaf = true) (hw : WalkOk e t w) (hin : WalkIn e w) :
    ∀ p ∈ walkVisitsB e t fuel σ w, Inv e p.1 ∧ Solid e p.1 ∧ WalkOk e t p.2 ∧ WalkIn e p.2 := by
  induction fuel generalizing σ w with
  | zero => intro p hp; simp [walkVisitsB] at hp
  | succ f ih =>
    unfold walkVisitsB
    intro p hp
    rcases List.mem_cons.mp hp with hp | hp
    · subst hp; exact ⟨hinv, hs, hw, hin⟩
    · split at hp
      · cases hp
      · rename_i hc
        have hcont : (scheduleSlot e σ t w).2.2 = true := by simpa using hc
        split at hp
        · cases hp
        · rename_i hb
          have h1 := scheduleSlot_inv e σ t w wf hinv hlf hw
          have h2 := closed_scheduleSlot (solid_closed e wf) wf σ t w hinv hlf trivial hw hin hs
          refine ih _ _ h1.1 h2 (walkOk_advance e t wf _ _ _ (h1.2 hcont)) ⟨?_, ?_, ?_⟩ p hp
          · simp only [Bool.or_eq_true, decide_eq_true_eq, not_or, Int.not_lt] at hb
            exact hb.1
          · show (0 : Rat) ≤ (e.G : Rat) - 1 / 1000000
            have : (1 : Int) ≤ e.G := wf.G_pos
            have : (1 : Rat) ≤ (e.G : Rat) := by exact_mod_cast this
            grind
          · simp only [Bool.or_eq_true, decide_eq_true_eq, not_or, Int.not_lt] at hb
            exact hb.2


/-- the walk from any of its visits on ends in the same state -/
theorem walkVisitsB_suffix (e : Env) (t : Nat) (fuel : Nat) (σ : St) (w : Walk) :
    ∀ p ∈ walkVisitsB e t fuel σ w, ∃ f', (walkLoop e t false fuel σ w).1 = (walkLoop e t false f' p.1 p.2).1 := by
  induction fuel generalizing σ w with
  | zero => intro p hp; simp [walkVisitsB] at hp
  | succ f ih =>
    unfold walkVisitsB
    intro p hp
    rcases List.mem_cons.mp hp with hp | hp
    · subst hp; exact ⟨f + 1, rfl⟩
    · split at hp
      · cases hp
      · rename_i hc
        split at hp
        · cases hp
        · rename_i hb
          obtain ⟨f', hf'⟩ := ih _ _ p hp
          refine ⟨f', ?_⟩
          rw [← hf']
          rw [walkLoop.eq_def e t false (f + 1)]
          simp only [hc, hb, Bool.false_eq_true, if_false]


/-- slots the walk does not visit keep their ledger entries -/
theorem walkLoopB_unvisited (e : Env) (t : Nat) (fuel : Nat) (σ : St) (w : Walk) (r' : Nat) (i' : Int)
    (h : ∀ p ∈ walkVisitsB e t fuel σ w, p.2.cur ≠ i') : (walkLoop e t false fuel σ w).1.led.get r' i' = σ.led.get r' i' := by
  induction fuel generalizing σ w with
  | zero => rfl
  | succ f ih =>
    unfold walkVisitsB at h
    have h0 : w.cur ≠ i' := h (σ, w) List.mem_cons_self
    have h1 := scheduleSlot_other e σ t w r' i' (Ne.symm h0)
    unfold walkLoop
    simp only []
    split
    · exact h1
    · rename_i hc
      split
      · exact h1
      · rename_i hb
        rw [ih]
        · exact h1
        · intro p hp
          apply h p
          apply List.mem_cons_of_mem
          simp only [hc, hb, Bool.false_eq_true, if_false]
          exact hp

/-- **along the walk, in terms of the ledger it leaves**: every visited slot in which the resource is working carries an entry
    when the walk ends — the task's own, or the one that made the resource unavailable — unless a limit refuses the slot -/
theorem walkLoopB_no_idle_has (e : Env) (wf : WF e) (t r : Nat) (fuel : Nat) (σ : St) (w : Walk) (vis : List Int)
    (hinv : Inv e σ) (hs : Solid e σ) (hlf : (e.taskD t).leaf = true) (hw : WalkOk e t w) (hin : WalkIn e w)
    (ha : (e.taskD t).hasAlloc = true) (hm : (e.taskD t).milestone = false)
    (hsel : selectedOf e σ t w = [r]) (hlt : w.done < (e.taskD t).effort) (hpos : 0 < (e.taskD t).effort)
    (h : Acc e σ t r false w vis) (hok : (walkLoop e t false fuel σ w).2.2 = true)
    (hleaf : (e.resD r).leaf = true) :
    ∀ p ∈ walkVisitsB e t fuel σ w, e.onShift r p.2.cur = true → e.leaveMark r p.2.cur = false →
      Has r p.2.cur (walkLoop e t false fuel σ w).1 ∨ Exhausted e (walkLoop e t false fuel σ w).1 t r p.2.cur := by
  intro p hp hon hnl
  have hiff := walkLoopB_no_idle e wf t r fuel σ w vis hinv hlf hw ha hm hsel hlt hpos h hok p hp
  by_cases hg : gate e p.1 t p.2 r = true
  · exact Or.inl (usage_ne_nil_of_usageOf (hiff.mpr hg))
  · have hg' : gate e p.1 t p.2 r = false := by simpa using hg
    obtain ⟨hi1, hs1, hw1, hin1⟩ := walkVisitsB_inv e wf t fuel σ w hinv hs hlf hw hin p hp
    obtain ⟨f', hf'⟩ := walkVisitsB_suffix e t fuel σ w p hp
    rw [hf']
    rcases gate_closed_has e wf p.1 t p.2 r hi1 hs1 hw1 hin1 hleaf hon hnl hg' with hhas | hex
    · exact Or.inl (closed_walkLoop (has_closed e r p.2.cur) wf t false f' p.1 p.2 hi1 hlf trivial hw1 hin1 hhas)
    · exact Or.inr (exhausted_closed_step (fun lid ro hr =>
        closed_walkLoop (refuses_closed e lid p.2.cur ro) wf t false f' p.1 p.2 hi1 hlf trivial hw1 hin1 hr) hex)


/-- **one backward task, in terms of the ledger**: a successful `scheduleTask` of a backward effort task with the single selected
    resource `r` leaves, between ANY slot `L` it is booked in and the slot its walk started in, no working slot of `r` without an
    entry — unless a limit refuses that slot -/
theorem scheduleTaskB_no_idle_interval_sel (e : Env) (wf : WF e) (σ : St) (t r : Nat)
    (hinv : Inv e σ) (hs : Solid e σ) (hlf : (e.taskD t).leaf = true) (hal : (e.taskD t).hasAlloc = true)
    (hnm : (e.taskD t).milestone = false) (hpos : 0 < (e.taskD t).effort)
    (hsel1 : selectBest e (σ.setT t (σ.tst t)) (e.taskD t).alloc (e.taskD t).alt (e.taskD t).effort (initCursor e σ t).1 = [r])
    (hf : (σ.tst t).forward = false)
    (hnd : (σ.tst t).done = false) (hclean : ∀ i, usageOf (σ.led.get r i).usage t = none)
    (hleaf : (e.resD r).leaf = true)
    (hok : (scheduleTask e σ t).2 = true) :
    ∀ L, usageOf ((scheduleTask e σ t).1.led.get r L).usage t ≠ none →
      ∀ i, L ≤ i → i ≤ (initCursor e σ t).1 → e.onShift r i = true → e.leaveMark r i = false →
        Has r i (scheduleTask e σ t).1 ∨ Exhausted e (scheduleTask e σ t).1 t r i := by
  have hpc : preStartCursor e σ t (initCursor e σ t).1 = (initCursor e σ t).1 := by
    unfold preStartCursor; simp [hal]
  have hpt : preStartT e σ t (initCursor e σ t).1 = σ.tst t := by
    unfold preStartT; simp [hal]
  have hoff := initCursor_off e σ t wf
  unfold scheduleTask at hok ⊢
  simp only [hnd, Bool.false_eq_true, if_false, hpc, hpt, hf] at hok ⊢
  have h0 : Inv e (σ.setT t (σ.tst t)) := inv_setT _ _ hinv
  have hs0 : Solid e (σ.setT t (σ.tst t)) := (solid_closed e wf).setT σ t _ hs
  by_cases hout : ((initCursor e σ t).1 < 0 || (initCursor e σ t).1 > e.upper) = true
  · simp only [hout, if_true] at hok
    exact Bool.noConfusion hok
  · simp only [hout, Bool.false_eq_true, if_false] at hok ⊢
    have hw : WalkOk e t { cur := (initCursor e σ t).1, offset := (initCursor e σ t).2 } :=
      ⟨hoff.1, hoff.2, wf.effort_nonneg t⟩
    have hin : WalkIn e { cur := (initCursor e σ t).1, offset := (initCursor e σ t).2 } := by
      simp only [Bool.or_eq_true, decide_eq_true_eq, not_or, Int.not_lt] at hout
      exact ⟨hout.1, initCursor_room e σ t wf, hout.2⟩
    have hacc : Acc e (σ.setT t (σ.tst t)) t r false { cur := (initCursor e σ t).1, offset := (initCursor e σ t).2 } [] :=
      ⟨fun i _ => hclean i, fun i hi => absurd hi List.not_mem_nil,
        by show (0 : Rat) = sumOver _ r t [] / 3600 * (e.resD r).eff; simp only [sumOver]; grind, List.nodup_nil⟩
    have hsel0 : selectedOf e (σ.setT t (σ.tst t)) t { cur := (initCursor e σ t).1, offset := (initCursor e σ t).2 } = [r] := by
      unfold selectedOf; exact hsel1
    by_cases hfin : (walkLoop e t false (e.size.toNat + 3) (σ.setT t (σ.tst t))
        { cur := (initCursor e σ t).1, offset := (initCursor e σ t).2 }).2.2 = true
    · simp only [hfin, Bool.not_true, Bool.false_eq_true, if_false] at hok ⊢
      intro L hL i hLi hic hon hnl
      have hLvis : ∃ p ∈ walkVisitsB e t (e.size.toNat + 3) (σ.setT t (σ.tst t))
          { cur := (initCursor e σ t).1, offset := (initCursor e σ t).2 }, p.2.cur = L := by
        apply Classical.byContradiction
        intro hno
        have hno' : ∀ p ∈ walkVisitsB e t (e.size.toNat + 3) (σ.setT t (σ.tst t))
            { cur := (initCursor e σ t).1, offset := (initCursor e σ t).2 }, p.2.cur ≠ L :=
          fun p hp heq => hno ⟨p, hp, heq⟩
        have := walkLoopB_unvisited e t _ _ _ r L hno'
        apply hL
        show usageOf ((walkLoop e t false (e.size.toNat + 3) (σ.setT t (σ.tst t))
          { cur := (initCursor e σ t).1, offset := (initCursor e σ t).2 }).1.led.get r L).usage t = none
        rw [this]
        exact hclean L
      obtain ⟨pL, hpL, hcurL⟩ := hLvis
      obtain ⟨k, hk, hkeq⟩ := List.getElem_of_mem hpL
      have hkc := walkVisitsB_consecutive e t _ _ _ k hk
      rw [hkeq, hcurL] at hkc
      simp only [] at hkc
      have hj : ((initCursor e σ t).1 - i).toNat < (walkVisitsB e t (e.size.toNat + 3) (σ.setT t (σ.tst t))
          { cur := (initCursor e σ t).1, offset := (initCursor e σ t).2 }).length := by omega
      have hjc := walkVisitsB_consecutive e t _ _ _ _ hj
      simp only [] at hjc
      have hcur : ((walkVisitsB e t (e.size.toNat + 3) (σ.setT t (σ.tst t))
          { cur := (initCursor e σ t).1, offset := (initCursor e σ t).2 })[((initCursor e σ t).1 - i).toNat]).2.cur = i := by
        rw [hjc]; omega
      have := walkLoopB_no_idle_has e wf t r _ _ _ [] h0 hs0 hlf hw hin hal hnm hsel0 hpos hpos hacc hfin
        hleaf _ (List.getElem_mem hj) (by rw [hcur]; exact hon) (by rw [hcur]; exact hnl)
      rw [hcur] at this
      exact this
    · have hfin' : (walkLoop e t false (e.size.toNat + 3) (σ.setT t (σ.tst t))
        { cur := (initCursor e σ t).1, offset := (initCursor e σ t).2 }).2.2 = false := by simpa using hfin
      simp only [hfin', Bool.not_false, if_true] at hok
      exact Bool.noConfusion hok

/-- the same for a task whose selection is `[r]` in every state -/
theorem scheduleTaskB_no_idle_interval (e : Env) (wf : WF e) (σ : St) (t r : Nat)
    (hinv : Inv e σ) (hs : Solid e σ) (hel : Elig e t r) (hf : (σ.tst t).forward = false)
    (hnd : (σ.tst t).done = false) (hclean : ∀ i, usageOf (σ.led.get r i).usage t = none)
    (hleaf : (e.resD r).leaf = true)
    (hok : (scheduleTask e σ t).2 = true) :
    ∀ L, usageOf ((scheduleTask e σ t).1.led.get r L).usage t ≠ none →
      ∀ i, L ≤ i → i ≤ (initCursor e σ t).1 → e.onShift r i = true → e.leaveMark r i = false →
        Has r i (scheduleTask e σ t).1 ∨ Exhausted e (scheduleTask e σ t).1 t r i :=
  scheduleTaskB_no_idle_interval_sel e wf σ t r hinv hs hel.leaf hel.alloc hel.nomile hel.effort (hel.sel _ _) hf hnd hclean
    hleaf hok

/-- `backToWork` only skips slots in which `p` is false -/
theorem backToWork_skips (e : Env) (p : Int → Bool) (fuel : Nat) (c0 : Int) :
    backToWork e p fuel c0 ≤ c0 ∧ ∀ j, backToWork e p fuel c0 < j → j ≤ c0 → p j = false := by
  induction fuel generalizing c0 with
  | zero => exact ⟨Int.le_refl _, by intro j h1 h2; simp [backToWork] at h1; omega⟩
  | succ f ih =>
    unfold backToWork
    split
    · rename_i hc
      simp only [Bool.and_eq_true, decide_eq_true_eq, Bool.not_eq_true'] at hc
      have := ih (c0 - 1)
      refine ⟨by omega, ?_⟩
      intro j h1 h2
      by_cases hj : j = c0
      · rw [hj]; exact hc.2
      · exact this.2 j h1 (by omega)
    · exact ⟨Int.le_refl _, by intro j h1 h2; omega⟩

/-- between the slot the backward walk starts in and the deadline the resource is not on shift -/
theorem initCursor_back_gap (e : Env) (σ : St) (t r : Nat) (hf : (σ.tst t).forward = false)
    (hpos : 0 < (e.taskD t).effort) (ha : (e.taskD t).hasAlloc = true) (hr : r ∈ (e.taskD t).alloc ++ (e.taskD t).alt) :
    ∀ j, (initCursor e σ t).1 < j → j ≤ e.idx (deadlineOf e σ t) - 1 → e.onShift r j = false := by
  intro j h1 h2
  have hc : (decide ((e.taskD t).effort > 0) && (e.taskD t).hasAlloc) = true := by simp [hpos, ha]
  have key : ∀ x : Int, (initCursor e σ t).1 = backToWork e (anyOnShift e t) (e.size.toNat + 2) (e.idx x - 1) →
      (initCursor e σ t).1 < j → j ≤ e.idx x - 1 → e.onShift r j = false := by
    intro x hx h1' h2'
    rw [hx] at h1'
    have := (backToWork_skips e (anyOnShift e t) _ _).2 j h1' h2'
    unfold anyOnShift at this
    simp only [List.any_eq_false] at this
    have := this r hr
    simpa using this
  unfold deadlineOf at h2
  cases hstop : (σ.tst t).stop with
  | some x =>
    rw [hstop] at h2
    apply key x _ h1 h2
    unfold initCursor
    simp only [hf, Bool.false_eq_true, if_false, hstop, hc, if_true]
  | none =>
    rw [hstop] at h2
    apply key (latestEnd e σ t) _ h1 h2
    unfold initCursor
    simp only [hf, Bool.false_eq_true, if_false, hstop, hc, if_true]

end SP
