import Proofs.TeamSame
import Proofs.EarliestFit
import Proofs.TeamLimits
/-!
C07 / C08 for teams without limits: a team takes a slot whenever all its members are working there and none of them is booked —
in the final ledger, between the bound and the end, every slot in which all members are working carries the task on all of them,
or some member carries an entry of a task placed earlier.
-/
namespace SP

/-- a failing team gate names a member that was not available (or not within the task's limits) in a state with the same
    ledger and marks -/
theorem teamGate_fails_member (e : Env) (t : Nat) (i : Int) (σ : St) (sel : List Nat) (h : teamGateOk e t i σ sel = false) :
    ∃ m ∈ sel, ∃ σ' : St, σ'.led = σ.led ∧ σ'.marks = σ.marks ∧
      (available e σ' m i && taskLimitsOk e σ' t i m) = false := by
  induction sel generalizing σ with
  | nil => simp [teamGateOk] at h
  | cons r rs ih =>
    unfold teamGateOk at h
    by_cases h1 : (available e σ r i && taskLimitsOk e σ t i r) = true
    · rw [h1, Bool.true_and] at h
      obtain ⟨m, hm, σ', hl, hmk, hf⟩ := ih (countMember e σ t i r) h
      exact ⟨m, List.mem_cons_of_mem _ hm, σ', by rw [hl, countMember_led], by rw [hmk, countMember_marks], hf⟩
    · exact ⟨r, List.mem_cons_self, σ, rfl, rfl, by simpa using h1⟩

/-- an unlimited member that is working in the slot and not available carries an entry there -/
theorem unavailable_has (e : Env) (σ σ' : St) (m : Nat) (i : Int) (hs : Solid e σ) (hl : σ'.led = σ.led) (hmk : σ'.marks = σ.marks)
    (hi : 0 ≤ i) (hleaf : (e.resD m).leaf = true) (hon : e.onShift m i = true) (hnl : e.leaveMark m i = false)
    (hrl : resLimitIds e m = []) (ha : available e σ' m i = false) : Has m i σ := by
  have hnorm : e.norm i = i := by unfold Env.norm; simp [Int.not_lt.mpr hi]
  unfold available at ha
  simp only [hleaf, hon, hrl, List.all_nil, Bool.and_true, Bool.true_and, hnorm, hnl, Bool.or_false, hl, hmk] at ha
  unfold Has
  by_cases hav : availSecs e.G (σ.led.get m i) > 0
  · simp only [hav, decide_true, Bool.true_and, Bool.not_eq_false', Bool.and_eq_true, decide_eq_true_eq] at ha
    exact hs.marked m i ha.1
  · intro hu
    exact hav (hs.room m i hu)

/-- a member that is working in the slot and not available carries an entry there, or one of its resource limits refuses -/
theorem unavailable_reason (e : Env) (σ σ' : St) (m : Nat) (i : Int) (hs : Solid e σ) (hl : σ'.led = σ.led) (hmk : σ'.marks = σ.marks)
    (hi : 0 ≤ i) (hleaf : (e.resD m).leaf = true) (hon : e.onShift m i = true) (hnl : e.leaveMark m i = false)
    (ha : available e σ' m i = false) : Has m i σ ∨ ∃ lid ∈ resLimitIds e m, limitOk e σ' lid i none = false := by
  by_cases hlim : (resLimitIds e m).all (fun lid => limitOk e σ' lid i none) = true
  · left
    have hnorm : e.norm i = i := by unfold Env.norm; simp [Int.not_lt.mpr hi]
    unfold available at ha
    simp only [hleaf, hon, hlim, Bool.and_true, Bool.true_and, hnorm, hnl, Bool.or_false, hl, hmk] at ha
    unfold Has
    by_cases hav : availSecs e.G (σ.led.get m i) > 0
    · simp only [hav, decide_true, Bool.true_and, Bool.not_eq_false', Bool.and_eq_true, decide_eq_true_eq] at ha
      exact hs.marked m i ha.1
    · intro hu
      exact hav (hs.room m i hu)
  · right
    have hlim' : (resLimitIds e m).all (fun lid => limitOk e σ' lid i none) = false := by simpa using hlim
    obtain ⟨lid, hlid, hno⟩ := List.all_eq_false.mp hlim'
    exact ⟨lid, hlid, by simpa using hno⟩

/-- a team none of whose members got the slot: some member was not working there, or carried an entry, or a limit of a
    member or of the task has no room for the whole team -/
theorem bookResources_team_nobody_reason (e : Env) (wf : WF e) (σ : St) (t : Nat) (w : Walk) (sel : List Nat)
    (hinv : Inv e σ) (hs : Solid e σ) (hin : WalkIn e w) (ha : (e.taskD t).hasAlloc = true)
    (hsel : selectedOf e σ t w = sel) (hteam : isTeam e t sel = true) (hnd : sel.Nodup)
    (hclean : ∀ r ∈ sel, usageOf (σ.led.get r w.cur).usage t = none)
    (hleaf : ∀ m ∈ sel, (e.resD m).leaf = true)
    (hnone : ∀ r ∈ sel, usageOf ((bookResources e σ t w).1.led.get r w.cur).usage t = none) :
    (∃ m ∈ sel, e.onShift m w.cur = false ∨ e.leaveMark m w.cur = true ∨ Has m w.cur σ) ∨ TeamTight e σ t sel w.cur := by
  have hne : sel ≠ [] := by
    intro h; rw [h] at hteam; simp [isTeam] at hteam
  by_cases hg : teamGateOk e t w.cur σ sel = true
  · -- the gate was open: then everybody is booked, which contradicts `hnone`
    exfalso
    obtain ⟨x, hx⟩ := List.exists_mem_of_ne_nil sel hne
    have hroom := teamCommon_room e wf σ w.cur sel (teamGateOk_avail e t w.cur σ sel hg)
    have hU : teamU (teamCommon σ w.cur sel) w ≤ (e.G : Rat) - 1 / 1000000 := by
      unfold teamU
      split
      · split
        · exact hin.off_room
        · exact hroom
      · exact hroom
    have hpos : 0 < availOf e.G (teamU (teamCommon σ w.cur sel) w) := by
      unfold availOf; simp only []; split
      · rename_i hlt; grind
      · grind
    -- replay `bookResources`: gate open and room left ⇒ all booked
    have hne' : sel.isEmpty = false := by cases sel with
      | nil => exact absurd rfl hne
      | cons _ _ => rfl
    have hall : ∀ r ∈ sel, usageOf ((bookResources e σ t w).1.led.get r w.cur).usage t
        = some (availOf e.G (teamU (teamCommon σ w.cur sel) w)) := by
      unfold bookResources
      simp only [ha, Bool.not_true, Bool.false_eq_true, if_false, hsel, hne']
      have hgf : teamGateFails e σ t { w with selected := some sel } sel = false := by
        unfold teamGateFails; simp [hteam, hg]
      simp only [hgf, Bool.false_eq_true, if_false]
      have hlev : leveled e σ t w.cur sel = levelTeam σ w.cur sel := by unfold leveled; simp [hteam]
      simp only [hlev]
      have hused : ∀ r ∈ sel, ((levelTeam σ w.cur sel).led.get r w.cur).used = teamCommon σ w.cur sel :=
        fun r hr => levelTeam_used σ w.cur sel r hr
      have hcl : ∀ r ∈ sel, usageOf ((levelTeam σ w.cur sel).led.get r w.cur).usage t = none := by
        intro r hr; rw [levelTeam_usage]; exact hclean r hr
      have hrel : TeamRel e σ σ (levelTeam σ w.cur sel) w.cur (teamCommon σ w.cur sel) t sel := by
        refine ⟨levelTeam_cnt σ w.cur sel, rfl, rfl, fun r _ => by rw [levelTeam_marks], hused, hcl, fun r hr => ?_⟩
        exact ⟨(hinv.slot r w.cur).used_nonneg, le_teamCommon σ w.cur sel r hr⟩
      have hent := (bookAll_team_all e σ t { w with selected := some sel } _ hpos sel
        { σ := levelTeam σ w.cur sel, last := w.last } σ hnd hrel hg).1
      intro r hr
      unfold bookAll
      split
      · rw [markStart_led]; exact hent r hr
      · exact hent r hr
    have h1 := hnone x hx
    rw [hall x hx] at h1
    exact absurd h1 (by simp)
  · have hg' : teamGateOk e t w.cur σ sel = false := by simpa using hg
    obtain ⟨m, hm, σ', hl, hmk, hcnt, hf⟩ := teamGate_fails_member_cnt e wf t w.cur σ sel hg'
    have tight_of : ∀ lid ro, limitOk e σ' lid w.cur ro = false → Tight e lid w.cur ro ((sel.length : Int) - 1) σ := by
      intro lid ro hno
      rw [limitOk_false_iff] at hno
      refine ⟨hno.1, hno.2.1, ?_⟩
      have := (hcnt lid (e.period (e.limitD lid) w.cur)).2
      omega
    by_cases hav : available e σ' m w.cur = true
    · -- the task's limits refuse the member
      right
      rw [hav, Bool.true_and] at hf
      unfold taskLimitsOk at hf
      obtain ⟨lid, hlid, hno⟩ := List.all_eq_false.mp hf
      exact ⟨m, hm, Or.inr ⟨lid, hlid, tight_of lid (some m) (by simpa using hno)⟩⟩
    · have hav' : available e σ' m w.cur = false := by simpa using hav
      by_cases hon : e.onShift m w.cur = true
      · by_cases hnl : e.leaveMark m w.cur = false
        · rcases unavailable_reason e σ σ' m w.cur hs hl hmk hin.cur_nonneg (hleaf m hm) hon hnl hav' with h1 | ⟨lid, hlid, hno⟩
          · exact Or.inl ⟨m, hm, Or.inr (Or.inr h1)⟩
          · exact Or.inr ⟨m, hm, Or.inl ⟨lid, hlid, tight_of lid none hno⟩⟩
        · exact Or.inl ⟨m, hm, Or.inr (Or.inl (by simpa using hnl))⟩
      · exact Or.inl ⟨m, hm, Or.inl (by simpa using hon)⟩

/-- all members are working in the slot -/
def AllWorking (e : Env) (sel : List Nat) (i : Int) : Prop := ∀ m ∈ sel, e.onShift m i = true ∧ e.leaveMark m i = false

/-- **along the forward walk of a team**: a visited slot in which all members are working ends up carrying the task on every
    member, or some member carries there a task that was in the ledger before the walk began, or a limit of a member or of the
    task has no room for the whole team -/
theorem walkLoop_team_fit (e : Env) (wf : WF e) (t : Nat) (sel placed : List Nat) (σ0 : St) (fuel : Nat) (σ : St) (w : Walk)
    (vis : List Int) (hinv : Inv e σ) (hs : Solid e σ) (hlf : (e.taskD t).leaf = true) (hw : WalkOk e t w) (hin : WalkIn e w)
    (ha : (e.taskD t).hasAlloc = true) (hm : (e.taskD t).milestone = false)
    (hsel : selectedOf e σ t w = sel) (hteam : isTeam e t sel = true) (hnd : sel.Nodup) (hpos : 0 < (e.taskD t).effort)
    (hts : TS σ t sel true w vis)
    (hleaf : ∀ m ∈ sel, (e.resD m).leaf = true)
    (hown : Owned placed σ0) (hnp : t ∉ placed) (hahead : ∀ r i, w.cur ≤ i → σ.led.get r i = σ0.led.get r i) :
    ∀ p ∈ walkVisits e t fuel σ w, AllWorking e sel p.2.cur →
      (∀ m ∈ sel, usageOf ((walkLoop e t true fuel σ w).1.led.get m p.2.cur).usage t ≠ none) ∨
      (∃ m ∈ sel, ∃ t' ∈ placed, usageOf ((walkLoop e t true fuel σ w).1.led.get m p.2.cur).usage t' ≠ none) ∨
      TeamTight e (walkLoop e t true fuel σ w).1 t sel p.2.cur := by
  induction fuel generalizing σ w vis with
  | zero => intro p hp; simp [walkVisits] at hp
  | succ f ih =>
    have hsi := scheduleSlot_inv e σ t w wf hinv hlf hw
    have hsa := scheduleSlot_ts e wf σ t sel true w vis hinv ha hm hsel hteam hnd hpos hts
    have hss := closed_scheduleSlot (solid_closed e wf) wf σ t w hinv hlf trivial hw hin hs
    have hcur_notin : w.cur ∉ vis := by
      intro hin'
      have := hts.before _ hin'
      simp only [if_true] at this; omega
    have hclean : ∀ r ∈ sel, usageOf (σ.led.get r w.cur).usage t = none := fun r hr => hts.only r hr _ hcur_notin
    obtain ⟨hselw, hcurw, hcase⟩ := bookResources_team_last e wf σ t w sel hinv ha hsel hteam hnd hclean
    have hz : ((e.taskD t).effort == 0) = false := by
      simp only [beq_eq_false_iff_ne, ne_eq]; grind
    have hne' : sel ≠ [] := by
      intro h; rw [h] at hteam; simp [isTeam] at hteam
    -- what the slot of this visit holds right after `scheduleSlot`
    have hslot : AllWorking e sel w.cur →
        (∀ m ∈ sel, usageOf ((scheduleSlot e σ t w).1.led.get m w.cur).usage t ≠ none) ∨
        (∃ m ∈ sel, ∃ t' ∈ placed, t ≠ t' ∧ usageOf (σ.led.get m w.cur).usage t' ≠ none) ∨
        TeamTight e (scheduleSlot e σ t w).1 t sel w.cur := by
      intro hall
      rcases hcase with hnone | ⟨a, ha0, hent, hlast⟩
      · right
        rcases bookResources_team_nobody_reason e wf σ t w sel hinv hs hin ha hsel hteam hnd hclean hleaf hnone with
          ⟨m, hm', hr⟩ | htight
        · left
          rcases hr with hr | hr | hr
          · rw [(hall m hm').1] at hr; exact Bool.noConfusion hr
          · rw [(hall m hm').2] at hr; exact Bool.noConfusion hr
          · unfold Has at hr
            obtain ⟨x, hx⟩ := List.exists_mem_of_ne_nil _ hr
            have hx0 : x ∈ (σ0.led.get m w.cur).usage := by rw [← hahead m w.cur (Int.le_refl _)]; exact hx
            have hxp := hown m w.cur x hx0
            exact ⟨m, hm', x.1, hxp, fun heq => hnp (heq ▸ hxp), usageOf_of_mem hx⟩
        · right
          exact teamTight_closed_step (fun lid ro hr =>
            closed_scheduleSlot (tight_closed e lid w.cur ro _) wf σ t w hinv hlf trivial hw hin hr) htight
      · left
        intro m hm'
        unfold scheduleSlot
        simp only [hm, hz, Bool.or_self, Bool.false_eq_true, if_false]
        by_cases hfin : (bookResources e σ t w).2.done ≥ (e.taskD t).effort
        · simp only [hfin, if_true]
          obtain ⟨rl, hrl', hrlmem⟩ := getLast?_mem_of_ne_nil sel hne'
          have hlast' : (bookResources e σ t w).2.last = some rl := by rw [hlast, hrl']
          have hle := needSecs_le_booked e (bookResources e σ t w).1 t (bookResources e σ t w).2 w.done rl a
            (by rw [hcurw]; exact hent rl hrlmem)
          have hft := finishTask_team e (bookResources e σ t w).1 t (bookResources e σ t w).2 w.done (σ.tst t).forward sel rl a
            hlast' hselw hrlmem hnd (by rw [hcurw]; exact hent) hle
          rw [hcurw] at hft
          show usageOf ((finishTask e (bookResources e σ t w).1 t (bookResources e σ t w).2 w.done (σ.tst t).forward).1.led.get m w.cur).usage t ≠ none
          rw [hft m hm']; simp
        · simp only [hfin, if_false]
          rw [hent m hm']; simp
    unfold walkLoop
    unfold walkVisits
    simp only []
    by_cases hc : (scheduleSlot e σ t w).2.2 = true
    · simp only [hc, Bool.not_true, Bool.false_eq_true, if_false]
      obtain ⟨hts', hsel'⟩ := hsa.1 hc
      have hw1 := hsi.2 hc
      by_cases hout : ((advance true w (scheduleSlot e σ t w).2.1).cur < 0 || (advance true w (scheduleSlot e σ t w).2.1).cur > e.upper) = true
      · simp only [hout, if_true]
        intro p hp hall
        have hp' : p = (σ, w) := by simpa using hp
        subst hp'
        rcases hslot hall with h1 | ⟨m, hm', t', ht', hne, h1⟩ | h1
        · exact Or.inl h1
        · exact Or.inr (Or.inl ⟨m, hm', t', ht', by rw [scheduleSlot_same e σ t w t' hne m w.cur]; exact h1⟩)
        · exact Or.inr (Or.inr h1)
      · simp only [hout, Bool.false_eq_true, if_false]
        have hcur2 : (advance true w (scheduleSlot e σ t w).2.1).cur = w.cur + 1 := by
          rw [advance_cur, scheduleSlot_cur]; simp
        intro p hp hall
        rcases List.mem_cons.mp hp with hp | hp
        · subst hp
          simp only [] at hall ⊢
          have hin2 : WalkIn e (advance true w (scheduleSlot e σ t w).2.1) := by
            refine ⟨?_, ?_, ?_⟩
            · simp only [Bool.or_eq_true, decide_eq_true_eq, not_or, Int.not_lt] at hout
              exact hout.1
            · show (0 : Rat) ≤ (e.G : Rat) - 1 / 1000000
              have : (1 : Int) ≤ e.G := wf.G_pos
              have : (1 : Rat) ≤ (e.G : Rat) := by exact_mod_cast this
              grind
            · simp only [Bool.or_eq_true, decide_eq_true_eq, not_or, Int.not_lt] at hout
              exact hout.2
          rcases hslot hall with h1 | ⟨m, hm', t', ht', hne, h1⟩ | h1
          · left
            intro m hm'
            rw [walkLoop_before e t f _ _ m w.cur (by rw [hcur2]; omega)]
            exact h1 m hm'
          · right; left
            refine ⟨m, hm', t', ht', ?_⟩
            rw [walkLoop_before e t f _ _ m w.cur (by rw [hcur2]; omega), scheduleSlot_same e σ t w t' hne m w.cur]
            exact h1
          · right; right
            exact teamTight_closed_step (fun lid ro hr =>
              closed_walkLoop (tight_closed e lid w.cur ro _) wf t true f _ _ hsi.1 hlf trivial
                (walkOk_advance e t wf _ _ _ hw1) hin2 hr) h1
        · have hin2 : WalkIn e (advance true w (scheduleSlot e σ t w).2.1) := by
            refine ⟨?_, ?_, ?_⟩
            · simp only [Bool.or_eq_true, decide_eq_true_eq, not_or, Int.not_lt] at hout
              exact hout.1
            · show (0 : Rat) ≤ (e.G : Rat) - 1 / 1000000
              have : (1 : Int) ≤ e.G := wf.G_pos
              have : (1 : Rat) ≤ (e.G : Rat) := by exact_mod_cast this
              grind
            · simp only [Bool.or_eq_true, decide_eq_true_eq, not_or, Int.not_lt] at hout
              exact hout.2
          exact ih (scheduleSlot e σ t w).1 (advance true w (scheduleSlot e σ t w).2.1) (w.cur :: vis) hsi.1 hss
            (walkOk_advance e t wf _ _ _ hw1) hin2 (selectedOf_some e _ t _ sel hsel') hts'
            (fun r i hi => by
              rw [scheduleSlot_other e σ t w r i (by rw [hcur2] at hi; omega)]
              exact hahead r i (by rw [hcur2] at hi; omega)) p hp hall
    · have hc' : (scheduleSlot e σ t w).2.2 = false := by simpa using hc
      simp only [hc', Bool.not_false, if_true]
      intro p hp hall
      have hp' : p = (σ, w) := by simpa using hp
      subst hp'
      rcases hslot hall with h1 | ⟨m, hm', t', ht', hne, h1⟩ | h1
      · exact Or.inl h1
      · exact Or.inr (Or.inl ⟨m, hm', t', ht', by rw [scheduleSlot_same e σ t w t' hne m w.cur]; exact h1⟩)
      · exact Or.inr (Or.inr h1)

/-- a forward team task: several pairwise different leaf resources, no start of its own (limits allowed) -/
structure TeamU (e : Env) (t : Nat) (sel : List Nat) : Prop where
  el : TeamAny e t sel
  nostart : (e.taskD t).startProvided = false
  rleaf : ∀ m ∈ sel, (e.resD m).leaf = true

/-- how a team fits: between the bound slot and any slot it is booked in, a slot in which all members are working carries the
    task on every member, or some member carries one of `pre`, or a limit has no room for the whole team -/
def FitAtT (e : Env) (σ : St) (t : Nat) (sel pre : List Nat) : Prop :=
  ∀ L m0, m0 ∈ sel → usageOf (σ.led.get m0 L).usage t ≠ none →
    ∀ i, boundSlot e σ t ≤ i → i ≤ L → AllWorking e sel i →
      (∀ m ∈ sel, usageOf (σ.led.get m i).usage t ≠ none) ∨
      (∃ m ∈ sel, ∃ t' ∈ pre, usageOf (σ.led.get m i).usage t' ≠ none) ∨ TeamTight e σ t sel i

/-- **one forward team task** -/
theorem scheduleTask_team_fit (e : Env) (wf : WF e) (σ : St) (t : Nat) (sel placed : List Nat)
    (hinv : Inv e σ) (hs : Solid e σ) (hel : TeamU e t sel) (hf : (σ.tst t).forward = true)
    (hnd : (σ.tst t).done = false) (hclean : ∀ r i, usageOf (σ.led.get r i).usage t = none)
    (hown : Owned placed σ) (hnp : t ∉ placed) :
    ∀ L m0, m0 ∈ sel → usageOf ((scheduleTask e σ t).1.led.get m0 L).usage t ≠ none →
      ∀ i, (initCursor e σ t).1 ≤ i → i ≤ L → AllWorking e sel i →
        (∀ m ∈ sel, usageOf ((scheduleTask e σ t).1.led.get m i).usage t ≠ none) ∨
        (∃ m ∈ sel, ∃ t' ∈ placed, usageOf ((scheduleTask e σ t).1.led.get m i).usage t' ≠ none) ∨
        TeamTight e (scheduleTask e σ t).1 t sel i := by
  have hpc : preStartCursor e σ t (initCursor e σ t).1 = (initCursor e σ t).1 := by
    unfold preStartCursor; simp [hel.el.alloc]
  have hpt : preStartT e σ t (initCursor e σ t).1 = σ.tst t := by
    unfold preStartT; simp [hel.el.alloc]
  have hoff := initCursor_off e σ t wf
  intro L m0 hm0 hL i hci hiL hall
  unfold scheduleTask at hL ⊢
  simp only [hnd, Bool.false_eq_true, if_false, hpc, hpt, hf] at hL ⊢
  have h0 : Inv e (σ.setT t (σ.tst t)) := inv_setT _ _ hinv
  have hs0 : Solid e (σ.setT t (σ.tst t)) := (solid_closed e wf).setT σ t _ hs
  by_cases hout : ((initCursor e σ t).1 < 0 || (initCursor e σ t).1 > e.upper) = true
  · simp only [hout, if_true] at hL
    exact absurd (hclean m0 L) hL
  · simp only [hout, Bool.false_eq_true, if_false] at hL ⊢
    have hw : WalkOk e t { cur := (initCursor e σ t).1, offset := (initCursor e σ t).2 } :=
      ⟨hoff.1, hoff.2, wf.effort_nonneg t⟩
    have hin : WalkIn e { cur := (initCursor e σ t).1, offset := (initCursor e σ t).2 } := by
      simp only [Bool.or_eq_true, decide_eq_true_eq, not_or, Int.not_lt] at hout
      exact ⟨hout.1, initCursor_room e σ t wf, hout.2⟩
    have hts : TS (σ.setT t (σ.tst t)) t sel true { cur := (initCursor e σ t).1, offset := (initCursor e σ t).2 } [] :=
      ⟨fun r _ i _ => hclean r i, fun i hi => absurd hi List.not_mem_nil,
        fun r _ r' _ i => by
          show usageOf (σ.led.get r i).usage t = usageOf (σ.led.get r' i).usage t
          rw [hclean r i, hclean r' i]⟩
    have hsel0 : selectedOf e (σ.setT t (σ.tst t)) t { cur := (initCursor e σ t).1, offset := (initCursor e σ t).2 } = sel := by
      unfold selectedOf; exact hel.el.pick _ _
    have hledW : ∀ (x : St × Walk × Bool), True := fun _ => trivial
    -- the ledger of the result is the ledger the walk leaves
    have hLw : usageOf ((walkLoop e t true (e.size.toNat + 3) (σ.setT t (σ.tst t))
        { cur := (initCursor e σ t).1, offset := (initCursor e σ t).2 }).1.led.get m0 L).usage t ≠ none := by
      split at hL <;> exact hL
    have hLvis : ∃ p ∈ walkVisits e t (e.size.toNat + 3) (σ.setT t (σ.tst t))
        { cur := (initCursor e σ t).1, offset := (initCursor e σ t).2 }, p.2.cur = L := by
      apply Classical.byContradiction
      intro hno
      have hno' : ∀ p ∈ walkVisits e t (e.size.toNat + 3) (σ.setT t (σ.tst t))
          { cur := (initCursor e σ t).1, offset := (initCursor e σ t).2 }, p.2.cur ≠ L :=
        fun p hp heq => hno ⟨p, hp, heq⟩
      have := walkLoop_unvisited e t _ _ _ m0 L hno'
      apply hLw
      rw [this]
      exact hclean m0 L
    obtain ⟨pL, hpL, hcurL⟩ := hLvis
    obtain ⟨k, hk, hkeq⟩ := List.getElem_of_mem hpL
    have hkc := walkVisits_consecutive e t _ _ _ k hk
    rw [hkeq, hcurL] at hkc
    simp only [] at hkc
    have hj : (i - (initCursor e σ t).1).toNat < (walkVisits e t (e.size.toNat + 3) (σ.setT t (σ.tst t))
        { cur := (initCursor e σ t).1, offset := (initCursor e σ t).2 }).length := by omega
    have hjc := walkVisits_consecutive e t _ _ _ _ hj
    simp only [] at hjc
    have hcur : ((walkVisits e t (e.size.toNat + 3) (σ.setT t (σ.tst t))
        { cur := (initCursor e σ t).1, offset := (initCursor e σ t).2 })[(i - (initCursor e σ t).1).toNat]).2.cur = i := by
      rw [hjc]; omega
    have := walkLoop_team_fit e wf t sel placed (σ.setT t (σ.tst t)) _ _ _ [] h0 hs0 hel.el.leaf hw hin hel.el.alloc hel.el.nomile
      hsel0 hel.el.isTeam hel.el.nodup hel.el.effort hts hel.rleaf hown hnp (fun _ _ _ => rfl)
      _ (List.getElem_mem hj) (by rw [hcur]; exact hall)
    rw [hcur] at this
    split <;> exact this

/-! ### the pick loop, with the same ghost order -/

def DoneFitT (e : Env) (σ : St) (placed : List Nat) : Prop :=
  ∀ t sel, TeamU e t sel → (σ.tst t).done = true → (σ.tst t).forward = true →
    ∃ post pre, placed = post ++ t :: pre ∧ FitAtT e σ t sel pre

structure FitInvT (e : Env) (σ : St) (tasks placed : List Nat) : Prop where
  base : FitInv e σ tasks placed
  okT : DoneFitT e σ placed

theorem fitInvT_step (e : Env) (wf : WF e) (σ : St) (tasks placed : List Nat) (t0 : Nat) (h : FitInvT e σ tasks placed)
    (hfind : tasks.find? (fun t => ready e σ t) = some t0) :
    FitInvT e (updateContainers e (scheduleTask e σ t0).1) (tasks.erase t0) (t0 :: placed) := by
  have hb := fitInv_step e wf σ tasks placed t0 h.base hfind
  refine ⟨hb, ?_⟩
  have hmem : t0 ∈ tasks := List.mem_of_find?_eq_some hfind
  have hready : ready e σ t0 = true := by
    have := List.find?_some hfind; simpa using this
  have hlf0 := h.base.leaf t0 hmem
  obtain ⟨hnp0, hus0, hnd0, hclean0, hstart0⟩ := h.base.pending t0 hmem
  have hsame : ∀ x, x ≠ t0 → ((e.taskD x).leaf = true ∨ (σ.tst x).scheduled = true) →
      (updateContainers e (scheduleTask e σ t0).1).tst x = σ.tst x := by
    intro x hne hx
    rw [updateContainers_fixed e _ x (by rw [scheduleTask_other e σ t0 x hne]; exact hx), scheduleTask_other e σ t0 x hne]
  intro t sel hel hd hfw
  by_cases heq : t = t0
  · subst heq
    rw [updateContainers_leaf e _ t hel.el.leaf] at hd hfw
    rw [scheduleTask_self_forward] at hfw
    have hdeps := ready_forward_deps e σ t hfw hready
    have htgt : ∀ dp ∈ (e.taskD t).allDeps, (updateContainers e (scheduleTask e σ t).1).tst dp.target = σ.tst dp.target := by
      intro dp hdp
      have hxs := hdeps dp hdp
      exact hsame dp.target (fun hx => by rw [hx, hus0] at hxs; exact Bool.noConfusion hxs) (Or.inr hxs)
    refine ⟨[], placed, rfl, ?_⟩
    intro L m0 hm0 hL i hbi hiL hall
    rw [boundSlot_congr e σ _ t (fun dp hdp => by rw [htgt dp hdp]; exact ⟨rfl, rfl⟩)] at hbi
    have hstart := hstart0 ⟨hel.el.leaf, hel.el.effort, hel.el.nomile⟩
    have hic : (initCursor e σ t).1 = boundSlot e σ t := by
      rw [initCursor_forward e σ t hfw hel.nostart]
      unfold boundSlot boundOf baseOf
      rw [hstart]
      cases (e.taskD t).start <;> rfl
    rw [updateContainers_led] at hL ⊢
    rcases scheduleTask_team_fit e wf σ t sel placed h.base.inv h.base.solid hel hfw hnd0 hclean0 h.base.owned hnp0
      L m0 hm0 hL i (by rw [hic]; exact hbi) hiL hall with h1 | h1 | h1
    · exact Or.inl h1
    · exact Or.inr (Or.inl h1)
    · exact Or.inr (Or.inr (teamTight_closed_step (fun lid ro hr =>
        closed_updateContainers (tight_closed e lid i ro _) _ hr) h1))
  · have htsame := hsame t heq (Or.inl hel.el.leaf)
    rw [htsame] at hd hfw
    obtain ⟨post, pre, hsplit, hfit⟩ := h.okT t sel hel hd hfw
    have hdeps := h.base.deps t hel.el.leaf hd hfw
    have htgt : ∀ dp ∈ (e.taskD t).allDeps, (updateContainers e (scheduleTask e σ t0).1).tst dp.target = σ.tst dp.target := by
      intro dp hdp
      have hxs := hdeps dp hdp
      exact hsame dp.target (fun hx => by rw [hx, hus0] at hxs; exact Bool.noConfusion hxs) (Or.inr hxs)
    refine ⟨t0 :: post, pre, by rw [hsplit]; rfl, ?_⟩
    intro L m0 hm0 hL i hbi hiL hall
    rw [boundSlot_congr e σ _ t (fun dp hdp => by rw [htgt dp hdp]; exact ⟨rfl, rfl⟩)] at hbi
    rw [updateContainers_led, scheduleTask_same e σ t0 t (Ne.symm heq) m0 L] at hL
    rw [updateContainers_led]
    rcases hfit L m0 hm0 hL i hbi hiL hall with h1 | ⟨m, hm, t', ht', h1⟩ | h1
    · left
      intro m hm
      rw [scheduleTask_same e σ t0 t (Ne.symm heq) m i]
      exact h1 m hm
    · right; left
      refine ⟨m, hm, t', ht', ?_⟩
      have hne : t0 ≠ t' := by
        intro h5
        apply hnp0
        rw [hsplit, h5]
        exact List.mem_append_right _ (List.mem_cons_of_mem _ ht')
      rw [scheduleTask_same e σ t0 t' hne m i]
      exact h1
    · right; right
      exact teamTight_closed_step (fun lid ro hr =>
        closed_updateContainers (tight_closed e lid i ro _) _
          (closed_scheduleTask (tight_closed e lid i ro _) wf σ t0 h.base.inv hlf0 trivial hr)) h1

theorem pickLoop_doneFitT (e : Env) (wf : WF e) (fuel : Nat) (tasks failed placed : List Nat) (σ : St)
    (h : FitInvT e σ tasks placed) :
    ∃ placed' rest, Placement e (pickLoop e fuel tasks failed σ).1 placed' rest ∧ DoneFitT e (pickLoop e fuel tasks failed σ).1 placed' := by
  induction fuel generalizing tasks failed placed σ with
  | zero => exact ⟨placed, tasks, h.base.placement, h.okT⟩
  | succ f ih =>
    unfold pickLoop
    split
    · exact ⟨placed, tasks, h.base.placement, h.okT⟩
    · split
      · rename_i t0 hfind
        exact ih _ _ _ _ (fitInvT_step e wf σ tasks placed t0 h hfind)
      · split
        · exact ⟨placed, tasks, h.base.placement, h.okT⟩
        · exact ⟨placed, tasks, h.base.placement, h.okT⟩

/-- **C07 / C08 for teams, end to end**, with the same placement order as `runScenario_placement`: every completed
    forward team task (several pairwise different leaf resources, no start of its own; limits allowed) occurs
    in the order, and between the slot of its dependency bound and any slot in which it is booked, every slot in which ALL its
    members are on shift and not on leave carries the task on every member, or some member carries there a task placed before,
    or some limit of a member or of the task has no room left there for the whole team (`TeamTight`). -/
theorem runScenario_placementT (e : Env) (wf : WF e) (tr : Tree e) :
    ∃ order rest, Placement e (runScenario e) order rest ∧ DoneFitT e (runScenario e) order := by
  have hprep : Inv e (prepare e (initState e)) := prepare_inv e _ (inv_init e wf)
  have hsol : Solid e (prepare e (initState e)) := closed_prepare (solid_closed e wf) _ (solid_init e wf)
  have hd : DoneFalse (prepare e (initState e)) := prepare_doneFalse e _ (doneFalse_init e)
  have hempty : ∀ r i, ((prepare e (initState e)).led.get r i).usage = [] := by
    intro r i; rw [prepare_led]; simp [initState, Ledger.get_empty]
  have h2 := fitInv_init e wf _ hprep hsol hd (by rw [prepare_size, initState_size]) hempty
    (prepare_startAttr e _ (startAttr_init e))
  have h2T : FitInvT e (preLoop e (prepare e (initState e))) (todoOf e (preLoop e (prepare e (initState e)))) [] := by
    refine ⟨h2, ?_⟩
    intro t sel _ hdone
    rw [preLoop_doneFalse e _ hd t] at hdone
    exact Bool.noConfusion hdone
  obtain ⟨order, rest, hpl, hT⟩ := pickLoop_doneFitT e wf ((todoOf e (preLoop e (prepare e (initState e)))).length + 1)
    (todoOf e (preLoop e (prepare e (initState e)))) [] [] _ h2T
  -- through the end of `scheduleScenario` and `finishScenario`
  have hc := scheduleScenario_cont e tr
  have hsd := finishScenario_sameDates e _ hc.1 hc.2
  have hss : ∀ (P : St → Prop), P (pickLoop e ((todoOf e (preLoop e (prepare e (initState e)))).length + 1)
      (todoOf e (preLoop e (prepare e (initState e)))) [] (preLoop e (prepare e (initState e)))).1 →
      (∀ σ w, P σ → P { σ with warnings := w }) → P (scheduleScenario e (prepare e (initState e))) := by
    intro P h1 h2'
    unfold scheduleScenario
    simp only []
    split
    · exact h1
    · exact h2' _ _ h1
  -- the team statement, transported
  have hTs : DoneFitT e (scheduleScenario e (prepare e (initState e))) order :=
    hss (fun σ => DoneFitT e σ order) hT (fun σ w h => h)
  have hPs : Placement e (scheduleScenario e (prepare e (initState e))) order rest :=
    hss (fun σ => Placement e σ order rest) hpl (fun σ w h => h)
  refine ⟨order, rest, ?_, ?_⟩
  · -- the placement statement for this order: as in `runScenario_placement`
    unfold runScenario
    obtain ⟨h, hord, hplf, hrl⟩ := hPs
    refine ⟨?_, ?_, hplf, hrl⟩
    · intro t r hel hdone hfw
      rw [finishScenario_leafT e _ t hel.el.leaf] at hdone hfw
      obtain ⟨post, pre, hsplit, hfit⟩ := h t r hel hdone hfw
      refine ⟨post, pre, hsplit, ?_⟩
      intro L hL i hbi hiL hon hnl
      rw [boundSlot_congr e (scheduleScenario e (prepare e (initState e))) _ t
        (fun dp _ => ⟨(hsd dp.target).1, (hsd dp.target).2.1⟩)] at hbi
      rw [finishScenario_led] at hL ⊢
      rcases hfit L hL i hbi hiL hon hnl with h1 | h1 | h1
      · exact Or.inl h1
      · exact Or.inr (Or.inl h1)
      · exact Or.inr (Or.inr (exhausted_closed_step (fun lid ro hr => closed_finishScenario (refuses_closed e lid i ro) _ hr) h1))
    · intro post pre t0 hsplit t ht
      have htl : (e.taskD t).leaf = true := by
        rcases ht with h1 | h1
        · exact hrl t h1
        · exact hplf t (by rw [hsplit]; exact List.mem_append_left _ h1)
      rcases hord post pre t0 hsplit t ht with h1 | h1 | ⟨dp, hdp, h1⟩
      · exact Or.inl h1
      · right; left; rw [finishScenario_leafT e _ t htl]; exact h1
      · right; right
        refine ⟨dp, hdp, ?_⟩
        rcases h1 with h2' | h2' | ⟨h2', h3⟩
        · exact Or.inl h2'
        · exact Or.inr (Or.inl h2')
        · right; right
          refine ⟨h2', ?_⟩
          rw [finishScenario_leafT e _ dp.target (hplf _ (by rw [hsplit]; exact List.mem_append_right _ (List.mem_cons_of_mem _ h2')))]
          exact h3
  · unfold runScenario
    intro t sel hel hdone hfw
    rw [finishScenario_leafT e _ t hel.el.leaf] at hdone hfw
    obtain ⟨post, pre, hsplit, hfit⟩ := hTs t sel hel hdone hfw
    refine ⟨post, pre, hsplit, ?_⟩
    intro L m0 hm0 hL i hbi hiL hall
    rw [boundSlot_congr e (scheduleScenario e (prepare e (initState e))) _ t
      (fun dp _ => ⟨(hsd dp.target).1, (hsd dp.target).2.1⟩)] at hbi
    rw [finishScenario_led] at hL ⊢
    rcases hfit L m0 hm0 hL i hbi hiL hall with h1 | h1 | h1
    · exact Or.inl h1
    · exact Or.inr (Or.inl h1)
    · exact Or.inr (Or.inr (teamTight_closed_step (fun lid ro hr =>
        closed_finishScenario (tight_closed e lid i ro _) _ hr) h1))

end SP
