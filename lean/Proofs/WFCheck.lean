import Proofs.SchedInv
/-! A decidable check of `WF` (evaluated by the driver on every case) and its soundness. -/
namespace SP

theorem resD_oob (e : Env) (r : Nat) (h : e.res.size ≤ r) : e.resD r = {} := by
  unfold Env.resD; simp [Array.getD, h]; omega

theorem taskD_oob (e : Env) (t : Nat) (h : e.tasks.size ≤ t) : e.taskD t = {} := by
  unfold Env.taskD; simp [Array.getD, h]; omega

theorem resChainAux_oob (e : Env) (f r : Nat) (h : e.res.size ≤ r) : e.resChainAux f r = [r] := by
  cases f with
  | zero => rfl
  | succ f => simp [Env.resChainAux, resD_oob e r h]

theorem taskChainAux_oob (e : Env) (f t : Nat) (h : e.tasks.size ≤ t) : e.taskChainAux f t = [t] := by
  cases f with
  | zero => rfl
  | succ f => simp [Env.taskChainAux, taskD_oob e t h]

theorem resLimitIds_oob (e : Env) (r : Nat) (h : e.res.size ≤ r) : resLimitIds e r = [] := by
  simp [resLimitIds, Env.resChain, resChainAux_oob e _ r h, resD_oob e r h]

theorem taskLimitIds_oob (e : Env) (t : Nat) (h : e.tasks.size ≤ t) : taskLimitIds e t = [] := by
  simp [taskLimitIds, Env.taskChain, taskChainAux_oob e _ t h, taskD_oob e t h]

/-- decidable well-formedness: slot length positive, efficiencies positive, efforts non-negative, and
    no limit counter is shared between the resource side and the task side of any booking -/
def wfCheck (e : Env) : Bool :=
  decide (0 < e.G) &&
  (List.range e.res.size).all (fun r => decide (0 < (e.resD r).eff)) &&
  (List.range e.tasks.size).all (fun t => decide (0 ≤ (e.taskD t).effort)) &&
  (List.range (e.res.size + 1)).all (fun r => (List.range (e.tasks.size + 1)).all (fun t =>
    decide ((resLimitIds e r ++ taskLimitIds e t).Nodup)))

theorem wfCheck_sound (e : Env) (h : wfCheck e = true) : WF e := by
  unfold wfCheck at h
  simp only [Bool.and_eq_true, List.all_eq_true, List.mem_range, decide_eq_true_eq] at h
  obtain ⟨⟨⟨hG, heff⟩, heffort⟩, hnd⟩ := h
  refine ⟨hG, ?_, ?_, ?_⟩
  · intro r
    by_cases hr : r < e.res.size
    · exact heff r hr
    · rw [resD_oob e r (by omega)]; decide
  · intro t
    by_cases ht : t < e.tasks.size
    · exact heffort t ht
    · rw [taskD_oob e t (by omega)]; decide
  · intro r t
    by_cases hr : r < e.res.size
    · by_cases ht : t < e.tasks.size
      · exact hnd r (by omega) t (by omega)
      · rw [taskLimitIds_oob e t (by omega)]
        have := hnd r (by omega) e.tasks.size (by omega)
        rw [taskLimitIds_oob e _ (Nat.le_refl _)] at this
        exact this
    · rw [resLimitIds_oob e r (by omega)]
      by_cases ht : t < e.tasks.size
      · have := hnd e.res.size (by omega) t (by omega)
        rw [resLimitIds_oob e _ (Nat.le_refl _)] at this
        exact this
      · rw [taskLimitIds_oob e t (by omega)]; simp

end SP
