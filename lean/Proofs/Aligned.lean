import Model.Calendar
/-!
C02 (b): with calendars aligned to the scheduling grid, the working-time decision is the same for every instant of a
slot — so "the slot's first instant is working time" means "every second of the slot is working time".
-/
namespace SP

/-! ### the grid -/

theorem grid_le (G a T δ : Int) (hG : 0 < G) (ha : a % G = 0) (hT : T % G = 0) (h0 : 0 ≤ δ) (h1 : δ < G) :
    (a ≤ T + δ ↔ a ≤ T) := by
  constructor
  · intro h
    by_cases hle : a ≤ T
    · exact hle
    · exfalso
      have hpos : 0 < a - T := by omega
      have hdvd : G ∣ a - T := by
        apply Int.dvd_of_emod_eq_zero
        rw [Int.sub_emod, ha, hT]; simp
      have := Int.le_of_dvd hpos hdvd
      omega
  · intro h; omega

theorem grid_lt (G a T δ : Int) (hG : 0 < G) (ha : a % G = 0) (hT : T % G = 0) (h0 : 0 ≤ δ) (h1 : δ < G) :
    (T + δ < a ↔ T < a) := by
  have := grid_le G a T δ hG ha hT h0 h1
  constructor
  · intro h; by_cases hc : T < a
    · exact hc
    · exfalso; have : a ≤ T := by omega
      omega
  · intro h
    by_cases hc : T + δ < a
    · exact hc
    · exfalso
      have h2 : a ≤ T + δ := by omega
      have := this.mp h2
      omega

/-- interval endpoints on the grid -/
def IntervalsAligned (G : Int) (ivs : Intervals) : Prop := ∀ iv ∈ ivs, iv.1 % G = 0 ∧ iv.2 % G = 0

theorem inAny_aligned (G : Int) (ivs : Intervals) (T δ : Int) (hG : 0 < G) (ha : IntervalsAligned G ivs)
    (hT : T % G = 0) (h0 : 0 ≤ δ) (h1 : δ < G) : inAny ivs (T + δ) = inAny ivs T := by
  unfold inAny
  induction ivs with
  | nil => rfl
  | cons iv rest ih =>
    simp only [List.any_cons]
    have hiv := ha iv List.mem_cons_self
    have e1 : decide (iv.1 ≤ T + δ) = decide (iv.1 ≤ T) := by
      simp only [decide_eq_decide]; exact grid_le G iv.1 T δ hG hiv.1 hT h0 h1
    have e2 : decide (T + δ < iv.2) = decide (T < iv.2) := by
      simp only [decide_eq_decide]; exact grid_lt G iv.2 T δ hG hiv.2 hT h0 h1
    rw [e1, e2, ih (fun x hx => ha x (List.mem_cons_of_mem _ hx))]

/-- transitions of a zone table on the grid, offsets multiples of the grid -/
def ZoneAligned (G : Int) (tbl : List (Int × Int)) : Prop := ∀ tr ∈ tbl, tr.1 % G = 0 ∧ tr.2 % G = 0

theorem offsetAt_aligned (G : Int) (tbl : List (Int × Int)) (T δ : Int) (hG : 0 < G) (ha : ZoneAligned G tbl)
    (hT : T % G = 0) (h0 : 0 ≤ δ) (h1 : δ < G) : offsetAt tbl (T + δ) = offsetAt tbl T := by
  unfold offsetAt
  have : ∀ (l : List (Int × Int)) (acc : Int), (∀ tr ∈ l, tr.1 % G = 0 ∧ tr.2 % G = 0) →
      l.foldl (fun acc tr => if tr.1 ≤ T + δ then tr.2 else acc) acc = l.foldl (fun acc tr => if tr.1 ≤ T then tr.2 else acc) acc := by
    intro l
    induction l with
    | nil => intro acc _; rfl
    | cons tr rest ih =>
      intro acc hl
      simp only [List.foldl_cons]
      have htr := hl tr List.mem_cons_self
      have e1 : (tr.1 ≤ T + δ) ↔ (tr.1 ≤ T) := grid_le G tr.1 T δ hG htr.1 hT h0 h1
      simp only [e1]
      exact ih _ (fun x hx => hl x (List.mem_cons_of_mem _ hx))
  exact this tbl _ ha

theorem offsetAt_mod (G : Int) (tbl : List (Int × Int)) (T : Int) (ha : ZoneAligned G tbl) : offsetAt tbl T % G = 0 := by
  unfold offsetAt
  have : ∀ (l : List (Int × Int)) (acc : Int), acc % G = 0 → (∀ tr ∈ l, tr.1 % G = 0 ∧ tr.2 % G = 0) →
      (l.foldl (fun acc tr => if tr.1 ≤ T then tr.2 else acc) acc) % G = 0 := by
    intro l
    induction l with
    | nil => intro acc h _; exact h
    | cons tr rest ih =>
      intro acc hacc hl
      simp only [List.foldl_cons]
      apply ih
      · split
        · exact (hl tr List.mem_cons_self).2
        · exact hacc
      · exact fun x hx => hl x (List.mem_cons_of_mem _ hx)
  apply this tbl _ _ ha
  cases tbl with
  | nil => simp
  | cons tr rest => simpa using (ha tr List.mem_cons_self).2

end SP

namespace SP

/-! ### inside a day -/

/-- an instant of a slot lies on the same day as the slot's start, `δ` seconds later -/
theorem same_day (G L δ : Int) (hG : 0 < G) (hd : (86400 : Int) % G = 0) (hL : L % G = 0) (h0 : 0 ≤ δ) (h1 : δ < G) :
    dayOf (L + δ) = dayOf L ∧ secOfDay (L + δ) = secOfDay L + δ ∧ secOfDay L % G = 0 := by
  unfold dayOf secOfDay
  have hS : (L % 86400) % G = 0 := by
    rw [Int.emod_emod_of_dvd L (Int.dvd_of_emod_eq_zero hd)]; exact hL
  have hlt : L % 86400 < 86400 := Int.emod_lt_of_pos L (by decide)
  have hnn : 0 ≤ L % 86400 := Int.emod_nonneg L (by decide)
  -- 86400 - S is a positive multiple of G
  have hroom : L % 86400 + δ < 86400 := by
    have hdvd : G ∣ 86400 - L % 86400 := by
      apply Int.dvd_of_emod_eq_zero
      rw [Int.sub_emod, hd, hS]; simp
    have := Int.le_of_dvd (by omega) hdvd
    omega
  refine ⟨?_, ?_, hS⟩ <;> omega

/-- hour-granular comparisons: `k ≤ S / n` as `k * n ≤ S` -/
theorem le_div_iff_mul (k S n : Int) (hn : 0 < n) : k ≤ S / n ↔ k * n ≤ S := by
  constructor
  · intro h
    have := Int.mul_le_mul_of_nonneg_right h (Int.le_of_lt hn)
    have h2 := Int.ediv_mul_le S (Int.ne_of_gt hn)
    omega
  · intro h
    exact (Int.le_ediv_iff_mul_le hn).mpr h

theorem div_lt_iff_mul (k S n : Int) (hn : 0 < n) : S / n < k ↔ S < k * n := by
  have := le_div_iff_mul k S n hn
  constructor
  · intro h; by_cases hc : S < k * n
    · exact hc
    · exfalso; have := this.mpr (by omega); omega
  · intro h; by_cases hc : S / n < k
    · exact hc
    · exfalso; have := this.mp (by omega); omega

/-- the bounds of every interval of a weekly pattern are on the grid (in seconds) -/
def HoursAligned (G : Int) (h : Hours) : Prop :=
  ∀ day ∈ h.days, ∀ iv ∈ day, (iv.1 * 60) % G = 0 ∧ (iv.2 * 60) % G = 0

theorem day_aligned (G : Int) (h : Hours) (wd : Int) (ha : HoursAligned G h) :
    ∀ iv ∈ h.day wd, (iv.1 * 60) % G = 0 ∧ (iv.2 * 60) % G = 0 := by
  intro iv hiv
  unfold Hours.day at hiv
  by_cases hb : wd.toNat < h.days.length
  · have : h.days.getD wd.toNat [] = h.days[wd.toNat] := by simp [List.getD_eq_getElem?_getD, hb]
    rw [this] at hiv
    exact ha _ (List.getElem_mem hb) iv hiv
  · have : h.days.getD wd.toNat [] = [] := by
      rw [List.getD_eq_getElem?_getD, List.getElem?_eq_none (by omega)]; rfl
    rw [this] at hiv; cases hiv

/-- the weekly pattern gives the same answer for every instant of an aligned slot -/
theorem hours_on_aligned (G : Int) (h : Hours) (wd S δ : Int) (hG : 0 < G) (ha : HoursAligned G h)
    (hS : S % G = 0) (h0 : 0 ≤ δ) (h1 : δ < G) : h.on wd ((S + δ) / 60) = h.on wd (S / 60) := by
  unfold Hours.on
  have key1 : ∀ iv : Int × Int, (iv.1 * 60) % G = 0 → (decide ((S + δ) / 60 ≥ iv.1) = decide (S / 60 ≥ iv.1)) := by
    intro iv hiv
    simp only [decide_eq_decide, ge_iff_le]
    rw [le_div_iff_mul _ _ 60 (by decide), le_div_iff_mul _ _ 60 (by decide)]
    exact grid_le G _ S δ hG hiv hS h0 h1
  have key2 : ∀ iv : Int × Int, (iv.2 * 60) % G = 0 → (decide ((S + δ) / 60 < iv.2) = decide (S / 60 < iv.2)) := by
    intro iv hiv
    simp only [decide_eq_decide]
    rw [div_lt_iff_mul _ _ 60 (by decide), div_lt_iff_mul _ _ 60 (by decide)]
    exact grid_lt G _ S δ hG hiv hS h0 h1
  have any_congr : ∀ (l : List (Int × Int)) (p q : Int × Int → Bool), (∀ iv ∈ l, p iv = q iv) → l.any p = l.any q := by
    intro l p q hpq
    induction l with
    | nil => rfl
    | cons x xs ih =>
      simp only [List.any_cons]
      rw [hpq x List.mem_cons_self, ih (fun iv hiv => hpq iv (List.mem_cons_of_mem _ hiv))]
  congr 1
  · apply any_congr
    intro iv hiv
    have hal := day_aligned G h wd ha iv hiv
    have k1 := key1 iv hal.1
    have k2 := key2 iv hal.2
    simp only [ge_iff_le] at k1
    split
    · exact k1
    · rw [k1, k2]
  · apply any_congr
    intro iv hiv
    have hal := day_aligned G h ((wd - 1) % 7) ha iv hiv
    rw [key2 iv hal.2]

end SP

namespace SP

/-! ### the working-time decision at an arbitrary instant -/

/-- the decision `onShift` takes, evaluated at an arbitrary instant `t` instead of a slot's first instant -/
def workingAt (c : CalEnv) (rc : ResCal) (t : Int) : Bool :=
  if inAny c.gvac t then false
  else if inAny c.gleaves t then false
  else if inAny rc.leaves t then false
  else match rc.hours with
    | some h =>
      let lt := match rc.zone with
        | some tbl => t + offsetAt tbl t
        | none => t
      h.on (weekday lt) (minuteOfDay lt)
    | none => defaultWorking c t

/-- calendars aligned with the scheduling grid -/
structure CalAligned (c : CalEnv) (rc : ResCal) : Prop where
  G_pos : 0 < c.G
  day : (86400 : Int) % c.G = 0
  hour : (3600 : Int) % c.G = 0
  start : c.start % c.G = 0
  gvac : IntervalsAligned c.G c.gvac
  gleaves : IntervalsAligned c.G c.gleaves
  leaves : IntervalsAligned c.G rc.leaves
  hours : ∀ h, rc.hours = some h → HoursAligned c.G h
  zone : ∀ tbl, rc.zone = some tbl → ZoneAligned c.G tbl

theorem time_mod (c : CalEnv) (i : Int) (h : c.start % c.G = 0) : c.time i % c.G = 0 := by
  unfold CalEnv.time
  rw [Int.add_mul_emod_self_right]; exact h

theorem mul_mod_of_mod (G a k : Int) (h : a % G = 0) : (k * a) % G = 0 := by
  have := Int.dvd_of_emod_eq_zero h
  exact Int.emod_eq_zero_of_dvd (Int.dvd_trans this (Int.dvd_mul_left k a))

theorem defaultWorking_aligned (c : CalEnv) (T δ : Int) (hG : 0 < c.G) (hday : (86400 : Int) % c.G = 0)
    (hhour : (3600 : Int) % c.G = 0) (hv : IntervalsAligned c.G c.gvac) (hT : T % c.G = 0) (h0 : 0 ≤ δ) (h1 : δ < c.G) :
    defaultWorking c (T + δ) = defaultWorking c T := by
  unfold defaultWorking
  rw [inAny_aligned c.G c.gvac T δ hG hv hT h0 h1]
  obtain ⟨hd, hs, hsm⟩ := same_day c.G T δ hG hday hT h0 h1
  have hw : weekday (T + δ) = weekday T := by unfold weekday; rw [hd]
  have e9 : decide (9 ≤ hourOf (T + δ)) = decide (9 ≤ hourOf T) := by
    unfold hourOf
    simp only [decide_eq_decide]
    rw [hs, le_div_iff_mul _ _ 3600 (by decide), le_div_iff_mul _ _ 3600 (by decide)]
    exact grid_le c.G _ _ δ hG (mul_mod_of_mod c.G 3600 9 hhour) hsm h0 h1
  have e17 : decide (hourOf (T + δ) < 17) = decide (hourOf T < 17) := by
    unfold hourOf
    simp only [decide_eq_decide]
    rw [hs, div_lt_iff_mul _ _ 3600 (by decide), div_lt_iff_mul _ _ 3600 (by decide)]
    exact grid_lt c.G _ _ δ hG (mul_mod_of_mod c.G 3600 17 hhour) hsm h0 h1
  rw [hw, e9, e17]

/-- **every instant of an aligned slot gets the same working-time decision as the slot's first instant** -/
theorem slot_uniform (c : CalEnv) (rc : ResCal) (ha : CalAligned c rc) (i δ : Int) (h0 : 0 ≤ δ) (h1 : δ < c.G) :
    workingAt c rc (c.time i + δ) = workingAt c rc (c.time i) := by
  have hT := time_mod c i ha.start
  unfold workingAt
  rw [inAny_aligned c.G c.gvac _ δ ha.G_pos ha.gvac hT h0 h1,
      inAny_aligned c.G c.gleaves _ δ ha.G_pos ha.gleaves hT h0 h1,
      inAny_aligned c.G rc.leaves _ δ ha.G_pos ha.leaves hT h0 h1]
  cases hh : rc.hours with
  | none =>
    simp only []
    rw [defaultWorking_aligned c _ δ ha.G_pos ha.day ha.hour ha.gvac hT h0 h1]
  | some h =>
    simp only []
    have hha := ha.hours h hh
    cases hz : rc.zone with
    | none =>
      simp only []
      obtain ⟨hd, hs, hsm⟩ := same_day c.G (c.time i) δ ha.G_pos ha.day hT h0 h1
      have hw : weekday (c.time i + δ) = weekday (c.time i) := by unfold weekday; rw [hd]
      unfold minuteOfDay
      rw [hw, hs, hours_on_aligned c.G h _ _ δ ha.G_pos hha hsm h0 h1]
    | some tbl =>
      simp only []
      have hza := ha.zone tbl hz
      rw [offsetAt_aligned c.G tbl _ δ ha.G_pos hza hT h0 h1]
      have hL : (c.time i + offsetAt tbl (c.time i)) % c.G = 0 := by
        rw [Int.add_emod, hT, offsetAt_mod c.G tbl _ hza]; simp
      have hre : c.time i + δ + offsetAt tbl (c.time i) = (c.time i + offsetAt tbl (c.time i)) + δ := by omega
      rw [hre]
      obtain ⟨hd, hs, hsm⟩ := same_day c.G _ δ ha.G_pos ha.day hL h0 h1
      have hw : weekday (c.time i + offsetAt tbl (c.time i) + δ) = weekday (c.time i + offsetAt tbl (c.time i)) := by
        unfold weekday; rw [hd]
      unfold minuteOfDay
      rw [hw, hs, hours_on_aligned c.G h _ _ δ ha.G_pos hha hsm h0 h1]

/-- the slot-level decision of the model is `workingAt` at the slot's first instant -/
theorem onShiftAt_workingAt (c : CalEnv) (rc : ResCal) (i : Int) (h : onShiftAt c rc i = true) :
    workingAt c rc (c.time i) = true := by
  unfold onShiftAt at h
  unfold workingAt
  simp only [] at h ⊢
  split
  · simp_all
  · split
    · simp_all
    · split
      · simp_all
      · cases hh : rc.hours with
        | some hrs =>
          simp only [hh] at h ⊢
          cases hz : rc.zone <;> simp_all
        | none =>
          simp only [hh] at h ⊢
          unfold projWorkAt at h
          split at h
          · simp_all
          · simp_all

/-- **C02 (b) for aligned calendars**: a slot the model treats as on shift is working time at every one of its seconds -/
theorem onShift_every_second (c : CalEnv) (rc : ResCal) (ha : CalAligned c rc) (i : Int) (h : onShiftAt c rc i = true)
    (δ : Int) (h0 : 0 ≤ δ) (h1 : δ < c.G) : workingAt c rc (c.time i + δ) = true := by
  rw [slot_uniform c rc ha i δ h0 h1]; exact onShiftAt_workingAt c rc i h

end SP

namespace SP

/-! ### a decidable form of the alignment predicate -/

def intervalsAlignedB (G : Int) (ivs : Intervals) : Bool := ivs.all (fun iv => iv.1 % G == 0 && iv.2 % G == 0)

def calAlignedB (c : CalEnv) (rc : ResCal) : Bool :=
  decide (0 < c.G) && ((86400 : Int) % c.G == 0) && ((3600 : Int) % c.G == 0) && (c.start % c.G == 0) &&
  intervalsAlignedB c.G c.gvac && intervalsAlignedB c.G c.gleaves && intervalsAlignedB c.G rc.leaves &&
  (match rc.hours with
   | some h => h.days.all (fun day => day.all (fun iv => (iv.1 * 60) % c.G == 0 && (iv.2 * 60) % c.G == 0))
   | none => true) &&
  (match rc.zone with
   | some tbl => tbl.all (fun tr => tr.1 % c.G == 0 && tr.2 % c.G == 0)
   | none => true)

theorem intervalsAlignedB_sound (G : Int) (ivs : Intervals) (h : intervalsAlignedB G ivs = true) : IntervalsAligned G ivs := by
  intro iv hiv
  unfold intervalsAlignedB at h
  simp only [List.all_eq_true, Bool.and_eq_true, beq_iff_eq] at h
  exact h iv hiv

theorem calAlignedB_sound (c : CalEnv) (rc : ResCal) (h : calAlignedB c rc = true) : CalAligned c rc := by
  unfold calAlignedB at h
  simp only [Bool.and_eq_true, decide_eq_true_eq, beq_iff_eq] at h
  obtain ⟨⟨⟨⟨⟨⟨⟨⟨h1, h2⟩, h3⟩, h4⟩, h5⟩, h6⟩, h7⟩, h8⟩, h9⟩ := h
  refine ⟨h1, h2, h3, h4, intervalsAlignedB_sound _ _ h5, intervalsAlignedB_sound _ _ h6, intervalsAlignedB_sound _ _ h7, ?_, ?_⟩
  · intro hrs hh
    rw [hh] at h8
    simp only [List.all_eq_true, Bool.and_eq_true, beq_iff_eq] at h8
    intro day hday iv hiv
    exact h8 day hday iv hiv
  · intro tbl hz
    rw [hz] at h9
    simp only [List.all_eq_true, Bool.and_eq_true, beq_iff_eq] at h9
    intro tr htr
    exact h9 tr htr

end SP
